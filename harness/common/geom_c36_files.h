// geom_c36_files.h — C36: OBJ / VTP / STL round trips through PolygonalMesh::loadFile and malformed-file hostility.
#pragma once
#include "geom_util.h"
#include <fstream>
#include <sys/stat.h>
#include <sys/wait.h>

namespace c36 {
using namespace SimTK;
using namespace gm;

struct PolyData {
    std::vector<Vec3> v;
    std::vector<std::vector<int>> f;
    std::string cls;
};

// polygon meshes: triangles, quads, n-gons, open patches
inline PolyData genPoly(int cls, vh::Rng& r) {
    PolyData P;
    double sz = r.coin(0.3) ? 1.0 : r.logUni(1e-2, 1e2);
    switch (cls) {
    case 0: { MeshData m = genSphereMesh(r, r.integer(0, 2), Vec3(sz), 0.1); P.v = m.v; for (int i = 0; i < m.nf(); ++i) P.f.push_back({m.f[3 * i], m.f[3 * i + 1], m.f[3 * i + 2]}); P.cls = "tri-closed"; } break;
    case 1: { MeshData m = genTorusMesh(r, r.integer(4, 9), r.integer(3, 7), sz, 0.3 * sz, 0.05); P.v = m.v; for (int i = 0; i < m.nf(); ++i) P.f.push_back({m.f[3 * i], m.f[3 * i + 1], m.f[3 * i + 2]}); P.cls = "tri-torus"; } break;
    case 2: {   // open quad grid (height field patch)
        int nx = r.integer(2, 7), ny = r.integer(2, 7);
        for (int i = 0; i <= nx; ++i) for (int j = 0; j <= ny; ++j) P.v.push_back(Vec3(sz * i, sz * j, sz * r.sym(0.3)));
        for (int i = 0; i < nx; ++i) for (int j = 0; j < ny; ++j) P.f.push_back({i * (ny + 1) + j, (i + 1) * (ny + 1) + j, (i + 1) * (ny + 1) + j + 1, i * (ny + 1) + j + 1});
        P.cls = "quad-open";
    } break;
    case 3: {   // prism with n-gon caps and quad sides
        int n = r.integer(3, 9);
        for (int k = 0; k < 2; ++k) for (int i = 0; i < n; ++i) P.v.push_back(Vec3(sz * std::cos(6.283185307179586 * i / n), sz * std::sin(6.283185307179586 * i / n), sz * (k ? 1 : -1) * r.uni(0.5, 1)));
        std::vector<int> top, bot; for (int i = 0; i < n; ++i) { top.push_back(n + i); bot.push_back(n - 1 - i); }
        P.f.push_back(top); P.f.push_back(bot);
        for (int i = 0; i < n; ++i) P.f.push_back({i, (i + 1) % n, n + (i + 1) % n, n + i});
        P.cls = "ngon-prism";
    } break;
    case 4: {   // open triangle fan / single triangle
        int n = r.integer(1, 6);
        P.v.push_back(randBox(r, sz));
        for (int i = 0; i <= n; ++i) P.v.push_back(Vec3(sz * std::cos(0.7 * i), sz * std::sin(0.7 * i), sz * r.sym(0.2)));
        for (int i = 0; i < n; ++i) P.f.push_back({0, i + 1, i + 2});
        P.cls = "tri-open";
    } break;
    default: {  // mixed, with awkward numbers
        MeshData m = genBoxMesh(r, r.integer(1, 3), r.integer(1, 3), r.integer(1, 3), Vec3(sz, sz * 0.5, sz * 1e-3), 0);
        P.v = m.v; for (int i = 0; i < m.nf(); ++i) P.f.push_back({m.f[3 * i], m.f[3 * i + 1], m.f[3 * i + 2]});
        for (auto& p : P.v) p += Vec3(1e6 * sz, -1e-7 * sz, 1.0 / 3.0);
        P.cls = "tri-awkward-numbers";
    } break;
    }
    return P;
}

inline std::string num(double x) { char b[40]; snprintf(b, sizeof b, "%.17g", x); return b; }

inline std::string tmpDir() {
    static std::string d;
    if (d.empty()) {
        const char* t = getenv("TMPDIR");
        d = std::string(t && *t ? t : "/tmp") + "/mon_geom." + std::to_string((long)getpid());
        mkdir(d.c_str(), 0700);
    }
    return d;
}
inline std::string writeFile(const std::string& name, const std::string& content) {
    std::string p = tmpDir() + "/" + name;
    std::ofstream o(p, std::ios::binary); o.write(content.data(), (std::streamsize)content.size()); o.close();
    return p;
}
inline void removeTmp(const std::string& p) { unlink(p.c_str()); }
struct TmpCleaner { ~TmpCleaner() { if (!tmpDir().empty()) rmdir(tmpDir().c_str()); } };

// Run a probe in a forked child so that a memory error inside it (ASan abort / SEGV) is observed without losing the
// worker. Returns 0 if the child finished normally, otherwise the terminating signal (or 1000+exit status).
template <class F> inline int forkProbe(F f) {
    fflush(stdout); fflush(stderr);
    pid_t pid = fork();
    if (pid < 0) return -1;
    if (pid == 0) { f(); fflush(stdout); _exit(0); }
    int st = 0;
    while (waitpid(pid, &st, 0) < 0) {}
    if (WIFSIGNALED(st)) return WTERMSIG(st);
    if (WIFEXITED(st) && WEXITSTATUS(st) != 0) return 1000 + WEXITSTATUS(st);
    return 0;
}

// ---- writers. 'variant' selects legal syntactic variations of the same content
inline std::string writeObj(const PolyData& P, int variant, vh::Rng& r, bool& hasNormals) {
    std::string s = "# written by mon_geom\n";
    hasNormals = variant == 1 || variant == 2;
    for (auto& p : P.v) s += "v " + num(p[0]) + " " + num(p[1]) + " " + num(p[2]) + "\n";
    if (variant == 1) for (size_t i = 0; i < P.v.size(); ++i) s += "vt " + num(0.25) + " " + num(0.5) + "\n";
    if (hasNormals) for (size_t i = 0; i < P.f.size(); ++i) s += "vn 0 0 1\n";       // one normal per face (flat shading)
    if (variant == 4) s += "\n# a comment between blocks\ng group1\ns off\n";
    int nv = (int)P.v.size();
    for (size_t fi = 0; fi < P.f.size(); ++fi) {
        s += "f";
        const auto& f = P.f[fi];
        for (size_t k = 0; k < f.size(); ++k) {
            int one = f[k] + 1;
            std::string tok;
            switch (variant) {
            case 1: tok = std::to_string(one) + "/" + std::to_string(one) + "/" + std::to_string(fi + 1); break;
            case 2: tok = std::to_string(one) + "//" + std::to_string(fi + 1); break;
            case 3: tok = std::to_string(f[k] - nv); break;                 // relative (negative) indices
            default: tok = std::to_string(one); break;
            }
            if (variant == 4 && k == 1 && f.size() > 3) s += " \\\n";        // line continuation
            s += " " + tok;
        }
        s += "\n";
    }
    (void)r;
    return s;
}
inline std::string writeVtp(const PolyData& P, int variant) {
    std::string s = "<?xml version=\"1.0\"?>\n<VTKFile type=\"PolyData\" version=\"0.1\" byte_order=\"LittleEndian\">\n<PolyData>\n";
    s += "<Piece NumberOfPoints=\"" + std::to_string(P.v.size()) + "\" NumberOfVerts=\"0\" NumberOfLines=\"0\" NumberOfStrips=\"0\" NumberOfPolys=\"" + std::to_string(P.f.size()) + "\">\n";
    if (variant == 1) {
        s += "<PointData Normals=\"Normals\">\n<DataArray type=\"Float32\" Name=\"Normals\" NumberOfComponents=\"3\" format=\"ascii\">\n";
        for (size_t i = 0; i < P.v.size(); ++i) s += "0 0 1\n";
        s += "</DataArray>\n</PointData>\n";
    }
    s += "<Points>\n<DataArray type=\"Float64\" Name=\"pts\" NumberOfComponents=\"3\" format=\"ascii\">\n";
    for (auto& p : P.v) s += num(p[0]) + " " + num(p[1]) + " " + num(p[2]) + (variant == 2 ? " " : "\n");
    s += "\n</DataArray>\n</Points>\n<Polys>\n";
    std::string conn, offs; int o = 0;
    for (auto& f : P.f) { for (int v : f) conn += std::to_string(v) + " "; o += (int)f.size(); offs += std::to_string(o) + " "; conn += "\n"; }
    std::string ca = "<DataArray type=\"Int32\" Name=\"connectivity\" format=\"ascii\">\n" + conn + "</DataArray>\n";
    std::string oa = "<DataArray type=\"Int32\" Name=\"offsets\" format=\"ascii\">\n" + offs + "\n</DataArray>\n";
    s += (variant == 2) ? oa + ca : ca + oa;
    s += "</Polys>\n</Piece>\n</PolyData>\n</VTKFile>\n";
    return s;
}
inline Vec3 triNormal(const PolyData& P, const std::vector<int>& f) {
    Vec3 n = SimTK::cross(P.v[f[1]] - P.v[f[0]], P.v[f[2]] - P.v[f[0]]);
    double l = n.norm(); return l > 0 ? n / l : Vec3(0, 0, 1);
}
inline std::string writeStlAscii(const PolyData& P, int variant) {
    bool up = variant == 1;
    std::string s = up ? "SOLID thing\n" : "solid thing\n";
    if (variant == 2) s += "# comment line\n\ncolor 1 0 0\n";
    for (auto& f : P.f) {
        Vec3 n = triNormal(P, f);
        s += std::string(up ? "  FACET NORMAL " : (variant == 3 ? "  facetnormal " : "  facet normal ")) + num(n[0]) + " " + num(n[1]) + " " + num(n[2]) + "\n";
        if (variant != 4) s += up ? "    OUTER LOOP\n" : (variant == 3 ? "    outerloop\n" : "    outer loop\n");
        for (int v : f) s += std::string(up ? "      VERTEX " : "      vertex ") + num(P.v[v][0]) + " " + num(P.v[v][1]) + " " + num(P.v[v][2]) + "\n";
        if (variant != 4) s += up ? "    ENDLOOP\n" : "    endloop\n";
        s += up ? "  ENDFACET\n" : "  endfacet\n";
    }
    s += up ? "ENDSOLID thing\n" : "endsolid thing\n";
    return s;
}
inline std::string writeStlBinary(const PolyData& P, int variant) {
    std::string s(80, ' ');
    const char* hdr = variant == 1 ? "solid looks-ascii-but-is-binary" : "binary stl written by mon_geom";
    memcpy(&s[0], hdr, strlen(hdr));
    unsigned n = (unsigned)P.f.size();
    s.append((const char*)&n, 4);
    for (auto& f : P.f) {
        Vec3 nn = triNormal(P, f);
        float b[12];
        for (int i = 0; i < 3; ++i) b[i] = (float)nn[i];
        for (int k = 0; k < 3; ++k) for (int i = 0; i < 3; ++i) b[3 + 3 * k + i] = (float)P.v[f[k]][i];
        s.append((const char*)b, 48);
        unsigned short a = 0; s.append((const char*)&a, 2);
    }
    return s;
}

// expected result of the documented STL vertex merging: vertices in order of first use, exact duplicates merged
inline PolyData stlExpected(const PolyData& P, bool toFloat) {
    PolyData E; E.cls = P.cls;
    std::map<std::array<double, 3>, int> ids;
    for (auto& f : P.f) {
        std::vector<int> nf;
        for (int v : f) {
            Vec3 p = P.v[v];
            if (toFloat) p = Vec3((double)(float)p[0], (double)(float)p[1], (double)(float)p[2]);
            std::array<double, 3> key = {p[0], p[1], p[2]};
            auto it = ids.find(key);
            if (it == ids.end()) { E.v.push_back(p); it = ids.insert({key, (int)E.v.size() - 1}).first; }
            nf.push_back(it->second);
        }
        E.f.push_back(nf);
    }
    return E;
}
// STL merges vertices closer than ~1e-6 (absolute): only meshes whose distinct vertices are well separated have a defined expectation
inline double minVertexSeparation(const PolyData& P) {
    double mn = Infinity;
    for (size_t i = 0; i < P.v.size(); ++i) for (size_t j = i + 1; j < P.v.size(); ++j) {
        Vec3 d = (P.v[i] - P.v[j]).abs(); double m = std::max(d[0], std::max(d[1], d[2]));
        if (m > 0) mn = std::min(mn, m);
    }
    return mn;
}

inline bool sameMesh(const PolygonalMesh& m, const PolyData& E, std::string& why, int vOffset = 0, int fOffset = 0) {
    if (m.getNumVertices() != vOffset + (int)E.v.size()) { why = "vertex count " + std::to_string(m.getNumVertices()) + " != " + std::to_string(vOffset + E.v.size()); return false; }
    if (m.getNumFaces() != fOffset + (int)E.f.size()) { why = "face count " + std::to_string(m.getNumFaces()) + " != " + std::to_string(fOffset + E.f.size()); return false; }
    for (size_t i = 0; i < E.v.size(); ++i) {
        const Vec3& p = m.getVertexPosition(vOffset + (int)i);
        if (!(p[0] == E.v[i][0] && p[1] == E.v[i][1] && p[2] == E.v[i][2])) { why = "vertex " + std::to_string(i) + " differs"; return false; }
    }
    for (size_t f = 0; f < E.f.size(); ++f) {
        if (m.getNumVerticesForFace(fOffset + (int)f) != (int)E.f[f].size()) { why = "face " + std::to_string(f) + " has " + std::to_string(m.getNumVerticesForFace(fOffset + (int)f)) + " vertices, expected " + std::to_string(E.f[f].size()); return false; }
        for (size_t k = 0; k < E.f[f].size(); ++k)
            if (m.getFaceVertex(fOffset + (int)f, (int)k) != vOffset + E.f[f][k]) { why = "face " + std::to_string(f) + " vertex " + std::to_string(k) + " is " + std::to_string(m.getFaceVertex(fOffset + (int)f, (int)k)) + ", expected " + std::to_string(vOffset + E.f[f][k]); return false; }
    }
    return true;
}

static const char* FMT[4] = {"obj", "vtp", "stl-ascii", "stl-binary"};

inline void roundTripChecks(vh::Ctx& c, vh::Rng& r, long idx) {
    int variant = (int)(idx % 5), fmt = (int)((idx / 5) % 4), pcls = (int)((idx / 20 + idx) % 6);
    PolyData P = genPoly(pcls, r);
    bool trisOnly = true; for (auto& f : P.f) if (f.size() != 3) trisOnly = false;
    if (fmt >= 2 && !trisOnly) {
        // STL holds triangles: fan-triangulate in the harness
        PolyData T; T.v = P.v; T.cls = P.cls + "-fanned";
        for (auto& f : P.f) for (size_t k = 1; k + 1 < f.size(); ++k) T.f.push_back({f[0], f[k], f[k + 1]});
        P = T;
    }
    std::string content, ext; bool objNormals = false;
    PolyData E = P;
    switch (fmt) {
    case 0: content = writeObj(P, variant, r, objNormals); ext = variant == 3 ? ".OBJ" : ".obj"; break;
    case 1: variant %= 3; content = writeVtp(P, variant); ext = ".vtp"; break;
    case 2: content = writeStlAscii(P, variant); ext = variant == 2 ? ".stla" : ".stl"; E = stlExpected(P, false); break;
    default: variant %= 2; content = writeStlBinary(P, variant); ext = ".stl"; E = stlExpected(P, true); break;
    }
    const std::string cell = std::string(FMT[fmt]) + ":v" + std::to_string(variant) + ":" + P.cls;
    if (fmt >= 2 && minVertexSeparation(E) < 1e-4) { c.skip("stl-vertices-within-merge-tolerance"); return; }
    c.setPhase("round trip " + cell);
    std::string path = writeFile("rt" + std::to_string(idx) + ext, content);
    auto W = [&](const std::string& why) { return [=]() { return Json::obj().set("format", FMT[fmt]).set("variant", variant).set("mesh", P.cls).set("vertices", (int)P.v.size()).set("faces", (int)P.f.size()).set("why", why).set("file_head", content.substr(0, 400)); }; };
    PolygonalMesh mesh;
    try { mesh.loadFile(path); }
    catch (const std::exception& e) { removeTmp(path); c.viol(std::string("roundtrip-load-failed:") + FMT[fmt] + ":v" + std::to_string(variant), W(vh::firstLine(e.what(), 400))()); return; }
    c.cover("roundtrip:" + cell);
    std::string why;
    bool same = sameMesh(mesh, E, why);
    c.require(std::string("roundtrip:") + FMT[fmt] + ":v" + std::to_string(variant), same, W(why));
    // data read from the file must be safely accessible through the public API
    if (same) {
        c.setPhase("round trip normals access " + cell);
        bool normalsSafe = true;
        if (mesh.hasNormalsAtFaces() && !mesh.hasNormalsAtVertices() && fmt == 0) {
            // first touch the per-face normals in a child process: a wild read here must not take the worker down
            int rc = forkProbe([&] { volatile double acc = 0; for (int f = 0; f < mesh.getNumFaces(); ++f) for (int k = 0; k < mesh.getNumVerticesForFace(f); ++k) acc = acc + mesh.getVertexNormal(f, k)[0]; });
            if (rc != 0) {
                normalsSafe = false;
                c.viol(std::string("memory-unsafe:obj:v") + std::to_string(variant) + ":getVertexNormal(face,vertex)", W("reading the normals the loader reports crashed the probe process (status " + std::to_string(rc) + ")")());
            }
        }
        if (!normalsSafe) {}
        else if (mesh.hasNormalsAtFaces() && !mesh.hasNormalsAtVertices()) {
            double worst = 0;
            for (int f = 0; f < mesh.getNumFaces(); ++f) for (int k = 0; k < mesh.getNumVerticesForFace(f); ++k) {
                Vec3 n(mesh.getVertexNormal(f, k));
                Vec3 expect = fmt == 0 ? Vec3(0, 0, 1) : triNormal(E, E.f[f]);
                if (fmt == 3) { Vec3 t = triNormal(P, P.f[f]); expect = Vec3((double)(float)t[0], (double)(float)t[1], (double)(float)t[2]); expect /= expect.norm(); }
                double d = (n - expect).norm(); if (!(d == d)) d = Infinity;
                worst = std::max(worst, d);
            }
            c.check(std::string("roundtrip-normals:") + FMT[fmt] + ":v" + std::to_string(variant), worst, 1e-6, W("per-face normals differ from the file"));
        } else if (mesh.hasNormalsAtVertices() && fmt == 1) {
            double worst = 0;
            for (int v = 0; v < mesh.getNumVertices(); ++v) worst = std::max(worst, (Vec3(mesh.getVertexNormal(v)) - Vec3(0, 0, 1)).norm());
            c.check("roundtrip-normals:vtp", worst, 1e-12, W("per-vertex normals differ from the file"));
        }
        // appending a second file to the same mesh: "adding the vertices, faces ... to this mesh"
        if (idx % 3 == 0 && fmt != 2 && fmt != 3) {
            c.setPhase("round trip append " + cell);
            try {
                mesh.loadFile(path);
                std::string why2;
                bool ok = sameMesh(mesh, E, why2, (int)E.v.size(), (int)E.f.size());
                c.cover(std::string("roundtrip-append:") + FMT[fmt]);
                c.require(std::string("roundtrip-append:") + FMT[fmt], ok, W("second load into the same mesh: " + why2));
            } catch (const std::exception& e) { c.viol(std::string("roundtrip-append-failed:") + FMT[fmt], W(vh::firstLine(e.what(), 300))()); }
        }
        // a loaded closed triangle mesh must be accepted by TriangleMesh
        if (P.cls == "tri-closed" || P.cls == "tri-torus" || P.cls == "ngon-prism") {
            c.setPhase("TriangleMesh from loaded file " + cell);
            PolygonalMesh fresh; fresh.loadFile(path);
            try { ContactGeometry::TriangleMesh tm(fresh); c.require("roundtrip:trianglemesh-from-file", tm.getNumFaces() >= fresh.getNumFaces(), W("fewer faces than the file")); }
            catch (const std::exception& e) { c.viol(std::string("roundtrip:trianglemesh-from-file-rejected:") + FMT[fmt], W(vh::firstLine(e.what(), 300))()); }
        }
    }
    removeTmp(path);
    if (c.wantSample()) c.sample(Json::obj().set("format", FMT[fmt]).set("variant", variant).set("mesh", P.cls).set("vertices", (int)E.v.size()).set("faces", (int)E.f.size()));
}

// ------------------------------------------------------------------ malformed files
static const char* MAL[] = {"truncated", "index-negative", "index-huge", "index-zero", "nan-coordinate", "garbage-token", "count-mismatch", "huge-count", "empty", "missing-section"};
enum { NMAL = 10 };

// After a malformed load that did not throw, everything the mesh exposes must still be self-consistent and safe to walk.
inline bool walkLoaded(const PolygonalMesh& m, std::string& why) {
    int nv = m.getNumVertices(), nf = m.getNumFaces();
    for (int f = 0; f < nf; ++f) {
        int n = m.getNumVerticesForFace(f);
        if (n < 0) { why = "negative face size"; return false; }
        for (int k = 0; k < n; ++k) { int v = m.getFaceVertex(f, k); if (v < 0 || v >= nv) { why = "face " + std::to_string(f) + " refers to vertex " + std::to_string(v) + " of " + std::to_string(nv); return false; } }
    }
    return true;
}

inline void malformedChecks(vh::Ctx& c, vh::Rng& r, long idx) {
    int mal = (int)(idx % NMAL), fmt = (int)((idx / NMAL + idx) % 4);
    PolyData P = genPoly((int)((idx / 40) % 2), r);      // closed triangle meshes
    bool dummy;
    std::string content, ext;
    switch (fmt) { case 0: content = writeObj(P, 0, r, dummy); ext = ".obj"; break; case 1: content = writeVtp(P, 0); ext = ".vtp"; break;
                   case 2: content = writeStlAscii(P, 0); ext = ".stl"; break; default: content = writeStlBinary(P, 0); ext = ".stl"; break; }
    auto replaceFirstAfter = [&](const std::string& marker, const std::string& with, bool wholeToken) {
        size_t p = content.find(marker); if (p == std::string::npos) return false;
        p += marker.size();
        while (p < content.size() && isspace((unsigned char)content[p])) ++p;
        size_t e = p; while (e < content.size() && !isspace((unsigned char)content[e]) && (wholeToken || content[e] != '/')) ++e;
        content.replace(p, e - p, with); return true;
    };
    bool applied = true;
    const int nv = (int)P.v.size();
    switch (mal) {
    case 0: content.resize((size_t)(content.size() * r.uni(0.2, 0.95))); break;
    case 1: case 2: case 3: {
        std::string bad = mal == 1 ? std::to_string(-(nv + 1 + r.integer(0, 1000))) : (mal == 2 ? std::to_string(r.coin() ? nv + 1 + r.integer(0, 5) : 2000000000) : "0");
        if (fmt == 0) applied = replaceFirstAfter("\nf", bad, false);
        else if (fmt == 1) applied = replaceFirstAfter("Name=\"connectivity\" format=\"ascii\">", mal == 3 ? std::to_string(nv) : bad, true);
        else applied = false;
    } break;
    case 4: {
        const char* w = r.coin() ? "nan" : (r.coin() ? "inf" : "1e999");
        if (fmt == 0) applied = replaceFirstAfter("\nv", w, true);
        else if (fmt == 1) applied = replaceFirstAfter("Name=\"pts\" NumberOfComponents=\"3\" format=\"ascii\">", w, true);
        else if (fmt == 2) applied = replaceFirstAfter("vertex", w, true);
        else { float q = std::numeric_limits<float>::quiet_NaN(); if (content.size() > 84 + 12 + 4) memcpy(&content[84 + 12], &q, 4); }
    } break;
    case 5: {
        if (fmt == 0) applied = replaceFirstAfter("\nv", "abc", true);
        else if (fmt == 1) applied = replaceFirstAfter("Name=\"offsets\" format=\"ascii\">", "xyz", true);
        else if (fmt == 2) applied = replaceFirstAfter("vertex", "1.0.0", true);
        else { for (int i = 0; i < 200 && 84 + i < (int)content.size(); ++i) content[84 + i] = (char)r.integer(0, 255); }
    } break;
    case 6: {
        if (fmt == 1) applied = replaceFirstAfter("NumberOfPoints=", "\"" + std::to_string(nv + r.integer(1, 50)) + "\"", true);
        else if (fmt == 3) { unsigned n = (unsigned)P.f.size() + (unsigned)r.integer(1, 50); memcpy(&content[80], &n, 4); }
        else if (fmt == 2) { size_t p = content.find("endloop"); if (p != std::string::npos) content.erase(p, 7); else applied = false; }
        else { size_t p = content.rfind("\nv "); if (p != std::string::npos) content.erase(p, content.find('\n', p + 1) - p); else applied = false; }   // drop the last vertex: faces now refer past the end
    } break;
    case 7: {
        if (fmt == 1) applied = replaceFirstAfter("NumberOfPolys=", r.coin() ? "\"2000000000\"" : "\"-5\"", true);
        else if (fmt == 3) { unsigned n = r.coin() ? 0xFFFFFFFFu : 0x7FFFFFFFu; memcpy(&content[80], &n, 4); }
        else applied = false;
    } break;
    case 8: content = fmt == 3 ? std::string(r.integer(0, 83), 'x') : std::string(r.coin() ? "" : "\n\n"); break;
    default: {
        if (fmt == 1) { size_t p = content.find("<Polys>"), e = content.find("</Polys>"); if (p != std::string::npos && e != std::string::npos) content.erase(p, e + 8 - p); else applied = false; }
        else if (fmt == 2) { size_t p = content.find("endfacet"); if (p != std::string::npos) content.erase(p, 8); else applied = false; }
        else if (fmt == 0) { size_t p = content.find("\nf"); if (p != std::string::npos) content.insert(p + 2, " "); applied = replaceFirstAfter("\nf", "", true); }
        else applied = false;
    } break;
    }
    if (!applied) { c.skip("malformation-not-applicable-to-format"); return; }
    const std::string cell = std::string(FMT[fmt]) + ":" + MAL[mal];
    c.setPhase("malformed file " + cell);
    std::string path = writeFile("bad" + std::to_string(idx) + ext, content);
    PolygonalMesh mesh;
    bool threw = false; std::string msg;
    auto W0 = [&](const std::string& why) { return Json::obj().set("format", FMT[fmt]).set("malformation", MAL[mal]).set("why", why).set("file_head", content.substr(0, 300)); };
    // hostile input: load it in a child process first, so that a memory error is observed without losing the worker
    int prc = forkProbe([&] { PolygonalMesh t; try { t.loadFile(path); std::string w; if (walkLoaded(t, w) && t.getNumFaces() > 0) { try { ContactGeometry::TriangleMesh tm(t); } catch (const std::exception&) {} } } catch (const std::exception&) {} });
    if (prc != 0) {
        removeTmp(path);
        c.cover("malformed:" + cell + ":crashed");
        c.viol("memory-unsafe:" + cell + ":loadFile", W0("loading the file crashed the probe process (status " + std::to_string(prc) + ")"));
        return;
    }
    try { mesh.loadFile(path); } catch (const std::exception& e) { threw = true; msg = e.what(); }
    removeTmp(path);
    c.cover("malformed:" + cell + (threw ? ":rejected" : ":accepted"));
    c.obs(threw ? "malformed-rejected" : "malformed-accepted");
    auto W = [&](const std::string& why) { return [=]() { return Json::obj().set("format", FMT[fmt]).set("malformation", MAL[mal]).set("why", why).set("file_head", content.substr(0, 300)); }; };
    if (threw) { c.require("malformed:exception-is-informative", !msg.empty(), W("empty message")); return; }
    // accepted: the mesh it produced must be safe and self-consistent (a file with bad indices cannot be "loaded")
    std::string why;
    bool ok = walkLoaded(mesh, why);
    c.require("malformed-accepted-inconsistent:" + cell, ok, W(why));
    if (ok && mesh.getNumFaces() > 0) {
        // hand the accepted mesh to a consumer inside the library: it must either work or throw, never overrun (ASan decides)
        c.setPhase("malformed file accepted, TriangleMesh(mesh) " + cell);
        try { ContactGeometry::TriangleMesh tm(mesh); c.obs("malformed-accepted-trianglemesh-built"); } catch (const std::exception&) { c.obs("malformed-accepted-trianglemesh-rejected"); }
    }
}

}  // namespace c36
