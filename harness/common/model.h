// model.h — seeded random multibody models (DESIGN §1.5).
// Every model is described by a compact ModelDesc (goes into samples / replay files)
// and is regenerated from <seed, case index> alone.
#pragma once
#include "Simbody.h"
#include "vh.h"
#include <memory>

namespace vh {
using namespace SimTK;

enum MobType {
    MT_Pin, MT_Slider, MT_Screw, MT_Universal, MT_Cylinder, MT_BendStretch, MT_Planar,
    MT_Gimbal, MT_Bushing, MT_Ball, MT_Free, MT_LineOrientation, MT_FreeLine,
    MT_Translation, MT_SphericalCoords, MT_Ellipsoid, MT_CantileverFreeBeam, MT_Weld,
    MT_Count
};
inline const char* mobName(int t) {
    static const char* n[] = {"Pin", "Slider", "Screw", "Universal", "Cylinder", "BendStretch", "Planar",
                              "Gimbal", "Bushing", "Ball", "Free", "LineOrientation", "FreeLine",
                              "Translation", "SphericalCoords", "Ellipsoid", "CantileverFreeBeam", "Weld"};
    return (t >= 0 && t < MT_Count) ? n[t] : "?";
}
// does this type use a quaternion (4 q) in quaternion mode?
inline bool mobHasQuat(int t) {
    return t == MT_Ball || t == MT_Free || t == MT_LineOrientation || t == MT_FreeLine || t == MT_Ellipsoid;
}

inline Vec3 randVec3(Rng& r, double s = 1) { return Vec3(r.sym(s), r.sym(s), r.sym(s)); }
inline UnitVec3 randUnit(Rng& r) {
    for (;;) { Vec3 v(r.normal(), r.normal(), r.normal()); if (v.norm() > 1e-3) return UnitVec3(v); }
}
inline Rotation randRotation(Rng& r) {
    Vec4 q(r.normal(), r.normal(), r.normal(), r.normal());
    while (q.norm() < 1e-3) q = Vec4(r.normal(), r.normal(), r.normal(), r.normal());
    return Rotation(Quaternion(q));   // normalizes
}
// frame classes: 0 identity, 1 translation only, 2 general
inline Transform randFrame(Rng& r, int cls) {
    if (cls == 0) return Transform();
    if (cls == 1) return Transform(randVec3(r, 1.0));
    return Transform(randRotation(r), randVec3(r, 1.0));
}
// angle with |cos| >= 0.2 (away from body-fixed XYZ singularity)
inline double guardedAngle(Rng& r) {
    for (;;) { double a = r.sym(3.0); if (std::fabs(std::cos(a)) >= 0.2) return a; }
}
// valid-by-construction mass properties: cloud of point masses
inline MassProperties randMassProps(Rng& r, bool comAtOrigin = false) {
    int n = r.integer(4, 8);
    double m = 0; Vec3 mc(0); std::vector<Vec3> p(n); std::vector<double> w(n);
    for (int i = 0; i < n; ++i) { p[i] = randVec3(r, 0.6); w[i] = r.uni(0.1, 1.0); m += w[i]; mc += w[i] * p[i]; }
    Vec3 com = mc / m;
    if (comAtOrigin) { for (auto& x : p) x -= com; com = Vec3(0); }
    double xx = 0, yy = 0, zz = 0, xy = 0, xz = 0, yz = 0;
    for (int i = 0; i < n; ++i) {
        const Vec3& x = p[i];
        xx += w[i] * (x[1] * x[1] + x[2] * x[2]); yy += w[i] * (x[0] * x[0] + x[2] * x[2]); zz += w[i] * (x[0] * x[0] + x[1] * x[1]);
        xy -= w[i] * x[0] * x[1]; xz -= w[i] * x[0] * x[2]; yz -= w[i] * x[1] * x[2];
    }
    return MassProperties(m, com, Inertia(xx, yy, zz, xy, xz, yz));
}

struct NodeDesc {
    int type = MT_Pin; bool reversed = false; int fF = 0, fM = 0; int parent = -1; // -1: Ground; else index into nodes
    uint64_t sub = 0;        // sub-seed: frames, mass properties, parameters
    bool comAtOrigin = false;
    bool massless = false;    // Body::Massless (only ever set for bodies that have children)
    std::string key(bool euler) const {
        char b[96];
        snprintf(b, sizeof b, "%s/%s/F%dM%d/%s", mobName(type), reversed ? "rev" : "fwd", fF, fM,
                 mobHasQuat(type) ? (euler ? "euler" : "quat") : "-");
        return b;
    }
};
struct ModelDesc {
    std::vector<NodeDesc> nodes; bool euler = false; Vec3 gravity = Vec3(0);
    Json toJson() const {
        Json a = Json::arr();
        for (auto& n : nodes) a.push(Json::obj().set("type", mobName(n.type)).set("rev", n.reversed).set("F", n.fF).set("M", n.fM).set("parent", n.parent));
        return Json::obj().set("euler", euler).set("nodes", a);
    }
    std::string shortStr() const {
        std::string s = euler ? "E:" : "Q:";
        for (auto& n : nodes) { char b[64]; snprintf(b, sizeof b, "%s%s%d%d<%d ", mobName(n.type), n.reversed ? "~" : "", n.fF, n.fM, n.parent); s += b; }
        return s;
    }
};

struct GenOpts {
    int minBodies = 1, maxBodies = 7;
    std::vector<int> types;        // allowed; empty = all
    bool allowReversed = true;
    bool allowWeld = true;
    bool forceCycle = true;        // node 0 cycles deterministically through type x reversed x euler cells by case index
    double pLoneParticle = 0.04;   // Translation/Ground/identity frames/no children/forward cell
    double pMasslessInterior = 0;  // probability that a body with >=2 children (half that with 1 child) is massless
};

inline ModelDesc randomDesc(Rng& r, const GenOpts& o, long caseIdx) {
    ModelDesc d;
    std::vector<int> types = o.types;
    if (types.empty()) for (int t = 0; t < MT_Count; ++t) if (t != MT_Weld || o.allowWeld) types.push_back(t);
    int nT = (int)types.size();
    d.euler = o.forceCycle ? ((caseIdx / (2 * nT)) % 2 == 1) : r.coin(0.4);
    bool loneCoin = r.coin(o.pLoneParticle);
    bool loneForced = o.forceCycle && o.pLoneParticle > 0 && caseIdx % 23 == 11;   // the node is reached in every run of >= 12 cases
    if (loneCoin || loneForced) {
        // the RBNodeLoneParticle specialisation: Translation on Ground, forward, identity
        // frames, no children. The other bodies hang on Ground or on each other, never on the
        // particle, and the particle is inserted at a random position among them (so that its
        // q, u and body indices differ: mobilizers with nq != nu may precede it).
        NodeDesc n; n.type = MT_Translation; n.reversed = false; n.fF = n.fM = 0; n.parent = -1; n.sub = r.next();
        n.comAtOrigin = r.coin(0.5) || loneForced;   // the lone-particle node is selected only with the mass centre at the origin
        int extra = r.integer(0, std::max(0, o.minBodies - 1 + 3));
        std::vector<NodeDesc> others;
        for (int k = 0; k < extra; ++k) {
            NodeDesc m; m.type = types[r.next() % nT]; m.reversed = o.allowReversed && r.coin(0.3);
            if (k == 0 && o.types.empty() && r.coin(0.5)) { static const int quatTypes[] = {MT_Ball, MT_Free, MT_Ellipsoid, MT_LineOrientation, MT_FreeLine}; m.type = quatTypes[r.next() % 5]; }
            m.fF = r.integer(0, 2); m.fM = r.integer(0, 2); m.sub = r.next();
            m.parent = (k == 0) ? -1 : r.integer(-1, k - 1);
            others.push_back(m);
        }
        int pos = r.integer(0, extra);   // position of the particle among all nodes
        for (int k = 0; k < extra; ++k) {
            if (k == pos) d.nodes.push_back(n);
            NodeDesc m = others[k];
            if (m.parent >= pos) m.parent += 1;
            d.nodes.push_back(m);
        }
        if (pos == extra) d.nodes.push_back(n);
        return d;
    }
    int nb = r.integer(o.minBodies, o.maxBodies);
    int shape = r.integer(0, 2); // 0 chain, 1 star-ish, 2 random
    for (int k = 0; k < nb; ++k) {
        NodeDesc n;
        if (k == 0 && o.forceCycle) {
            n.type = types[caseIdx % nT];
            n.reversed = o.allowReversed && ((caseIdx / nT) % 2 == 1);
            int fc = (int)((caseIdx / (4 * nT)) % 9);
            n.fF = fc % 3; n.fM = fc / 3;
        } else {
            n.type = types[r.next() % nT];
            n.reversed = o.allowReversed && r.coin(0.35);
            n.fF = r.integer(0, 2); n.fM = r.integer(0, 2);
        }
        n.sub = r.next();
        n.comAtOrigin = r.coin(0.15);
        if (k == 0) n.parent = -1;
        else if (shape == 0) n.parent = k - 1;
        else if (shape == 1) n.parent = r.coin(0.7) ? 0 : -1;
        else n.parent = r.integer(-1, k - 1);
        d.nodes.push_back(n);
    }
    if (o.pMasslessInterior > 0) {
        for (size_t k = 0; k < d.nodes.size(); ++k) {
            int nch = 0; for (auto& c : d.nodes) if (c.parent == (int)k) ++nch;
            if (nch >= 2 ? r.coin(o.pMasslessInterior) : nch == 1 ? r.coin(o.pMasslessInterior / 2) : false) d.nodes[k].massless = true;
        }
    }
    return d;
}

struct Model {
    MultibodySystem sys;
    SimbodyMatterSubsystem matter;
    GeneralForceSubsystem forces;
    ModelDesc desc;
    std::vector<MobilizedBody> bodies;   // bodies[k] <-> desc.nodes[k]
    Model() : matter(sys), forces(sys) {}
    Model(const Model&) = delete;

    MobilizedBody& parentOf(int k) { int p = desc.nodes[k].parent; return p < 0 ? (MobilizedBody&)matter.updGround() : bodies[p]; }

    void build(const ModelDesc& d) {
        desc = d;
        for (size_t k = 0; k < d.nodes.size(); ++k) {
            const NodeDesc& n = d.nodes[k];
            Rng r(n.sub);
            Transform X_PF = randFrame(r, n.fF), X_BM = randFrame(r, n.fM);
            MassProperties mprops = randMassProps(r, n.comAtOrigin);   // drawn even when unused: keeps the random stream of the node
            Body::Rigid body(n.massless ? MassProperties(0, Vec3(0), Inertia(0)) : mprops);
            MobilizedBody::Direction dir = n.reversed ? MobilizedBody::Reverse : MobilizedBody::Forward;
            MobilizedBody& P = parentOf((int)k);
            MobilizedBody mb;
            switch (n.type) {
            case MT_Pin: mb = MobilizedBody::Pin(P, X_PF, body, X_BM, dir); break;
            case MT_Slider: mb = MobilizedBody::Slider(P, X_PF, body, X_BM, dir); break;
            case MT_Screw: mb = MobilizedBody::Screw(P, X_PF, body, X_BM, r.coin(0.15) ? 0.0 : r.sym(0.5), dir); break;
            case MT_Universal: mb = MobilizedBody::Universal(P, X_PF, body, X_BM, dir); break;
            case MT_Cylinder: mb = MobilizedBody::Cylinder(P, X_PF, body, X_BM, dir); break;
            case MT_BendStretch: mb = MobilizedBody::BendStretch(P, X_PF, body, X_BM, dir); break;
            case MT_Planar: mb = MobilizedBody::Planar(P, X_PF, body, X_BM, dir); break;
            case MT_Gimbal: mb = MobilizedBody::Gimbal(P, X_PF, body, X_BM, dir); break;
            case MT_Bushing: mb = MobilizedBody::Bushing(P, X_PF, body, X_BM, dir); break;
            case MT_Ball: mb = MobilizedBody::Ball(P, X_PF, body, X_BM, dir); break;
            case MT_Free: mb = MobilizedBody::Free(P, X_PF, body, X_BM, dir); break;
            case MT_LineOrientation: mb = MobilizedBody::LineOrientation(P, X_PF, body, X_BM, dir); break;
            case MT_FreeLine: mb = MobilizedBody::FreeLine(P, X_PF, body, X_BM, dir); break;
            case MT_Translation: mb = MobilizedBody::Translation(P, X_PF, body, X_BM, dir); break;
            case MT_SphericalCoords:
                if (r.coin(0.3)) mb = MobilizedBody::SphericalCoords(P, X_PF, body, X_BM, dir);
                else mb = MobilizedBody::SphericalCoords(P, X_PF, body, X_BM, r.sym(1.0), r.coin(), r.sym(0.3), r.coin(),
                                                         r.coin() ? CoordinateAxis(ZAxis) : CoordinateAxis(XAxis), r.coin(), dir);
                break;
            case MT_Ellipsoid: mb = MobilizedBody::Ellipsoid(P, X_PF, body, X_BM, Vec3(r.uni(0.3, 2), r.uni(0.3, 2), r.uni(0.3, 2)), dir); break;
            case MT_CantileverFreeBeam: mb = MobilizedBody::CantileverFreeBeam(P, X_PF, body, X_BM, r.uni(0.3, 2.0), dir); break;
            case MT_Weld: mb = MobilizedBody::Weld(P, X_PF, body, X_BM); break;
            default: throw std::logic_error("bad mob type");
            }
            bodies.push_back(mb);
        }
    }
    // realizeTopology + Model-stage options; returns the default State
    State init() {
        State s = sys.realizeTopology();
        if (desc.euler) matter.setUseEulerAngles(s, true);
        sys.realizeModel(s);
        return s;
    }
};

// Random <q,u> away from coordinate singularities (the statements say "away from
// singularities"); quaternions normalized unless unnormQuat.
inline void randomQU(Model& m, State& s, Rng& r, bool zeroU = false, double uScale = 2.0, bool unnormQuat = false) {
    for (size_t k = 0; k < m.bodies.size(); ++k) {
        const MobilizedBody& b = m.bodies[k];
        int type = m.desc.nodes[k].type;
        int nq = b.getNumQ(s), nu = b.getNumU(s);
        Vector q(nq);
        for (int i = 0; i < nq; ++i) q[i] = r.sym(2.0);
        int rotQ = 0;
        if (mobHasQuat(type)) {
            bool quat = !m.desc.euler;
            if (quat) {
                Vec4 e(r.normal(), r.normal(), r.normal(), r.normal());
                while (e.norm() < 0.1) e = Vec4(r.normal(), r.normal(), r.normal(), r.normal());
                e = e / e.norm();
                if (unnormQuat) e *= r.uni(0.5, 2.0);
                for (int i = 0; i < 4; ++i) q[i] = e[i];
                rotQ = 4;
            } else { q[0] = r.sym(3.0); q[1] = guardedAngle(r); q[2] = r.sym(3.0); rotQ = 3; }
        } else if (type == MT_Gimbal || type == MT_Bushing || type == MT_CantileverFreeBeam) {
            q[0] = r.sym(3.0); q[1] = guardedAngle(r); q[2] = r.sym(3.0);
            if (type == MT_CantileverFreeBeam) { q[0] = r.sym(1.2); q[1] = r.sym(1.2); }
        } else if (type == MT_SphericalCoords) {
            q[0] = r.sym(3.0); q[1] = 0; q[2] = (r.coin() ? 1 : -1) * r.uni(0.3, 2.0);
            // zenith guard is applied by the caller through sphericalOK()
            q[1] = r.sym(3.0);
        } else if (type == MT_BendStretch) {
            q[1] = (r.coin() ? 1 : -1) * r.uni(0.3, 2.0);
        }
        (void)rotQ;
        if (nq) b.setQFromVector(s, q);
        Vector u(nu);
        for (int i = 0; i < nu; ++i) u[i] = zeroU ? 0.0 : r.sym(uScale);
        if (nu) b.setUFromVector(s, u);
    }
}

// SphericalCoords zenith guard: |sin(effective zenith)| >= 0.2, judged from the realized
// mobilizer transform (works for every sign/offset/axis option and for reversed ones).
// Must be called with s realized to Position.
inline bool sphericalOK(const Model& m, const State& s) {
    for (size_t k = 0; k < m.bodies.size(); ++k) {
        if (m.desc.nodes[k].type != MT_SphericalCoords) continue;
        const MobilizedBody& b = m.bodies[k];
        // the radial direction in F is R_FM * (Mz or Mx); singular when it is along Fz
        Transform X_FM = b.getMobilizerTransform(s);
        Vec3 p = m.desc.nodes[k].reversed ? (~X_FM).p() : X_FM.p();
        double rad = p.norm();
        if (rad < 0.25) return false;
        Vec3 d = p / rad;
        if (std::sqrt(d[0] * d[0] + d[1] * d[1]) < 0.2) return false;
    }
    return true;
}

inline double vmaxabs(const Vector& v) { double m = 0; for (int i = 0; i < v.size(); ++i) m = std::max(m, std::fabs(v[i])); return m; }
inline bool allFinite(const Vector& v) { for (int i = 0; i < v.size(); ++i) if (!std::isfinite(v[i])) return false; return true; }
inline Json jV(const Vector& v) { Json j = Json::arr(); for (int i = 0; i < v.size(); ++i) j.push(Json((double)v[i])); return j; }
inline Json jV3(const Vec3& v) { return Json::arr().push(v[0]).push(v[1]).push(v[2]); }

// Frobenius-ish helpers on SimTK::Matrix
inline double mmaxabs(const Matrix& A) { double m = 0; for (int i = 0; i < A.nrow(); ++i) for (int j = 0; j < A.ncol(); ++j) m = std::max(m, std::fabs(A(i, j))); return m; }

// dense Cholesky in the harness (independent of FactorLLT); returns min pivot (<=0 => not PD)
inline double cholMinPivot(const Matrix& A) {
    int n = A.nrow(); std::vector<double> L(n * n, 0.0); double minp = std::numeric_limits<double>::infinity();
    for (int j = 0; j < n; ++j) {
        double d = A(j, j);
        for (int k = 0; k < j; ++k) d -= L[j * n + k] * L[j * n + k];
        minp = std::min(minp, d);
        if (!(d > 0)) return d;
        double ljj = std::sqrt(d); L[j * n + j] = ljj;
        for (int i = j + 1; i < n; ++i) {
            double x = A(i, j);
            for (int k = 0; k < j; ++k) x -= L[i * n + k] * L[j * n + k];
            L[i * n + j] = x / ljj;
        }
    }
    return minp;
}

} // namespace vh
