// contact_ref.h — harness-side reference laws for mon_contactforce (C37), written from the class documentation
// (HuntCrossleyForce.h, HuntCrossleyContact.h, ElasticFoundationForce.h, SmoothSphereHalfSpaceForce.h,
// ExponentialSpringForce.h, ExponentialSpringParameters.h) and, for CompliantContactSubsystem whose headers state no
// formulas, from the documentation blocks in CompliantContactSubsystem.cpp (Hertz circular / elliptical, Stribeck
// curve, brick/half-space penalty, elastic foundation). Nothing here calls the library's force code.
#pragma once
#include "SimTKcommon.h"
#include <cmath>

namespace cr {
using SimTK::Vec3;
using SimTK::Real;

struct Mat { double E = 1, c = 0, us = 0, ud = 0, uv = 0; };

inline double comb(double u1, double u2) { return (u1 + u2) > 0 ? 2 * u1 * u2 / (u1 + u2) : 0.0; }   // u = 2 u1 u2/(u1+u2)

// Hertz combination (HuntCrossleyForce.h / HuntCrossleyContact.h): s1 = E2^(2/3)/(E1^(2/3)+E2^(2/3)),
// E* = (s1 E1^(2/3))^(3/2), c = c1 s1 + c2 (1-s1)
struct Hertz { double s1, k23, Estar, c; };
inline Hertz hertzCombine(const Mat& m1, const Mat& m2) {
    Hertz h; double k1 = std::pow(m1.E, 2.0 / 3.0), k2 = std::pow(m2.E, 2.0 / 3.0);
    h.s1 = k2 / (k1 + k2); h.k23 = k1 * h.s1; h.Estar = std::pow(h.k23, 1.5); h.c = m1.c * h.s1 + m2.c * (1 - h.s1);
    return h;
}
// f = k x^(3/2), k = (4/3) sqrt(R) E*   (times the eccentricity factor e for elliptical contact)
inline double hertzForce(double R, double Estar, double x, double e = 1) { return x > 0 ? e * (4.0 / 3.0) * std::sqrt(R) * Estar * std::pow(x, 1.5) : 0.0; }

// Hollars friction curve (HuntCrossleyForce.h, ElasticFoundationForce.h, SmoothSphereHalfSpaceForce.h):
// mu = min(vs/vt,1)*(ud+2(us-ud)/(1+(vs/vt)^2)) + uv*vs
inline double hollars(double us, double ud, double uv, double vs, double vt) {
    double v = vs / vt;
    return std::min(v, 1.0) * (ud + 2 * (us - ud) / (1 + v * v)) + uv * vs;
}
// Stribeck curve of CompliantContactSubsystem (documentation block above stribeck()): with v = vs/vt
//   v<1: us*step5(v); 1<=v<3: us-(us-ud)*step5((v-1)/2); v>=3: ud;   plus the wet term uv*vs
inline double step5(double x) { return x * x * x * (10 + x * (6 * x - 15)); }
inline double stribeck(double us, double ud, double uv, double vs, double vt) {
    double v = vs / vt, dry;
    if (v >= 3) dry = ud; else if (v >= 1) dry = us - (us - ud) * step5((v - 1) / 2); else dry = us * step5(v);
    return dry + uv * vs;
}

// complete elliptic integrals K(m), E(m) (parameter m = k^2) by the arithmetic-geometric mean
inline void ellipticKE(long double m, long double& K, long double& E) {
    long double a = 1, b = std::sqrt(1 - m), c = std::sqrt(m), sum = c * c / 2, p2 = 0.5L;
    for (int i = 0; i < 60 && std::fabs((double)c) > 1e-19L; ++i) {
        long double an = (a + b) / 2, bn = std::sqrt(a * b); c = (a - b) / 2; a = an; b = bn; p2 *= 2; sum += p2 * c * c;
    }
    const long double PI = 3.14159265358979323846264338327950288L;
    K = PI / (2 * a); E = K * (1 - sum);
}
// Hertz eccentricity factor (documentation block above calcHertzForceEccentricityCorrection):
//   kmax/kmin = (k^2 E(m) - K(m)) / (K(m) - E(m)), m = 1 - 1/k^2;   e = pi k sqrt(E(m)) / (2 K(m)^(3/2))
inline double hertzEccentricity(double kmax, double kmin) {
    if (!(kmax > kmin * (1 + 1e-12))) return 1.0;
    long double ratio = (long double)kmax / kmin;
    auto f = [&](long double k) { long double m = 1 - 1 / (k * k), K, E; ellipticKE(m, K, E); return (k * k * E - K) / (K - E) - ratio; };
    long double lo = 1 + 1e-9L, hi = 2;
    while (f(hi) < 0 && hi < 1e9L) hi *= 2;
    for (int i = 0; i < 200; ++i) { long double mid = (lo + hi) / 2; if (f(mid) < 0) lo = mid; else hi = mid; }
    long double k = (lo + hi) / 2, m = 1 - 1 / (k * k), K, E; ellipticKE(m, K, E);
    const long double PI = 3.14159265358979323846264338327950288L;
    return (double)(PI * k * std::sqrt(E) / (2 * std::pow(K, 1.5L)));
}

// a force applied at a point, accumulated as a wrench about the Ground origin
struct Wrench {
    Vec3 f = Vec3(0), tau = Vec3(0);
    void add(const Vec3& p, const Vec3& force) { f += force; tau += p % force; }
    void addMoment(const Vec3& m) { tau += m; }
};

}  // namespace cr
