// geom_c34_implicit.h — C34: implicit function / gradient / Hessian / curvature family and ray queries.
#pragma once
#include "geom_c34_near.h"

namespace c34 {

// 4th-order central difference of a scalar function along axis i
template <class F> inline double fdAxis(F f, const Vec3& x, int i, double h) {
    Vec3 e(0); e[i] = h;
    return (-f(x + 2 * e) + 8 * f(x + e) - 8 * f(x - e) + f(x - 2 * e)) / (12 * h);
}

inline bool stencilDefined(const Shape& s, const Vec3& x, double h) {
    if (s.kind != HEIGHTMAP) return true;
    return x[0] - 2.5 * h > s.lo[0] && x[0] + 2.5 * h < s.hi[0] && x[1] - 2.5 * h > s.lo[1] && x[1] + 2.5 * h < s.hi[1];
}
// distance from the singular set of the implicit function (where derivatives blow up or vanish identically)
inline double singularDistance(const Shape& s, const Vec3& x) {
    switch (s.kind) {
    case SPHERE: case ELLIPSOID: return x.norm();
    case CYLINDER: case TORUS: return std::sqrt(x[0] * x[0] + x[1] * x[1]);
    default: return Infinity;
    }
}

inline void implicitChecks(vh::Ctx& c, const Shape& s, vh::Rng& r, long idx, int nq) {
    const std::string sh = s.keyName;
    if (!s.hasImplicit()) {
        c.setPhase("getImplicitFunction " + sh);
        guarded(c, s, "getImplicitFunction", [&] { s.g->calcSurfaceValue(Vec3(0.1, 0.2, 0.3)); c.viol("nonsmooth-implicit-no-exception@" + sh, s.json()); });
        return;
    }
    Vec3 focus = randBox(r, 3 * s.size); double L = 3 * s.size;
    const Function& F = s.g->getImplicitFunction();
    for (int q = 0; q < nq; ++q) {
        int region = (int)((idx / NKIND + q) % 3);    // outside, inside, on
        Query Q = genQuery(s, region, 0, r, focus, L);
        Vec3 x = Q.x;
        const std::string cell = sh + ":" + Q.region;
        double sd = singularDistance(s, x);
        double h = 1e-3 * std::min(s.size, sd);
        if (sd < 0.02 * s.size) { c.skip("implicit-near-singular-set"); continue; }
        if (!stencilDefined(s, x, h)) { c.skip("implicit-stencil-leaves-domain"); continue; }
        c.setPhase("implicit " + cell);
        Real f = NaN; Vec3 g(NaN); Mat33 H(NaN); Vec3 un(NaN);
        if (guarded(c, s, "calcSurfaceValue", [&] { f = s.g->calcSurfaceValue(x); g = s.g->calcSurfaceGradient(x); H = s.g->calcSurfaceHessian(x); un = Vec3(s.g->calcSurfaceUnitNormal(x)); }) != OK) continue;
        c.cover("implicit:" + cell);
        auto W = [&, f, g]() { return Json::obj().set("shape", s.json()).set("point", jv(x)).set("region", Q.region).set("value", f).set("gradient", jv(g)); };
        bool fin = std::isfinite(f) && finite3(g) && finite3(un);
        for (int i = 0; i < 3; ++i) fin = fin && finite3(H(i));
        if (!c.require("nan@" + sh + ":implicit", fin, W)) continue;
        const double gn = g.norm(), Hn = H.norm();
        // sign and zero set
        LD iv = insideValue(s, V3(x));
        double ivScale = (s.kind == ELLIPSOID || s.kind == HEIGHTMAP) ? 1.0 : s.size;
        if (region == 2) c.check("zero@" + sh + ":value-on-surface", std::fabs(f), 1e-11 * (gn * s.size + std::fabs(f)) + 1e-300, W);
        else if (std::fabs((double)iv) > 1e-9 * ivScale) c.require("sign@" + sh + ":value-positive-inside:" + Q.region, (f > 0) == (iv > 0), W);
        // gradient = FD of value, Hessian = FD of gradient (two step sizes)
        auto fv = [&](const Vec3& y) { return (double)s.g->calcSurfaceValue(y); };
        Vec3 g1, g2; Mat33 H1, H2;
        for (int i = 0; i < 3; ++i) {
            g1[i] = fdAxis(fv, x, i, h); g2[i] = fdAxis(fv, x, i, h / 2);
            for (int j = 0; j < 3; ++j) {
                auto gj = [&](const Vec3& y) { return (double)s.g->calcSurfaceGradient(y)[j]; };
                H1(j, i) = fdAxis(gj, x, i, h); H2(j, i) = fdAxis(gj, x, i, h / 2);
            }
        }
        const double tolG = 1e-7 * (gn + std::fabs(f) / s.size + 1e-300), tolH = 1e-7 * (Hn + gn / s.size + 1e-300);
        if ((g1 - g2).norm() > tolG / 10) c.skip("fd-gradient-unstable");
        else c.check("fd@" + sh + ":gradient", (g - g2).norm(), tolG, W);
        if ((H1 - H2).norm() > tolH / 10) c.skip("fd-hessian-unstable");
        else c.check("fd@" + sh + ":hessian", (H - H2).norm(), tolH, [&]() { return W().set("hessianRow0", jv(Vec3(H(0, 0), H(0, 1), H(0, 2)))).set("fdRow0", jv(Vec3(H2(0, 0), H2(0, 1), H2(0, 2)))); });
        c.check("symmetric@" + sh + ":hessian", (H - ~H).norm(), 1e-13 * (Hn + 1e-300), W);
        // unit normal = -gradient/|gradient|
        if (gn > 1e-8 * (std::fabs(f) / s.size + 1e-300)) c.check("normal@" + sh + ":unit-normal-vs-gradient", (un + g / gn).norm(), 1e-12, W);
        // the Function object route: same sign, derivatives consistent with its own value
        c.setPhase("implicit Function object " + cell);
        Vector xv(3); for (int i = 0; i < 3; ++i) xv[i] = x[i];
        double Fv = F.calcValue(xv);
        if (region != 2 && std::fabs((double)iv) > 1e-9 * ivScale) c.require("sign@" + sh + ":function-positive-inside", (Fv > 0) == (iv > 0), W);
        auto Fval = [&](const Vec3& y) { Vector t(3); for (int i = 0; i < 3; ++i) t[i] = y[i]; return (double)F.calcValue(t); };
        Vec3 Fg, Fg2; double Fhd[3], Fhd2[3], Fhdlib[3];
        for (int i = 0; i < 3; ++i) {
            Array_<int> d1, d2; d1.push_back(i); d2.push_back(i); d2.push_back(i);
            Fg[i] = F.calcDerivative(d1, xv); Fg2[i] = fdAxis(Fval, x, i, h / 2);
            auto Fgi = [&](const Vec3& y) { Vector t(3); for (int k = 0; k < 3; ++k) t[k] = y[k]; return (double)F.calcDerivative(d1, t); };
            Fhdlib[i] = F.calcDerivative(d2, xv); Fhd[i] = fdAxis(Fgi, x, i, h); Fhd2[i] = fdAxis(Fgi, x, i, h / 2);
        }
        double Fgn = Fg.norm();
        Vec3 Fg1; for (int i = 0; i < 3; ++i) Fg1[i] = fdAxis(Fval, x, i, h);
        double tolFG = 1e-7 * (Fgn + std::fabs(Fv) / s.size + 1e-300);
        if ((Fg1 - Fg2).norm() <= tolFG / 10) c.check("fd@" + sh + ":function-first-derivative", (Fg - Fg2).norm(), tolFG, W);
        double e2 = 0, st2 = 0, sc2 = 0;
        for (int i = 0; i < 3; ++i) { e2 = std::max(e2, std::fabs(Fhdlib[i] - Fhd2[i])); st2 = std::max(st2, std::fabs(Fhd[i] - Fhd2[i])); sc2 = std::max(sc2, std::fabs(Fhdlib[i])); }
        double tolFH = 1e-7 * (sc2 + Fgn / s.size + 1e-300);
        if (st2 <= tolFH / 10) c.check("fd@" + sh + ":function-second-derivative", e2, tolFH, W);
        // both routes describe the same surface: gradients parallel
        if (gn > 0 && Fgn > 0) c.check("normal@" + sh + ":function-gradient-parallel", (g / gn - Fg / Fgn).norm(), 1e-10, W);
    }
}

// ------------------------------------------------------------------ curvature family at surface points
inline void curvatureChecks(vh::Ctx& c, const Shape& s, vh::Rng& r, long idx, int nq) {
    const std::string sh = s.keyName;
    if (!s.hasImplicit()) return;
    Vec3 focus = randBox(r, 3 * s.size); double L = 3 * s.size;
    for (int q = 0; q < nq; ++q) {
        SurfPt sp = randSurf(s, r, focus, L);
        Vec3 x = sp.p;
        if (singularDistance(s, x) < 0.02 * s.size) { c.skip("curvature-near-singular-set"); continue; }
        if (!stencilDefined(s, x, 1e-6 * s.size)) { c.skip("curvature-at-domain-edge"); continue; }
        c.setPhase("curvature " + sh);
        Vec3 g = s.g->calcSurfaceGradient(x); Mat33 H = s.g->calcSurfaceHessian(x);
        double gn = g.norm();
        Vec3 n = -g / gn;
        Vec3 t1 = anyPerp(n), t2 = SimTK::cross(n, t1);
        double a = -SimTK::dot(t1, H * t1) / gn, b = -SimTK::dot(t1, H * t2) / gn, d = -SimTK::dot(t2, H * t2) / gn;
        Eig2 e = symEig2(a, b, d);
        Vec3 e1 = e.vmax[0] * t1 + e.vmax[1] * t2;
        const double ks = std::fabs(e.kmax) + std::fabs(e.kmin) + 1 / s.size;
        auto W = [&, x, e]() { return Json::obj().set("shape", s.json()).set("point", jv(x)).set("kmax_from_hessian", e.kmax).set("kmin_from_hessian", e.kmin); };
        // harness normal vs library gradient direction
        c.check("normal@" + sh + ":gradient-outward", (n - sp.n).norm(), 1e-9, W);
        double ak1, ak2;
        if (analyticCurvature(s, x, ak1, ak2))   // compared through the symmetric functions (well conditioned at umbilics)
            c.check("curvature@" + sh + ":hessian-vs-analytic", std::fabs((ak1 + ak2) - (e.kmax + e.kmin)) + std::fabs(ak1 * ak2 - e.kmax * e.kmin) / ks, 1e-9 * ks, [&]() { return W().set("analytic_kmax", ak1).set("analytic_kmin", ak2); });
        // calcCurvature (shape-specific) and calcSurfacePrincipalCurvatures (generic)
        for (int route = 0; route < 2; ++route) {
            const char* rn = route ? "principal-generic" : "calcCurvature";
            Vec2 k(NaN); Rotation Rr;
            Outcome o = guarded(c, s, rn, [&] { if (route) s.g->calcSurfacePrincipalCurvatures(x, k, Rr); else s.g->calcCurvature(x, k, Rr); });
            if (o != OK) continue;
            c.cover(std::string("curvature@") + sh + ":" + rn);
            auto WK = [&, k]() { return W().set("route", rn).set("returned", jv(k)); };
            Mat33 Rm = Rr.asMat33();
            bool fin = std::isfinite(k[0]) && std::isfinite(k[1]); for (int i = 0; i < 3; ++i) fin = fin && finite3(Rm(i));
            if (!c.require(std::string("nan@") + sh + ":" + rn, fin, WK)) continue;
            c.check(std::string("curvature@") + sh + ":" + rn + "-values", std::max(std::fabs(k[0] - e.kmax), std::fabs(k[1] - e.kmin)), 1e-8 * ks, WK);
            c.check(std::string("rotation@") + sh + ":" + rn + "-orthonormal", (~Rm * Rm - Mat33(1)).norm() + std::fabs(SimTK::det(Rm) - 1), 1e-10, WK);
            Vec3 rx(Rm(0, 0), Rm(1, 0), Rm(2, 0)), rz(Rm(0, 2), Rm(1, 2), Rm(2, 2));
            c.check(std::string("rotation@") + sh + ":" + rn + "-z-is-outward-normal", (rz - n).norm(), 1e-8, [&]() { return WK().set("z_axis", jv(rz)).set("outward_normal", jv(n)); });
            if (e.kmax - e.kmin > 1e-5 * ks && (rz - n).norm() < 1e-6) {
                // x axis must be the kmax direction (sign free)
                double al = std::fabs(SimTK::dot(rx, e1));
                c.check(std::string("rotation@") + sh + ":" + rn + "-x-is-kmax-direction", 1 - al, 1e-7 * ks / (e.kmax - e.kmin), [&]() { return WK().set("x_axis", jv(rx)).set("kmax_direction", jv(e1)); });
            }
        }
        // Gaussian curvature
        Real Kg = NaN, Kg2 = NaN;
        if (guarded(c, s, "calcGaussianCurvature", [&] { Kg = s.g->calcGaussianCurvature(x); Kg2 = s.g->calcGaussianCurvature(g, H); }) == OK) {
            c.cover("gaussian:" + sh);
            c.check("curvature@" + sh + ":gaussian", std::max(std::fabs(Kg - e.kmax * e.kmin), std::fabs(Kg2 - e.kmax * e.kmin)), 1e-8 * ks * ks, [&]() { return W().set("returned", Kg); });
        }
        // Euler's formula for the curvature in an arbitrary tangent direction
        double th = r.uni(0, 2 * PI);
        Vec3 e2v = SimTK::cross(n, e1);
        Vec3 t = std::cos(th) * e1 + std::sin(th) * e2v;
        Real kd = NaN;
        if (guarded(c, s, "calcSurfaceCurvatureInDirection", [&] { kd = s.g->calcSurfaceCurvatureInDirection(x, UnitVec3(t)); }) == OK) {
            c.cover("direction-curvature:" + sh);
            double expect = e.kmax * std::cos(th) * std::cos(th) + e.kmin * std::sin(th) * std::sin(th);
            c.check("curvature@" + sh + ":in-direction-euler", std::fabs(kd - expect), 1e-8 * ks, [&]() { return W().set("direction", jv(t)).set("returned", kd).set("euler", expect); });
        }
        if (s.kind == HEIGHTMAP && s.interpolating) {
            // anchor: an interpolating surface passes through its samples
            int i = r.integer(0, s.gx.size() - 1), j = r.integer(0, s.gy.size() - 1);
            double z = s.surf->calcValue(Vec2(s.gx[i], s.gy[j]));
            c.check("zero@heightmap:passes-through-samples", std::fabs(s.g->calcSurfaceValue(Vec3(s.gx[i], s.gy[j], s.gf(i, j)))) + std::fabs(z - s.gf(i, j)), 1e-9 * s.size, W);
        }
    }
}

// ------------------------------------------------------------------ intersectsRay
struct RayTruth { bool known = false, hit = false, grazing = false, onSurface = false; LD t = 0, tAlt = -1; };
// quadric A t^2 + 2 B t + C = 0 along the ray (C>0 outside)
inline RayTruth quadricRay(LD A, LD B, LD C, LD scaleC) {
    RayTruth o; o.known = true;
    if (std::fabs(C) < 1e-9L * scaleC) o.onSurface = true;
    if (A <= 1e-18L * (std::fabs(B) + 1)) {          // degenerate quadric direction (cylinder: ray parallel to the axis)
        o.hit = false; if (A > 0) o.grazing = true; return o;
    }
    LD disc = B * B - A * C;
    if (std::fabs(disc) < 1e-9L * (B * B + std::fabs(A * C))) { o.grazing = true; return o; }
    if (disc < 0) { o.hit = false; return o; }
    LD sq = std::sqrt(disc), t1 = (-B - sq) / A, t2 = (-B + sq) / A;
    if (t1 >= 0) { o.hit = true; o.t = t1; o.tAlt = t2; }
    else if (t2 >= 0) { o.hit = true; o.t = t2; o.tAlt = t1; }
    else o.hit = false;
    return o;
}

inline void rayChecks(vh::Ctx& c, const Shape& s, vh::Rng& r, long idx, int nq) {
    const std::string sh = s.keyName;
    Vec3 focus = randBox(r, 2 * s.size); double L = 3 * s.size;
    for (int q = 0; q < nq; ++q) {
        int cls = (int)((idx / NKIND + q) % 7);
        static const char* CN[7] = {"outside-toward", "outside-away", "inside", "on-surface", "far", "outside-offset", "special"};
        SurfPt a = randSurf(s, r, focus, L), b = randSurf(s, r, focus, L);
        Vec3 inward = s.mesh.nf() ? Vec3(s.mesh.center - a.p) : Vec3(a.n * (-s.size));
        Vec3 target = a.p + inward * r.uni(0.01, 0.6);
        if (s.kind == HALFSPACE || s.kind == HEIGHTMAP) target = a.p;
        Vec3 o, d;
        switch (cls) {
        case 0: o = b.p + b.n * (s.size * r.logUni(1e-2, 3)); d = target - o; break;
        case 1: o = b.p + b.n * (s.size * r.logUni(1e-2, 3)); d = o - target; break;
        case 2: o = pullInside(s, b, r.logUni(1e-2, 0.9)); d = randUnit(r); break;
        case 3: o = b.p; d = (r.coin() ? 1.0 : -1.0) * b.n + 0.7 * randUnit(r); break;
        case 4: o = b.p + b.n * (s.size * r.logUni(30, 300)); d = target - o; break;
        case 5: o = b.p + b.n * (s.size * r.logUni(1e-2, 3)); d = target + randBox(r, 1.5 * s.size) - o; break;
        default:
            // shape-specific special rays: through the centre / parallel to the axis / parallel to the plane
            o = pullInside(s, b, r.uni(0.1, 0.9)); if (r.coin()) o = b.p + b.n * (s.size * r.uni(0.1, 2));
            if (s.kind == CYLINDER) d = Vec3(0, 0, r.coin() ? 1 : -1);
            else if (s.kind == HALFSPACE) { d = randUnit(r); d[0] = 0; }
            else d = -o;
            break;
        }
        if (d.norm() < 1e-9 * s.size) d = Vec3(1, 0, 0);
        d /= d.norm();
        const std::string cell = sh + ":" + CN[cls];
        c.setPhase("intersectsRay " + cell);
        Real distA = -7.25, distB = -3.5; UnitVec3 nA(1, 0, 0), nB(0, 1, 0);
        bool hitA = false, hitB = false;
        Outcome oc = guarded(c, s, "intersectsRay", [&] { hitA = s.g->intersectsRay(o, UnitVec3(d), distA, nA); hitB = s.g->intersectsRay(o, UnitVec3(d), distB, nB); });
        if (oc != OK) continue;
        c.cover("ray:" + cell);
        auto W = [&, o, d, hitA, distA]() { return Json::obj().set("shape", s.json()).set("origin", jv(o)).set("direction", jv(d)).set("class", CN[cls]).set("hit", hitA).set("distance", distA); };
        if (s.kind == HEIGHTMAP) {
            // SmoothHeightMap::intersectsRay is "assert(false); return true": reports a hit without writing outputs
            if (hitA && distA == -7.25 && distB == -3.5) c.viol("unimplemented-silent@heightmap:intersectsRay", W().set("note", "returns true without writing distance/normal"));
            else c.obs("heightmap-ray-wrote-output");
            continue;
        }
        c.require("deterministic@" + sh + ":ray", hitA == hitB && (!hitA || distA == distB || (distA != distA && distB != distB)), W);
        // harness truth
        RayTruth T;
        V3 O(o), D(d);
        const double sc = s.size + o.norm();
        switch (s.kind) {
        case HALFSPACE:
            T.known = true;
            if (std::fabs(D.x) < 1e-9L) { T.grazing = D.x != 0; T.hit = false; if (std::fabs(O.x) < 1e-9L * sc) T.grazing = true; }
            else { LD t = -O.x / D.x; if (std::fabs(O.x) < 1e-9L * sc) T.onSurface = true; T.hit = t >= 0; T.t = t; }
            break;
        case SPHERE: T = quadricRay(1, dot(O, D), dot(O, O) - (LD)s.R * s.R, (LD)sc * sc); break;
        case CYLINDER: T = quadricRay(D.x * D.x + D.y * D.y, O.x * D.x + O.y * D.y, O.x * O.x + O.y * O.y - (LD)s.R * s.R, (LD)sc * sc); break;
        case ELLIPSOID: {
            LD A = 0, B = 0, C = -1;
            for (int i = 0; i < 3; ++i) { LD ai = s.abc[i]; A += D[i] * D[i] / (ai * ai); B += O[i] * D[i] / (ai * ai); C += O[i] * O[i] / (ai * ai); }
            T = quadricRay(A, B, C, 2 + std::fabs(C));
        } break;
        case MESH: {
            BfRay br = bfRay(s.mesh, O, D, 1e-7L);
            T.known = true; T.hit = br.hit; T.t = br.t; T.grazing = br.grazing;
        } break;
        default: break;
        }
        if (!T.known) continue;
        if (T.grazing) { c.skip("ray-grazing"); continue; }
        if (hitA && !std::isfinite(distA)) { c.viol("nan@" + sh + ":ray-distance:" + CN[cls], W().set("expected_hit", T.hit)); continue; }
        if (T.onSurface) {
            // origin on the surface: the hit at t=0 and the next crossing are both acceptable answers
            if (hitA) {
                bool okd = std::fabs(distA) <= 1e-7 * sc || (T.hit && std::fabs(distA - (double)T.t) <= 1e-7 * sc) || (T.tAlt >= 0 && std::fabs(distA - (double)T.tAlt) <= 1e-7 * sc);
                c.require("first-hit@" + sh + ":origin-on-surface", okd, W);
            } else c.obs("ray-from-surface-reported-miss");
            continue;
        }
        if (!c.require("hit-or-miss@" + sh + ":" + CN[cls], hitA == T.hit, [&]() { return W().set("expected_hit", T.hit).set("expected_distance", (double)T.t); })) continue;
        if (!hitA) {
            c.require("miss-leaves-outputs@" + sh, distA == -7.25 && distB == -3.5, W);
            continue;
        }
        double tolT = (s.kind == ELLIPSOID ? 1e-9 : 1e-10) * (sc + std::fabs((double)T.t));
        c.check("first-hit@" + sh + ":distance:" + CN[cls], std::fabs(distA - (double)T.t), tolT, [&]() { return W().set("expected_distance", (double)T.t); });
        c.require("first-hit@" + sh + ":distance-nonnegative", distA >= 0, W);
        Vec3 hp = o + distA * d;
        LD ds = 0;
        if (exactDistance(s, V3(hp), ds)) c.check("onsurface@" + sh + ":ray-hit-point", (double)ds, 1e-9 * (sc + distA), W);
        Vec3 n(nA);
        if (c.require("nan@" + sh + ":ray-normal", finite3(n), W)) {
            c.check("unit@" + sh + ":ray-normal", std::fabs(n.norm() - 1), 1e-12, W);
            Vec3 an(NaN);
            switch (s.kind) {
            case HALFSPACE: an = Vec3(-1, 0, 0); break;
            case SPHERE: an = hp / hp.norm(); break;
            case CYLINDER: { Vec3 g(hp[0], hp[1], 0); an = g / g.norm(); } break;
            case ELLIPSOID: { Vec3 g(hp[0] / (s.abc[0] * s.abc[0]), hp[1] / (s.abc[1] * s.abc[1]), hp[2] / (s.abc[2] * s.abc[2])); an = g / g.norm(); } break;
            case MESH: { BfRay br = bfRay(s.mesh, O, D, 1e-7L); V3 A = s.mesh.vert(br.face, 0), B = s.mesh.vert(br.face, 1), C = s.mesh.vert(br.face, 2); V3 fn = cross(B - A, C - A); an = toVec3((1 / norm(fn)) * fn); } break;
            default: break;
            }
            if (finite3(an)) c.check("normal@" + sh + ":ray-hit-normal", (n - an).norm(), 1e-8, W);
        }
    }
}

}  // namespace c34
