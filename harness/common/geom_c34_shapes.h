// geom_c34_shapes.h — shape construction and harness-side closed forms for C34 (part of mon_geom).
#pragma once
#include "geom_util.h"

namespace c34 {
using namespace SimTK;
using namespace gm;

enum Kind { HALFSPACE, SPHERE, ELLIPSOID, CYLINDER, TORUS, BRICK, HEIGHTMAP, MESH, NKIND };
static const char* NAME[NKIND] = {"halfspace", "sphere", "ellipsoid", "cylinder", "torus", "brick", "heightmap", "mesh"};
static const double PI = 3.14159265358979323846;

struct Shape {
    Kind kind = SPHERE;
    std::shared_ptr<void> holder;
    const ContactGeometry* g = nullptr;
    double size = 1;            // characteristic length
    double R = 0, r = 0;        // sphere/cylinder radius R; torus R (centre circle), r (tube)
    Vec3 abc = Vec3(1);         // ellipsoid radii / brick half lengths
    // height map
    std::shared_ptr<BicubicSurface> surf;
    Vec2 lo = Vec2(0), hi = Vec2(1);
    Vector gx, gy; Matrix gf; bool interpolating = true;
    // mesh
    MeshData mesh;
    const ContactGeometry::TriangleMesh* tm = nullptr;
    const ContactGeometry::Brick* brick = nullptr;
    const ContactGeometry::Ellipsoid* ell = nullptr;
    std::string desc;
    std::string keyName;        // shape name used in violation / coverage keys (ellipsoids with repeated radii are keyed apart)

    const char* name() const { return NAME[kind]; }
    bool hasImplicit() const { return kind != BRICK && kind != MESH; }
    bool finite() const { return kind != HALFSPACE && kind != CYLINDER; }
    Json json() const {
        Json j = Json::obj();
        j.set("shape", name()).set("size", size);
        if (kind == SPHERE || kind == CYLINDER) j.set("radius", R);
        if (kind == TORUS) j.set("torusRadius", R).set("tubeRadius", r);
        if (kind == ELLIPSOID || kind == BRICK) j.set("dims", jv(abc));
        if (kind == HEIGHTMAP) j.set("lo", jv(lo)).set("hi", jv(hi)).set("nx", gx.size()).set("ny", gy.size());
        if (kind == MESH) j.set("mesh", mesh.cls).set("faces", mesh.nf());
        return j;
    }
};

inline Vec3 aspectDims(vh::Rng& r, double s) {
    // three dimensions with max/min ratio up to 20
    double a = 1, b = r.logUni(1.0 / 20, 1), c = r.logUni(b, 1);
    if (r.coin(0.2)) b = c = 1;            // sphere-like
    else if (r.coin(0.15)) c = b;          // spheroid
    double d[3] = {a, b, c};
    int p = r.integer(0, 5);
    static const int perm[6][3] = {{0, 1, 2}, {0, 2, 1}, {1, 0, 2}, {1, 2, 0}, {2, 0, 1}, {2, 1, 0}};
    return Vec3(d[perm[p][0]], d[perm[p][1]], d[perm[p][2]]) * s;
}

inline double heightFn(double x, double y, const double* k) {
    return k[0] * std::sin(k[1] * x + k[2]) * std::cos(k[3] * y + k[4]) + k[5] * x + k[6] * y + k[7] * x * y;
}

inline Shape makeShape(Kind kind, vh::Rng& r) {
    Shape s; s.kind = kind;
    double sz = r.logUni(0.05, 20);
    if (r.coin(0.3)) sz = 1;
    s.size = sz;
    switch (kind) {
    case HALFSPACE: {
        auto p = std::make_shared<ContactGeometry::HalfSpace>(); s.holder = p; s.g = p.get();
    } break;
    case SPHERE: {
        s.R = sz; auto p = std::make_shared<ContactGeometry::Sphere>(s.R); s.holder = p; s.g = p.get();
    } break;
    case ELLIPSOID: {
        s.abc = aspectDims(r, sz); s.size = std::max(s.abc[0], std::max(s.abc[1], s.abc[2]));
        auto p = std::make_shared<ContactGeometry::Ellipsoid>(s.abc); s.holder = p; s.g = p.get(); s.ell = p.get();
    } break;
    case CYLINDER: {
        s.R = sz; auto p = std::make_shared<ContactGeometry::Cylinder>(s.R); s.holder = p; s.g = p.get();
    } break;
    case TORUS: {
        s.R = sz; s.r = sz * r.logUni(1.0 / 20, 0.9); s.size = s.R + s.r;
        auto p = std::make_shared<ContactGeometry::Torus>(s.R, s.r); s.holder = p; s.g = p.get();
    } break;
    case BRICK: {
        s.abc = aspectDims(r, sz); s.size = s.abc.norm();
        auto p = std::make_shared<ContactGeometry::Brick>(s.abc); s.holder = p; s.g = p.get(); s.brick = p.get();
    } break;
    case HEIGHTMAP: {
        int nx = r.integer(4, 7), ny = r.integer(4, 7);
        double dx = sz * r.uni(0.5, 1.5), dy = sz * r.uni(0.5, 1.5);
        bool regular = r.coin();
        Vec2 o(r.sym(3 * sz), r.sym(3 * sz));
        if (r.coin(0.25)) o = Vec2(0);
        s.gx.resize(nx); s.gy.resize(ny); s.gf.resize(nx, ny);
        for (int i = 0; i < nx; ++i) s.gx[i] = o[0] + dx * (i + (regular || i == 0 ? 0 : r.sym(0.3)));
        for (int j = 0; j < ny; ++j) s.gy[j] = o[1] + dy * (j + (regular || j == 0 ? 0 : r.sym(0.3)));
        double k[8] = {sz * r.uni(0.1, 0.6), r.uni(0.3, 1.5) / dx, r.uni(0, 6), r.uni(0.3, 1.5) / dy, r.uni(0, 6),
                       r.sym(0.3), r.sym(0.3), r.sym(0.1) / sz};
        for (int i = 0; i < nx; ++i) for (int j = 0; j < ny; ++j) s.gf(i, j) = heightFn(s.gx[i] - o[0], s.gy[j] - o[1], k);
        s.interpolating = r.coin(0.7);
        double smooth = s.interpolating ? 0 : r.uni(0.05, 0.5);
        if (regular) s.surf = std::make_shared<BicubicSurface>(o, Vec2(dx, dy), s.gf, smooth);
        else s.surf = std::make_shared<BicubicSurface>(s.gx, s.gy, s.gf, smooth);
        s.lo = s.surf->getMinXY(); s.hi = s.surf->getMaxXY();
        s.size = std::max(s.hi[0] - s.lo[0], s.hi[1] - s.lo[1]);
        auto p = std::make_shared<ContactGeometry::SmoothHeightMap>(*s.surf); s.holder = p; s.g = p.get();
        s.desc = regular ? "regular" : "irregular";
    } break;
    case MESH: {
        int which = r.integer(0, 2);
        if (which == 0) s.mesh = genSphereMesh(r, r.integer(0, 2), aspectDims(r, sz), r.coin() ? 0.0 : 0.05);
        else if (which == 1) s.mesh = genBoxMesh(r, r.integer(1, 3), r.integer(1, 3), r.integer(1, 3), aspectDims(r, sz), 0);
        else { double R = sz, rt = sz * r.uni(0.15, 0.6); s.mesh = genTorusMesh(r, r.integer(5, 10), r.integer(4, 7), R, rt, 0); }
        if (r.coin()) { meshTransform(s.mesh, Transform(randRotation(r), randBox(r, 2 * sz))); meshFinish(s.mesh); }
        s.size = s.mesh.scale;
        Array_<Vec3> vv(s.mesh.v.begin(), s.mesh.v.end());
        Array_<int> ff(s.mesh.f.begin(), s.mesh.f.end());
        auto p = std::make_shared<ContactGeometry::TriangleMesh>(vv, ff, false); s.holder = p; s.g = p.get(); s.tm = p.get();
    } break;
    default: break;
    }
    s.keyName = s.name();
    if (kind == ELLIPSOID) {
        int eq = (s.abc[0] == s.abc[1]) + (s.abc[1] == s.abc[2]) + (s.abc[0] == s.abc[2]);
        if (eq == 3) s.keyName = "ellipsoid-sphere"; else if (eq >= 1) s.keyName = "ellipsoid-spheroid";
    }
    return s;
}

// ---------------------------------------------------------------- harness closed forms
// positive inside, "algebraic" (only the sign and zero set are meaningful for ellipsoid / height map)
inline LD insideValue(const Shape& s, const V3& x) {
    switch (s.kind) {
    case HALFSPACE: return x.x;
    case SPHERE: return s.R - norm(x);
    case ELLIPSOID: return 1 - (x.x / s.abc[0]) * (x.x / s.abc[0]) - (x.y / s.abc[1]) * (x.y / s.abc[1]) - (x.z / s.abc[2]) * (x.z / s.abc[2]);
    case CYLINDER: return s.R - std::sqrt(x.x * x.x + x.y * x.y);
    case TORUS: { LD rho = std::sqrt(x.x * x.x + x.y * x.y); return s.r - std::sqrt((rho - s.R) * (rho - s.R) + x.z * x.z); }
    case BRICK: {
        LD q[3] = {std::fabs(x.x) - s.abc[0], std::fabs(x.y) - s.abc[1], std::fabs(x.z) - s.abc[2]};
        LD mx = std::max(q[0], std::max(q[1], q[2]));
        if (mx <= 0) return -mx;
        LD o = 0; for (int i = 0; i < 3; ++i) if (q[i] > 0) o += q[i] * q[i];
        return -std::sqrt(o);
    }
    case HEIGHTMAP: return (LD)s.surf->calcValue(Vec2((double)x.x, (double)x.y)) - x.z;
    default: return 0;
    }
}
// exact distance to the surface where a closed form exists; returns false otherwise
inline bool exactDistance(const Shape& s, const V3& x, LD& d) {
    switch (s.kind) {
    case HALFSPACE: case SPHERE: case CYLINDER: case TORUS: case BRICK: d = std::fabs(insideValue(s, x)); return true;
    case ELLIPSOID: { V3 p; d = ellipsoidDist(s.abc, x, p); return true; }
    case MESH: d = bfNearest(s.mesh, x).dist; return true;
    default: return false;
    }
}
// parametric surface point and outward normal, (u,v) in [0,1)^2; focus/L give locality for unbounded shapes
struct SurfPt { Vec3 p, n; bool smooth = true; };
inline SurfPt surfPoint(const Shape& s, double u, double v, const Vec3& focus, double L) {
    SurfPt o;
    switch (s.kind) {
    case HALFSPACE: o.p = Vec3(0, focus[1] + (2 * u - 1) * L, focus[2] + (2 * v - 1) * L); o.n = Vec3(-1, 0, 0); break;
    case SPHERE: case ELLIPSOID: {
        double ph = 2 * PI * u, ct = 2 * v - 1, st = std::sqrt(std::max(0.0, 1 - ct * ct));
        Vec3 d(st * std::cos(ph), st * std::sin(ph), ct);
        if (s.kind == SPHERE) { o.p = s.R * d; o.n = d; }
        else { o.p = Vec3(s.abc[0] * d[0], s.abc[1] * d[1], s.abc[2] * d[2]);
               Vec3 n(d[0] / s.abc[0], d[1] / s.abc[1], d[2] / s.abc[2]); o.n = n / n.norm(); }
    } break;
    case CYLINDER: { double ph = 2 * PI * u; o.n = Vec3(std::cos(ph), std::sin(ph), 0); o.p = s.R * o.n + Vec3(0, 0, focus[2] + (2 * v - 1) * L); } break;
    case TORUS: {
        double a = 2 * PI * u, b = 2 * PI * v;
        Vec3 e(std::cos(a), std::sin(a), 0);
        o.n = std::cos(b) * e + std::sin(b) * Vec3(0, 0, 1);
        o.p = s.R * e + s.r * o.n;
    } break;
    case BRICK: {
        double fu = 6 * u; int face = std::min(5, (int)fu); double a = 2 * (fu - face) - 1, b = 2 * v - 1;
        int ax = face % 3, sg = face < 3 ? -1 : 1, i1 = (ax + 1) % 3, i2 = (ax + 2) % 3;
        o.p = Vec3(0); o.p[ax] = sg * s.abc[ax]; o.p[i1] = a * s.abc[i1]; o.p[i2] = b * s.abc[i2];
        o.n = Vec3(0); o.n[ax] = sg; o.smooth = false;
    } break;
    case HEIGHTMAP: {
        double x = s.lo[0] + u * (s.hi[0] - s.lo[0]), y = s.lo[1] + v * (s.hi[1] - s.lo[1]);
        x = std::min(std::max(x, s.lo[0]), s.hi[0]); y = std::min(std::max(y, s.lo[1]), s.hi[1]);
        BicubicSurface::PatchHint hint;
        o.p = Vec3(x, y, s.surf->calcValue(Vec2(x, y), hint));
        Array_<int> dx, dy; dx.push_back(0); dy.push_back(1);
        double fx = s.surf->calcDerivative(dx, Vec2(x, y), hint), fy = s.surf->calcDerivative(dy, Vec2(x, y), hint);
        Vec3 n(-fx, -fy, 1); o.n = n / n.norm();
    } break;
    case MESH: {
        double fu = s.mesh.nf() * u; int face = std::min(s.mesh.nf() - 1, (int)fu); double a = fu - face, b = v;
        if (a + b > 1) { a = 1 - a; b = 1 - b; }
        V3 A = s.mesh.vert(face, 0), B = s.mesh.vert(face, 1), C = s.mesh.vert(face, 2);
        o.p = toVec3(A + (LD)a * (B - A) + (LD)b * (C - A));
        V3 n = cross(B - A, C - A); o.n = toVec3((1 / norm(n)) * n); o.smooth = false;
    } break;
    default: break;
    }
    return o;
}

// best distance from x to the surface found by stratified + random sampling and local refinement in (u,v)
inline double sampledBestDistance(const Shape& s, const Vec3& x, const Vec3& focus, double L, vh::Rng& r, int grid = 36) {
    double best = Infinity, bu = 0, bv = 0;
    auto eval = [&](double u, double v) {
        u -= std::floor(u); v -= std::floor(v);
        double d = (surfPoint(s, u, v, focus, L).p - x).norm();
        if (d < best) { best = d; bu = u; bv = v; return true; }
        return false;
    };
    for (int i = 0; i < grid; ++i) for (int j = 0; j < grid; ++j) eval((i + 0.5) / grid, (j + 0.5) / grid);
    for (int i = 0; i < 300; ++i) eval(r.uni(), r.uni());
    double rad = 1.0 / grid;
    for (int it = 0; it < 70; ++it) {
        bool imp = false;
        double cu = bu, cv = bv;
        for (int k = 0; k < 8; ++k) if (eval(cu + rad * r.sym(), cv + rad * r.sym())) imp = true;
        static const double D[4][2] = {{1, 0}, {-1, 0}, {0, 1}, {0, -1}};
        for (int k = 0; k < 4; ++k) if (eval(cu + rad * D[k][0], cv + rad * D[k][1])) imp = true;
        if (!imp) rad *= 0.5;
        if (rad < 1e-12) break;
    }
    return best;
}

// analytic principal curvatures (kmax >= kmin, convex positive) at a surface point, where known
inline bool analyticCurvature(const Shape& s, const Vec3& p, double& kmax, double& kmin) {
    switch (s.kind) {
    case HALFSPACE: kmax = kmin = 0; return true;
    case SPHERE: kmax = kmin = 1 / s.R; return true;
    case CYLINDER: kmax = 1 / s.R; kmin = 0; return true;
    case TORUS: {
        double rho = std::sqrt(p[0] * p[0] + p[1] * p[1]);
        double cv = (rho - s.R) / s.r;
        double k1 = 1 / s.r, k2 = cv / rho;
        kmax = std::max(k1, k2); kmin = std::min(k1, k2); return true;
    }
    case ELLIPSOID: {
        double a2 = s.abc[0] * s.abc[0], b2 = s.abc[1] * s.abc[1], c2 = s.abc[2] * s.abc[2];
        double q = p[0] * p[0] / (a2 * a2) + p[1] * p[1] / (b2 * b2) + p[2] * p[2] / (c2 * c2);
        double h = 1 / std::sqrt(q);
        double K = h * h * h * h / (a2 * b2 * c2);
        double Hm = h * h * h * (a2 + b2 + c2 - p.normSqr()) / (2 * a2 * b2 * c2);
        double d = std::sqrt(std::max(0.0, Hm * Hm - K));
        kmax = Hm + d; kmin = Hm - d; return true;
    }
    default: return false;
    }
}

}  // namespace c34
