// array_seq.h — lock-step Array_<E,X> vs std::vector<E> sequence driver for mon_array (C26).
#pragma once
#include "array_elems.h"
#include "SimTKcommon.h"
#include <list>
#include <memory>
#include <type_traits>

namespace c26 {
using vh::Json;

template <class E, class X> struct ArraySeq {
    typedef SimTK::Array_<E, X> A;
    typedef typename A::size_type ST;
    typedef typename std::conditional<std::is_same<X, long long>::value, unsigned, long long>::type X2;
    typedef SimTK::Array_<E, X2> A2;
    typedef SimTK::ArrayView_<E, X> AV;
    typedef SimTK::ArrayViewConst_<E, X> AVC;
    static constexpr bool CP = std::is_copy_constructible<E>::value;
    static constexpr bool TR = !std::is_same<E, int>::value;
    enum { K = 3 };

    vh::Ctx& c; vh::Rng& r;
    const char* xname; const char* ename;
    bool aliasOn, bigBias;
    std::unique_ptr<A> a[K];
    std::vector<E> m[K];
    long maxSize, maxN;
    std::string op, aliasKeyOp;
    std::vector<std::string> hist;
    struct Pre { const void* data; long cap, size; } pre;
    int kcur = 0, nfail = 0;
    long slack = 0;
    bool dead = false, needResync = false;

    ArraySeq(vh::Ctx& c_, vh::Rng& r_, const char* xn, bool alias)
        : c(c_), r(r_), xname(xn), ename(ElemName<E>::name()), aliasOn(alias) {
        unsigned long long ms = (unsigned long long)SimTK::ArrayIndexTraits<X>::max_size();
        maxSize = (long)std::min<unsigned long long>(ms, 1ULL << 40);
        maxN = std::min(maxSize, 300L);
        bigBias = maxSize <= 255 && maxSize > 16;
    }

    // ------------------------------------------------------------ small helpers
    static X ix(long i) { return X(ST(i)); }
    long sz(int k) const { return (long)a[k]->size(); }
    int val() { return r.integer(1, 9999); }
    static E mk(int v) { return E(v); }
    void log(const std::string& s) { hist.push_back(s); if (c.args.verbose) fprintf(stderr, "  op %zu: %s\n", hist.size(), s.c_str()); }
    long pickSize(long hi) {
        static const long B[] = {0, 1, 2, 3, 4, 5, 7, 8, 9, 15, 16, 17, 31, 32, 33, 63, 64, 65, 127, 128, 129, 254, 255};
        if (hi <= 0) return 0;
        double u = r.uni();
        if (u < (bigBias ? 0.35 : 0.6)) return r.integer(0, (int)std::min(hi, 12L));
        if (u < 0.92) {
            long lim = bigBias ? hi : std::min(hi, r.coin(0.12) ? 300L : 40L);
            int nb = 0; for (long b : B) if (b <= lim) ++nb;
            return B[r.integer(0, nb - 1)];
        }
        return r.integer(0, (int)std::min(hi, bigBias ? hi : 80L));
    }
    long room(int k) const { return maxN - sz(k); }
    int otherSlot(int k) { return (k + r.integer(1, K - 1)) % K; }
    // make a harness-side vector of n fresh values
    std::vector<int> freshVals(long n) { std::vector<int> v; for (long i = 0; i < n; ++i) v.push_back(val()); return v; }
    static std::vector<E> mkVec(const std::vector<int>& vals) { std::vector<E> v; v.reserve(vals.size()); for (int x : vals) v.emplace_back(x); return v; }

    struct Cnt { unsigned long c, d, as, def, cp, mv; };
    static Cnt snap() { return Cnt{g.nCtor, g.nDtor, g.nAssign, g.nDef, g.nCopy, g.nMove}; }
    // compare constructor/destructor call counts of a library call with what is documented (-1: not checked)
    void expectCnt(const Cnt& s, long dc, long dd, const char* what) {
        if (!TR) return;
        long gc = (long)(g.nCtor - s.c), gd = (long)(g.nDtor - s.d);
        if ((dc >= 0 && gc != dc) || (dd >= 0 && gd != dd))
            fail(std::string("call-count:") + what, Json::obj().set("ctor_calls", gc).set("ctor_expected", dc).set("dtor_calls", gd).set("dtor_expected", dd));
    }

    // ------------------------------------------------------------ violation reporting
    void fail(const std::string& what, Json w = Json::obj(), const std::string& explicitKey = "") {
        std::string key = !explicitKey.empty() ? explicitKey
                        : !aliasKeyOp.empty() ? "array:alias-value:" + aliasKeyOp
                        : F("array:%s:%s:%s", ename, op.c_str(), what.c_str());
        w.set("what", what).set("elem", ename).set("index_type", xname).set("op", op);
        Json h = Json::arr();
        size_t b = hist.size() > 14 ? hist.size() - 14 : 0;
        for (size_t i = b; i < hist.size(); ++i) h.push(hist[i]);
        w.set("history_tail", h).set("ops_so_far", (long)hist.size());
        c.viol(key, w);
        needResync = true;
        if (++nfail >= 4) dead = true;
    }
    void flushFaults() {
        if (g.faults.empty()) return;
        auto fs = g.faults; g.faults.clear();
        std::set<std::string> seen;
        for (auto& f : fs) if (seen.insert(f.first).second) fail(f.first, Json::obj().set("in", f.second).set("faults_in_op", (long)fs.size()));
    }

    // ------------------------------------------------------------ lock-step verification
    template <class AA> bool sameAs(const AA& x, const std::vector<E>& v) const {
        if ((long)(x.end() - x.begin()) != (long)v.size()) return false;
        const E* p = x.begin();
        for (size_t i = 0; i < v.size(); ++i) if (valOf(p[i]) != valOf(v[i])) return false;
        return true;
    }
    void verify(int k) {
        A& x = *a[k]; const A& cx = x; std::vector<E>& v = m[k];
        long n = (long)x.size();
        if (n != (long)v.size()) { fail("size-mismatch", Json::obj().set("slot", k).set("got", n).set("want", (long)v.size())); return; }
        if ((long)x.capacity() < n) fail("capacity<size");
        if (x.empty() != v.empty()) fail("empty-mismatch");
        if (!x.isOwner()) fail("owner-flag-lost");
        if ((long)x.allocated() != (long)x.capacity()) fail("allocated!=capacity");
        if (x.end() - x.begin() != n || cx.cend() - cx.cbegin() != n || cx.end() - cx.begin() != n || x.data() != x.begin() || cx.cdata() != cx.begin() || cx.data() != cx.cbegin())
            fail("iterator-mismatch");
        if ((long)std::min<unsigned long long>((unsigned long long)x.max_size(), 1ULL << 40) != maxSize) fail("max_size-mismatch");
        for (long i = 0; i < n; ++i) {
            const E& e = cx[ix(i)];
            if (TR && !g.isLive(&e)) { fail("element-not-live", Json::obj().set("slot", k).set("index", i)); return; }
            if (valOf(e) != valOf(v[i])) { fail("value-mismatch", Json::obj().set("slot", k).set("index", i).set("got", valOf(e)).set("want", valOf(v[i])).set("size", n)); return; }
        }
        if (n > 0) {
            long i = r.integer(0, (int)n - 1);
            if (valOf(cx.front()) != valOf(v.front()) || valOf(cx.back()) != valOf(v.back()) || valOf(x.front()) != valOf(v.front()) || valOf(x.back()) != valOf(v.back()))
                fail("front-back-mismatch");
            if (valOf(cx.at(ix(i))) != valOf(v[i]) || valOf(x.at(ix(i))) != valOf(v[i]) || valOf(cx.getElt(ix(i))) != valOf(v[i]) || valOf(x.updElt(ix(i))) != valOf(v[i])
                || valOf(*(x.begin() + i)) != valOf(v[i]) || valOf(x[ix(i)]) != valOf(v[i]))
                fail("accessor-mismatch");
            if (r.coin(0.15)) {
                auto it = cx.rbegin(); auto jt = x.rbegin(); auto kt = cx.crbegin(); auto vt = v.rbegin(); long cnt = 0; bool ok = true;
                for (; it != cx.rend() && vt != v.rend(); ++it, ++jt, ++kt, ++vt, ++cnt)
                    if (valOf(*it) != valOf(*vt) || valOf(*jt) != valOf(*vt) || valOf(*kt) != valOf(*vt)) ok = false;
                if (!ok || cnt != n || it != cx.rend() || jt != x.rend() || kt != cx.crend()) fail("reverse-iterator-mismatch");
            }
        } else if (x.begin() != x.end()) fail("iterator-mismatch");
        if (TR) {
            long cap = (long)x.capacity();
            for (long i = n; i < cap; ++i) {
                if (i >= n + 8 && i < cap - 1) continue;
                if (g.isLive(x.data() + i)) { fail("live-object-in-spare-capacity", Json::obj().set("slot", k).set("index", i).set("size", n)); break; }
            }
        }
    }
    long wantLive() const { long w = 0; for (int k = 0; k < K; ++k) w += (long)a[k]->size() + (long)m[k].size(); return w; }
    void verifyAll() {
        for (int k = 0; k < K && !dead; ++k) verify(k);
        if (TR && !needResync) {
            long want = wantLive() + slack;
            if ((long)g.live.size() != want)
                fail("live-count-mismatch", Json::obj().set("live_objects", (long)g.live.size()).set("expected", want));
        }
        c.require("array:lockstep", true, nullptr);
    }
    void resync() {
        needResync = false;
        for (int k = 0; k < K; ++k) {
            A& x = *a[k]; long n = (long)x.size();
            if (n < 0 || n > 100000 || (long)x.capacity() < n) { dead = true; return; }
            m[k].clear();
            for (long i = 0; i < n; ++i) {
                if (TR && !g.isLive(&x[ix(i)])) { dead = true; return; }   // array holds a destroyed element: nothing sensible can follow
                m[k].push_back(mk(valOf(x[ix(i)])));
            }
        }
        g.faults.clear();
        if (TR) {
            // forget stale registrations left in unconstructed slots so that later ops are not blamed for them
            for (int k = 0; k < K; ++k) { A& x = *a[k]; for (long i = (long)x.size(); i < (long)x.capacity(); ++i) g.live.erase(x.data() + i); }
            slack = (long)g.live.size() - wantLive();
        }
    }

    // ------------------------------------------------------------ op bookkeeping
    void begin(const char* name, int k) {
        op = name; kcur = k; aliasKeyOp.clear();
        pre.data = a[k]->data(); pre.cap = (long)a[k]->capacity(); pre.size = sz(k);
        c.setPhase(op);
    }
    void done(bool alias = false) {
        bool re = a[kcur]->data() != pre.data || (long)a[kcur]->capacity() != pre.cap;
        c.cover(F("%s/%s/%s/%s/%s", op.c_str(), ename, szClass(pre.size), re ? "R" : "N", alias ? "A" : "-"));
        c.cover(F("ix/%s/%s", xname, op.c_str()));
    }
    // An operation that adds addN elements to slot k. Exceeding max_size() is a client error (the
    // library checks it in Debug builds only, TestArray: MUST_THROW_DEBUG), so it is never attempted;
    // growth that stays within max_size() must not throw. Returns true if performed.
    template <class Fn> bool growOp(int k, long addN, Fn f) {
        if (sz(k) + addN > maxSize) { c.obs("precondition-skip:growth-beyond-max_size"); return false; }
        try { f(); }
        catch (const std::exception& e) {
            fail("exception-below-max_size", Json::obj().set("size", sz(k)).set("capacity", (long)a[k]->capacity()).set("adding", addN).set("max_size", maxSize).set("exception", vh::firstLine(e.what(), 300)),
                 F("array:small-index:%s:exception-below-max_size", op.c_str()));
            needResync = false;  // the exception is thrown before anything is modified; verifyAll checks that the state is unchanged
            return false;
        }
        return true;
    }

    struct OpEntry { const char* name; int w; bool needCopy; void (ArraySeq::*fn)(int); };

#include "array_seq_ops1.inc"
#include "array_seq_ops2.inc"

    static const std::vector<OpEntry>& table() {
        static std::vector<OpEntry> t;
        if (t.empty()) { addOps1(t); addOps2(t); }
        return t;
    }
    void step() {
        const std::vector<OpEntry>& t = table();
        static int total = 0;
        if (!total) for (auto& e : t) total += e.w;
        const OpEntry* e = nullptr;
        for (int tries = 0; tries < 50; ++tries) {
            int w = r.integer(0, total - 1);
            for (auto& x : t) { if (w < x.w) { e = &x; break; } w -= x.w; }
            if (CP || !e->needCopy) break;
            e = nullptr;
        }
        if (!e) return;
        int k = r.integer(0, K - 1);
        try { (this->*(e->fn))(k); }
        catch (const std::exception& ex) { fail("unexpected-exception", Json::obj().set("exception", vh::firstLine(ex.what(), 300))); }
        aliasKeyOpHold();
        flushFaults();
        if (!dead) verifyAll();
        aliasKeyOp.clear();
        if (needResync && !dead) resync();
    }
    void aliasKeyOpHold() {}

    void run() {
        g.faults.clear(); g.live.clear(); g.resetCounters();
        for (int k = 0; k < K; ++k) a[k].reset(new A());
        int nops = r.coin(0.2) ? r.integer(150, 300) : r.integer(20, 150);
        for (int i = 0; i < nops && !dead; ++i) step();
        if (c.wantSample()) {
            Json h = Json::arr(); for (size_t i = 0; i < hist.size() && i < 12; ++i) h.push(hist[i]);
            c.sample(Json::obj().set("elem", ename).set("index_type", xname).set("ops", (long)hist.size()).set("first_ops", h));
        }
        // teardown: every element must be destroyed exactly once
        op = "teardown"; c.setPhase(op); aliasKeyOp.clear();
        for (int k = 0; k < K; ++k) { a[k].reset(); std::vector<E>().swap(m[k]); }
        if (dead) g.faults.clear();
        flushFaults();
        if (TR && (long)g.live.size() != slack && !dead)
            fail("leak", Json::obj().set("live_objects_after_teardown", (long)g.live.size()).set("expected", slack));
        c.require("array:teardown", true, nullptr);
        c.obs("array-ops", (long)hist.size());
        g.live.clear(); g.faults.clear();
    }
};

} // namespace c26
