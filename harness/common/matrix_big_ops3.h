// matrix_big_ops3.h — included inside class mx::Engine<B>: arithmetic (in place and expressions), queries.

std::string pairKey(const std::string& op, const Obj& a, const Obj& b) const {
    return op + ":" + typeName(a.t) + "," + typeName(b.t);   // object kinds are in the history of the witness
}
// Scalar pairs for which the negator<>/conjugate<> operators themselves return a wrong value (finding
// of the scalar part, keyed "scalar:<op>:<A>,<B>"): matrix operations built on such a pair are
// generated at a reduced rate and reported under the key of that root cause.
static bool defectivePair(bool div, int ta, int tb) { return Cplx && ((!div && ta == 3 && tb == 1) || (div && (ta == 2 || ta == 3) && tb == 1)); }
std::string rootKey(bool div, int ta, int tb) const { return std::string("scalar:") + (div ? "/" : "*") + ":" + typeName(ta) + "," + typeName(tb); }
bool smallAny(const Obj& o, double lim = 0.05) const {
    for (int e = 0; e < o.nr * o.nc; ++e) for (int k = 0; k < K; ++k) { C x = lget(o, e, k); if (!(std::abs(x) >= lim)) return true; }
    return false;
}

// ---------------------------------------------------------------- in-place arithmetic
bool op_inplace() {
    Obj* d = pick([](const Obj& o) { return o.writable; }); if (!d) return false;
    int v = r.integer(0, 6);
    static const char* nm[] = {"+=", "-=", "*=scalar", "/=scalar", "+=element", "-=element", "negateInPlace"};
    Obj* s = nullptr;
    if (v <= 1) {
        s = pick([&](const Obj& o) { return (o.t == d->t || o.t == (d->t ^ 1)) && o.nr == d->nr && o.nc == d->nc && okSource(*d, o) && sameShapeClassOrMatrix(*d, o); });
        if (!s) return false;
    }
    C sc = randNonzeroScalar(); C ev[K]; randEltVals(ev);
    std::vector<LC> D = logical(*d), S; if (s) S = logical(*s);
    std::vector<LC> ref(D.size()); std::vector<LD> tol(D.size(), 0);
    const bool mat = shapeOf(d->kind) == 0;
    for (int j = 0; j < d->nc; ++j) for (int i = 0; i < d->nr; ++i) for (int k = 0; k < K; ++k) {
        size_t q = (size_t)(i + j * d->nr) * K + k; LC x = D[q];
        switch (v) {
        case 0: ref[q] = x + S[q]; tol[q] = tolOf(absLC(x) + absLC(S[q]), 1); break;
        case 1: ref[q] = x - S[q]; tol[q] = tolOf(absLC(x) + absLC(S[q]), 1); break;
        case 2: ref[q] = x * toLC(sc); tol[q] = tolOf(absLC(x) * absLC(toLC(sc)), 2); break;
        case 3: ref[q] = x / toLC(sc); tol[q] = tolOf(absLC(x) / absLC(toLC(sc)), 4); break;
        case 4: if (!mat || i == j) { ref[q] = x + toLC(ev[k]); tol[q] = tolOf(absLC(x) + absLC(toLC(ev[k])), 1); } else ref[q] = x; break;
        case 5: if (!mat || i == j) { ref[q] = x - toLC(ev[k]); tol[q] = tolOf(absLC(x) + absLC(toLC(ev[k])), 1); } else ref[q] = x; break;
        case 6: ref[q] = -x; break;
        }
    }
    log(std::string(nm[v]) + " on " + tag(*d) + (s ? " with " + tag(*s) : ""));
    withT(d->t, [&](auto tt) {
        constexpr int T = decltype(tt)::value; typedef EltT<T> E;
        withObj<T>(*d, [&](auto& dst) {
            typedef std::decay_t<decltype(dst)> DT;
            constexpr bool isV = std::is_base_of<VectorBase<E>, DT>::value, isR = std::is_base_of<RowVectorBase<E>, DT>::value;
            if (v <= 1) {
                auto apply = [&](const auto& src) { if (v == 0) dst += src; else dst -= src; };
                if (s->t == d->t) { if constexpr (isV) apply(asVec<T>(*s)); else if constexpr (isR) apply(asRow<T>(*s)); else apply(asBase<T>(*s)); }
                else { constexpr int TN = T ^ 1; if constexpr (isV) apply(asVec<TN>(*s)); else if constexpr (isR) apply(asRow<TN>(*s)); else apply(asBase<TN>(*s)); }
            }
            else if (v == 2) dst *= mkSN(sc);
            else if (v == 3) dst /= mkSN(sc);
            else if (v == 4) dst += mkElt<E>(ev);
            else if (v == 5) dst -= mkElt<E>(ev);
            else dst.negateInPlace();
        });
    });
    std::string key = s ? pairKey(nm[v], *d, *s) : okey(nm[v], *d);
    cover(nm[v], *d); if (s) cover(std::string("rhs-of-") + nm[v], *s);
    checkTarget("arith:" + key, *d, ref, tol);
    compareAll(key, d);
    return true;
}

// elementwise in-place family
bool op_elementwiseInplace() {
    Obj* d = pick([](const Obj& o) { return o.writable; }); if (!d) return false;
    int v = IsScalar ? r.integer(0, 9) : r.integer(1, 3);
    static const char* nm[] = {"elementwiseInvertInPlace", "elementwiseAddScalarInPlace", "elementwiseSubtractScalarInPlace", "elementwiseSubtractFromScalarInPlace",
                               "elementwiseMultiplyInPlace", "elementwiseMultiplyFromLeftInPlace", "elementwiseDivideInPlace", "elementwiseDivideFromLeftInPlace",
                               "rowScaleInPlace", "colScaleInPlace"};
    Obj* s = nullptr;
    if (v >= 4 && v <= 7) { s = pick([&](const Obj& o) { return (!Cplx || (o.t == 0 && d->t == 0)) && o.nr == d->nr && o.nc == d->nc && okSource(*d, o) && sameShapeClassOrMatrix(*d, o) && !(v == 6 && smallAny(o)); }); if (!s) return false; }
    if (v == 8) { if (shapeOf(d->kind) == 2) return false; s = pick([&](const Obj& o) { return shapeOf(o.kind) == 1 && o.nr == d->nr && !sharesMemory(*d, o) && !(Cplx && o.t == 3); }); if (!s) return false; }
    if (v == 9) { if (shapeOf(d->kind) == 1) return false; s = pick([&](const Obj& o) { return shapeOf(o.kind) == 1 && o.nr == d->nc && !sharesMemory(*d, o) && !(Cplx && o.t == 3); }); if (!s) return false; }
    if ((v == 0 || v == 7) && smallAny(*d)) return false;
    C ev[K]; randEltVals(ev);
    std::vector<LC> D = logical(*d), S; if (s) S = logical(*s);
    std::vector<LC> ref(D.size()); std::vector<LD> tol(D.size(), 0);
    for (int j = 0; j < d->nc; ++j) for (int i = 0; i < d->nr; ++i) for (int k = 0; k < K; ++k) {
        size_t q = (size_t)(i + j * d->nr) * K + k; LC x = D[q], y; LC e = toLC(ev[k]);
        switch (v) {
        case 0: ref[q] = LC(1) / x; tol[q] = tolOf(absLC(ref[q]), 2); break;
        case 1: ref[q] = x + e; tol[q] = tolOf(absLC(x) + absLC(e), 1); break;
        case 2: ref[q] = x - e; tol[q] = tolOf(absLC(x) + absLC(e), 1); break;
        case 3: ref[q] = e - x; tol[q] = tolOf(absLC(x) + absLC(e), 1); break;
        case 4: case 5: y = S[q]; ref[q] = x * y; tol[q] = tolOf(absLC(x) * absLC(y), 2); break;
        case 6: y = S[q]; ref[q] = x / y; tol[q] = tolOf(absLC(ref[q]), 4); break;
        case 7: y = S[q]; ref[q] = y / x; tol[q] = tolOf(absLC(ref[q]), 4); break;
        case 8: y = S[i]; ref[q] = x * y; tol[q] = tolOf(absLC(x) * absLC(y), 2); break;
        case 9: y = S[j]; ref[q] = x * y; tol[q] = tolOf(absLC(x) * absLC(y), 2); break;
        }
    }
    log(std::string(nm[v]) + " on " + tag(*d) + (s ? " with " + tag(*s) : ""));
    withT(d->t, [&](auto tt) {
        constexpr int T = decltype(tt)::value; typedef EltT<T> E;
        if (v <= 3) {
            E e = mkElt<E>(ev); MatrixBase<E>& m = asBase<T>(*d);
            if (v == 0) { if constexpr (IsScalar) withShape<T>(*d, [&](auto& x) { x.elementwiseInvertInPlace(); }); }
            else if (v == 1) m.elementwiseAddScalarInPlace(e); else if (v == 2) m.elementwiseSubtractScalarInPlace(e); else m.elementwiseSubtractFromScalarInPlace(e);
            return;
        }
        if constexpr (IsScalar) {
            withT(s->t, [&](auto ts) {
                constexpr int TS = decltype(ts)::value; typedef EltT<TS> ES;
                if constexpr (!(Cplx && TS == 3)) {   // negator<conjugate> does not convert to the scale factor type (compile time)
                if (v == 8) { if (shapeOf(d->kind) == 1) asVec<T>(*d).rowScaleInPlace(asVec<TS>(*s)); else asBase<T>(*d).rowScaleInPlace(asVec<TS>(*s)); return; }
                if (v == 9) { if (shapeOf(d->kind) == 2) asRow<T>(*d).colScaleInPlace(asVec<TS>(*s)); else asBase<T>(*d).colScaleInPlace(asVec<TS>(*s)); return; }
                }
                // std::complex<> has no compound assignment from negator<>/conjugate<>: mixed-type
                // in-place elementwise products are ill-formed for complex elements (compile time)
                if constexpr (Cplx && (T != 0 || TS != 0)) return;
                else {
                auto run = [&](auto& x, const auto& y) {
                    if (v == 4) x.template elementwiseMultiplyInPlace<ES>(y); else if (v == 5) x.template elementwiseMultiplyFromLeftInPlace<ES>(y);
                    else if (v == 6) x.template elementwiseDivideInPlace<ES>(y); else x.template elementwiseDivideFromLeftInPlace<ES>(y);
                };
                int sh = shapeOf(d->kind);
                if (sh == 1) run(asVec<T>(*d), asVec<TS>(*s)); else if (sh == 2) run(asRow<T>(*d), asRow<TS>(*s)); else run(asBase<T>(*d), asBase<TS>(*s));
                }
            });
        }
    });
    std::string key = s ? pairKey(nm[v], *d, *s) : okey(nm[v], *d);
    cover(nm[v], *d);
    checkTarget("arith:" + key, *d, ref, tol);
    compareAll(key, d);
    return true;
}

// ---------------------------------------------------------------- expression results
// Check a freshly computed library result (any element type) against the reference; if its
// element type belongs to the family it may be adopted as a new live owner object.
template <class ResT> void finishResult(const std::string& key, const ResT& res, int nr, int nc, int KR,
                                        const std::vector<LC>& ref, const std::vector<LD>& tol, bool mayAdopt, const std::string& arithKey = "") {
    typedef typename ResT::E RE; typedef typename ET<RE>::P RP;
    static_assert(std::is_same<RP, P>::value, "result precision");
    int gr, gc; std::vector<std::complex<RP>> got;
    readAny(static_cast<const MatrixBase<RE>&>(res), gr, gc, got);
    if (gr != nr || gc != nc || (int)ET<RE>::K != KR)
        fail("shape:" + key, vh::Json::obj().set("lib_nrow", gr).set("lib_ncol", gc).set("expected_nrow", nr).set("expected_ncol", nc).set("elt", ET<RE>::name()));
    checkVals(arithKey.empty() ? "arith:" + key : arithKey, got, ref, tol, "result of expression (" + ET<RE>::name() + ")");
    constexpr int TR = indexOfType<RE>();
    if constexpr (TR >= 0) {
        if (mayAdopt && pool.size() < 14 && r.coin(0.5)) {
            int kind = std::is_base_of<VectorBase<RE>, ResT>::value ? VO : std::is_base_of<RowVectorBase<RE>, ResT>::value ? RO : MO;
            void* p = nullptr;
            if (kind == VO) { if constexpr (std::is_base_of<VectorBase<RE>, ResT>::value) p = static_cast<MatrixBase<RE>*>(new Vector_<RE>(res)); }
            else if (kind == RO) { if constexpr (std::is_base_of<RowVectorBase<RE>, ResT>::value) p = static_cast<MatrixBase<RE>*>(new RowVector_<RE>(res)); }
            else p = static_cast<MatrixBase<RE>*>(new Matrix_<RE>(static_cast<const MatrixBase<RE>&>(res)));
            auto ow = newOwnerModel(nr, nc, TR);
            for (size_t q = 0; q < got.size(); ++q) ow->b[q] = toLog(TR, got[q]);
            Obj* o = add(kind, TR, p, ow, nr, nc, identityMap(nr * nc), true, true, 0, false, nr, nc);   // conservatively: never resized
            o->canClear = false;
            hist.back() += "  => adopted as " + tag(*o);
        }
    }
}

bool op_addSub() {
    // complex family: binary +/- of conjugate<>-element matrices is ill-formed in the library (compile time)
    Obj* a = pick([](const Obj& o) { return !Cplx || !(o.t & 2); }); if (!a) return false;
    Obj* b = pick([&](const Obj& o) { return (o.t == a->t || o.t == (a->t ^ 1)) && o.nr == a->nr && o.nc == a->nc; }); if (!b) return false;
    bool sub = r.coin();
    bool sameShape = shapeOf(a->kind) == shapeOf(b->kind);
    std::vector<LC> A = logical(*a), Bv = logical(*b), ref(A.size()); std::vector<LD> tol(A.size());
    for (size_t q = 0; q < A.size(); ++q) { ref[q] = sub ? A[q] - Bv[q] : A[q] + Bv[q]; tol[q] = tolOf(absLC(A[q]) + absLC(Bv[q]), 1); }
    log(tag(*a) + (sub ? " - " : " + ") + tag(*b));
    std::string key = pairKey(sub ? "binary-" : "binary+", *a, *b);
    cover(sub ? "binary-" : "binary+", *a); cover(sub ? "rhs-of-binary-" : "rhs-of-binary+", *b);
    withT(a->t, [&](auto ta) {
        constexpr int TA = decltype(ta)::value;
        auto go = [&](auto tb) {
            constexpr int TB = decltype(tb)::value;
            if constexpr (Cplx && ((TA | TB) & 2)) return; else {
            auto fin = [&](const auto& res) { finishResult(key, res, a->nr, a->nc, K, ref, tol, true); };
            int sh = sameShape ? shapeOf(a->kind) : 0;
            if (sh == 1) { if (sub) fin(asVec<TA>(*a) - asVec<TB>(*b)); else fin(asVec<TA>(*a) + asVec<TB>(*b)); }
            else if (sh == 2) { if (sub) fin(asRow<TA>(*a) - asRow<TB>(*b)); else fin(asRow<TA>(*a) + asRow<TB>(*b)); }
            else { if (sub) fin(asBase<TA>(*a) - asBase<TB>(*b)); else fin(asBase<TA>(*a) + asBase<TB>(*b)); }
            }
        };
        if (b->t == a->t) go(IC<TA>()); else go(IC<(TA ^ 1)>());
    });
    compareAll(key);
    return true;
}

bool op_scalarExpr() {
    Obj* a = pickAny(); if (!a) return false;
    int v = r.integer(0, 9);
    if (v >= 6 && (a->t & 1)) v -= 6;
    static const char* nm[] = {"x*scalar", "scalar*x", "x/scalar", "x*int", "int*x", "x/int", "x+element", "element+x", "x-element", "element-x"};
    C sc = randNonzeroScalar(); int iv = r.integer(1, 5) * (r.coin() ? 1 : -1); C ev[K]; randEltVals(ev);
    const bool mat = shapeOf(a->kind) == 0;
    std::vector<LC> A = logical(*a), ref(A.size()); std::vector<LD> tol(A.size(), 0);
    for (int j = 0; j < a->nc; ++j) for (int i = 0; i < a->nr; ++i) for (int k = 0; k < K; ++k) {
        size_t q = (size_t)(i + j * a->nr) * K + k; LC x = A[q], e = toLC(ev[k]); bool on = !mat || i == j;
        switch (v) {
        case 0: case 1: ref[q] = x * toLC(sc); tol[q] = tolOf(absLC(x) * absLC(toLC(sc)), 2); break;
        case 2: ref[q] = x / toLC(sc); tol[q] = tolOf(absLC(ref[q]), 4); break;
        case 3: case 4: ref[q] = x * LC(iv); tol[q] = tolOf(absLC(ref[q]), 2); break;
        case 5: ref[q] = x / LC(iv); tol[q] = tolOf(absLC(ref[q]), 4); break;
        case 6: case 7: ref[q] = on ? x + e : x; if (on) tol[q] = tolOf(absLC(x) + absLC(e), 1); break;
        case 8: ref[q] = on ? x - e : x; if (on) tol[q] = tolOf(absLC(x) + absLC(e), 1); break;
        case 9: ref[q] = on ? e - x : -x; tol[q] = tolOf(absLC(x) + absLC(e), 1); break;
        }
    }
    log(std::string(nm[v]) + " on " + tag(*a));
    std::string key = okey(nm[v], *a);
    cover(nm[v], *a);
    withT(a->t, [&](auto tt) {
        constexpr int T = decltype(tt)::value; typedef EltT<T> E; E e = mkElt<E>(ev); SN s = mkSN(sc);
        withShape<T>(*a, [&](auto& x0) {
            const auto& x = x0;
            auto fin = [&](const auto& res) { finishResult(key, res, a->nr, a->nc, K, ref, tol, true); };
            switch (v) {
            case 0: fin(x * s); break; case 1: fin(s * x); break; case 2: fin(x / s); break;
            case 3: fin(x * iv); break; case 4: fin(iv * x); break; case 5: fin(x / iv); break;
            default:
                // element +/- matrix: for negator<> element types the library's generic scalar
                // operator templates make these expressions ill-formed (compile time): not generated
                if constexpr ((T & 1) == 0) {
                    if (v == 6) fin(x + e); else if (v == 7) fin(e + x); else if (v == 8) fin(x - e); else fin(e - x);
                }
            }
        });
    });
    compareAll(key);
    return true;
}

// matrix*matrix, matrix*vector, row*vector
bool op_matmul() {
    int form = r.integer(0, 2);     // 0 M*M, 1 M*v, 2 r*v
    auto okL = [&](const Obj& o) { return IsScalar || NT == 2 || (o.t & 2); };
    auto okR = [&](const Obj& o) { return IsScalar || NT == 2 || !(o.t & 2); };
    Obj* a = pick([&](const Obj& o) { return okL(o) && (form != 2 || shapeOf(o.kind) == 2); }); if (!a) return false;
    Obj* b = pick([&](const Obj& o) { return okR(o) && o.nr == a->nc && (form == 0 || shapeOf(o.kind) == 1); }); if (!b) return false;
    if (!IsScalar && NT == 2) return false;
    if (hasNaN(*a) || hasNaN(*b)) { c.skip("nan-input"); return false; }
    const bool rootDefect = defectivePair(false, a->t, b->t) && a->nc > 0;
    if (rootDefect && !r.coin(0.25)) return false;
    const int m = a->nr, p = a->nc, n = b->nc;
    std::vector<LC> A = logical(*a), Bv = logical(*b), ref((size_t)m * n); std::vector<LD> tol((size_t)m * n);
    for (int i = 0; i < m; ++i) for (int j = 0; j < n; ++j) {
        LC s(0); LD mag = 0;
        for (int q = 0; q < p; ++q) for (int k = 0; k < K; ++k) { LC x = A[(size_t)(i + q * m) * K + k], y = Bv[(size_t)(q + j * p) * K + k]; s += x * y; mag += absLC(x) * absLC(y); }
        ref[i + j * m] = s; tol[i + j * m] = tolOf(mag, p * K + 1);
    }
    static const char* nm[] = {"matrix*matrix", "matrix*vector", "row*vector"};
    log(std::string(nm[form]) + ": " + tag(*a) + " * " + tag(*b));
    std::string key = pairKey(nm[form], *a, *b);
    const std::string akey = rootDefect ? rootKey(false, a->t, b->t) : "arith:" + key;
    cover(nm[form], *a); cover(std::string("rhs-of-") + nm[form], *b);
    withT(a->t, [&](auto ta) {
        constexpr int TA = decltype(ta)::value;
        withT(b->t, [&](auto tb) {
            constexpr int TB = decltype(tb)::value;
            if constexpr (IsScalar || (NT == 4 && (TA & 2) && !(TB & 2))) {
                if (form == 0) { auto res = asBase<TA>(*a) * asBase<TB>(*b); finishResult(key, res, m, n, 1, ref, tol, IsScalar, akey); }
                else if (form == 1) { auto res = asBase<TA>(*a) * asVec<TB>(*b); finishResult(key, res, m, 1, 1, ref, tol, IsScalar, akey); }
                else {
                    auto res = asRow<TA>(*a) * asVec<TB>(*b);
                    typedef decltype(res) RE; std::vector<std::complex<typename ET<RE>::P>> got(ET<RE>::K); ET<RE>::get(res, got.data());
                    checkVals(akey, got, ref, tol, "dot product result (" + ET<RE>::name() + ")");
                }
            }
        });
    });
    compareAll(key);
    return true;
}

// elementwise functions returning new matrices; sums
bool op_elementwiseExpr() {
    Obj* a = pickAny(); if (!a) return false;
    int v = IsScalar ? r.integer(0, 13) : (r.coin() ? r.integer(0, 1) : r.integer(9, 13));
    static const char* nm[] = {"abs", "standardize", "elementwiseInvert", "elementwiseMultiply", "elementwiseMultiplyFromLeft", "elementwiseDivide", "elementwiseDivideFromLeft",
                               "rowScale", "colScale", "elementwiseAddScalar", "elementwiseSubtractScalar", "elementwiseSubtractFromScalar", "rowSum", "colSum"};
    if (hasNaN(*a)) { c.skip("nan-input"); return false; }
    Obj* s = nullptr;
    if (v >= 3 && v <= 6) { s = pick([&](const Obj& o) { return o.nr == a->nr && o.nc == a->nc && shapeOf(o.kind) == shapeOf(a->kind) && !hasNaN(o) && !(v == 5 && smallAny(o)); }); if (!s) return false; }
    if (v == 7) { if (shapeOf(a->kind) == 2) return false; s = pick([&](const Obj& o) { return shapeOf(o.kind) == 1 && o.nr == a->nr && !hasNaN(o); }); if (!s) return false; }
    if (v == 8) { if (shapeOf(a->kind) == 1) return false; s = pick([&](const Obj& o) { return shapeOf(o.kind) == 1 && o.nr == a->nc && !hasNaN(o); }); if (!s) return false; }
    if ((v == 2 || v == 6) && smallAny(*a)) return false;
    std::string akey;
    if (s && v >= 3 && v <= 8 && a->nr * a->nc > 0) {
        const bool div = (v == 5 || v == 6), fromLeft = (v == 4 || v == 6);
        const int tl = fromLeft ? s->t : a->t, tr = fromLeft ? a->t : s->t;
        if (defectivePair(div, tl, tr)) { if (!r.coin(0.25)) return false; akey = rootKey(div, tl, tr); }
    }
    C ev[K]; randEltVals(ev);
    std::vector<LC> A = logical(*a), S; if (s) S = logical(*s);
    int rr = a->nr, rc = a->nc; if (v == 12) rc = 1; if (v == 13) rr = 1;
    std::vector<LC> ref((size_t)rr * rc * K, LC(0)); std::vector<LD> tol(ref.size(), 0);
    if (v <= 11) for (int j = 0; j < a->nc; ++j) for (int i = 0; i < a->nr; ++i) for (int k = 0; k < K; ++k) {
        size_t q = (size_t)(i + j * a->nr) * K + k; LC x = A[q], y, e = toLC(ev[k]);
        switch (v) {
        case 0: ref[q] = Cplx ? LC(absLC(x)) : LC(std::fabs(x.real())); if (Cplx) tol[q] = tolOf(absLC(x), 2); break;
        case 1: ref[q] = x; break;
        case 2: ref[q] = LC(1) / x; tol[q] = tolOf(absLC(ref[q]), 2); break;
        case 3: case 4: y = S[q]; ref[q] = x * y; tol[q] = tolOf(absLC(x) * absLC(y), 2); break;
        case 5: y = S[q]; ref[q] = x / y; tol[q] = tolOf(absLC(ref[q]), 4); break;
        case 6: y = S[q]; ref[q] = y / x; tol[q] = tolOf(absLC(ref[q]), 4); break;
        case 7: y = S[i]; ref[q] = x * y; tol[q] = tolOf(absLC(x) * absLC(y), 2); break;
        case 8: y = S[j]; ref[q] = x * y; tol[q] = tolOf(absLC(x) * absLC(y), 2); break;
        case 9: ref[q] = x + e; tol[q] = tolOf(absLC(x) + absLC(e), 1); break;
        case 10: ref[q] = x - e; tol[q] = tolOf(absLC(x) + absLC(e), 1); break;
        case 11: ref[q] = e - x; tol[q] = tolOf(absLC(x) + absLC(e), 1); break;
        }
    }
    else for (int j = 0; j < a->nc; ++j) for (int i = 0; i < a->nr; ++i) for (int k = 0; k < K; ++k) {
        size_t q = (size_t)((v == 12 ? i : j)) * K + k; LC x = A[(size_t)(i + j * a->nr) * K + k];
        ref[q] += x; tol[q] += absLC(x);
    }
    if (v >= 12) for (auto& t : tol) t = tolOf(t, v == 12 ? a->nc : a->nr);
    // abs of complex elements has real element type: one scalar per element, imaginary part 0
    log(std::string(nm[v]) + " of " + tag(*a) + (s ? " with " + tag(*s) : ""));
    std::string key = s ? pairKey(nm[v], *a, *s) : okey(nm[v], *a);
    cover(nm[v], *a);
    withT(a->t, [&](auto tt) {
        constexpr int T = decltype(tt)::value; typedef EltT<T> E; E e = mkElt<E>(ev);
        const MatrixBase<E>& m = asBase<T>(*a);
        auto fin = [&](const auto& res, bool adopt) { finishResult(key, res, rr, rc, K, ref, tol, adopt, akey); };
        if (v == 0) withShape<T>(*a, [&](auto& x0) { const auto& x = x0; fin(x.abs(), false); });
        else if (v == 1) fin(m.standardize(), false);
        else if (v == 9) fin(m.elementwiseAddScalar(e), true);
        else if (v == 10) fin(m.elementwiseSubtractScalar(e), true);
        else if (v == 11) fin(m.elementwiseSubtractFromScalar(e), true);
        else if (v == 12) fin(m.rowSum(), true);
        else if (v == 13) { if (r.coin()) fin(m.colSum(), true); else fin(m.sum(), true); }
        else if constexpr (IsScalar) {
            if (v == 2) { withShape<T>(*a, [&](auto& x0) { const auto& x = x0; fin(x.elementwiseInvert(), false); }); return; }
            withT(s->t, [&](auto ts) {
                constexpr int TS = decltype(ts)::value; typedef EltT<TS> ES;
                if (v == 7) { if (shapeOf(a->kind) == 1) fin(asVec<T>(*a).template rowScale<ES>(asVec<TS>(*s)), false); else fin(m.template rowScale<ES>(asVec<TS>(*s)), false); return; }
                if (v == 8) { if (shapeOf(a->kind) == 2) fin(asRow<T>(*a).template colScale<ES>(asVec<TS>(*s)), false); else fin(m.template colScale<ES>(asVec<TS>(*s)), false); return; }
                auto run = [&](const auto& x, const auto& y) {
                    if (v == 3) fin(x.template elementwiseMultiply<ES>(y), false); else if (v == 4) fin(x.template elementwiseMultiplyFromLeft<ES>(y), false);
                    else if (v == 5) fin(x.template elementwiseDivide<ES>(y), false); else fin(x.template elementwiseDivideFromLeft<ES>(y), false);
                };
                int sh = shapeOf(a->kind);
                if (sh == 1) run(asVec<T>(*a), asVec<TS>(*s)); else if (sh == 2) run(asRow<T>(*a), asRow<TS>(*s)); else run(asBase<T>(*a), asBase<TS>(*s));
            });
        }
    });
    compareAll(key);
    return true;
}
#include "matrix_big_ops4.h"
