// mobilizer_ref.h — independent reference model of the documented mobilizer
// parameterisations (C05) and the second-order kinematics the Custom mirrors need (C06).
//
// Written from the class documentation in Simbody/include/simbody/internal/MobilizedBody_*.h
// with elementary rotation maths only (own Rx/Ry/Rz, own quaternion->matrix); SimTK::Rotation
// is never used to *construct* a reference rotation from angles or quaternions, so that a
// defect in Rotation (property C27) cannot mask a defect in a mobilizer. SimTK::Vec3/Mat33
// are used as plain containers by the callers.
//
// Velocities of "u = qdot" mobilizers are obtained by forward-mode automatic differentiation
// (dual numbers) of the documented transform, i.e. from the documented statement u=qdot and
// nothing else. Mobilizers whose speeds are documented as angular velocity get closed forms.
#pragma once
#include "model.h"
#include <cmath>

namespace mref {
using vh::MobType;

// ---------------------------------------------------------------- dual numbers
template <class T> struct Dual {
    T v, d;
    Dual() : v(), d() {}
    Dual(double c) : v(c), d(0.0) {}
    Dual(const T& v, const T& d) : v(v), d(d) {}
};
template <class T> inline Dual<T> operator+(const Dual<T>& a, const Dual<T>& b) { return Dual<T>(a.v + b.v, a.d + b.d); }
template <class T> inline Dual<T> operator-(const Dual<T>& a, const Dual<T>& b) { return Dual<T>(a.v - b.v, a.d - b.d); }
template <class T> inline Dual<T> operator-(const Dual<T>& a) { return Dual<T>(-a.v, -a.d); }
template <class T> inline Dual<T> operator*(const Dual<T>& a, const Dual<T>& b) { return Dual<T>(a.v * b.v, a.v * b.d + a.d * b.v); }
template <class T> inline Dual<T> operator/(const Dual<T>& a, const Dual<T>& b) { T q = a.v / b.v; return Dual<T>(q, (a.d - q * b.d) / b.v); }
template <class T> inline Dual<T> operator+(const Dual<T>& a, double b) { return Dual<T>(a.v + b, a.d); }
template <class T> inline Dual<T> operator+(double b, const Dual<T>& a) { return Dual<T>(a.v + b, a.d); }
template <class T> inline Dual<T> operator-(const Dual<T>& a, double b) { return Dual<T>(a.v - b, a.d); }
template <class T> inline Dual<T> operator-(double b, const Dual<T>& a) { return Dual<T>(b - a.v, -a.d); }
template <class T> inline Dual<T> operator*(const Dual<T>& a, double b) { return Dual<T>(a.v * b, a.d * b); }
template <class T> inline Dual<T> operator*(double b, const Dual<T>& a) { return Dual<T>(a.v * b, a.d * b); }
template <class T> inline Dual<T> operator/(const Dual<T>& a, double b) { return Dual<T>(a.v / b, a.d / b); }
inline double Sin(double x) { return std::sin(x); }
inline double Cos(double x) { return std::cos(x); }
inline double Sqrt(double x) { return std::sqrt(x); }
template <class T> inline Dual<T> Sin(const Dual<T>& a);
template <class T> inline Dual<T> Cos(const Dual<T>& a);
template <class T> inline Dual<T> Sin(const Dual<T>& a) { return Dual<T>(Sin(a.v), Cos(a.v) * a.d); }
template <class T> inline Dual<T> Cos(const Dual<T>& a) { return Dual<T>(Cos(a.v), -(Sin(a.v) * a.d)); }
template <class T> inline Dual<T> Sqrt(const Dual<T>& a) { T s = Sqrt(a.v); return Dual<T>(s, a.d / (s * 2.0)); }
typedef Dual<double> D1;
typedef Dual<D1> D2;
inline double val(double x) { return x; }
inline double val(const D1& x) { return x.v; }
inline double val(const D2& x) { return x.v.v; }

// ---------------------------------------------------------------- tiny 3x3 algebra
template <class T> struct V3 {
    T x[3];
    V3() { x[0] = x[1] = x[2] = T(0.0); }
    V3(const T& a, const T& b, const T& c) { x[0] = a; x[1] = b; x[2] = c; }
    T& operator[](int i) { return x[i]; }
    const T& operator[](int i) const { return x[i]; }
};
template <class T> struct M3 {
    T a[3][3];
    M3() { for (int i = 0; i < 3; ++i) for (int j = 0; j < 3; ++j) a[i][j] = T(i == j ? 1.0 : 0.0); }
    T& operator()(int i, int j) { return a[i][j]; }
    const T& operator()(int i, int j) const { return a[i][j]; }
};
template <class T> inline M3<T> operator*(const M3<T>& A, const M3<T>& B) {
    M3<T> C;
    for (int i = 0; i < 3; ++i) for (int j = 0; j < 3; ++j) { T s = A(i, 0) * B(0, j); s = s + A(i, 1) * B(1, j); s = s + A(i, 2) * B(2, j); C(i, j) = s; }
    return C;
}
template <class T> inline V3<T> operator*(const M3<T>& A, const V3<T>& b) {
    V3<T> c;
    for (int i = 0; i < 3; ++i) { T s = A(i, 0) * b[0]; s = s + A(i, 1) * b[1]; s = s + A(i, 2) * b[2]; c[i] = s; }
    return c;
}
template <class T> inline M3<T> tr(const M3<T>& A) { M3<T> C; for (int i = 0; i < 3; ++i) for (int j = 0; j < 3; ++j) C(i, j) = A(j, i); return C; }
template <class T> inline V3<T> operator+(const V3<T>& a, const V3<T>& b) { return V3<T>(a[0] + b[0], a[1] + b[1], a[2] + b[2]); }
template <class T> inline V3<T> operator-(const V3<T>& a, const V3<T>& b) { return V3<T>(a[0] - b[0], a[1] - b[1], a[2] - b[2]); }
template <class T> inline V3<T> operator-(const V3<T>& a) { return V3<T>(-a[0], -a[1], -a[2]); }
template <class T> inline V3<T> operator*(const V3<T>& a, double s) { return V3<T>(a[0] * s, a[1] * s, a[2] * s); }
template <class T> inline V3<T> cross(const V3<T>& a, const V3<T>& b) {
    return V3<T>(a[1] * b[2] - a[2] * b[1], a[2] * b[0] - a[0] * b[2], a[0] * b[1] - a[1] * b[0]);
}
template <class T> inline M3<T> Rx(const T& q) { M3<T> R; T c = Cos(q), s = Sin(q); R(1, 1) = c; R(1, 2) = -s; R(2, 1) = s; R(2, 2) = c; return R; }
template <class T> inline M3<T> Ry(const T& q) { M3<T> R; T c = Cos(q), s = Sin(q); R(0, 0) = c; R(0, 2) = s; R(2, 0) = -s; R(2, 2) = c; return R; }
template <class T> inline M3<T> Rz(const T& q) { M3<T> R; T c = Cos(q), s = Sin(q); R(0, 0) = c; R(0, 1) = -s; R(1, 0) = s; R(1, 1) = c; return R; }
// rotation matrix of a (not necessarily normalised) quaternion (w,x,y,z): normalise, then
// the textbook formula.
template <class T> inline M3<T> Rquat(const T* e) {
    T n = Sqrt(e[0] * e[0] + e[1] * e[1] + e[2] * e[2] + e[3] * e[3]);
    T w = e[0] / n, x = e[1] / n, y = e[2] / n, z = e[3] / n;
    M3<T> R;
    R(0, 0) = 1.0 - (y * y + z * z) * 2.0; R(0, 1) = (x * y - w * z) * 2.0;       R(0, 2) = (x * z + w * y) * 2.0;
    R(1, 0) = (x * y + w * z) * 2.0;       R(1, 1) = 1.0 - (x * x + z * z) * 2.0; R(1, 2) = (y * z - w * x) * 2.0;
    R(2, 0) = (x * z - w * y) * 2.0;       R(2, 1) = (y * z + w * x) * 2.0;       R(2, 2) = 1.0 - (x * x + y * y) * 2.0;
    return R;
}
// body-fixed x-y-z sequence: about x, then the new y, then the new z
template <class T> inline M3<T> Rxyz(const T& a, const T& b, const T& c) { return Rx(a) * Ry(b) * Rz(c); }

// conversions to SimTK containers (double only)
inline SimTK::Mat33 toMat33(const M3<double>& R) { SimTK::Mat33 m; for (int i = 0; i < 3; ++i) for (int j = 0; j < 3; ++j) m(i, j) = R(i, j); return m; }
inline SimTK::Vec3 toVec3(const V3<double>& v) { return SimTK::Vec3(v[0], v[1], v[2]); }
inline M3<double> fromMat33(const SimTK::Mat33& m) { M3<double> R; for (int i = 0; i < 3; ++i) for (int j = 0; j < 3; ++j) R(i, j) = m(i, j); return R; }
inline V3<double> fromVec3(const SimTK::Vec3& v) { return V3<double>(v[0], v[1], v[2]); }
// a SimTK::Rotation holding exactly this matrix (no re-orthogonalisation, no angle maths)
inline SimTK::Rotation asRotation(const M3<double>& R) { return SimTK::Rotation(toMat33(R), true); }
inline SimTK::Transform asTransform(const M3<double>& R, const V3<double>& p) { return SimTK::Transform(asRotation(R), toVec3(p)); }

// rotation matrix -> unit quaternion (w,x,y,z), w >= 0 branch chosen by largest pivot (Shepperd)
inline void matToQuat(const M3<double>& R, double e[4]) {
    double t = R(0, 0) + R(1, 1) + R(2, 2);
    double c[4] = {t, R(0, 0), R(1, 1), R(2, 2)};
    int k = 0; for (int i = 1; i < 4; ++i) if (c[i] > c[k]) k = i;
    if (k == 0) { double w = 0.5 * std::sqrt(1 + t); e[0] = w; e[1] = (R(2, 1) - R(1, 2)) / (4 * w); e[2] = (R(0, 2) - R(2, 0)) / (4 * w); e[3] = (R(1, 0) - R(0, 1)) / (4 * w); }
    else if (k == 1) { double x = 0.5 * std::sqrt(1 + 2 * R(0, 0) - t); e[1] = x; e[0] = (R(2, 1) - R(1, 2)) / (4 * x); e[2] = (R(0, 1) + R(1, 0)) / (4 * x); e[3] = (R(0, 2) + R(2, 0)) / (4 * x); }
    else if (k == 2) { double y = 0.5 * std::sqrt(1 + 2 * R(1, 1) - t); e[2] = y; e[0] = (R(0, 2) - R(2, 0)) / (4 * y); e[1] = (R(0, 1) + R(1, 0)) / (4 * y); e[3] = (R(1, 2) + R(2, 1)) / (4 * y); }
    else { double z = 0.5 * std::sqrt(1 + 2 * R(2, 2) - t); e[3] = z; e[0] = (R(1, 0) - R(0, 1)) / (4 * z); e[1] = (R(0, 2) + R(2, 0)) / (4 * z); e[2] = (R(1, 2) + R(2, 1)) / (4 * z); }
    double n = std::sqrt(e[0] * e[0] + e[1] * e[1] + e[2] * e[2] + e[3] * e[3]);
    for (int i = 0; i < 4; ++i) e[i] /= n;
}

// ---------------------------------------------------------------- what is being modelled
struct MobSpec {
    int type = vh::MT_Pin;
    bool reversed = false;
    bool euler = false;           // Model-stage "use Euler angles" option
    // options
    double pitch = 0;             // Screw
    bool sphDefault = true;       // SphericalCoords built with the short constructor
    double az0 = 0, ze0 = 0; bool negAz = false, negZe = false, negRad = false; int radialAxis = 2; // 0:x 2:z
    double radii[3] = {1, 1, 1};  // Ellipsoid semi-axes along Fx,Fy,Fz
    double length = 1;            // CantileverFreeBeam
    int variant = 0;              // index of the option variant inside the type (coverage key)
    std::string optKey;           // human-readable option tuple
};
inline bool usesQuat(const MobSpec& m) { return vh::mobHasQuat(m.type) && !m.euler; }
inline bool speedsAreQdot(int type) {
    switch (type) {
    case vh::MT_Ball: case vh::MT_Free: case vh::MT_LineOrientation: case vh::MT_FreeLine: case vh::MT_Ellipsoid: return false;
    default: return true;
    }
}
// documented numbers of coordinates and speeds
inline int refNQ(const MobSpec& m) {
    switch (m.type) {
    case vh::MT_Pin: case vh::MT_Slider: case vh::MT_Screw: return 1;
    case vh::MT_Universal: case vh::MT_Cylinder: case vh::MT_BendStretch: return 2;
    case vh::MT_Planar: case vh::MT_Gimbal: case vh::MT_Translation: case vh::MT_SphericalCoords: case vh::MT_CantileverFreeBeam: return 3;
    case vh::MT_Bushing: return 6;
    case vh::MT_Ball: case vh::MT_LineOrientation: case vh::MT_Ellipsoid: return m.euler ? 3 : 4;
    case vh::MT_Free: case vh::MT_FreeLine: return m.euler ? 6 : 7;
    default: return 0;
    }
}
inline int refNU(const MobSpec& m) {
    switch (m.type) {
    case vh::MT_Pin: case vh::MT_Slider: case vh::MT_Screw: return 1;
    case vh::MT_Universal: case vh::MT_Cylinder: case vh::MT_BendStretch: case vh::MT_LineOrientation: return 2;
    case vh::MT_Planar: case vh::MT_Gimbal: case vh::MT_Translation: case vh::MT_SphericalCoords: case vh::MT_CantileverFreeBeam:
    case vh::MT_Ball: case vh::MT_Ellipsoid: return 3;
    case vh::MT_FreeLine: return 5;
    case vh::MT_Bushing: case vh::MT_Free: return 6;
    default: return 0;
    }
}
// number of leading q's that are rotational (angles, or the quaternion)
inline int refNRotQ(const MobSpec& m) {
    switch (m.type) {
    case vh::MT_Pin: case vh::MT_Screw: case vh::MT_Cylinder: case vh::MT_BendStretch: case vh::MT_Planar: return 1;
    case vh::MT_Universal: case vh::MT_SphericalCoords: return 2;
    case vh::MT_Gimbal: case vh::MT_Bushing: case vh::MT_CantileverFreeBeam: return 3;
    case vh::MT_Ball: case vh::MT_LineOrientation: case vh::MT_Ellipsoid: case vh::MT_Free: case vh::MT_FreeLine: return m.euler ? 3 : 4;
    default: return 0;
    }
}

// ---------------------------------------------------------------- the documented transform X_F0M0(q)
// (frames "as defined": F0 is the frame the coordinates are measured from, M0 the moving one;
// for a Forward mobilizer F0=F (on the parent) and M0=M (on the child), for a Reverse one
// F0=M and M0=F).
template <class T> inline void refX(const MobSpec& m, const T* q, M3<T>& R, V3<T>& p) {
    R = M3<T>(); p = V3<T>();
    switch (m.type) {
    case vh::MT_Pin: R = Rz(q[0]); break;                                   // "rotation about the common z axis"
    case vh::MT_Slider: p[0] = q[0]; break;                                 // "translation along the common x axis"
    case vh::MT_Screw: R = Rz(q[0]); p[2] = q[0] * m.pitch; break;          // "q is the rotation angle, the translation is always pitch*q" (z axis)
    case vh::MT_Universal: R = Rx(q[0]) * Ry(q[1]); break;                  // "rotation about x, followed by a rotation about the new y"
    case vh::MT_Cylinder: R = Rz(q[0]); p[2] = q[1]; break;                 // rotation, translation along common z
    case vh::MT_BendStretch: R = Rz(q[0]); p = R * V3<T>(q[1], T(0.0), T(0.0)); break; // rotate about z, slide along the rotated Mx
    case vh::MT_Planar: R = Rz(q[0]); p[0] = q[1]; p[1] = q[2]; break;      // z rotation, translation along Fx, Fy
    case vh::MT_Gimbal: R = Rxyz(q[0], q[1], q[2]); break;
    case vh::MT_Bushing: R = Rxyz(q[0], q[1], q[2]); p = V3<T>(q[3], q[4], q[5]); break; // q={qx,qy,qz,px,py,pz}, p_FM in F
    case vh::MT_Ball: case vh::MT_LineOrientation:
        R = m.euler ? Rxyz(q[0], q[1], q[2]) : Rquat(q); break;
    case vh::MT_Free: case vh::MT_FreeLine:
        if (m.euler) { R = Rxyz(q[0], q[1], q[2]); p = V3<T>(q[3], q[4], q[5]); }
        else { R = Rquat(q); p = V3<T>(q[4], q[5], q[6]); }
        break;
    case vh::MT_Translation: p = V3<T>(q[0], q[1], q[2]); break;
    case vh::MT_SphericalCoords: {
        // azimuth = s0*q0+az0 about Fz==Mz, zenith = s1*q1+ze0 about My, radius = s2*q2 along Mz or Mx
        T az = q[0] * (m.negAz ? -1.0 : 1.0) + m.az0;
        T ze = q[1] * (m.negZe ? -1.0 : 1.0) + m.ze0;
        T rad = q[2] * (m.negRad ? -1.0 : 1.0);
        R = Rz(az) * Ry(ze);
        V3<T> axis; axis[m.radialAxis] = T(1.0);
        V3<T> d = R * axis;
        p = V3<T>(d[0] * rad, d[1] * rad, d[2] * rad);
        break; }
    case vh::MT_Ellipsoid: {
        // orientation like Ball; Mo on the surface of the ellipsoid fixed in F with semi-axes
        // radii along Fx,Fy,Fz. The public documentation only says "on the surface"; the point
        // used is radii .* Mz (the established behaviour: q=0 puts Mo at (0,0,rz)); the
        // monitor checks the "on the surface" clause separately.
        R = m.euler ? Rxyz(q[0], q[1], q[2]) : Rquat(q);
        p = V3<T>(R(0, 2) * m.radii[0], R(1, 2) * m.radii[1], R(2, 2) * m.radii[2]);
        break; }
    case vh::MT_CantileverFreeBeam: {
        R = Rxyz(q[0], q[1], q[2]);
        const double L = m.length;
        p = V3<T>(q[1] * (2.0 / 3.0 * L), q[0] * (-2.0 / 3.0 * L), L - (q[0] * q[0] + q[1] * q[1]) * (4.0 / 15.0 * L));
        break; }
    case vh::MT_Weld: default: break;
    }
}

inline V3<double> vee(const M3<double>& W) { return V3<double>(0.5 * (W(2, 1) - W(1, 2)), 0.5 * (W(0, 2) - W(2, 0)), 0.5 * (W(1, 0) - W(0, 1))); }

struct Kin {               // a relative pose/velocity "moving frame in fixed frame, expressed in fixed frame"
    M3<double> R; V3<double> p, w, v;
};

// documented V_F0M0(q,u) together with X_F0M0(q)
inline Kin refKin0(const MobSpec& m, const double* q, const double* u) {
    Kin k;
    if (speedsAreQdot(m.type)) {
        // u = qdot: differentiate the documented transform along qdot=u
        const int nq = refNQ(m);
        D1 qd[8];
        for (int i = 0; i < nq; ++i) qd[i] = D1(q[i], u[i]);
        M3<D1> R; V3<D1> p;
        refX<D1>(m, qd, R, p);
        M3<double> Rv, Rd;
        for (int i = 0; i < 3; ++i) { for (int j = 0; j < 3; ++j) { Rv(i, j) = R(i, j).v; Rd(i, j) = R(i, j).d; } k.p[i] = p[i].v; k.v[i] = p[i].d; }
        k.R = Rv; k.w = vee(Rd * tr(Rv));
        return k;
    }
    refX<double>(m, q, k.R, k.p);
    switch (m.type) {
    case vh::MT_Ball: k.w = V3<double>(u[0], u[1], u[2]); break;             // u = w_FM expressed in F
    case vh::MT_Free: k.w = V3<double>(u[0], u[1], u[2]); k.v = V3<double>(u[3], u[4], u[5]); break; // then v_FM in F
    case vh::MT_LineOrientation: k.w = k.R * V3<double>(u[0], u[1], 0.0); break;  // x,y of w_FM expressed in M
    case vh::MT_FreeLine: k.w = k.R * V3<double>(u[0], u[1], 0.0); k.v = V3<double>(u[2], u[3], u[4]); break;
    case vh::MT_Ellipsoid: {
        k.w = V3<double>(u[0], u[1], u[2]);
        V3<double> n(k.R(0, 2), k.R(1, 2), k.R(2, 2)), nd = cross(k.w, n);    // d/dt Mz = w x Mz
        k.v = V3<double>(m.radii[0] * nd[0], m.radii[1] * nd[1], m.radii[2] * nd[2]);
        break; }
    default: break;
    }
    return k;
}
// inverse relative motion: pose/velocity of the fixed frame in the moving frame, expressed there
inline Kin inverseKin(const Kin& a) {
    Kin b; M3<double> Rt = tr(a.R);
    b.R = Rt; b.p = -(Rt * a.p);
    b.w = -(Rt * a.w);
    b.v = -(Rt * (a.v + cross(a.p, a.w)));
    return b;
}
// what getMobilizerTransform/Velocity are documented to return: X_FM, V_FM with F on the parent
inline Kin refKin(const MobSpec& m, const double* q, const double* u) {
    Kin k = refKin0(m, q, u);
    return m.reversed ? inverseKin(k) : k;
}

// Second-order kinematics of the as-defined mobilizer, used by the Custom mirrors:
// A0 = HDot(q,uState)*uArg, where H(q)*uArg = V_F0M0(q,uArg). Only for u=qdot types.
inline void refHDotTimes(const MobSpec& m, const double* q, const double* uState, const double* uArg, V3<double>& aw, V3<double>& av) {
    const int nq = refNQ(m);
    D2 qd[8];
    for (int i = 0; i < nq; ++i) qd[i] = D2(D1(q[i], uArg[i]), D1(uState[i], 0.0));
    M3<D2> R; V3<D2> p;
    refX<D2>(m, qd, R, p);
    M3<double> R0, Rs, Rt, Rst;
    for (int i = 0; i < 3; ++i) { for (int j = 0; j < 3; ++j) { R0(i, j) = R(i, j).v.v; Rs(i, j) = R(i, j).v.d; Rt(i, j) = R(i, j).d.v; Rst(i, j) = R(i, j).d.d; } av[i] = p[i].d.d; }
    // W(s) = (dR/ds) R^T ; dW/dt = (d2R/dsdt) R^T + (dR/ds)(dR/dt)^T
    M3<double> A = Rst * tr(R0), B = Rs * tr(Rt), W;
    for (int i = 0; i < 3; ++i) for (int j = 0; j < 3; ++j) W(i, j) = A(i, j) + B(i, j);
    aw = vee(W);
}

// ---------------------------------------------------------------- N matrices for the mirrors (own maths)
// quaternion (w,x,y,z) of R_FM, angular velocity expressed in F: edot = 1/2 (0,w) (x) e
inline void quatDotFromAngVelInF(const double e[4], const double w[3], double ed[4]) {
    ed[0] = 0.5 * (-w[0] * e[1] - w[1] * e[2] - w[2] * e[3]);
    ed[1] = 0.5 * (e[0] * w[0] + (w[1] * e[3] - w[2] * e[2]));
    ed[2] = 0.5 * (e[0] * w[1] + (w[2] * e[1] - w[0] * e[3]));
    ed[3] = 0.5 * (e[0] * w[2] + (w[0] * e[2] - w[1] * e[1]));
}
// 4x3 matrix N with edot = N w (as above)
inline void quatN(const double e[4], double N[4][3]) {
    for (int j = 0; j < 3; ++j) { double w[3] = {0, 0, 0}; w[j] = 1; double ed[4]; quatDotFromAngVelInF(e, w, ed); for (int i = 0; i < 4; ++i) N[i][j] = ed[i]; }
}
// body-fixed xyz angles, w_FM in F = B(q) qdot with B = [ex, Rx ey, Rx Ry ez]
inline M3<double> eulerB(const double q[3]) {
    M3<double> RX = Rx(q[0]), RXY = RX * Ry(q[1]);
    M3<double> B;
    B(0, 0) = 1; B(1, 0) = 0; B(2, 0) = 0;
    for (int i = 0; i < 3; ++i) { B(i, 1) = RX(i, 1); B(i, 2) = RXY(i, 2); }
    return B;
}
inline M3<double> inv3(const M3<double>& A) {
    M3<double> C;
    double det = A(0, 0) * (A(1, 1) * A(2, 2) - A(1, 2) * A(2, 1)) - A(0, 1) * (A(1, 0) * A(2, 2) - A(1, 2) * A(2, 0)) + A(0, 2) * (A(1, 0) * A(2, 1) - A(1, 1) * A(2, 0));
    C(0, 0) = (A(1, 1) * A(2, 2) - A(1, 2) * A(2, 1)) / det; C(0, 1) = (A(0, 2) * A(2, 1) - A(0, 1) * A(2, 2)) / det; C(0, 2) = (A(0, 1) * A(1, 2) - A(0, 2) * A(1, 1)) / det;
    C(1, 0) = (A(1, 2) * A(2, 0) - A(1, 0) * A(2, 2)) / det; C(1, 1) = (A(0, 0) * A(2, 2) - A(0, 2) * A(2, 0)) / det; C(1, 2) = (A(0, 2) * A(1, 0) - A(0, 0) * A(1, 2)) / det;
    C(2, 0) = (A(1, 0) * A(2, 1) - A(1, 1) * A(2, 0)) / det; C(2, 1) = (A(0, 1) * A(2, 0) - A(0, 0) * A(2, 1)) / det; C(2, 2) = (A(0, 0) * A(1, 1) - A(0, 1) * A(1, 0)) / det;
    return C;
}
// d/dt B(q) along qdot
inline M3<double> eulerBDot(const double q[3], const double qd[3]) {
    D1 a(q[0], qd[0]), b(q[1], qd[1]);
    M3<D1> RX = Rx(a), RXY = RX * Ry(b);
    M3<double> Bd;
    for (int i = 0; i < 3; ++i) { Bd(i, 0) = 0; Bd(i, 1) = RX(i, 1).d; Bd(i, 2) = RXY(i, 2).d; }
    return Bd;
}

} // namespace mref
