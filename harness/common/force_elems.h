// force_elems.h — harness-side descriptions of simbody's built-in force elements for
// mon_force (C12, C13, C38): construction in a random model, an independent
// re-implementation of the *documented* law (from the class documentation in
// Simbody/include/simbody/internal/Force*.h), state-level parameter operations with a
// shadow copy of the parameters, and energy classification (DESIGN §5 C12).
#pragma once
#include "model.h"

namespace vh {
using namespace SimTK;

static const double E1 = 1e-10;  // algebraic identities (relative to a scale built from the operands)
static const double E2 = 1e-6;   // finite-difference identities

enum ElemType {
    E_Gravity, E_UniformGravity, E_TPSpring, E_TPDamper, E_TPConst, E_ConstForce, E_ConstTorque,
    E_GlobalDamper, E_MobSpring, E_MobDamper, E_MobConst, E_MobDiscrete, E_MobStop, E_Bushing, E_Discrete,
    E_HuntCrossley, E_ElasticFoundation, E_Compliant, E_SmoothSphere, E_ExpSpring, E_CableSpring, E_CableSpan
};

inline double spMax(const SpatialVec& v) { double m = 0; for (int i = 0; i < 2; ++i) for (int j = 0; j < 3; ++j) { double a = std::fabs(v[i][j]); if (!(a <= m)) m = a; } return m; }
inline Json jSV(const SpatialVec& v) { return Json::arr().push(jV3(v[0])).push(jV3(v[1])); }
inline Json jFs(const Vector_<SpatialVec>& F) { Json a = Json::arr(); for (int i = 0; i < F.size(); ++i) a.push(jSV(F[i])); return a; }
inline Json jV6(const Vec6& v) { Json a = Json::arr(); for (int i = 0; i < 6; ++i) a.push(v[i]); return a; }

// what the library reports
struct Obs { Vector_<SpatialVec> F; Vector f; double pe = 0; };
// what the documentation says
struct Ref {
    Vector_<SpatialVec> F; Vector f; double pe = 0;
    double scale = 0;      // bound on the magnitude of the individual terms of any output component
    double peScale = 0;    // sum of |terms| of the potential energy
    double aF = 0, aM = 0; // sum of |individual action forces| / |their moments about the Ground origin|
    double diss = NaN;     // dissipated power according to the law (>= 0), when the law gives it
    void init(int nb, int nu) { F.resize(nb); F = SpatialVec(Vec3(0), Vec3(0)); f.resize(nu); f = 0; pe = 0; scale = peScale = aF = aM = 0; diss = NaN; }
    void zero() { F = SpatialVec(Vec3(0), Vec3(0)); f = 0; pe = 0; }
};

struct FCase;
struct Elem {
    std::string name, attach = "-", regime = "-";
    Force force;
    int b1 = -1, b2 = -1;               // attachment bodies of interaction elements (MobilizedBodyIndex as int)
    bool hasReference = true, reportsPE = false, damped = false, gradientForm = true;
    bool lastOpWasTopology = false;
    bool hasShapeCoefficient = false;   // energy coefficient depends on where the contact is (see shapeCoefficient)
    bool documentedYankOut = false;     // reported dissipation may miss the energy lost when the force is clamped to zero
    Stage evalStage = Stage::Velocity, peStage = Stage::Position;
    double fdStep = 1e-3;
    virtual ~Elem() {}
    virtual bool build(FCase&, const State& probe, Rng&, int attachCls, int variant, std::string& why) = 0;
    virtual void prepareState(FCase&, State&, const std::string& /*prop*/) {}
    virtual bool precond(FCase&, const State&, std::string&) { return true; }
    virtual void ref(FCase&, const State&, Ref&) {}
    // what the library reports for this element alone (default: through the Force handle)
    virtual void observe(FCase&, const State& s, Obs& o) { Vector_<Vec3> pF; force.calcForceContribution(s, o.F, pF, o.f); }
    virtual double potentialEnergy(FCase&, const State& s) { return force.calcPotentialEnergyContribution(s); }
    virtual std::string peKey() { return ""; }   // non-empty: one specific key for every PE comparison of this element
    virtual int numOps() { return 0; }
    virtual std::string applyOp(int, FCase&, State&, Rng&) { return "none"; }
    virtual void checkGetters(Ctx&, FCase&, const State&, const Ref&, const std::string&) {}
    virtual double reportedDissipation(FCase&, const State&) { return NaN; }
    virtual void actionScale(FCase&, const State&, const Ref* r, double& aF, double& aM) { if (r) { aF = r->aF; aM = r->aM; } }
    virtual double fdStepFor(FCase&, const State&) { return fdStep; }
    virtual bool yankOutPresent(FCase&, const State&) { return false; }
    // C(q) in PE = C * x^(5/2) and the deformation x, for elements whose energy coefficient depends on where the contact is
    virtual bool shapeCoefficient(FCase&, State& /*w, realized to Position*/, double& /*C*/, double& /*x*/) { return false; }
    virtual bool pureTwoBody() { return true; }   // false when a third body takes part (cable via point)
    virtual Json describe() { return Json::obj(); }
};

std::unique_ptr<Elem> makeElem(int et);
std::unique_ptr<Elem> makeContactElem(int et);

struct FCase {
    Model m; State s; int nb = 0, nu = 0, nq = 0;
    std::unique_ptr<Elem> elem;
    bool bystander = false;
    FCase() {}
    const MobilizedBody& mob(int b) const { return m.matter.getMobilizedBody(MobilizedBodyIndex(b)); }
    int numMobile() const { return (int)m.bodies.size(); }

    // attachment classes: 0 Ground-body, 1 body-Ground, 2 body-body (distinct), 3 same body twice
    void pickPair(Rng& r, int cls, int& a, int& b, std::string& label) const {
        int n = numMobile();
        if (cls == 2 && n < 2) cls = r.integer(0, 1);
        if (cls == 0) { a = 0; b = r.integer(1, n); label = "G-B"; }
        else if (cls == 1) { a = r.integer(1, n); b = 0; label = "B-G"; }
        else if (cls == 2) { a = r.integer(1, n); do { b = r.integer(1, n); } while (b == a); label = "B-B"; }
        else { a = b = r.integer(1, n); label = "same"; }
    }

    bool setup(Ctx& c, Rng& r, long idx, int et, int attachCls, int variant, bool withBystander) {
        elem = makeElem(et);
        if (!elem) { c.skip("element-not-implemented"); return false; }
        c.setPhase(elem->name + " setup");
        GenOpts o; o.minBodies = 1; o.maxBodies = 4; o.pLoneParticle = 0.03;
        if (et == E_MobSpring || et == E_MobStop)
            o.types = {MT_Pin, MT_Slider, MT_Screw, MT_Universal, MT_Cylinder, MT_BendStretch, MT_Planar, MT_Gimbal,
                       MT_Bushing, MT_Translation, MT_SphericalCoords, MT_CantileverFreeBeam, MT_Ball, MT_Free};
        ModelDesc d = randomDesc(r, o, idx);
        m.build(d);
        State p = m.init();
        randomQU(m, p, r);
        m.sys.realize(p, Stage::Velocity);
        if (!sphericalOK(m, p)) { c.skip("spherical-singularity"); return false; }
        if (p.getNU() == 0) { c.skip("no-mobilities"); return false; }
        std::string why;
        if (!elem->build(*this, p, r, attachCls, variant, why)) { c.skip(why); return false; }
        bystander = withBystander;
        if (bystander) Force::ConstantTorque(m.forces, m.bodies[r.integer(0, numMobile() - 1)], Vec3(0)); // position-only => cached mode
        s = m.init();
        s.updQ() = p.getQ(); s.updU() = p.getU();
        nb = m.matter.getNumBodies(); nu = s.getNU(); nq = s.getNQ();
        elem->prepareState(*this, s, c.args.prop);
        m.sys.realize(s, Stage::Velocity);
        if (!elem->precond(*this, s, why)) { c.skip(why); return false; }
        return true;
    }
    void reference(const State& st, Ref& R) { R.init(nb, nu); elem->ref(*this, st, R); }
    Obs contribution(const State& st) { Obs o; elem->observe(*this, st, o); return o; }
    Obs realized(const State& st) const {
        Obs o; o.F = m.sys.getRigidBodyForces(st, Stage::Dynamics); o.f = m.sys.getMobilityForces(st, Stage::Dynamics);
        o.pe = m.sys.calcPotentialEnergy(st);
        return o;
    }
    void perturbQ(State& st, Rng& r) { randomQU(m, st, r); }
    double obsDiff(const Obs& o, const Ref& R) const {
        double d = std::fabs(o.pe - R.pe) * (R.scale / (R.peScale + 1e-300));
        for (int b = 0; b < nb; ++b) { double x = spMax(o.F[b] - R.F[b]); if (!(x <= d)) d = x; }
        for (int j = 0; j < nu; ++j) { double x = std::fabs(o.f[j] - R.f[j]); if (!(x <= d)) d = x; }
        return d;
    }
    double refDiff(const Ref& A, const Ref& B) const {
        double d = 0;
        for (int b = 0; b < nb; ++b) d = std::max(d, spMax(A.F[b] - B.F[b]));
        for (int j = 0; j < nu; ++j) d = std::max(d, std::fabs(A.f[j] - B.f[j]));
        return d;
    }
    Json witness() const {
        return Json::obj().set("model", m.desc.toJson()).set("element", elem->name).set("attach", elem->attach).set("regime", elem->regime)
            .set("params", elem->describe()).set("bystander", bystander).set("q", jV(s.getQ())).set("u", jV(s.getU()));
    }
    // reference helpers -----------------------------------------------------------------
    void addPointForce(Ref& R, const State& st, int b, const Vec3& stationB, const Vec3& fG) const {
        const Transform& X = mob(b).getBodyTransform(st); Vec3 sG = X.R() * stationB;
        R.F[b] += SpatialVec(sG % fG, fG);
        R.scale += fG.norm() * (1 + sG.norm()); R.aF += fG.norm(); R.aM += (X.p() + sG).norm() * fG.norm();
    }
    void addTorque(Ref& R, int b, const Vec3& tG) const { R.F[b][0] += tG; R.scale += tG.norm(); R.aM += tG.norm(); }
    Vec3 stationPos(const State& st, int b, const Vec3& sB) const { return mob(b).getBodyTransform(st) * sB; }
    Vec3 stationVel(const State& st, int b, const Vec3& sB) const {
        const SpatialVec& V = mob(b).getBodyVelocity(st); return V[1] + V[0] % (mob(b).getBodyTransform(st).R() * sB);
    }
    // mobilizers having a coordinate with qdot == u (nq == nu and N's row is the unit row), verified numerically
    bool pickQdotEqualsU(const State& p, Rng& r, int& body, int& whichQ) const {
        std::vector<std::pair<int, int>> cand;
        Vector u1(p.getNU()), u2(p.getNU()), qd1, qd2;
        for (int j = 0; j < p.getNU(); ++j) { u1[j] = r.sym(1.0); u2[j] = r.sym(1.0); }
        m.matter.multiplyByN(p, false, u1, qd1); m.matter.multiplyByN(p, false, u2, qd2);
        for (int b = 1; b < m.matter.getNumBodies(); ++b) {
            const MobilizedBody& mb = mob(b);
            int nqb = mb.getNumQ(p), nub = mb.getNumU(p); if (nqb == 0 || nqb != nub) continue;
            int q0 = mb.getFirstQIndex(p), u0 = mb.getFirstUIndex(p);
            for (int i = 0; i < nqb; ++i)
                if (std::fabs(qd1[q0 + i] - u1[u0 + i]) <= 1e-14 && std::fabs(qd2[q0 + i] - u2[u0 + i]) <= 1e-14) cand.push_back({b, i});
        }
        if (cand.empty()) return false;
        auto pr = cand[r.next() % cand.size()]; body = pr.first; whichQ = pr.second; return true;
    }
};

// witness built only when a check fails (JSON construction is the dominant per-check cost under ASan)
struct LazyWit { const FCase* k; Json get() const { return k->witness(); } };

// =========================================================================== Gravity
struct GravityElem : Elem {
    Force::Gravity g; UnitVec3 d; double mag = 0, hz = 0; std::vector<char> excl; int ctor = 0;
    GravityElem() { name = "Gravity"; reportsPE = true; }
    bool build(FCase& k, const State&, Rng& r, int, int variant, std::string&) override {
        int nb = k.m.matter.getNumBodies();
        excl.assign(nb, 0); excl[0] = 1;
        ctor = variant % 3;
        bool zeroG = (variant == 5);
        if (ctor == 0) { d = randUnit(r); mag = zeroG ? 0.0 : r.uni(0.5, 15); hz = r.coin(0.3) ? 0.0 : r.sym(3); g = Force::Gravity(k.m.forces, k.m.matter, d, mag, hz); }
        else if (ctor == 1) {
            Vec3 v = zeroG ? Vec3(0) : randVec3(r, 10); mag = v.norm(); hz = 0;
            d = mag > 0 ? UnitVec3(v) : UnitVec3(-k.m.sys.getUpDirection());  // documented: zero vector => -up
            g = Force::Gravity(k.m.forces, k.m.matter, v);
        } else { mag = zeroG ? 0.0 : r.uni(0.5, 15); hz = 0; d = UnitVec3(-k.m.sys.getUpDirection()); g = Force::Gravity(k.m.forces, k.m.matter, mag); }
        if (r.coin(0.5)) for (int b = 0; b < nb; ++b) if (r.coin(0.4)) { g.setDefaultBodyIsExcluded(MobilizedBodyIndex(b), true); if (b) excl[b] = 1; }
        if (ctor != 0 && r.coin(0.4)) { hz = r.sym(3); g.setDefaultZeroHeight(hz); }
        force = g;
        bool anyEx = false; for (int b = 1; b < nb; ++b) anyEx = anyEx || excl[b];
        regime = std::string(mag == 0 ? "g0" : "g") + (anyEx ? "/excl" : "/all") + (hz != 0 ? "/hz" : "/hz0");
        attach = "ctor" + std::to_string(ctor);
        return true;
    }
    void ref(FCase& k, const State& s, Ref& R) override {
        Vec3 gv = mag * Vec3(d);
        for (int b = 1; b < k.nb; ++b) {
            if (excl[b]) continue;
            const MassProperties& mp = k.mob(b).getBodyMassProperties(s);
            k.addPointForce(R, s, b, mp.getMassCenter(), mp.getMass() * gv);                 // fb = mb*g*d at the mass centre
            Vec3 pc = k.stationPos(s, b, mp.getMassCenter());
            double h = -(~Vec3(d) * pc) - hz;                                               // hb = pb.(-d) - hz
            R.pe += mp.getMass() * mag * h; R.peScale += mp.getMass() * mag * (pc.norm() + std::fabs(hz));
        }
        R.scale += 1e-300; R.peScale += 1e-300;
    }
    int numOps() override { return 5; }
    std::string applyOp(int op, FCase& k, State& s, Rng& r) override {
        switch (op) {
        case 0: { int b = r.integer(0, k.nb - 1); bool ex = r.coin(); g.setBodyIsExcluded(s, MobilizedBodyIndex(b), ex); if (b) excl[b] = ex; return "setBodyIsExcluded"; }
        case 1: { Vec3 v = r.coin(0.25) ? Vec3(0) : randVec3(r, 10); g.setGravityVector(s, v); mag = v.norm(); if (mag > 0) d = UnitVec3(v); return "setGravityVector"; }
        case 2: { if (r.coin()) { d = randUnit(r); g.setDownDirection(s, d); } else { Vec3 v = randVec3(r, 4) + Vec3(5, 0, 0); d = UnitVec3(v); g.setDownDirection(s, v); } return "setDownDirection"; }
        case 3: { mag = r.coin(0.25) ? 0.0 : r.uni(0.5, 15); g.setMagnitude(s, mag); return "setMagnitude"; }
        default: { hz = r.coin(0.2) ? 0.0 : r.sym(3); g.setZeroHeight(s, hz); return "setZeroHeight"; }
        }
    }
    void checkGetters(Ctx& c, FCase& k, const State& s, const Ref& R, const std::string& tail) override {
        LazyWit wit{&k};
        auto W = [&](const char* what) { return [=]() { return wit.get().set("what", what); }; };
        const Vector_<SpatialVec>& F = g.getBodyForces(s);
        double dF = 0, d1 = 0; for (int b = 0; b < k.nb; ++b) { dF = std::max(dF, spMax(F[b] - R.F[b])); d1 = std::max(d1, spMax(g.getBodyForce(s, MobilizedBodyIndex(b)) - R.F[b])); }
        c.require("getter:Gravity:getBodyForces-size" + tail, F.size() == k.nb, W("getBodyForces() does not have one entry per mobilized body"));
        c.check("getter:Gravity:getBodyForces" + tail, dF, E1 * R.scale, W("getBodyForces() != m*g*d at the mass centre (zero for Ground / excluded)"));
        c.check("getter:Gravity:getBodyForce" + tail, d1, E1 * R.scale, W("getBodyForce(b) != m*g*d at the mass centre"));
        c.check("getter:Gravity:getPotentialEnergy" + tail, std::fabs(g.getPotentialEnergy(s) - R.pe), E1 * R.peScale, W("getPotentialEnergy() != sum m*g*h"));
        c.check("getter:Gravity:parameters" + tail, std::max(std::max((g.getGravityVector(s) - mag * Vec3(d)).norm(), std::fabs(g.getMagnitude(s) - mag)),
                std::max(std::fabs(g.getZeroHeight(s) - hz), (Vec3(g.getDownDirection(s)) - Vec3(d)).norm())), 1e-14 * (1 + mag), W("state-level parameter getters do not return what was set"));
        bool exOk = g.getBodyIsExcluded(s, MobilizedBodyIndex(0));
        for (int b = 1; b < k.nb; ++b) exOk = exOk && (g.getBodyIsExcluded(s, MobilizedBodyIndex(b)) == (bool)excl[b]);
        c.require("getter:Gravity:getBodyIsExcluded" + tail, exOk, W("getBodyIsExcluded() differs from what was set (Ground must always be excluded)"));
    }
    Json describe() override { Json e = Json::arr(); for (char x : excl) e.push((int)x); return Json::obj().set("down", jV3(Vec3(d))).set("g", mag).set("zeroHeight", hz).set("excluded", e).set("ctor", ctor); }
};

// =========================================================================== UniformGravity
struct UniformGravityElem : Elem {
    Force::UniformGravity ug; Vec3 gv; double zh = 0;
    UniformGravityElem() { name = "UniformGravity"; reportsPE = true; }
    bool build(FCase& k, const State&, Rng& r, int, int variant, std::string&) override {
        gv = (variant == 5) ? Vec3(0) : (variant == 4 ? Vec3(randUnit(r)) : randVec3(r, 10));
        zh = (variant % 2 == 0) ? 0.0 : r.sym(3);
        ug = (zh == 0 && r.coin()) ? Force::UniformGravity(k.m.forces, k.m.matter, gv) : Force::UniformGravity(k.m.forces, k.m.matter, gv, zh);
        force = ug; setRegime();
        return true;
    }
    void setRegime() { regime = std::string(gv.norm() == 0 ? "g0" : std::fabs(gv.norm() - 1) < 1e-12 ? "g1" : "g") + (zh != 0 ? "/hz" : "/hz0"); }
    // the zero-height clause gets one key of its own whatever the route / preceding operation
    std::string peKey() override { return zh != 0 ? "zero-height:UniformGravity:pe" : ""; }
    void ref(FCase& k, const State& s, Ref& R) override {
        double mag = gv.norm();
        for (int b = 1; b < k.nb; ++b) {
            const MassProperties& mp = k.mob(b).getBodyMassProperties(s);
            k.addPointForce(R, s, b, mp.getMassCenter(), mp.getMass() * gv);
            Vec3 pc = k.stationPos(s, b, mp.getMassCenter());
            // "a height at which the gravitational potential energy is zero": m*|g|*(height - zeroHeight),
            // height measured along -g
            double height = mag > 0 ? -(~gv * pc) / mag : 0.0;
            R.pe += mp.getMass() * mag * (height - zh); R.peScale += mp.getMass() * (mag * (pc.norm() + std::fabs(zh)) + std::fabs(zh));
        }
        R.scale += 1e-300; R.peScale += 1e-300;
    }
    int numOps() override { return 2; }
    std::string applyOp(int op, FCase& k, State& s, Rng& r) override {
        // these are topological (System-level) setters: a new State is needed
        std::string n;
        if (op == 0) { gv = r.coin(0.2) ? Vec3(0) : randVec3(r, 10); ug.setGravity(gv); n = "setGravity"; }
        else { zh = r.coin(0.3) ? 0.0 : r.sym(3); ug.setZeroHeight(zh); n = "setZeroHeight"; }
        State ns = k.m.init(); ns.updQ() = s.getQ(); ns.updU() = s.getU(); s = ns; lastOpWasTopology = true;
        return n;
    }
    void checkGetters(Ctx& c, FCase& k, const State&, const Ref&, const std::string& tail) override {
        LazyWit wit{&k};
        c.check("getter:UniformGravity:parameters" + tail, std::max((ug.getGravity() - gv).norm(), std::fabs(ug.getZeroHeight() - zh)), 0.0, [=]() { return wit.get().set("what", "getGravity()/getZeroHeight() do not return what was set"); });
    }
    Json describe() override { return Json::obj().set("g", jV3(gv)).set("zeroHeight", zh); }
};

// =========================================================================== TwoPoint*
struct TwoPointElem : Elem {
    int kind; Vec3 s1, s2; double kk = 0, x0 = 0, cc = 0, ff = 0;
    explicit TwoPointElem(int kind) : kind(kind) {
        name = kind == 0 ? "TwoPointLinearSpring" : kind == 1 ? "TwoPointLinearDamper" : "TwoPointConstantForce";
        reportsPE = (kind != 2); damped = (kind == 1);
    }
    bool build(FCase& k, const State&, Rng& r, int attachCls, int variant, std::string&) override {
        k.pickPair(r, attachCls, b1, b2, attach);
        int sc = variant % 3;  // station classes: general / one at the body origin / both general far apart
        s1 = sc == 1 ? Vec3(0) : randVec3(r, 1.0); s2 = randVec3(r, 1.0);
        if (b1 == b2) while ((s2 - s1).norm() < 0.2) s2 = randVec3(r, 1.0);
        const MobilizedBody& A = k.mob(b1); const MobilizedBody& B = k.mob(b2);
        if (kind == 0) { kk = variant == 4 ? 0.0 : r.logUni(0.1, 200); x0 = variant == 3 ? 0.0 : r.uni(0.1, 3); force = Force::TwoPointLinearSpring(k.m.forces, A, s1, B, s2, kk, x0); regime = kk == 0 ? "k0" : x0 == 0 ? "x00" : "k"; }
        else if (kind == 1) { cc = variant == 4 ? 0.0 : r.logUni(0.1, 50); force = Force::TwoPointLinearDamper(k.m.forces, A, s1, B, s2, cc); regime = cc == 0 ? "c0" : "c"; }
        else { ff = variant == 4 ? 0.0 : (r.coin() ? 1 : -1) * r.logUni(0.1, 100); force = Force::TwoPointConstantForce(k.m.forces, A, s1, B, s2, ff); regime = ff == 0 ? "f0" : ff > 0 ? "push" : "pull"; }
        return true;
    }
    bool precond(FCase& k, const State& s, std::string& why) override {
        if ((k.stationPos(s, b2, s2) - k.stationPos(s, b1, s1)).norm() < 0.05) { why = "coincident-stations"; return false; }
        return true;
    }
    void ref(FCase& k, const State& s, Ref& R) override {
        Vec3 p1 = k.stationPos(s, b1, s1), p2 = k.stationPos(s, b2, s2);
        Vec3 rr = p2 - p1; double x = rr.norm(); Vec3 d = rr / x;   // unit vector from point1 to point2
        Vec3 on1;
        if (kind == 0) { double f = kk * (x - x0); on1 = f * d; R.pe = 0.5 * kk * (x - x0) * (x - x0); R.peScale = 0.5 * kk * (x * x + x0 * x0) + 1e-300; }
        else if (kind == 1) { double v = ~(k.stationVel(s, b2, s2) - k.stationVel(s, b1, s1)) * d; on1 = cc * v * d; R.diss = cc * v * v; R.peScale = 1e-300; }   // opposes separation
        else { on1 = -ff * d; R.peScale = 1e-300; }                                          // positive force separates the points
        k.addPointForce(R, s, b1, s1, on1); k.addPointForce(R, s, b2, s2, -on1);
        // floor from the magnitudes before cancellation (same body twice: stretch rate is exactly 0 analytically,
        // rounding noise numerically)
        double lever = 1 + (p1 - k.mob(b1).getBodyTransform(s).p()).norm() + (p2 - k.mob(b2).getBodyTransform(s).p()).norm();
        if (kind == 0) R.scale += kk * (x + x0) * lever;
        else if (kind == 1) R.scale += cc * (k.stationVel(s, b1, s1).norm() + k.stationVel(s, b2, s2).norm()) * lever;
        R.scale += 1e-300;
    }
    Json describe() override { return Json::obj().set("b1", b1).set("b2", b2).set("s1", jV3(s1)).set("s2", jV3(s2)).set("k", kk).set("x0", x0).set("c", cc).set("f", ff); }
};

// =========================================================================== ConstantForce / ConstantTorque
struct ConstForceElem : Elem {
    bool torque; Vec3 st, fv;
    explicit ConstForceElem(bool torque) : torque(torque) { name = torque ? "ConstantTorque" : "ConstantForce"; }
    bool build(FCase& k, const State&, Rng& r, int attachCls, int variant, std::string&) override {
        b1 = (attachCls == 0) ? 0 : r.integer(1, k.numMobile()); attach = b1 == 0 ? "Ground" : "body";
        st = variant % 2 ? Vec3(0) : randVec3(r, 1.0); fv = variant == 4 ? Vec3(0) : randVec3(r, 20);
        if (torque) force = Force::ConstantTorque(k.m.forces, k.mob(b1), fv); else force = Force::ConstantForce(k.m.forces, k.mob(b1), st, fv);
        regime = fv.norm() == 0 ? "zero" : (st.norm() == 0 ? "origin" : "station"); b2 = -1;
        return true;
    }
    void ref(FCase& k, const State& s, Ref& R) override { if (torque) k.addTorque(R, b1, fv); else k.addPointForce(R, s, b1, st, fv); R.scale += 1e-300; R.peScale = 1e-300; }
    Json describe() override { return Json::obj().set("body", b1).set("station", jV3(st)).set("vector", jV3(fv)); }
};

// =========================================================================== GlobalDamper
struct GlobalDamperElem : Elem {
    double c1 = 0;
    GlobalDamperElem() { name = "GlobalDamper"; reportsPE = true; damped = true; }
    bool build(FCase& k, const State&, Rng& r, int, int variant, std::string&) override {
        c1 = variant == 4 ? 0.0 : r.logUni(0.05, 20);
        force = Force::GlobalDamper(k.m.forces, k.m.matter, c1);
        regime = c1 == 0 ? "c0" : "c"; attach = "all-mobilities";
        return true;
    }
    void ref(FCase& k, const State& s, Ref& R) override {
        const Vector& u = s.getU(); R.diss = 0;
        for (int j = 0; j < k.nu; ++j) { R.f[j] = -c1 * u[j]; R.scale += std::fabs(R.f[j]); R.aF += std::fabs(R.f[j]); R.diss += c1 * u[j] * u[j]; }
        R.scale += 1e-300; R.peScale = 1e-300;
    }
    Json describe() override { return Json::obj().set("c", c1); }
};

// =========================================================================== Mobility spring / damper / constant / discrete
struct MobilityElem : Elem {
    int kind; int body = 0, which = 0; double kk = 0, q0 = 0, cc = 0, ff = 0;
    Force::MobilityLinearSpring sp; Force::MobilityLinearDamper da; Force::MobilityConstantForce co; Force::MobilityDiscreteForce di;
    explicit MobilityElem(int kind) : kind(kind) {
        name = kind == 0 ? "MobilityLinearSpring" : kind == 1 ? "MobilityLinearDamper" : kind == 2 ? "MobilityConstantForce" : "MobilityDiscreteForce";
        reportsPE = (kind <= 1); damped = (kind == 1);
    }
    bool build(FCase& k, const State& p, Rng& r, int, int variant, std::string& why) override {
        if (kind == 0) { if (!k.pickQdotEqualsU(p, r, body, which)) { why = "no-coordinate-with-qdot=u"; return false; } }
        else {
            std::vector<int> c; for (int b = 1; b < k.m.matter.getNumBodies(); ++b) if (k.mob(b).getNumU(p) > 0) c.push_back(b);
            body = c[r.next() % c.size()]; which = r.integer(0, k.mob(body).getNumU(p) - 1);
        }
        const MobilizedBody& mb = k.mob(body);
        attach = mobName(k.m.desc.nodes[body - 1].type);
        if (kind == 0) { kk = variant == 4 ? 0.0 : r.logUni(0.1, 200); q0 = variant == 3 ? 0.0 : r.sym(2);
            sp = (variant % 2) ? Force::MobilityLinearSpring(k.m.forces, mb, MobilizerQIndex(which), kk, q0) : Force::MobilityLinearSpring(k.m.forces, mb, which, kk, q0);
            force = sp; regime = kk == 0 ? "k0" : "k"; }
        else if (kind == 1) { cc = variant == 4 ? 0.0 : r.logUni(0.1, 50); da = Force::MobilityLinearDamper(k.m.forces, mb, MobilizerUIndex(which), cc); force = da; regime = cc == 0 ? "c0" : "c"; }
        else if (kind == 2) { ff = variant == 4 ? 0.0 : r.sym(30); co = Force::MobilityConstantForce(k.m.forces, mb, MobilizerUIndex(which), ff); force = co; regime = ff == 0 ? "f0" : "f"; }
        else { ff = variant == 4 ? 0.0 : r.sym(30); di = Force::MobilityDiscreteForce(k.m.forces, mb, MobilizerUIndex(which), ff); force = di; regime = ff == 0 ? "f0" : "f"; }
        return true;
    }
    void ref(FCase& k, const State& s, Ref& R) override {
        const MobilizedBody& mb = k.mob(body); int ux = mb.getFirstUIndex(s) + which;
        if (kind == 0) { double q = s.getQ()[mb.getFirstQIndex(s) + which]; R.f[ux] = -kk * (q - q0); R.pe = 0.5 * kk * (q - q0) * (q - q0); R.peScale = 0.5 * kk * (q * q + q0 * q0); R.scale = kk * (std::fabs(q) + std::fabs(q0)); }
        else if (kind == 1) { double u = s.getU()[ux]; R.f[ux] = -cc * u; R.diss = cc * u * u; R.scale = std::fabs(R.f[ux]); }
        else { R.f[ux] = ff; R.scale = std::fabs(ff); }
        R.aF = R.scale; R.scale += 1e-300; R.peScale += 1e-300;
    }
    int numOps() override { return kind == 0 ? 4 : 1; }
    std::string applyOp(int op, FCase& k, State& s, Rng& r) override {
        if (kind == 0) {
            if (op == 0) { kk = r.coin(0.15) ? 0.0 : r.logUni(0.1, 200); sp.setStiffness(s, kk); return "setStiffness"; }
            if (op == 1) { q0 = r.sym(2); sp.setQZero(s, q0); return "setQZero"; }
            if (op == 2) { kk = r.logUni(0.1, 200); sp.setDefaultStiffness(kk); } else { q0 = r.sym(2); sp.setDefaultQZero(q0); }
            // topological: both defaults go into the new State
            State ns = k.m.init(); ns.updQ() = s.getQ(); ns.updU() = s.getU(); s = ns; lastOpWasTopology = true;
            kk = sp.getDefaultStiffness(); q0 = sp.getDefaultQZero();
            return op == 2 ? "setDefaultStiffness" : "setDefaultQZero";
        }
        if (kind == 1) { cc = r.coin(0.15) ? 0.0 : r.logUni(0.1, 50); da.setDamping(s, cc); return "setDamping"; }
        if (kind == 2) { ff = r.sym(30); co.setForce(s, ff); return "setForce"; }
        ff = r.sym(30); di.setMobilityForce(s, ff); return "setMobilityForce";
    }
    void checkGetters(Ctx& c, FCase& k, const State& s, const Ref&, const std::string& tail) override {
        LazyWit wit{&k}; double d = 0;
        if (kind == 0) d = std::max(std::fabs(sp.getStiffness(s) - kk), std::fabs(sp.getQZero(s) - q0));
        else if (kind == 1) d = std::fabs(da.getDamping(s) - cc);
        else if (kind == 2) d = std::fabs(co.getForce(s) - ff);
        else d = std::fabs(di.getMobilityForce(s) - ff);
        c.check("getter:" + name + ":parameters" + tail, d, 0.0, [=]() { return wit.get().set("what", "state-level parameter getter does not return what was set"); });
    }
    Json describe() override { return Json::obj().set("body", body).set("which", which).set("k", kk).set("q0", q0).set("c", cc).set("f", ff); }
};

// =========================================================================== MobilityLinearStop
struct StopElem : Elem {
    Force::MobilityLinearStop st; int body = 0, which = 0; double kk = 0, dd = 0, lo = -Infinity, hi = Infinity;
    StopElem() { name = "MobilityLinearStop"; reportsPE = true; }
    bool build(FCase& k, const State& p, Rng& r, int, int variant, std::string& why) override {
        if (!k.pickQdotEqualsU(p, r, body, which)) { why = "no-coordinate-with-qdot=u"; return false; }
        const MobilizedBody& mb = k.mob(body);
        attach = mobName(k.m.desc.nodes[body - 1].type);
        double q = p.getQ()[mb.getFirstQIndex(p) + which], qd = p.getU()[mb.getFirstUIndex(p) + which];
        kk = r.logUni(0.5, 300); dd = r.coin(0.4) ? 0.0 : r.logUni(0.01, 2);
        double gap = r.uni(0.05, 0.8), width = r.uni(0.1, 2);
        switch (variant) {
        case 0: lo = q - r.uni(0.2, 1); hi = q + r.uni(0.2, 1); regime = "inside"; break;
        case 1: hi = q - gap; lo = hi - width; regime = "above"; break;
        case 2: lo = q + gap; hi = lo + width; regime = "below"; break;
        case 3: // clamp active: 1 + d*qdot < 0 above (qdot<0), 1 - d*qdot < 0 below (qdot>0)
            if (std::fabs(qd) < 0.05) { why = "stop-clamp-needs-speed"; return false; }
            dd = r.uni(1.5, 4) / std::fabs(qd);
            if (qd < 0) { hi = q - gap; lo = hi - width; } else { lo = q + gap; hi = lo + width; }
            regime = "clamped"; break;
        case 4: kk = 0; hi = q - gap; lo = hi - width; regime = "k0"; break;
        default: regime = "unbounded"; break;
        }
        if (variant == 5) st = Force::MobilityLinearStop(k.m.forces, mb, MobilizerQIndex(which), kk, dd);
        else st = Force::MobilityLinearStop(k.m.forces, mb, MobilizerQIndex(which), kk, dd, lo, hi);
        force = st; damped = (dd != 0);
        regime += damped ? "/d" : "/d0";
        return true;
    }
    void ref(FCase& k, const State& s, Ref& R) override {
        const MobilizedBody& mb = k.mob(body); int ux = mb.getFirstUIndex(s) + which;
        double q = s.getQ()[mb.getFirstQIndex(s) + which], qd = s.getU()[ux];
        double f = 0, x = 0;
        if (q > hi) { x = q - hi; f = std::min(0.0, -kk * x * (1 + dd * qd)); }
        else if (q < lo) { x = q - lo; f = std::max(0.0, -kk * x * (1 - dd * qd)); }
        R.f[ux] = f; R.pe = 0.5 * kk * x * x;
        double bound = q > hi ? hi : q < lo ? lo : 0.0, pre = (x != 0) ? std::fabs(q) + std::fabs(bound) : 0.0;   // magnitudes before cancellation
        R.scale = kk * (std::fabs(x) + pre) * (1 + dd * std::fabs(qd)) + 1e-300; R.aF = R.scale; R.peScale = R.pe + kk * std::fabs(x) * pre + 1e-300;
    }
    int numOps() override { return 2; }
    std::string applyOp(int op, FCase& k, State& s, Rng& r) override {
        if (op == 0) {
            const MobilizedBody& mb = k.mob(body); double q = s.getQ()[mb.getFirstQIndex(s) + which];
            int w = r.integer(0, 4);
            if (w == 0) { lo = q - r.uni(0.2, 1); hi = q + r.uni(0.2, 1); } else if (w == 1) { hi = q - r.uni(0.05, 0.8); lo = hi - r.uni(0.0, 2); }
            else if (w == 2) { lo = q + r.uni(0.05, 0.8); hi = lo + r.uni(0.0, 2); } else if (w == 3) { lo = -Infinity; hi = Infinity; } else { lo = hi = q + r.sym(0.5); }
            st.setBounds(s, lo, hi); return "setBounds";
        }
        kk = r.coin(0.15) ? 0.0 : r.logUni(0.5, 300); dd = r.coin(0.3) ? 0.0 : r.logUni(0.01, 2); damped = dd != 0;
        st.setMaterialProperties(s, kk, dd); return "setMaterialProperties";
    }
    void checkGetters(Ctx& c, FCase& k, const State& s, const Ref&, const std::string& tail) override {
        LazyWit wit{&k};
        bool ok = st.getLowerBound(s) == lo && st.getUpperBound(s) == hi && st.getStiffness(s) == kk && st.getDissipation(s) == dd;
        c.require("getter:MobilityLinearStop:parameters" + tail, ok, [=]() { return wit.get().set("what", "state-level parameter getters do not return what was set"); });
    }
    Json describe() override { return Json::obj().set("body", body).set("which", which).set("k", kk).set("d", dd).set("qLow", lo).set("qHigh", hi); }
};

// =========================================================================== LinearBushing
struct BushingElem : Elem {
    Force::LinearBushing bu; Transform XF, XM; Vec6 kk, cc;
    BushingElem() { name = "LinearBushing"; reportsPE = true; }
    static Vec6 randVec6(Rng& r, double lo, double hi, double pZero) { Vec6 v; for (int i = 0; i < 6; ++i) v[i] = r.coin(pZero) ? 0.0 : r.logUni(lo, hi); return v; }
    bool build(FCase& k, const State&, Rng& r, int attachCls, int variant, std::string&) override {
        k.pickPair(r, attachCls, b1, b2, attach);
        bool bodyFrames = (variant == 3);
        XF = bodyFrames ? Transform() : randFrame(r, r.integer(0, 2)); XM = bodyFrames ? Transform() : randFrame(r, r.integer(1, 2));
        kk = variant == 4 ? Vec6(0) : randVec6(r, 0.5, 200, 0.15);
        cc = (variant % 2 == 0) ? Vec6(0) : randVec6(r, 0.1, 30, 0.15);
        if (bodyFrames) bu = Force::LinearBushing(k.m.forces, k.mob(b1), k.mob(b2), kk, cc);
        else bu = Force::LinearBushing(k.m.forces, k.mob(b1), XF, k.mob(b2), XM, kk, cc);
        force = bu; upd(); regime = std::string(kk.norm() == 0 ? "k0" : "k") + (damped ? "/c" : "/c0") + (bodyFrames ? "/bodyframes" : "");
        return true;
    }
    void upd() { damped = cc.norm() != 0; }
    struct Kin { Transform X_GF, X_GM, X_FM; Vec3 q, p, qd, v; Mat33 A; };
    // independent kinematics: x-y-z body(M)-fixed angles of R_FM, p_FM in F, and their rates
    Kin kin(FCase& k, const State& s, bool vel) const {
        Kin K;
        const Transform& X1 = k.mob(b1).getBodyTransform(s); const Transform& X2 = k.mob(b2).getBodyTransform(s);
        K.X_GF = X1 * XF; K.X_GM = X2 * XM; K.X_FM = ~K.X_GF * K.X_GM;
        const Mat33& R = K.X_FM.R().asMat33();
        // R = Rx(a) Ry(b) Rz(c): R02 = sin b, R12 = -sin a cos b, R22 = cos a cos b, R01 = -cos b sin c, R00 = cos b cos c
        double b = std::asin(std::max(-1.0, std::min(1.0, R(0, 2)))), a = std::atan2(-R(1, 2), R(2, 2)), cz = std::atan2(-R(0, 1), R(0, 0));
        K.q = Vec3(a, b, cz); K.p = K.X_FM.p();
        double cb = std::cos(b), sb = std::sin(b), c3 = std::cos(cz), s3 = std::sin(cz);
        // angular velocity of M in F expressed in M:  w_M = A * qdot
        K.A = Mat33(cb * c3, s3, 0, -cb * s3, c3, 0, sb, 0, 1);
        K.qd = Vec3(0); K.v = Vec3(0);
        if (vel) {
            const SpatialVec& V1 = k.mob(b1).getBodyVelocity(s); const SpatialVec& V2 = k.mob(b2).getBodyVelocity(s);
            Vec3 vF = V1[1] + V1[0] % (X1.R() * XF.p()), vM = V2[1] + V2[0] % (X2.R() * XM.p());
            Vec3 wFM_M = ~K.X_GM.R() * (V2[0] - V1[0]);
            K.qd = K.A.invert() * wFM_M;
            K.v = ~K.X_GF.R() * (vM - vF - V1[0] % (K.X_GM.p() - K.X_GF.p()));   // d/dt p_FM taken in F
        }
        return K;
    }
    bool precond(FCase& k, const State& s, std::string& why) override {
        Kin K = kin(k, s, false);
        if (std::fabs(std::cos(K.q[1])) < 0.2) { why = "bushing-euler-singularity"; return false; }
        return true;
    }
    void ref(FCase& k, const State& s, Ref& R) override {
        Kin K = kin(k, s, true);
        Vec3 fr, ft; R.diss = 0;
        for (int i = 0; i < 3; ++i) {
            fr[i] = -(kk[i] * K.q[i] + cc[i] * K.qd[i]); ft[i] = -(kk[i + 3] * K.p[i] + cc[i + 3] * K.v[i]);     // f_i = -(k_i q_i + c_i qdot_i)
            R.pe += 0.5 * (kk[i] * K.q[i] * K.q[i] + kk[i + 3] * K.p[i] * K.p[i]);                             // e_i = k_i q_i^2 / 2
            R.diss += cc[i] * K.qd[i] * K.qd[i] + cc[i + 3] * K.v[i] * K.v[i];                                  // p_i = c_i qdot_i^2
        }
        R.peScale = R.pe + 1e-300;
        // moment on body 2 (in M) whose power with w_M equals fr . qdot:  m_M = A^-T fr ; forces along F's axes
        Vec3 mG = K.X_GM.R() * ((~K.A).invert() * fr), fG = K.X_GF.R() * ft;
        Vec3 pM = K.X_GM.p();
        const Transform& X1 = k.mob(b1).getBodyTransform(s); const Transform& X2 = k.mob(b2).getBodyTransform(s);
        // body 2: (mG, fG) at OM ; body 1: the opposite, applied at the same point in space
        R.F[b2] += SpatialVec(mG + (pM - X2.p()) % fG, fG);
        R.F[b1] -= SpatialVec(mG + (pM - X1.p()) % fG, fG);
        double lever = (pM - X2.p()).norm() + (pM - X1.p()).norm() + K.p.norm();
        // floor: q and qdot are differences of O(len), O(vel) quantities (cancelling exactly for same-body attachments)
        double len = 1 + K.X_GF.p().norm() + K.X_GM.p().norm(), vel = 1 + (spMax(k.mob(b1).getBodyVelocity(s)) + spMax(k.mob(b2).getBodyVelocity(s))) * len;
        double ks = 0, cs = 0; for (int i = 0; i < 6; ++i) { ks += kk[i]; cs += cc[i]; }
        R.scale = mG.norm() + fG.norm() * (1 + lever) + (ks * len + cs * vel) * (1 + lever) + 1e-300; R.aF = 2 * fG.norm(); R.aM = 2 * (mG.norm() + pM.norm() * fG.norm());
        R.peScale += ks * len * std::sqrt(2 * R.pe / (ks + 1e-300)) + 1e-6 * ks * len * len;
    }
    double reportedDissipation(FCase&, const State& s) override { return bu.getPowerDissipation(s); }
    int numOps() override { return 4; }
    std::string applyOp(int op, FCase&, State& s, Rng& r) override {
        if (op == 0) { kk = randVec6(r, 0.5, 200, 0.2); bu.setStiffness(s, kk); return "setStiffness"; }
        if (op == 1) { cc = r.coin(0.3) ? Vec6(0) : randVec6(r, 0.1, 30, 0.2); bu.setDamping(s, cc); upd(); return "setDamping"; }
        if (op == 2) { XF = randFrame(r, r.integer(0, 2)); bu.setFrameOnBody1(s, XF); return "setFrameOnBody1"; }
        XM = randFrame(r, r.integer(0, 2)); bu.setFrameOnBody2(s, XM); return "setFrameOnBody2";
    }
    void checkGetters(Ctx& c, FCase& k, const State& s, const Ref& R, const std::string& tail) override {
        LazyWit wit{&k};
        auto W = [&](const char* what) { return [=]() { return wit.get().set("what", what); }; };
        Kin K = kin(k, s, true);
        Vec6 q = bu.getQ(s), qd = bu.getQDot(s), f = bu.getF(s);
        double dq = 0, dqd = 0, df = 0, sq = 1, sqd = 1, sf = 1e-300;
        for (int i = 0; i < 3; ++i) {
            dq = std::max(dq, std::max(std::fabs(q[i] - K.q[i]), std::fabs(q[i + 3] - K.p[i]))); sq = std::max(sq, std::fabs(K.p[i]));
            dqd = std::max(dqd, std::max(std::fabs(qd[i] - K.qd[i]), std::fabs(qd[i + 3] - K.v[i]))); sqd = std::max(sqd, std::max(std::fabs(K.qd[i]), std::fabs(K.v[i])));
            double e0 = -(kk[i] * K.q[i] + cc[i] * K.qd[i]), e1 = -(kk[i + 3] * K.p[i] + cc[i + 3] * K.v[i]);
            df = std::max(df, std::max(std::fabs(f[i] - e0), std::fabs(f[i + 3] - e1)));
            sf += kk[i] * std::fabs(K.q[i]) + cc[i] * std::fabs(K.qd[i]) + kk[i + 3] * std::fabs(K.p[i]) + cc[i + 3] * std::fabs(K.v[i]);
        }
        // floors: q and qdot are differences of O(len), O(vel) quantities (exactly cancelling for same-body attachments)
        double len = 1 + K.X_GF.p().norm() + K.X_GM.p().norm(), vel = 1 + spMax(k.mob(b1).getBodyVelocity(s)) * len + spMax(k.mob(b2).getBodyVelocity(s)) * len;
        double ks = 0, cs = 0; for (int i = 0; i < 6; ++i) { ks += kk[i]; cs += cc[i]; }
        c.check("getter:LinearBushing:getQ" + tail, dq, 1e-10 * (sq + len), W("getQ() != x-y-z body-fixed angles of R_FM and p_FM"));
        c.check("getter:LinearBushing:getQDot" + tail, dqd, 1e-10 * (sqd + vel) * 25, W("getQDot() != Euler angle rates / v_FM in F"));
        c.check("getter:LinearBushing:getF" + tail, df, 1e-10 * (sf + ks * len + cs * vel) * 25, W("getF() != -(k q + c qdot)"));
        c.check("getter:LinearBushing:getPotentialEnergy" + tail, std::fabs(bu.getPotentialEnergy(s) - R.pe), 1e-10 * (R.peScale + ks * len * std::sqrt(2 * R.pe / (ks + 1e-300))) + 1e-20 * ks * len * len, W("getPotentialEnergy() != sum k q^2/2"));
        c.check("getter:LinearBushing:getPowerDissipation" + tail, std::fabs(bu.getPowerDissipation(s) - R.diss), 1e-10 * (R.diss + cs * vel * std::sqrt(R.diss / (cs + 1e-300))) * 50 + 1e-20 * cs * vel * vel, W("getPowerDissipation() != sum c qdot^2"));
        // F_GM on body 2 at OM, F_GF on body 1 at OF: equal and opposite once shifted to a common point
        SpatialVec FM = bu.getF_GM(s), FF = bu.getF_GF(s);
        Vec3 shift = K.X_GM.p() - K.X_GF.p();
        double de = std::max((FM[1] + FF[1]).norm(), (FM[0] + FF[0] - shift % FF[1]).norm());
        c.check("getter:LinearBushing:F_GM=-F_GF" + tail, de, E1 * R.scale * 10, W("getF_GF() is not the opposite of getF_GM() shifted to OF"));
        double dx = std::max((bu.getX_GF(s).p() - K.X_GF.p()).norm(), (bu.getX_GM(s).p() - K.X_GM.p()).norm());
        c.check("getter:LinearBushing:frames" + tail, dx, 1e-12 * (1 + K.X_GF.p().norm() + K.X_GM.p().norm()), W("getX_GF()/getX_GM() != X_GB*X_BF"));
        bool pOk = (bu.getStiffness(s) - kk).norm() == 0 && (bu.getDamping(s) - cc).norm() == 0 && (bu.getFrameOnBody1(s).p() - XF.p()).norm() == 0 && (bu.getFrameOnBody2(s).p() - XM.p()).norm() == 0;
        c.require("getter:LinearBushing:parameters" + tail, pOk, W("state-level parameter getters do not return what was set"));
    }
    Json describe() override { return Json::obj().set("b1", b1).set("b2", b2).set("k", jV6(kk)).set("c", jV6(cc)).set("pF", jV3(XF.p())).set("pM", jV3(XM.p())); }
};

// =========================================================================== DiscreteForces
struct DiscreteElem : Elem {
    Force::DiscreteForces df; Vector fs; Vector_<SpatialVec> Fs; bool haveF = false, haveB = false;
    DiscreteElem() { name = "DiscreteForces"; }
    bool build(FCase& k, const State&, Rng&, int, int, std::string&) override { df = Force::DiscreteForces(k.m.forces, k.m.matter); force = df; attach = "all"; regime = "default-empty"; return true; }
    void ensureF(FCase& k) { if (!haveF) { fs.resize(k.nu); fs = 0; haveF = true; } }
    void ensureB(FCase& k) { if (!haveB) { Fs.resize(k.nb); Fs = SpatialVec(Vec3(0), Vec3(0)); haveB = true; } }
    void ref(FCase& k, const State&, Ref& R) override {
        if (haveF) for (int j = 0; j < k.nu; ++j) { R.f[j] = fs[j]; R.scale += std::fabs(fs[j]); }
        if (haveB) for (int b = 0; b < k.nb; ++b) { R.F[b] = Fs[b]; R.scale += spMax(Fs[b]); }
        R.scale += 1e-300; R.peScale = 1e-300;
    }
    int numOps() override { return 8; }
    std::string applyOp(int op, FCase& k, State& s, Rng& r) override {
        switch (op) {
        case 0: { int b; do { b = r.integer(1, k.nb - 1); } while (k.mob(b).getNumU(s) == 0); int w = r.integer(0, k.mob(b).getNumU(s) - 1); double f = r.sym(20);
                  df.setOneMobilityForce(s, k.mob(b), MobilizerUIndex(w), f); ensureF(k); fs[k.mob(b).getFirstUIndex(s) + w] = f; return "setOneMobilityForce"; }
        case 1: { if (r.coin(0.2)) { df.setAllMobilityForces(s, Vector()); haveF = false; return "setAllMobilityForces(empty)"; }
                  ensureF(k); for (int j = 0; j < k.nu; ++j) fs[j] = r.sym(20); df.setAllMobilityForces(s, fs); return "setAllMobilityForces"; }
        case 2: { int b = r.integer(0, k.nb - 1); SpatialVec F(randVec3(r, 20), randVec3(r, 20)); df.setOneBodyForce(s, k.mob(b), F); ensureB(k); Fs[b] = F; return "setOneBodyForce"; }
        case 3: { if (r.coin(0.2)) { df.setAllBodyForces(s, Vector_<SpatialVec>()); haveB = false; return "setAllBodyForces(empty)"; }
                  ensureB(k); for (int b = 0; b < k.nb; ++b) Fs[b] = SpatialVec(randVec3(r, 20), randVec3(r, 20)); df.setAllBodyForces(s, Fs); return "setAllBodyForces"; }
        case 4: { int b = r.integer(0, k.nb - 1); Vec3 st = randVec3(r, 1), f = randVec3(r, 20);
                  k.m.sys.realize(s, Stage::Position);   // documented precondition
                  Vec3 sG = k.mob(b).getBodyTransform(s).R() * st;
                  df.addForceToBodyPoint(s, k.mob(b), st, f); ensureB(k); Fs[b] += SpatialVec(sG % f, f); return "addForceToBodyPoint"; }
        case 5: df.clearAllMobilityForces(s); haveF = false; return "clearAllMobilityForces";
        case 6: df.clearAllBodyForces(s); haveB = false; return "clearAllBodyForces";
        default: df.clearAllForces(s); haveF = haveB = false; return "clearAllForces";
        }
    }
    void checkGetters(Ctx& c, FCase& k, const State& s, const Ref& R, const std::string& tail) override {
        LazyWit wit{&k}; double d = 0;
        for (int b = 0; b < k.nb; ++b) d = std::max(d, spMax(df.getOneBodyForce(s, k.mob(b)) - R.F[b]));
        for (int b = 1; b < k.nb; ++b) for (int w = 0; w < k.mob(b).getNumU(s); ++w) d = std::max(d, std::fabs(df.getOneMobilityForce(s, k.mob(b), MobilizerUIndex(w)) - R.f[k.mob(b).getFirstUIndex(s) + w]));
        bool sz = (df.getAllMobilityForces(s).size() == (haveF ? k.nu : 0)) && (df.getAllBodyForces(s).size() == (haveB ? k.nb : 0));
        c.check("getter:DiscreteForces:getOne" + tail, d, E1 * R.scale, [=]() { return wit.get().set("what", "getOneBodyForce()/getOneMobilityForce() != what was set"); });
        c.require("getter:DiscreteForces:getAll-size" + tail, sz, [=]() { return wit.get().set("what", "getAll*Forces() size is neither 0 (nothing applied) nor the documented full length"); });
    }
    Json describe() override { return Json::obj().set("haveMobility", haveF).set("haveBody", haveB); }
};

inline std::unique_ptr<Elem> makeElem(int et) {
    switch (et) {
    case E_Gravity: return std::unique_ptr<Elem>(new GravityElem());
    case E_UniformGravity: return std::unique_ptr<Elem>(new UniformGravityElem());
    case E_TPSpring: return std::unique_ptr<Elem>(new TwoPointElem(0));
    case E_TPDamper: return std::unique_ptr<Elem>(new TwoPointElem(1));
    case E_TPConst: return std::unique_ptr<Elem>(new TwoPointElem(2));
    case E_ConstForce: return std::unique_ptr<Elem>(new ConstForceElem(false));
    case E_ConstTorque: return std::unique_ptr<Elem>(new ConstForceElem(true));
    case E_GlobalDamper: return std::unique_ptr<Elem>(new GlobalDamperElem());
    case E_MobSpring: return std::unique_ptr<Elem>(new MobilityElem(0));
    case E_MobDamper: return std::unique_ptr<Elem>(new MobilityElem(1));
    case E_MobConst: return std::unique_ptr<Elem>(new MobilityElem(2));
    case E_MobDiscrete: return std::unique_ptr<Elem>(new MobilityElem(3));
    case E_MobStop: return std::unique_ptr<Elem>(new StopElem());
    case E_Bushing: return std::unique_ptr<Elem>(new BushingElem());
    case E_Discrete: return std::unique_ptr<Elem>(new DiscreteElem());
    default: return makeContactElem(et);
    }
}

} // namespace vh

#include "force_contact.h"
