// vh.h — runtime shared by all monitor programs (single-TU programs: include once).
//
// Protocol (stdout, one JSON object per line, consumed by bin/vcheck):
//   {"t":"viol", ...}     a violation candidate with its witness (printed at once)
//   {"t":"crash", ...}    printed from the fatal-signal / sanitizer-death hook
//   {"t":"summary", ...}  exactly one, last line, when the worker finishes normally
// Every case is regenerated from <seed, case index> alone (see runCases()).
#pragma once
#include <cstdint>
#include <cstdio>
#include <cstdlib>
#include <cstring>
#include <cmath>
#include <csignal>
#include <unistd.h>
#include <string>
#include <vector>
#include <map>
#include <set>
#include <sstream>
#include <functional>
#include <exception>
#include <algorithm>
#include <limits>

#if defined(__has_feature)
#if __has_feature(address_sanitizer)
#define VH_ASAN 1
#endif
#endif

namespace vh {

// ---------------------------------------------------------------- PRNG
inline uint64_t splitmix64(uint64_t& x) {
    uint64_t z = (x += 0x9E3779B97F4A7C15ULL);
    z = (z ^ (z >> 30)) * 0xBF58476D1CE4E5B9ULL;
    z = (z ^ (z >> 27)) * 0x94D049BB133111EBULL;
    return z ^ (z >> 31);
}
inline uint64_t mix(uint64_t a, uint64_t b) {
    uint64_t x = a * 0x9E3779B97F4A7C15ULL + b + 0x632BE59BD9B4E019ULL;
    uint64_t r = splitmix64(x);
    r ^= splitmix64(x);
    return r;
}
struct Rng {
    uint64_t s[4];
    explicit Rng(uint64_t seed = 1) { uint64_t x = seed; for (auto& v : s) v = splitmix64(x); }
    static uint64_t rotl(uint64_t x, int k) { return (x << k) | (x >> (64 - k)); }
    uint64_t next() {
        uint64_t r = rotl(s[1] * 5, 7) * 9, t = s[1] << 17;
        s[2] ^= s[0]; s[3] ^= s[1]; s[1] ^= s[2]; s[0] ^= s[3]; s[2] ^= t; s[3] = rotl(s[3], 45);
        return r;
    }
    double uni() { return (next() >> 11) * (1.0 / 9007199254740992.0); }   // [0,1)
    double uni(double a, double b) { return a + (b - a) * uni(); }
    double sym(double a = 1.0) { return uni(-a, a); }
    int integer(int lo, int hi) { return lo + (int)(next() % (uint64_t)(hi - lo + 1)); } // inclusive
    bool coin(double p = 0.5) { return uni() < p; }
    double normal() {
        double u1 = uni(), u2 = uni();
        if (u1 < 1e-300) u1 = 1e-300;
        return std::sqrt(-2 * std::log(u1)) * std::cos(6.283185307179586 * u2);
    }
    // log-uniform in [a,b], a,b>0
    double logUni(double a, double b) { return std::exp(uni(std::log(a), std::log(b))); }
    template <class T> const T& pick(const std::vector<T>& v) { return v[next() % v.size()]; }
};

// ---------------------------------------------------------------- tiny JSON
class Json {
public:
    enum Kind { Null, Bool, Num, Int, Str, Arr, Obj };
    Json() : k(Null) {}
    Json(bool b) : k(Bool), b(b) {}
    Json(double d) : k(Num), d(d) {}
    Json(int i) : k(Int), i(i) {}
    Json(long i) : k(Int), i(i) {}
    Json(long long i) : k(Int), i(i) {}
    Json(unsigned long i) : k(Int), i((long long)i) {}
    Json(unsigned i) : k(Int), i(i) {}
    Json(const char* s) : k(Str), s(s) {}
    Json(const std::string& s) : k(Str), s(s) {}
    static Json arr() { Json j; j.k = Arr; return j; }
    static Json obj() { Json j; j.k = Obj; return j; }
    Json& push(const Json& v) { if (k != Arr) { k = Arr; } a.push_back(v); return *this; }
    Json& set(const std::string& key, const Json& v) {
        if (k != Obj) k = Obj;
        for (auto& kv : o) if (kv.first == key) { kv.second = v; return *this; }
        o.emplace_back(key, v); return *this;
    }
    template <class It> static Json fromRange(It b, It e) { Json j = arr(); for (; b != e; ++b) j.push(Json(*b)); return j; }
    std::string dump() const { std::string out; dumpTo(out); return out; }
    void dumpTo(std::string& out) const {
        char buf[64];
        switch (k) {
        case Null: out += "null"; break;
        case Bool: out += b ? "true" : "false"; break;
        case Int: snprintf(buf, sizeof buf, "%lld", i); out += buf; break;
        case Num:
            if (std::isnan(d)) out += "\"NaN\"";
            else if (std::isinf(d)) out += d > 0 ? "\"Inf\"" : "\"-Inf\"";
            else { snprintf(buf, sizeof buf, "%.17g", d); out += buf; }
            break;
        case Str: esc(s, out); break;
        case Arr: out += '['; for (size_t n = 0; n < a.size(); ++n) { if (n) out += ','; a[n].dumpTo(out); } out += ']'; break;
        case Obj: out += '{'; for (size_t n = 0; n < o.size(); ++n) { if (n) out += ','; esc(o[n].first, out); out += ':'; o[n].second.dumpTo(out); } out += '}'; break;
        }
    }
    static void esc(const std::string& s, std::string& out) {
        out += '"';
        for (unsigned char c : s) {
            if (c == '"') out += "\\\""; else if (c == '\\') out += "\\\\";
            else if (c == '\n') out += "\\n"; else if (c == '\t') out += "\\t"; else if (c == '\r') out += "\\r";
            else if (c < 0x20 || c >= 0x7f) { char b[8]; snprintf(b, sizeof b, "\\u%04x", c); out += b; }
            else out += (char)c;
        }
        out += '"';
    }
private:
    Kind k; bool b = false; double d = 0; long long i = 0; std::string s;
    std::vector<Json> a; std::vector<std::pair<std::string, Json>> o;
};
template <class V> inline Json jvec(const V& v, int n) { Json j = Json::arr(); for (int i = 0; i < n; ++i) j.push(Json((double)v[i])); return j; }
inline Json jvec(const std::vector<double>& v) { Json j = Json::arr(); for (double x : v) j.push(Json(x)); return j; }

// ---------------------------------------------------------------- args
struct Args {
    std::string prop, tier = "quick";
    uint64_t seed = 1;
    long cases = 10, only = -1, first = 0;
    int worker = 0;
    bool verbose = false;
    std::map<std::string, std::string> extra;
    std::string get(const std::string& k, const std::string& d = "") const { auto it = extra.find(k); return it == extra.end() ? d : it->second; }
    long getInt(const std::string& k, long d) const { auto it = extra.find(k); return it == extra.end() ? d : atol(it->second.c_str()); }
    double getNum(const std::string& k, double d) const { auto it = extra.find(k); return it == extra.end() ? d : atof(it->second.c_str()); }
};
inline Args parseArgs(int argc, char** argv) {
    Args a;
    for (int i = 1; i < argc; ++i) {
        std::string k = argv[i];
        if (k == "--verbose") { a.verbose = true; continue; }
        if (k.rfind("--", 0) != 0 || i + 1 >= argc) { fprintf(stderr, "bad arg %s\n", argv[i]); exit(2); }
        std::string v = argv[++i];
        k = k.substr(2);
        if (k == "prop") a.prop = v; else if (k == "tier") a.tier = v;
        else if (k == "seed") a.seed = strtoull(v.c_str(), 0, 10);
        else if (k == "cases") a.cases = atol(v.c_str());
        else if (k == "only") a.only = atol(v.c_str());
        else if (k == "first") a.first = atol(v.c_str());
        else if (k == "worker") a.worker = atoi(v.c_str());
        else a.extra[k] = v;
    }
    return a;
}

// ---------------------------------------------------------------- crash hook
static char g_crashLine[512] = "{\"t\":\"crash\",\"case\":-1}\n";
static void writeCrashLine() { ssize_t r = write(1, g_crashLine, strlen(g_crashLine)); (void)r; }
static void onFatalSignal(int sig) {
    writeCrashLine();
    signal(sig, SIG_DFL);
    raise(sig);
}

// ---------------------------------------------------------------- context
class Ctx {
public:
    explicit Ctx(const Args& a) : args(a) {
        setvbuf(stdout, nullptr, _IOLBF, 0);
#if !defined(__SANITIZE_ADDRESS__) && !defined(VH_ASAN)
        signal(SIGSEGV, onFatalSignal); signal(SIGBUS, onFatalSignal); signal(SIGFPE, onFatalSignal);
#endif
        signal(SIGABRT, onFatalSignal);
    }
    const Args args;
    long curCase = -1;
    std::string phase;                       // free-text "where are we" for crash attribution

    void beginCase(long idx) {
        curCase = idx; caseSkipped = false; caseChecks = 0; setPhase("");
    }
    void setPhase(const std::string& p) {
        phase = p;
        std::string ps; Json::esc(p, ps);
        snprintf(g_crashLine, sizeof g_crashLine,
                 "{\"t\":\"crash\",\"prop\":\"%s\",\"seed\":%llu,\"case\":%ld,\"phase\":%s}\n",
                 args.prop.c_str(), (unsigned long long)args.seed, curCase, ps.c_str());
    }
    void endCase() {
        ++cases;
        if (caseChecks > 0) ++conclusive; else ++inconclusive;
    }
    // coverage key reached (a cell of the property-specific coverage space)
    void cover(const std::string& key) { ++coverMap[key]; }
    // a guard rejected a (sub)case: counted, never a pass
    void skip(const std::string& reason) { ++skips[reason]; caseSkipped = true; }
    // counters of observed events / outcomes
    void obs(const std::string& name, long n = 1) { obsMap[name] += n; }
    void sample(const Json& j) { if (samples.size() < 5) samples.push_back(j); }
    bool wantSample() const { return samples.size() < 5; }

    // Core comparison: resid must be <= tol. NaN/Inf resid is a violation.
    // 'cls' groups ratios for the margin report; 'key' identifies the violation.
    bool check(const std::string& key, double resid, double tol, const std::function<Json()>& witness) {
        ++checks; ++caseChecks;
        double ratio = (tol > 0) ? resid / tol : (resid == 0 ? 0 : std::numeric_limits<double>::infinity());
        std::string cls = key.substr(0, key.find(':'));
        if (!(ratio == ratio)) ratio = std::numeric_limits<double>::infinity();
        auto& m = maxRatio[cls];
        if (ratio > m && std::isfinite(ratio)) m = ratio;
        if (resid <= tol) return true;
        Json w = witness ? witness() : Json::obj();
        emitViol(key, resid, tol, w);
        return false;
    }
    // Boolean oracle
    bool require(const std::string& key, bool ok, const std::function<Json()>& witness) {
        ++checks; ++caseChecks;
        if (ok) return true;
        emitViol(key, 1, 0, witness ? witness() : Json::obj());
        return false;
    }
    void viol(const std::string& key, const Json& w) { ++checks; ++caseChecks; emitViol(key, 1, 0, w); }

    int finish() {
        Json s = Json::obj();
        s.set("t", "summary").set("prop", args.prop).set("seed", (long long)args.seed).set("worker", args.worker)
         .set("cases", cases).set("conclusive", conclusive).set("inconclusive", inconclusive)
         .set("checks", checks).set("violations", nviol);
        Json sk = Json::obj(); for (auto& kv : skips) sk.set(kv.first, kv.second); s.set("skips", sk);
        Json cv = Json::obj(); for (auto& kv : coverMap) cv.set(kv.first, kv.second); s.set("cover", cv);
        Json ob = Json::obj(); for (auto& kv : obsMap) ob.set(kv.first, kv.second); s.set("obs", ob);
        Json mr = Json::obj(); for (auto& kv : maxRatio) mr.set(kv.first, kv.second); s.set("max_ratio", mr);
        Json sm = Json::arr(); for (auto& j : samples) sm.push(j); s.set("samples", sm);
        printf("%s\n", s.dump().c_str());
        fflush(stdout);
        return 0;
    }
    long numViolations() const { return nviol; }

private:
    void emitViol(const std::string& key, double resid, double tol, const Json& w) {
        ++nviol;
        long& n = violCount[key];
        if (++n > 3) return;   // first 3 witnesses per key are enough; all are counted
        Json v = Json::obj();
        v.set("t", "viol").set("prop", args.prop).set("key", key).set("seed", (long long)args.seed)
         .set("case", curCase).set("resid", resid).set("tol", tol).set("phase", phase).set("witness", w);
        printf("%s\n", v.dump().c_str());
        fflush(stdout);
    }
    long cases = 0, conclusive = 0, inconclusive = 0, checks = 0, nviol = 0, caseChecks = 0;
    bool caseSkipped = false;
    std::map<std::string, long> coverMap, skips, obsMap, violCount;
    std::map<std::string, double> maxRatio;
    std::vector<Json> samples;
};

inline std::string firstLine(const std::string& s, size_t maxLen = 160) {
    std::string r;
    for (char c : s) { if (c == '\n' || c == '\r') { if (!r.empty() && r.back() != ' ') r += ' '; } else r += c; if (r.size() >= maxLen) break; }
    return r;
}
// Strip digits/addresses so that exception texts make stable keys.
inline std::string normMsg(const std::string& s) {
    std::string r;
    bool lastHash = false;
    for (char c : firstLine(s, 200)) {
        if ((c >= '0' && c <= '9')) { if (!lastHash) r += '#'; lastHash = true; }
        else { r += c; lastHash = false; }
    }
    // keep only the tail after the last "): " that simbody exception texts carry (file:line prefix)
    return r;
}

// Run cases [first, first+cases) (or only one); every case gets its own PRNG derived
// from <seed, index>. An exception escaping a case is a violation candidate: monitors
// must catch and classify documented exceptions themselves.
template <class F> inline int runCases(Ctx& c, F f) {
    const Args& a = c.args;
    long b = a.first, e = a.first + a.cases;
    if (a.only >= 0) { b = a.only; e = a.only + 1; }
    for (long i = b; i < e; ++i) {
        c.beginCase(i);
        Rng r(mix(a.seed, (uint64_t)i));
        try { f(i, r); }
        catch (const std::exception& ex) {
            c.viol("exception:" + normMsg(ex.what()), Json::obj().set("what", firstLine(ex.what(), 600)).set("phase", c.phase));
        }
        c.endCase();
    }
    return c.finish();
}

} // namespace vh

#if defined(__SANITIZE_ADDRESS__) || defined(VH_ASAN)
extern "C" void __asan_on_error() { vh::writeCrashLine(); }
#endif
