// geom_util.h — harness-side geometry for mon_geom (C34, C36): long-double vectors, mesh generators,
// brute-force triangle-mesh oracles (nearest point, first ray hit, inside by ray parity), robust
// point-to-ellipsoid distance, small symmetric eigen solvers. Nothing here calls the library.
#pragma once
#include "SimTKmath.h"
#include "vh.h"
#include <array>
#include <memory>

namespace gm {
using SimTK::Vec3;
using SimTK::Vec2;
using SimTK::Real;
using vh::Json;
typedef long double LD;

struct V3 {
    LD x = 0, y = 0, z = 0;
    V3() {}
    V3(LD x, LD y, LD z) : x(x), y(y), z(z) {}
    explicit V3(const Vec3& v) : x(v[0]), y(v[1]), z(v[2]) {}
    LD operator[](int i) const { return i == 0 ? x : (i == 1 ? y : z); }
    LD& at(int i) { return i == 0 ? x : (i == 1 ? y : z); }
};
inline V3 operator+(const V3& a, const V3& b) { return V3(a.x + b.x, a.y + b.y, a.z + b.z); }
inline V3 operator-(const V3& a, const V3& b) { return V3(a.x - b.x, a.y - b.y, a.z - b.z); }
inline V3 operator*(LD s, const V3& a) { return V3(s * a.x, s * a.y, s * a.z); }
inline V3 operator*(const V3& a, LD s) { return V3(s * a.x, s * a.y, s * a.z); }
inline LD dot(const V3& a, const V3& b) { return a.x * b.x + a.y * b.y + a.z * b.z; }
inline V3 cross(const V3& a, const V3& b) { return V3(a.y * b.z - a.z * b.y, a.z * b.x - a.x * b.z, a.x * b.y - a.y * b.x); }
inline LD norm(const V3& a) { return std::sqrt(dot(a, a)); }
inline Vec3 toVec3(const V3& a) { return Vec3((double)a.x, (double)a.y, (double)a.z); }

inline Json jv(const Vec3& v) { return Json::arr().push(Json(v[0])).push(Json(v[1])).push(Json(v[2])); }
inline Json jv(const Vec2& v) { return Json::arr().push(Json(v[0])).push(Json(v[1])); }
inline Json jv(const V3& v) { return jv(toVec3(v)); }
inline bool finite3(const Vec3& v) { return std::isfinite(v[0]) && std::isfinite(v[1]) && std::isfinite(v[2]); }

inline Vec3 randUnit(vh::Rng& r) {
    for (;;) {
        Vec3 v(r.normal(), r.normal(), r.normal());
        double n = v.norm();
        if (n > 1e-3) return v / n;
    }
}
inline Vec3 randBox(vh::Rng& r, double s) { return Vec3(r.sym(s), r.sym(s), r.sym(s)); }
inline Vec3 anyPerp(const Vec3& n) {
    Vec3 a = std::fabs(n[0]) < 0.6 ? Vec3(1, 0, 0) : Vec3(0, 1, 0);
    Vec3 t = a - (SimTK::dot(a, n)) * n;
    return t / t.norm();
}
inline SimTK::Rotation randRotation(vh::Rng& r) {
    Vec3 ax = randUnit(r);
    return SimTK::Rotation(r.uni(-3.1, 3.1), SimTK::UnitVec3(ax));
}

// ------------------------------------------------------------------ symmetric 2x2 eigen (values sorted max first)
struct Eig2 { double kmax, kmin; double vmax[2]; };
inline Eig2 symEig2(double a, double b, double c) {   // [a b; b c]
    Eig2 e;
    double tr = a + c, df = a - c, d = std::sqrt(df * df + 4 * b * b);
    e.kmax = 0.5 * (tr + d); e.kmin = 0.5 * (tr - d);
    // eigenvector for kmax: (b, kmax-a) or (kmax-c, b)
    double v0 = e.kmax - c, v1 = b;
    double w0 = b, w1 = e.kmax - a;
    if (v0 * v0 + v1 * v1 < w0 * w0 + w1 * w1) { v0 = w0; v1 = w1; }
    double n = std::sqrt(v0 * v0 + v1 * v1);
    if (n < 1e-300) { v0 = 1; v1 = 0; n = 1; }
    e.vmax[0] = v0 / n; e.vmax[1] = v1 / n;
    return e;
}

// ------------------------------------------------------------------ point-to-ellipsoid distance (Eberly, bisection; LD)
// Returns the nearest point on the ellipsoid sum (x_i/e_i)^2 = 1 to y, computed in the first octant with sorted axes.
inline LD ellGetRoot(LD r0, LD r1, LD z0, LD z1, LD z2, LD g) {
    LD n0 = r0 * z0, n1 = r1 * z1;
    LD s0 = z2 - 1, s1 = (g < 0 ? 0 : std::sqrt(n0 * n0 + n1 * n1 + z2 * z2) - 1);
    LD s = 0;
    for (int i = 0; i < 20000; ++i) {
        s = (s0 + s1) / 2;
        if (s == s0 || s == s1) break;
        LD ratio0 = n0 / (s + r0), ratio1 = n1 / (s + r1), ratio2 = z2 / (s + 1);
        g = ratio0 * ratio0 + ratio1 * ratio1 + ratio2 * ratio2 - 1;
        if (g > 0) s0 = s; else if (g < 0) s1 = s; else break;
    }
    return s;
}
inline LD ellGetRoot2(LD r0, LD z0, LD z1, LD g) {
    LD n0 = r0 * z0;
    LD s0 = z1 - 1, s1 = (g < 0 ? 0 : std::sqrt(n0 * n0 + z1 * z1) - 1);
    LD s = 0;
    for (int i = 0; i < 20000; ++i) {
        s = (s0 + s1) / 2;
        if (s == s0 || s == s1) break;
        LD ratio0 = n0 / (s + r0), ratio1 = z1 / (s + 1);
        g = ratio0 * ratio0 + ratio1 * ratio1 - 1;
        if (g > 0) s0 = s; else if (g < 0) s1 = s; else break;
    }
    return s;
}
// ellipse e0>=e1>0, y0,y1>=0
inline LD ellipseDist(LD e0, LD e1, LD y0, LD y1, LD& x0, LD& x1) {
    LD d;
    if (y1 > 0) {
        if (y0 > 0) {
            LD z0 = y0 / e0, z1 = y1 / e1, g = z0 * z0 + z1 * z1 - 1;
            if (g != 0) {
                LD r0 = (e0 / e1) * (e0 / e1);
                LD sbar = ellGetRoot2(r0, z0, z1, g);
                x0 = r0 * y0 / (sbar + r0); x1 = y1 / (sbar + 1);
                d = std::sqrt((x0 - y0) * (x0 - y0) + (x1 - y1) * (x1 - y1));
            } else { x0 = y0; x1 = y1; d = 0; }
        } else { x0 = 0; x1 = e1; d = std::fabs(y1 - e1); }
    } else {
        LD numer0 = e0 * y0, denom0 = e0 * e0 - e1 * e1;
        if (numer0 < denom0) {
            LD xde0 = numer0 / denom0;
            x0 = e0 * xde0; x1 = e1 * std::sqrt(1 - xde0 * xde0);
            d = std::sqrt((x0 - y0) * (x0 - y0) + x1 * x1);
        } else { x0 = e0; x1 = 0; d = std::fabs(y0 - e0); }
    }
    return d;
}
// ellipsoid e0>=e1>=e2>0, y>=0
inline LD ellipsoidDistSorted(LD e0, LD e1, LD e2, LD y0, LD y1, LD y2, LD& x0, LD& x1, LD& x2) {
    LD d;
    if (y2 > 0) {
        if (y1 > 0) {
            if (y0 > 0) {
                LD z0 = y0 / e0, z1 = y1 / e1, z2 = y2 / e2, g = z0 * z0 + z1 * z1 + z2 * z2 - 1;
                if (g != 0) {
                    LD r0 = (e0 / e2) * (e0 / e2), r1 = (e1 / e2) * (e1 / e2);
                    LD sbar = ellGetRoot(r0, r1, z0, z1, z2, g);
                    x0 = r0 * y0 / (sbar + r0); x1 = r1 * y1 / (sbar + r1); x2 = y2 / (sbar + 1);
                    d = std::sqrt((x0 - y0) * (x0 - y0) + (x1 - y1) * (x1 - y1) + (x2 - y2) * (x2 - y2));
                } else { x0 = y0; x1 = y1; x2 = y2; d = 0; }
            } else { x0 = 0; d = ellipseDist(e1, e2, y1, y2, x1, x2); }
        } else {
            if (y0 > 0) { x1 = 0; d = ellipseDist(e0, e2, y0, y2, x0, x2); }
            else { x0 = 0; x1 = 0; x2 = e2; d = std::fabs(y2 - e2); }
        }
    } else {
        LD denom0 = e0 * e0 - e2 * e2, denom1 = e1 * e1 - e2 * e2, numer0 = e0 * y0, numer1 = e1 * y1;
        bool computed = false;
        if (numer0 < denom0 && numer1 < denom1) {
            LD xde0 = numer0 / denom0, xde1 = numer1 / denom1, disc = 1 - xde0 * xde0 - xde1 * xde1;
            if (disc > 0) {
                x0 = e0 * xde0; x1 = e1 * xde1; x2 = e2 * std::sqrt(disc);
                d = std::sqrt((x0 - y0) * (x0 - y0) + (x1 - y1) * (x1 - y1) + x2 * x2);
                computed = true;
            }
        }
        if (!computed) { x2 = 0; d = ellipseDist(e0, e1, y0, y1, x0, x1); }
    }
    return d;
}
// general: radii (any order), query y (any signs). Returns distance and nearest point.
inline LD ellipsoidDist(const Vec3& radii, const V3& y, V3& xn) {
    int idx[3] = {0, 1, 2};
    std::sort(idx, idx + 3, [&](int a, int b) { return radii[a] > radii[b]; });
    LD e[3], yy[3], sg[3];
    for (int k = 0; k < 3; ++k) { e[k] = radii[idx[k]]; LD v = y[idx[k]]; sg[k] = v < 0 ? -1 : 1; yy[k] = std::fabs(v); }
    LD x[3];
    LD d = ellipsoidDistSorted(e[0], e[1], e[2], yy[0], yy[1], yy[2], x[0], x[1], x[2]);
    for (int k = 0; k < 3; ++k) xn.at(idx[k]) = sg[k] * x[k];
    return d;
}

// ------------------------------------------------------------------ meshes
struct MeshData {
    std::vector<Vec3> v;
    std::vector<int> f;          // 3 indices per face
    std::string cls;             // generator class (coverage key component)
    int genus = 0;
    bool closed = true;
    double scale = 1;            // bounding radius about the centroid
    Vec3 center = Vec3(0);
    int nf() const { return (int)f.size() / 3; }
    int nv() const { return (int)v.size(); }
    V3 vert(int face, int k) const { return V3(v[f[3 * face + k]]); }
};
inline void meshFinish(MeshData& m) {
    Vec3 c(0);
    for (auto& p : m.v) c += p;
    c /= (double)m.v.size();
    double s = 0;
    for (auto& p : m.v) s = std::max(s, (p - c).norm());
    m.center = c; m.scale = s;
}
inline LD meshSignedVolume(const MeshData& m) {
    LD vol = 0;
    V3 c(m.center);
    for (int i = 0; i < m.nf(); ++i) vol += dot(m.vert(i, 0) - c, cross(m.vert(i, 1) - c, m.vert(i, 2) - c));
    return vol / 6;
}
inline void meshOrientOutward(MeshData& m) {
    if (meshSignedVolume(m) < 0)
        for (int i = 0; i < m.nf(); ++i) std::swap(m.f[3 * i + 1], m.f[3 * i + 2]);
}
inline void meshTransform(MeshData& m, const SimTK::Transform& X) { for (auto& p : m.v) p = X * p; }

// subdivided octahedron, vertices pushed to the unit sphere, then scaled by radii*(1+amp*noise)
inline MeshData genSphereMesh(vh::Rng& r, int level, const Vec3& radii, double amp) {
    MeshData m; m.cls = "sphere"; m.genus = 0;
    m.v = {Vec3(1, 0, 0), Vec3(-1, 0, 0), Vec3(0, 1, 0), Vec3(0, -1, 0), Vec3(0, 0, 1), Vec3(0, 0, -1)};
    m.f = {0, 2, 4, 2, 1, 4, 1, 3, 4, 3, 0, 4, 2, 0, 5, 1, 2, 5, 3, 1, 5, 0, 3, 5};
    for (int l = 0; l < level; ++l) {
        std::map<std::pair<int, int>, int> mid;
        auto midpoint = [&](int a, int b) {
            auto key = std::make_pair(std::min(a, b), std::max(a, b));
            auto it = mid.find(key);
            if (it != mid.end()) return it->second;
            Vec3 p = m.v[a] + m.v[b]; p /= p.norm();
            m.v.push_back(p);
            return mid[key] = (int)m.v.size() - 1;
        };
        std::vector<int> nf;
        for (int i = 0; i < m.nf(); ++i) {
            int a = m.f[3 * i], b = m.f[3 * i + 1], c = m.f[3 * i + 2];
            int ab = midpoint(a, b), bc = midpoint(b, c), ca = midpoint(c, a);
            int t[12] = {a, ab, ca, ab, b, bc, ca, bc, c, ab, bc, ca};
            nf.insert(nf.end(), t, t + 12);
        }
        m.f.swap(nf);
    }
    for (auto& p : m.v) {
        double s = 1 + amp * r.sym();
        p = Vec3(p[0] * radii[0], p[1] * radii[1], p[2] * radii[2]) * s;
    }
    meshFinish(m); meshOrientOutward(m);
    return m;
}
// box with nx*ny*nz cells on its surface
inline MeshData genBoxMesh(vh::Rng& r, int nx, int ny, int nz, const Vec3& h, double jitter) {
    MeshData m; m.cls = "box"; m.genus = 0;
    int n[3] = {nx, ny, nz};
    std::map<std::array<int, 3>, int> ids;
    auto vid = [&](int i, int j, int k) {
        std::array<int, 3> key = {i, j, k};
        auto it = ids.find(key);
        if (it != ids.end()) return it->second;
        Vec3 p(-h[0] + 2 * h[0] * i / n[0], -h[1] + 2 * h[1] * j / n[1], -h[2] + 2 * h[2] * k / n[2]);
        m.v.push_back(p);
        return ids[key] = (int)m.v.size() - 1;
    };
    auto quad = [&](int a, int b, int c, int d, bool diag) {
        if (diag) { int t[6] = {a, b, c, a, c, d}; m.f.insert(m.f.end(), t, t + 6); }
        else { int t[6] = {a, b, d, b, c, d}; m.f.insert(m.f.end(), t, t + 6); }
    };
    for (int ax = 0; ax < 3; ++ax) {
        int u = (ax + 1) % 3, w = (ax + 2) % 3;
        for (int side = 0; side < 2; ++side)
            for (int i = 0; i < n[u]; ++i) for (int j = 0; j < n[w]; ++j) {
                int c[4][3];
                int du[4] = {0, 1, 1, 0}, dw[4] = {0, 0, 1, 1};
                for (int q = 0; q < 4; ++q) { c[q][ax] = side ? n[ax] : 0; c[q][u] = i + du[q]; c[q][w] = j + dw[q]; }
                int a = vid(c[0][0], c[0][1], c[0][2]), b = vid(c[1][0], c[1][1], c[1][2]),
                    cc = vid(c[2][0], c[2][1], c[2][2]), d = vid(c[3][0], c[3][1], c[3][2]);
                bool diag = r.coin();
                if (side) quad(a, b, cc, d, diag); else quad(a, d, cc, b, diag);
            }
    }
    if (jitter > 0) {
        // move interior-of-face vertices tangentially is awkward; instead scale every vertex radially a little
        for (auto& p : m.v) p *= (1 + jitter * r.sym());
    }
    meshFinish(m); meshOrientOutward(m);
    return m;
}
inline MeshData genTorusMesh(vh::Rng& r, int nu, int nv, double R, double rt, double amp) {
    MeshData m; m.cls = "torus"; m.genus = 1;
    const double PI2 = 6.283185307179586;
    for (int i = 0; i < nu; ++i) for (int j = 0; j < nv; ++j) {
        double u = PI2 * i / nu, v = PI2 * j / nv;
        double rr = rt * (1 + amp * r.sym());
        m.v.push_back(Vec3((R + rr * std::cos(v)) * std::cos(u), (R + rr * std::cos(v)) * std::sin(u), rr * std::sin(v)));
    }
    for (int i = 0; i < nu; ++i) for (int j = 0; j < nv; ++j) {
        int a = i * nv + j, b = ((i + 1) % nu) * nv + j, c = ((i + 1) % nu) * nv + (j + 1) % nv, d = i * nv + (j + 1) % nv;
        if (r.coin()) { int t[6] = {a, b, c, a, c, d}; m.f.insert(m.f.end(), t, t + 6); }
        else { int t[6] = {a, b, d, b, c, d}; m.f.insert(m.f.end(), t, t + 6); }
    }
    meshFinish(m);
    // orientation: signed volume about the centroid works for any closed surface
    meshOrientOutward(m);
    return m;
}

// ------------------------------------------------------------------ brute force over triangles (LD)
struct TriClosest { V3 p; LD d2; };
// Ericson, Real-Time Collision Detection 5.1.5
inline V3 closestOnTriangle(const V3& p, const V3& a, const V3& b, const V3& c) {
    V3 ab = b - a, ac = c - a, ap = p - a;
    LD d1 = dot(ab, ap), d2 = dot(ac, ap);
    if (d1 <= 0 && d2 <= 0) return a;
    V3 bp = p - b;
    LD d3 = dot(ab, bp), d4 = dot(ac, bp);
    if (d3 >= 0 && d4 <= d3) return b;
    LD vc = d1 * d4 - d3 * d2;
    if (vc <= 0 && d1 >= 0 && d3 <= 0) { LD v = d1 / (d1 - d3); return a + v * ab; }
    V3 cp = p - c;
    LD d5 = dot(ab, cp), d6 = dot(ac, cp);
    if (d6 >= 0 && d5 <= d6) return c;
    LD vb = d5 * d2 - d1 * d6;
    if (vb <= 0 && d2 >= 0 && d6 <= 0) { LD w = d2 / (d2 - d6); return a + w * ac; }
    LD va = d3 * d6 - d5 * d4;
    if (va <= 0 && (d4 - d3) >= 0 && (d5 - d6) >= 0) { LD w = (d4 - d3) / ((d4 - d3) + (d5 - d6)); return b + w * (c - b); }
    LD denom = 1 / (va + vb + vc);
    LD v = vb * denom, w = vc * denom;
    return a + v * ab + w * ac;
}
// closest point is additionally refined: the minimum of the three edge projections and the plane projection
// (guards the region logic above against cancellation for needle triangles)
inline LD distToTriangle(const V3& p, const V3& a, const V3& b, const V3& c, V3* where = nullptr) {
    V3 q = closestOnTriangle(p, a, b, c);
    LD best = norm(p - q);
    auto seg = [&](const V3& s, const V3& e) {
        V3 d = e - s; LD l2 = dot(d, d);
        LD t = l2 > 0 ? dot(p - s, d) / l2 : 0;
        t = t < 0 ? 0 : (t > 1 ? 1 : t);
        V3 w = s + t * d; LD dd = norm(p - w);
        if (dd < best) { best = dd; q = w; }
    };
    seg(a, b); seg(b, c); seg(c, a);
    if (where) *where = q;
    return best;
}
struct BfNearest { LD dist; int face; V3 p; };
inline BfNearest bfNearest(const MeshData& m, const V3& x) {
    BfNearest r; r.dist = std::numeric_limits<LD>::infinity(); r.face = -1;
    for (int i = 0; i < m.nf(); ++i) {
        V3 q; LD d = distToTriangle(x, m.vert(i, 0), m.vert(i, 1), m.vert(i, 2), &q);
        if (d < r.dist) { r.dist = d; r.face = i; r.p = q; }
    }
    return r;
}
struct RayTri { bool plane; LD t, u, v, w; };   // barycentric (u: vertex0, v: vertex1, w: vertex2)
inline RayTri rayTriangle(const V3& o, const V3& d, const V3& a, const V3& b, const V3& c) {
    RayTri r; r.plane = false; r.t = r.u = r.v = r.w = 0;
    V3 e1 = b - a, e2 = c - a, n = cross(e1, e2);
    LD nd = dot(n, d), nn = norm(n);
    if (std::fabs(nd) <= 1e-14L * nn) return r;     // parallel to the plane (d is unit)
    r.plane = true;
    r.t = dot(n, a - o) / nd;
    V3 p = o + r.t * d;
    LD inv = 1 / dot(n, n);
    r.v = dot(cross(p - a, e2), n) * inv;    // coefficient of b
    r.w = dot(cross(e1, p - a), n) * inv;    // coefficient of c
    r.u = 1 - r.v - r.w;
    return r;
}
struct BfRay { bool hit = false; LD t = 0; int face = -1; bool grazing = false; };
// first hit with t >= 0. 'grazing' is set when any candidate face is met within 'margin' (barycentric) of its
// boundary, or nearly in its own plane, or at t within margin of 0: such rays are not judged.
inline BfRay bfRay(const MeshData& m, const V3& o, const V3& d, LD margin, int skipFace = -1) {
    BfRay out;
    LD best = std::numeric_limits<LD>::infinity();
    for (int i = 0; i < m.nf(); ++i) {
        if (i == skipFace) continue;
        V3 a = m.vert(i, 0), b = m.vert(i, 1), c = m.vert(i, 2);
        RayTri r = rayTriangle(o, d, a, b, c);
        if (!r.plane) {
            // ray parallel to the face plane: harmless unless it (nearly) lies in that plane and passes the face
            V3 n = cross(b - a, c - a);
            LD off = std::fabs(dot(n, a - o)) / norm(n);
            if (off < margin * (LD)m.scale) {
                V3 mid = (1.0L / 3) * (a + b + c);
                LD tm = dot(mid - o, d);
                LD ext = std::max(norm(a - mid), std::max(norm(b - mid), norm(c - mid)));
                if (tm > -ext && norm(o + tm * d - mid) < 2 * ext) out.grazing = true;   // conservative
            }
            continue;
        }
        LD mn = std::min(r.u, std::min(r.v, r.w));
        if (mn < -margin) continue;
        if (r.t < -margin * (LD)m.scale) continue;
        if (mn < margin || std::fabs(r.t) < margin * (LD)m.scale) { out.grazing = true; continue; }
        V3 e1 = b - a, e2 = c - a, n = cross(e1, e2);
        if (std::fabs(dot(n, d)) < 1e-7L * norm(n)) out.grazing = true;    // nearly tangent crossing
        if (r.t < best) { best = r.t; out.hit = true; out.t = r.t; out.face = i; }
    }
    return out;
}
// inside by ray parity; ok=false if no clean ray was found
struct BfInside { bool ok = false; bool inside = false; };
inline BfInside bfInside(const MeshData& m, const V3& x, vh::Rng& r) {
    BfInside out;
    int votes[2] = {0, 0};
    for (int attempt = 0; attempt < 12 && votes[0] + votes[1] < 3; ++attempt) {
        V3 d(randUnit(r));
        int crossings = 0; bool clean = true;
        for (int i = 0; i < m.nf() && clean; ++i) {
            V3 a = m.vert(i, 0), b = m.vert(i, 1), c = m.vert(i, 2);
            RayTri q = rayTriangle(x, d, a, b, c);
            if (!q.plane) {
                V3 n = cross(b - a, c - a);
                if (std::fabs(dot(n, a - x)) / norm(n) < 1e-7L * (LD)m.scale) clean = false;   // ray lies in the face plane
                continue;
            }
            LD mn = std::min(q.u, std::min(q.v, q.w));
            if (mn < -1e-7L) continue;
            if (mn < 1e-7L) { if (q.t > -1e-7L * (LD)m.scale) clean = false; continue; }
            if (std::fabs(q.t) < 1e-9L * (LD)m.scale) { clean = false; continue; }
            if (q.t > 0) ++crossings;
        }
        if (clean) ++votes[crossings & 1];
    }
    if (votes[0] + votes[1] >= 3 && (votes[0] == 0 || votes[1] == 0)) { out.ok = true; out.inside = votes[1] > 0; }
    return out;
}

// generalized winding number (Van Oosterom & Strackee solid angles): 1 inside, 0 outside for a closed outward-oriented mesh
inline LD windingNumber(const MeshData& m, const V3& x) {
    LD tot = 0;
    for (int i = 0; i < m.nf(); ++i) {
        V3 a = m.vert(i, 0) - x, b = m.vert(i, 1) - x, c = m.vert(i, 2) - x;
        LD la = norm(a), lb = norm(b), lc = norm(c);
        LD num = dot(a, cross(b, c));
        LD den = la * lb * lc + dot(a, b) * lc + dot(b, c) * la + dot(c, a) * lb;
        tot += 2 * std::atan2(num, den);
    }
    return tot / (4 * 3.14159265358979323846264338327950288L);
}

// which feature of triangle (a,b,c) the point q (on the triangle) lies on
inline const char* triFeature(const V3& q, const V3& a, const V3& b, const V3& c) {
    V3 n = cross(b - a, c - a); LD inv = 1 / dot(n, n);
    LD v = dot(cross(q - a, c - a), n) * inv, w = dot(cross(b - a, q - a), n) * inv, u = 1 - v - w;
    int z = (std::fabs(u) < 1e-9L) + (std::fabs(v) < 1e-9L) + (std::fabs(w) < 1e-9L);
    return z == 0 ? "nearest-in-face" : (z == 1 ? "nearest-on-edge" : "nearest-on-vertex");
}

inline double minSinAngle(const MeshData& m) {
    double mn = 1;
    for (int i = 0; i < m.nf(); ++i) {
        V3 p[3] = {m.vert(i, 0), m.vert(i, 1), m.vert(i, 2)};
        for (int k = 0; k < 3; ++k) {
            V3 a = p[(k + 1) % 3] - p[k], b = p[(k + 2) % 3] - p[k];
            LD s = norm(cross(a, b)) / (norm(a) * norm(b));
            mn = std::min(mn, (double)s);
        }
    }
    return mn;
}

}  // namespace gm
