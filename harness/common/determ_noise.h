// determ_noise.h — "unrelated activity" for mon_determinism (C46): other simulations with other integrators
// (incl. CPodes: C code), the four optimizers, collision queries through the static algorithm registry, Random
// objects with and without seeds, geodesic computations, LAPACK-backed factorizations, spline fitting, polynomial
// roots, plus heap/stack scribbling so that a value read before it is written cannot look reproducible by luck.
//
// Every activity is itself a deterministic function of its seed: its own results are hashed too and must not depend
// on what it is interleaved with (oracle "noise-perturbed"). Values drawn from *unseeded* Random objects are
// documented to differ from object to object (process-global seed counter) and are therefore never hashed.
#pragma once
#include "determ_scen.h"

namespace det {

struct Activity {
    H64 h; Rng r; std::string nm; long slices = 0;
    Activity(uint64_t seed, const char* nm) : r(seed), nm(nm) {}
    virtual ~Activity() {}
    virtual void slice() = 0;
    void run() { ++slices; try { slice(); } catch (const std::exception& e) { h.s(std::string("exception: ") + e.what()); } }
};

// ---------------------------------------------------------------------------------- heap / stack scribbling
#if defined(__GNUC__)
#define DET_NOINLINE __attribute__((noinline))
#else
#define DET_NOINLINE
#endif
DET_NOINLINE inline uint64_t scribbleStack(uint64_t seed) {
    volatile uint64_t buf[3072];   // 24 kB below the caller's frame
    uint64_t x = seed;
    for (int i = 0; i < 3072; ++i) buf[i] = splitmix64(x);
    return buf[seed % 3072];
}
inline void scribbleHeap(uint64_t seed) {
    static const size_t SZ[] = {16, 24, 32, 40, 48, 64, 80, 96, 128, 160, 192, 256, 320, 384, 512, 640, 768, 1024, 1536, 2048, 3072, 4096};
    std::vector<void*> blocks; uint64_t x = seed;
    for (size_t s : SZ) {
        int reps = s <= 512 ? 10 : 4;
        for (int k = 0; k < reps; ++k) {
            uint64_t* p = (uint64_t*)malloc(s); if (!p) continue;
            for (size_t i = 0; i < s / 8; ++i) p[i] = splitmix64(x);
            blocks.push_back(p);
        }
    }
    // free in a seed-dependent order
    for (size_t i = blocks.size(); i > 1; --i) std::swap(blocks[i - 1], blocks[splitmix64(x) % i]);
    for (void* p : blocks) free(p);
}
inline void scribble(uint64_t seed) { scribbleHeap(seed); volatile uint64_t sink = scribbleStack(seed ^ 0x5bd1e995); (void)sink; }
struct ActScribble : Activity {
    ActScribble(uint64_t seed) : Activity(seed, "scribble") {}
    void slice() override { scribble(r.next()); }
};

// ---------------------------------------------------------------------------------- Random
struct ActRandom : Activity {
    Random::Uniform su; Random::Gaussian sg;
    ActRandom(uint64_t seed) : Activity(seed, "Random") { su.setSeed((int)(r.next() % 100000)); sg.setSeed((int)(r.next() % 100000)); }
    void slice() override {
        // unseeded objects: advance the process-global seed counter, draw, never hash
        { Random::Uniform a; Random::Gaussian b(0, 2); volatile double x = a.getValue() + b.getValue(); (void)x; int n = r.integer(0, 3); for (int i = 0; i < n; ++i) { Random::Uniform c; (void)c.getValue(); } }
        int n = r.integer(1, 40);
        for (int i = 0; i < n; ++i) { h.d(su.getValue()); h.d(sg.getValue()); }
        if (r.coin(0.2)) { int sd = r.integer(0, 9999); su.setSeed(sd); h.i(su.getIntValue()); Vector v(7); su.fillArray(&v[0], 7); h.v(v); }
    }
};

// ---------------------------------------------------------------------------------- optimizers
class NoiseProblem : public OptimizerSystem {
public:
    NoiseProblem(int n, int me, int mi, Rng& r) : OptimizerSystem(n), n(n), me(me), mi(mi), a(n), c(n), b(n) {
        for (int i = 0; i < n; ++i) { a[i] = r.uni(0.5, 5); c[i] = r.sym(1); b[i] = r.uni(0, 1); }
        s = r.sym(0.5);
        setNumEqualityConstraints(me); setNumInequalityConstraints(mi);
    }
    int objectiveFunc(const Vector& x, bool, Real& f) const override {
        f = 0; for (int i = 0; i < n; ++i) { double d = x[i] - c[i]; f += a[i] * d * d + (i + 1 < n ? b[i] * square(x[i] * x[i + 1] - 0.3) : 0.0); }
        return 0;
    }
    int gradientFunc(const Vector& x, bool, Vector& g) const override {
        for (int i = 0; i < n; ++i) g[i] = 2 * a[i] * (x[i] - c[i]);
        for (int i = 0; i + 1 < n; ++i) { double e = 2 * b[i] * (x[i] * x[i + 1] - 0.3); g[i] += e * x[i + 1]; g[i + 1] += e * x[i]; }
        return 0;
    }
    int constraintFunc(const Vector& x, bool, Vector& cv) const override {
        int k = 0;
        if (me) { double t = -s; for (int i = 0; i < n; ++i) t += x[i]; cv[k++] = t; }
        if (mi) cv[k++] = x[0] + 3.0;
        return 0;
    }
    int constraintJacobian(const Vector&, bool, Matrix& J) const override {
        int k = 0; J.setToZero();
        if (me) { for (int i = 0; i < n; ++i) J(k, i) = 1; ++k; }
        if (mi) { J(k, 0) = 1; ++k; }
        return 0;
    }
    int n, me, mi; std::vector<double> a, c, b; double s;
};
struct ActOptim : Activity {
    int turn;
    ActOptim(uint64_t seed) : Activity(seed, "Optimizer") { turn = r.integer(0, 3); }
    void slice() override {
        static const OptimizerAlgorithm ALG[] = {LBFGS, LBFGSB, InteriorPoint, CMAES};
        OptimizerAlgorithm alg = ALG[turn++ % 4];
        int n = r.integer(2, 4);
        bool cons = (alg == InteriorPoint) && r.coin(0.7);
        NoiseProblem P(n, cons ? 1 : 0, cons && r.coin() ? 1 : 0, r);
        if (alg != LBFGS) { Vector lo(n), hi(n); for (int i = 0; i < n; ++i) { lo[i] = -r.uni(0.8, 2.5); hi[i] = r.uni(0.8, 2.5); } P.setParameterLimits(lo, hi); }
        Optimizer opt(P, alg);
        opt.setDiagnosticsLevel(0); opt.setConvergenceTolerance(1e-6); opt.setMaxIterations(alg == CMAES ? 6 : 20);
        if (alg == CMAES) { opt.setAdvancedIntOption("seed", r.integer(1, 100000)); opt.setAdvancedRealOption("maxTimeFractionForEigendecomposition", 1); opt.setAdvancedRealOption("init_stepsize", 0.3); }
        if (alg != CMAES && r.coin(0.3)) opt.useNumericalGradient(true);
        if (alg == InteriorPoint && r.coin(0.3)) opt.useNumericalJacobian(true);
        Vector x(n); for (int i = 0; i < n; ++i) x[i] = r.sym(0.5);
        h.i((int)alg);
        try { Real f = opt.optimize(x); h.d(f); h.v(x); }
        catch (const std::exception& e) { h.s(std::string("optimizer exception: ") + e.what()); h.v(x); }
    }
};

// ---------------------------------------------------------------------------------- collision / geometry queries
struct ActCollide : Activity {
    std::vector<ContactGeometry> geo;
    ActCollide(uint64_t seed) : Activity(seed, "collision-queries") {
        geo.push_back(ContactGeometry::HalfSpace());
        geo.push_back(ContactGeometry::Sphere(r.uni(0.3, 1)));
        geo.push_back(ContactGeometry::Ellipsoid(Vec3(r.uni(0.3, 1), r.uni(0.3, 1), r.uni(0.3, 1))));
        geo.push_back(ContactGeometry::TriangleMesh(PolygonalMesh::createSphereMesh(r.uni(0.4, 1), 1)));
        geo.push_back(ContactGeometry::TriangleMesh(PolygonalMesh::createBrickMesh(Vec3(r.uni(0.3, 0.8), r.uni(0.3, 0.8), r.uni(0.3, 0.8)), 2)));
        geo.push_back(ContactGeometry::Sphere(r.uni(0.3, 1)));
        geo.push_back(ContactGeometry::Brick(Vec3(r.uni(0.3, 0.8), r.uni(0.3, 0.8), r.uni(0.3, 0.8))));
        geo.push_back(ContactGeometry::Cylinder(r.uni(0.3, 0.8)));
    }
    void hashContact(const Contact& c) {
        h.i((int)c.getTypeId() != 0); h.i((int)c.getSurface1()); h.i((int)c.getSurface2());
        if (PointContact::isInstance(c)) { const PointContact& p = static_cast<const PointContact&>(c); h.d(p.getDepth()); h.v3(p.getLocation()); h.v3(Vec3(p.getNormal())); h.d(p.getRadiusOfCurvature1()); h.d(p.getRadiusOfCurvature2()); }
        else if (TriangleMeshContact::isInstance(c)) { const TriangleMeshContact& t = static_cast<const TriangleMeshContact&>(c); h.i((long long)t.getSurface1Faces().size()); h.i((long long)t.getSurface2Faces().size());
            for (int f : t.getSurface1Faces()) h.i(f); for (int f : t.getSurface2Faces()) h.i(f); }
    }
    void slice() override {
        int nQ = r.integer(1, 3);
        for (int q = 0; q < nQ; ++q) {
            int i = r.integer(0, (int)geo.size() - 1), j = r.integer(0, (int)geo.size() - 1);
            Transform X1(randRotation(r), randVec3(r, 0.3)), X2(randRotation(r), randVec3(r, 0.8));
            CollisionDetectionAlgorithm* alg = CollisionDetectionAlgorithm::getAlgorithm(geo[i].getTypeId(), geo[j].getTypeId());
            h.i(alg != nullptr);
            if (alg) { Array_<Contact> cs; alg->processObjects(ContactSurfaceIndex(0), geo[i], X1, ContactSurfaceIndex(1), geo[j], X2, cs); h.i(cs.size()); for (auto& c : cs) hashContact(c); }
        }
        // point and ray queries
        for (int q = 0; q < 2; ++q) {
            int i = r.integer(1, 5);
            Vec3 p = randVec3(r, 1.5); bool inside = false; UnitVec3 nrm;
            try { Vec3 np = geo[i].findNearestPoint(p, inside, nrm); h.v3(np); h.i(inside); h.v3(Vec3(nrm)); } catch (const std::exception& e) { h.s(e.what()); }
            Real dist = 0; UnitVec3 dir = randUnit(r);
            try { bool hit = geo[i].intersectsRay(p, dir, dist, nrm); h.i(hit); if (hit) { h.d(dist); h.v3(Vec3(nrm)); } } catch (const std::exception& e) { h.s(e.what()); }
        }
    }
};

// ---------------------------------------------------------------------------------- geodesics
struct ActGeodesic : Activity {
    std::string anomaly;   // set when a query's result depends on earlier queries on the same geometry object
    ActGeodesic(uint64_t seed) : Activity(seed, "geodesics") {}
    static void hashGeodTo(H64& h, const Geodesic& g) {
        h.i(g.getNumPoints()); h.d(g.getLength());
        if (g.getNumPoints() > 0) { h.v3(g.getPointQ()); h.v3(Vec3(g.getTangentQ())); h.d(g.getJacobiQ()); for (Real s : g.getArcLengths()) h.d(s); }
    }
    void hashGeod(const Geodesic& g) { hashGeodTo(h, g); }
    void slice() override {
        int kind = r.integer(0, 3);
        ContactGeometry geo;
        Vec3 P; double scale;
        if (kind == 0) { double R = r.uni(0.3, 2); geo = ContactGeometry::Sphere(R); P = R * Vec3(randUnit(r)); scale = R; }
        else if (kind == 1) { Vec3 rad(r.uni(0.4, 1.5), r.uni(0.4, 1.5), r.uni(0.4, 1.5)); geo = ContactGeometry::Ellipsoid(rad); UnitVec3 d = randUnit(r); P = Vec3(rad[0] * d[0], rad[1] * d[1], rad[2] * d[2]); scale = rad.norm() / 1.7; }
        else if (kind == 2) { double R = r.uni(0.3, 1.5); geo = ContactGeometry::Cylinder(R); double a = r.sym(3); P = Vec3(R * std::cos(a), R * std::sin(a), r.sym(1)); scale = R; }
        else { double R = r.uni(1, 2), t = r.uni(0.2, 0.6); geo = ContactGeometry::Torus(R, t); double a = r.sym(3), b = r.sym(3); P = Vec3((R + t * std::cos(b)) * std::cos(a), (R + t * std::cos(b)) * std::sin(a), t * std::sin(b)); scale = t; }
        h.i(kind);
        UnitVec3 n = geo.calcSurfaceUnitNormal(P);
        Vec3 tv = randVec3(r, 1); tv -= dot(tv, Vec3(n)) * Vec3(n); if (tv.norm() < 1e-3) tv = Vec3(n.perp());
        UnitVec3 tP(tv);
        GeodesicOptions opts; Geodesic g; const double len = scale * r.uni(0.3, 2.5);
        geo.shootGeodesicInDirectionUntilLengthReached(P, tP, len, opts, g); hashGeod(g);
        if (kind <= 2 && r.coin(0.6)) { Geodesic g2; geo.shootGeodesicInDirectionUntilLengthReachedAnalytical(P, tP, scale * r.uni(0.3, 2.5), opts, g2); hashGeod(g2); }
        if (kind <= 1 && r.coin(0.5) && g.getNumPoints() > 1) {
            Geodesic g3; geo.calcGeodesic(P, g.getPointQ(), Vec3(tP), Vec3(g.getTangentQ()), g3); hashGeod(g3);
            // the same shot again on the geometry object that has just served a two-point (plane-terminated) query
            Geodesic g4; geo.shootGeodesicInDirectionUntilLengthReached(P, tP, len, opts, g4);
            H64 a, b; hashGeodTo(a, g); hashGeodTo(b, g4);
            if (a.h != b.h && anomaly.empty()) { char buf[200]; snprintf(buf, sizeof buf, "shape kind %d: length-terminated shot gives length %.17g (%d points) before and %.17g (%d points) after calcGeodesic() on the same object; requested %.17g", kind, (double)g.getLength(), g.getNumPoints(), (double)g4.getLength(), g4.getNumPoints(), len); anomaly = buf; }
        }
    }
};

// ---------------------------------------------------------------------------------- LAPACK-backed numerics etc.
struct ActLinalg : Activity {
    ActLinalg(uint64_t seed) : Activity(seed, "linear-algebra+splines+roots") {}
    void slice() override {
        int n = r.integer(2, 9), m = r.integer(2, 9);
        Matrix A(m, n); for (int i = 0; i < m; ++i) for (int j = 0; j < n; ++j) A(i, j) = r.sym(2);
        Vector b(m); for (int i = 0; i < m; ++i) b[i] = r.sym(1);
        int kind = r.integer(0, 5); h.i(kind);
        if (kind == 0) { FactorQTZ f(A); Vector x(n); f.solve(b, x); h.v(x); h.i(f.getRank()); }
        else if (kind == 1) { FactorSVD f(A); Vector sv; f.getSingularValues(sv); h.v(sv); }
        else if (kind == 2) { Matrix S(n, n); for (int i = 0; i < n; ++i) for (int j = 0; j <= i; ++j) S(i, j) = S(j, i) = r.sym(1); Eigen e(S); Vector_<std::complex<double>> ev; e.getAllEigenValues(ev); for (int i = 0; i < ev.size(); ++i) { h.d(ev[i].real()); h.d(ev[i].imag()); } }
        else if (kind == 3) { Matrix S(n, n); for (int i = 0; i < n; ++i) for (int j = 0; j < n; ++j) S(i, j) = r.sym(1) + (i == j ? 3 : 0); Vector c(n); for (int i = 0; i < n; ++i) c[i] = r.sym(1); FactorLU f(S); Vector x(n); f.solve(c, x); h.v(x); }
        else if (kind == 4) {
            int np = r.integer(8, 24); Vector x(np), y(np); double t = 0; for (int i = 0; i < np; ++i) { t += r.uni(0.05, 0.3); x[i] = t; y[i] = std::sin(3 * t) + r.sym(0.05); }
            Spline_<Real> sp = r.coin() ? SplineFitter<Real>::fitFromGCV(3, x, y).getSpline() : SplineFitter<Real>::fitForSmoothingParameter(3, x, y, r.uni(0, 0.1)).getSpline();
            for (int i = 0; i < 5; ++i) { Vector a(1, r.uni((double)x[0], (double)x[np - 1])); h.d(sp.calcValue(a)); }
        } else {
            int deg = r.integer(2, 7); Vector co(deg + 1); for (int i = 0; i <= deg; ++i) co[i] = r.sym(2); if (std::fabs(co[0]) < 0.1) co[0] = 1;
            Vector_<std::complex<double>> roots(deg); PolynomialRootFinder::findRoots(co, roots); for (int i = 0; i < deg; ++i) { h.d(roots[i].real()); h.d(roots[i].imag()); }
        }
    }
};

// ---------------------------------------------------------------------------------- another simulation
struct ActSim : Activity {
    ScenKnobs kn; long cyc; int nextInteg; std::unique_ptr<Scen> sc; std::unique_ptr<Run> run;
    std::vector<std::pair<Json, Traj>> history;   // every simulation this activity has run or is running (for witnesses)
    ActSim(uint64_t seed, const ScenKnobs& kn, int firstInteg, const char* nm) : Activity(seed, nm), kn(kn), cyc((long)(seed % 1000)), nextInteg(firstInteg) {}
    ~ActSim() override { run.reset(); sc.reset(); }
    void slice() override {
        if (!run) {
            sc.reset(new Scen()); sc->build(r.next(), cyc++, kn, nextInteg); nextInteg = (nextInteg + 3) % IK_Count;
            run.reset(new Run(*sc, sc->s0)); h.s(ikName(sc->io.kind));
            history.emplace_back(sc->toJson(), Traj());
        }
        int n = r.integer(1, 3);
        for (int k = 0; k < n && run; ++k) { bool more = run->step(); history.back().second = run->traj; if (!more) { h.i((long long)run->traj.finalHash()); run.reset(); sc.reset(); } }
        if (run && !run->traj.steps.empty()) h.i((long long)run->traj.steps.back().cum);
    }
};

// ---------------------------------------------------------------------------------- the noise set of one case
struct Noise {
    std::vector<std::unique_ptr<Activity>> acts; Rng pick; std::string last; ActGeodesic* geod = nullptr;
    Noise(uint64_t seed, const ScenKnobs& kn, int simInteg, bool geodesics = true) : pick(mix(seed, 99)) {
        acts.emplace_back(new ActSim(mix(seed, 1), kn, simInteg, "other-simulation-1"));
        acts.emplace_back(new ActOptim(mix(seed, 2)));
        acts.emplace_back(new ActCollide(mix(seed, 3)));
        acts.emplace_back(new ActRandom(mix(seed, 4)));
        if (geodesics) { geod = new ActGeodesic(mix(seed, 5)); acts.emplace_back(geod); } else acts.emplace_back(new ActLinalg(mix(seed, 5)));
        acts.emplace_back(new ActLinalg(mix(seed, 6)));
        acts.emplace_back(new ActScribble(mix(seed, 7)));
        acts.emplace_back(new ActSim(mix(seed, 8), kn, (simInteg + 5) % IK_Count, "other-simulation-2"));
    }
    // one slot of unrelated activity: 1-2 activities chosen by the noise's own generator
    void slot() {
        int n = pick.integer(1, 2); last.clear();
        for (int k = 0; k < n; ++k) { Activity& a = *acts[pick.next() % acts.size()]; a.run(); if (!last.empty()) last += "+"; last += a.nm; }
    }
};

} // namespace det
