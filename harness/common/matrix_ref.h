// matrix_ref.h — helper for mon_matrix (C25): element traits mapping every Simbody element
// type (scalars, negator<>, conjugate<>, Vec<>, Row<>, Mat<>) to a flat list of K scalar values in
// "standard number" form (std::complex<P>, imaginary part 0 for real types), plus the
// long-double reference number type used by the dense reference model.
#pragma once
#include "SimTKcommon.h"
#include "vh.h"
#include <complex>
#include <memory>
#include <type_traits>

namespace mx {
using SimTK::negator;
using SimTK::conjugate;
using SimTK::Vec;
using SimTK::Row;
using SimTK::Mat;
using SimTK::SymMat;
using SimTK::CNT;

typedef long double LD;
typedef std::complex<LD> LC;

template <class P> inline LC toLC(const std::complex<P>& x) { return LC((LD)x.real(), (LD)x.imag()); }
template <class P> inline std::complex<P> fromLC(const LC& x) { return std::complex<P>((P)x.real(), (P)x.imag()); }

// exact comparison for pure data movement: equal values (signed zeros are equal) or both NaN
template <class P> inline bool sameReal(P a, P b) { return a == b || (std::isnan(a) && std::isnan(b)); }
template <class P> inline bool sameC(const std::complex<P>& a, const std::complex<P>& b) {
    return sameReal(a.real(), b.real()) && sameReal(a.imag(), b.imag());
}
inline LD absLC(const LC& x) { return std::hypot(x.real(), x.imag()); }

// ------------------------------------------------------------------ element traits
template <class E> struct ET;

template <> struct ET<double> {
    typedef double P; typedef std::complex<double> C; enum { K = 1, Cplx = 0 };
    static void get(const double& e, C* o) { o[0] = C(e, 0); }
    static double make(const C* in) { return in[0].real(); }
    static std::string name() { return "Real"; }
};
template <> struct ET<float> {
    typedef float P; typedef std::complex<float> C; enum { K = 1, Cplx = 0 };
    static void get(const float& e, C* o) { o[0] = C(e, 0); }
    static float make(const C* in) { return in[0].real(); }
    static std::string name() { return "float"; }
};
template <class R> struct ET<std::complex<R>> {
    typedef R P; typedef std::complex<R> C; enum { K = 1, Cplx = 1 };
    static void get(const std::complex<R>& e, C* o) { o[0] = e; }
    static std::complex<R> make(const C* in) { return in[0]; }
    static std::string name() { return std::is_same<R, double>::value ? "Complex" : "fComplex"; }
};
template <class R> struct ET<conjugate<R>> {
    typedef R P; typedef std::complex<R> C; enum { K = 1, Cplx = 1 };
    static void get(const conjugate<R>& e, C* o) { o[0] = C(e.real(), -e.negImag()); }
    static conjugate<R> make(const C* in) { return conjugate<R>(in[0]); }   // value-preserving explicit ctor
    static std::string name() { return std::is_same<R, double>::value ? "conjugate" : "fconjugate"; }
};
template <class N> struct ET<negator<N>> {
    typedef typename ET<N>::P P; typedef typename ET<N>::C C; enum { K = 1, Cplx = ET<N>::Cplx };
    // -(negator<N>) is the stored N (no flop); its value is minus the negator's value
    static void get(const negator<N>& e, C* o) { const N& n = -e; ET<N>::get(n, o); o[0] = -o[0]; }
    static negator<N> make(const C* in) { C m = -in[0]; N n = ET<N>::make(&m); return negator<N>::recast(n); }
    static std::string name() { return "neg<" + ET<N>::name() + ">"; }
};
template <int M, class EE, int S> struct ET<Vec<M, EE, S>> {
    typedef typename ET<EE>::P P; typedef typename ET<EE>::C C; enum { K = M * ET<EE>::K, Cplx = ET<EE>::Cplx };
    static void get(const Vec<M, EE, S>& e, C* o) { for (int i = 0; i < M; ++i) ET<EE>::get(e[i], o + i * ET<EE>::K); }
    static Vec<M, EE, S> make(const C* in) { Vec<M, EE, S> v; for (int i = 0; i < M; ++i) v[i] = ET<EE>::make(in + i * ET<EE>::K); return v; }
    static std::string name() { return "Vec" + std::to_string(M) + "<" + ET<EE>::name() + ">"; }
};
template <int M, class EE, int S> struct ET<Row<M, EE, S>> {
    typedef typename ET<EE>::P P; typedef typename ET<EE>::C C; enum { K = M * ET<EE>::K, Cplx = ET<EE>::Cplx };
    static void get(const Row<M, EE, S>& e, C* o) { for (int i = 0; i < M; ++i) ET<EE>::get(e[i], o + i * ET<EE>::K); }
    static Row<M, EE, S> make(const C* in) { Row<M, EE, S> v; for (int i = 0; i < M; ++i) v[i] = ET<EE>::make(in + i * ET<EE>::K); return v; }
    static std::string name() { return "Row" + std::to_string(M) + "<" + ET<EE>::name() + ">"; }
};

template <class P> inline vh::Json jC(const std::complex<P>& x) {
    if (x.imag() == 0) return vh::Json((double)x.real());
    return vh::Json::arr().push(vh::Json((double)x.real())).push(vh::Json((double)x.imag()));
}
inline vh::Json jLC(const LC& x) { return jC(std::complex<double>((double)x.real(), (double)x.imag())); }

} // namespace mx
