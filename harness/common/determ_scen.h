// determ_scen.h — scenarios, bitwise trajectory records and incremental runs for mon_determinism (C46).
//
// A scenario is a pure function of <scenario seed, cycle index>: a model.h tree + force elements + optional
// constraints / prescribed motion / contact / cable / event handlers and reporters / measures, an integrator kind
// with options, an initial state and a report schedule. Building it twice gives two *definitions* that are
// identical as far as a client can tell; nothing in it depends on addresses, time or process state.
#pragma once
#include "model.h"
#include <memory>

namespace det {
using namespace SimTK;
using namespace vh;

// ------------------------------------------------------------------------------------------------ hashing
struct H64 {
    uint64_t h = 1469598103934665603ULL;
    void bytes(const void* p, size_t n) { const unsigned char* b = (const unsigned char*)p; for (size_t i = 0; i < n; ++i) { h ^= b[i]; h *= 1099511628211ULL; } }
    void d(double x) { bytes(&x, sizeof x); }
    void i(long long x) { bytes(&x, sizeof x); }
    void s(const std::string& x) { i((long long)x.size()); bytes(x.data(), x.size()); }
    void v(const Vector& x) { i(x.size()); for (int k = 0; k < x.size(); ++k) d(x[k]); }
    void v3(const Vec3& x) { d(x[0]); d(x[1]); d(x[2]); }
    void xf(const Transform& X) { for (int a = 0; a < 3; ++a) for (int b = 0; b < 3; ++b) d(X.R()[a][b]); v3(X.p()); }
};

// one returned step of a simulation: component hashes (so that a witness can say *what* differed) and the
// cumulative hash over everything returned so far
struct StepRec {
    double t = 0; int status = -1;
    uint64_t hState = 0, hDeriv = 0, hMult = 0, hStats = 0, hEvents = 0, hMeas = 0, hContact = 0, cum = 0;
};
static const char* const COMP_NAMES[] = {"time", "status", "t,q,u,z", "qdot,udot,zdot,qdotdot", "multipliers,qerr,uerr,udoterr",
                                         "step-sizes+integrator-statistics", "event-info+handler/reporter-log", "measures+energy", "contact-forces"};
struct Traj {
    std::vector<StepRec> steps; std::string outcome = "running"; uint64_t hOutcome = 0;
    uint64_t finalHash() const { H64 h; h.i((long long)steps.size()); if (!steps.empty()) h.i((long long)steps.back().cum); h.i((long long)hOutcome); return h.h; }
};
// first returned step at which two trajectories differ (-1: identical); 'what' lists the differing components
inline long firstDiff(const Traj& a, const Traj& b, std::string& what) {
    size_t n = std::min(a.steps.size(), b.steps.size());
    for (size_t k = 0; k < n; ++k) {
        const StepRec &x = a.steps[k], &y = b.steps[k];
        if (x.cum == y.cum) continue;
        what.clear();
        auto add = [&](bool diff, int c) { if (diff) { if (!what.empty()) what += "; "; what += COMP_NAMES[c]; } };
        add(memcmp(&x.t, &y.t, sizeof x.t) != 0, 0); add(x.status != y.status, 1); add(x.hState != y.hState, 2); add(x.hDeriv != y.hDeriv, 3);
        add(x.hMult != y.hMult, 4); add(x.hStats != y.hStats, 5); add(x.hEvents != y.hEvents, 6); add(x.hMeas != y.hMeas, 7); add(x.hContact != y.hContact, 8);
        if (what.empty()) what = "(cumulative hash only)";
        return (long)k;
    }
    if (a.steps.size() != b.steps.size()) { what = "number of returned steps"; return (long)n; }
    if (a.hOutcome != b.hOutcome) { what = "final outcome / exception text"; return (long)n; }
    return -1;
}

// ------------------------------------------------------------------------------------------------ integrators
enum IK { IK_RK2, IK_RK3, IK_RKF, IK_RKM, IK_Verlet, IK_EE, IK_SEE2, IK_CPBDF, IK_CPAdams, IK_SEE, IK_Count };
inline const char* ikName(int k) {
    static const char* n[] = {"RungeKutta2", "RungeKutta3", "RungeKuttaFeldberg", "RungeKuttaMerson", "Verlet", "ExplicitEuler",
                              "SemiExplicitEuler2", "CPodesBDF", "CPodesAdams", "SemiExplicitEuler"};
    return n[k];
}
inline Integrator* makeInteg(int kind, const System& sys, double seeStep) {
    switch (kind) {
    case IK_RK2: return new RungeKutta2Integrator(sys);
    case IK_RK3: return new RungeKutta3Integrator(sys);
    case IK_RKF: return new RungeKuttaFeldbergIntegrator(sys);
    case IK_RKM: return new RungeKuttaMersonIntegrator(sys);
    case IK_Verlet: return new VerletIntegrator(sys);
    case IK_EE: return new ExplicitEulerIntegrator(sys);
    case IK_SEE2: return new SemiExplicitEuler2Integrator(sys);
    case IK_CPBDF: return new CPodesIntegrator(sys, CPodes::BDF);
    case IK_CPAdams: return new CPodesIntegrator(sys, CPodes::Adams);
    case IK_SEE: return new SemiExplicitEulerIntegrator(sys, seeStep);
    }
    throw std::logic_error("bad integrator kind");
}
struct IntegOpts {
    int kind = 0; double acc = 1e-3, consTol = 0; int projEvery = -1, infNorm = -1, allowInterp = -1, projInterp = -1;
    bool returnEvery = false, finalTime = false; int stepMode = 0; double h = 0.01; int stepLimit = 0;
    Json toJson() const {
        return Json::obj().set("integ", ikName(kind)).set("acc", acc).set("consTol", consTol).set("projEvery", projEvery).set("infNorm", infNorm)
            .set("allowInterp", allowInterp).set("projInterp", projInterp).set("returnEvery", returnEvery).set("finalTime", finalTime).set("stepMode", stepMode).set("h", h).set("stepLimit", stepLimit);
    }
};

// ------------------------------------------------------------------------------------------------ per-run control block
// Everything a System-owned callback (custom force, handler, reporter) touches during one run lives here; the
// Scen points at the control block of the run that is currently stepping (several runs may share one System).
struct RunCtl { H64 log; long logEntries = 0, evals = 0, budget = 0, handled = 0; };

struct Scen;
inline void logState(RunCtl* rc, char tag, int id, const State& s, double extra) {
    if (!rc) return;
    rc->log.i(tag); rc->log.i(id); rc->log.d(s.getTime()); rc->log.v(s.getQ()); rc->log.v(s.getU()); rc->log.v(s.getZ()); rc->log.d(extra); ++rc->logEntries;
}

// custom force: counts evaluations against the run's budget (no wall clock anywhere) and applies a smooth
// velocity-dependent mobility force
class BudgetForce : public Force::Custom::Implementation {
public:
    BudgetForce(RunCtl* const* active, std::vector<double> c) : active(active), c(std::move(c)) {}
    void calcForce(const State& s, Vector_<SpatialVec>&, Vector_<Vec3>&, Vector& mobilityForces) const override {
        RunCtl* rc = *active;
        if (rc && ++rc->evals > rc->budget) throw std::runtime_error("C46 harness: evaluation budget of the run exhausted");
        const Vector& u = s.getU();
        for (int j = 0; j < mobilityForces.size() && j < (int)c.size(); ++j) mobilityForces[j] -= c[j] * std::tanh(u[j]);
    }
    Real calcPotentialEnergy(const State&) const override { return 0; }
    RunCtl* const* active; std::vector<double> c;
};

// custom measure: sum_i sin(wq_i q_i) + wu_i u_i (Velocity stage)
template <class T> class QUMeasure : public Measure_<T> {
public:
    SimTK_MEASURE_HANDLE_PREAMBLE(QUMeasure, Measure_<T>);
    QUMeasure(Subsystem& sub, const std::vector<double>& wq, const std::vector<double>& wu) : Measure_<T>(sub, new Implementation(wq, wu), AbstractMeasure::SetHandle()) {}
    SimTK_MEASURE_HANDLE_POSTSCRIPT(QUMeasure, Measure_<T>);
};
template <class T> class QUMeasure<T>::Implementation : public Measure_<T>::Implementation {
public:
    Implementation() : Measure_<T>::Implementation(1) {}
    Implementation(const std::vector<double>& wq, const std::vector<double>& wu) : Measure_<T>::Implementation(1), wq(wq), wu(wu) {}
    Implementation* cloneVirtual() const override { return new Implementation(*this); }
    int getNumTimeDerivativesVirtual() const override { return 0; }
    Stage getDependsOnStageVirtual(int) const override { return Stage::Velocity; }
    void calcCachedValueVirtual(const State& s, int, T& value) const override {
        double x = 0; const Vector &q = s.getQ(), &u = s.getU();
        for (int i = 0; i < q.size() && i < (int)wq.size(); ++i) x += std::sin(wq[i] * q[i]);
        for (int i = 0; i < u.size() && i < (int)wu.size(); ++i) x += wu[i] * u[i];
        value = x;
    }
    std::vector<double> wq, wu;
};

// ------------------------------------------------------------------------------------------------ handlers / reporters
struct WitnessSpec { int kind = 0, idx = 0; double c = 0, w = 1; };   // 0: q[idx]-c  1: u[idx]-c  2: sin(w t + c)
inline Stage witnessStage(const WitnessSpec& w) { return w.kind == 0 ? Stage::Position : w.kind == 1 ? Stage::Velocity : Stage::Time; }
inline double witnessValue(const WitnessSpec& w, const State& s) {
    if (w.kind == 0) return s.getQ()[w.idx] - w.c;
    if (w.kind == 1) return s.getU()[w.idx] - w.c;
    return std::sin(w.w * s.getTime() + w.c);
}
class TrigHandler : public TriggeredEventHandler {
public:
    TrigHandler(RunCtl* const* active, int id, WitnessSpec w, int action, int trig) : TriggeredEventHandler(witnessStage(w)), active(active), id(id), w(w), action(action) {
        if (trig == 1) getTriggerInfo().setTriggerOnFallingSignTransition(false);
        if (trig == 2) getTriggerInfo().setTriggerOnRisingSignTransition(false);
    }
    Real getValue(const State& s) const override { return witnessValue(w, s); }
    void handleEvent(State& s, Real accuracy, bool& shouldTerminate) const override {
        RunCtl* rc = *active; logState(rc, 'T', id, s, accuracy);
        if (rc && ++rc->handled > 40) { shouldTerminate = true; return; }
        switch (action) {
        case 1: s.updU() *= -0.7; break;
        case 2: if (s.getNU()) s.updU()[w.idx % s.getNU()] *= 0.5; break;
        case 3: if (s.getNZ()) s.updZ()[0] += 0.125; break;
        default: break;
        }
    }
    RunCtl* const* active; int id; WitnessSpec w; int action;
};
class SchedHandler : public ScheduledEventHandler {
public:
    SchedHandler(RunCtl* const* active, int id, double t0, double dt, int action, const GeneralForceSubsystem* forces, ForceIndex fx)
        : active(active), id(id), t0(t0), dt(dt), action(action), forces(forces), fx(fx) {}
    Real getNextEventTime(const State& s, bool includeCurrentTime) const override {
        double t = s.getTime(); double k = std::ceil((t - t0) / dt); if (k < 0) k = 0;
        double tk = t0 + k * dt;
        while (tk < t || (tk == t && !includeCurrentTime)) { k += 1; tk = t0 + k * dt; }
        return tk;
    }
    void handleEvent(State& s, Real accuracy, bool& shouldTerminate) const override {
        RunCtl* rc = *active; logState(rc, 'S', id, s, accuracy);
        if (rc && ++rc->handled > 40) { shouldTerminate = true; return; }
        switch (action) {
        case 1: s.updU() *= 0.9; break;
        case 2: if (forces && fx.isValid()) forces->setForceIsDisabled(s, fx, !forces->isForceDisabled(s, fx)); break;
        case 3: if (s.getNQ()) s.updQ()[0] += 1e-3; break;
        default: break;
        }
    }
    RunCtl* const* active; int id; double t0, dt; int action; const GeneralForceSubsystem* forces; ForceIndex fx;
};
class PerReporter : public PeriodicEventReporter {
public:
    PerReporter(RunCtl* const* active, int id, double dt) : PeriodicEventReporter(dt), active(active), id(id) {}
    void handleEvent(const State& s) const override { logState(*active, 'P', id, s, 0); }
    RunCtl* const* active; int id;
};
class TrigReporter : public TriggeredEventReporter {
public:
    TrigReporter(RunCtl* const* active, int id, WitnessSpec w) : TriggeredEventReporter(witnessStage(w)), active(active), id(id), w(w) {}
    Real getValue(const State& s) const override { return witnessValue(w, s); }
    void handleEvent(const State& s) const override { logState(*active, 'R', id, s, 0); }
    RunCtl* const* active; int id; WitnessSpec w;
};

// ------------------------------------------------------------------------------------------------ the scenario
enum Feat { FE_Cons = 1, FE_Motion = 2, FE_Contact = 4, FE_Cable = 8, FE_Events = 16, FE_Meas = 32 };
static const unsigned FEAT_COMBOS[] = {0, FE_Cons, FE_Contact, FE_Events, FE_Meas, FE_Motion, FE_Cable, FE_Cons | FE_Events, FE_Contact | FE_Events | FE_Meas,
                                       FE_Cons | FE_Contact, FE_Events | FE_Meas, FE_Cons | FE_Motion | FE_Meas, FE_Contact | FE_Cable | FE_Events};
static const int N_FEAT_COMBOS = (int)(sizeof FEAT_COMBOS / sizeof FEAT_COMBOS[0]);

// cableSurfaceWithHandlers: a wrapping-surface obstacle makes CableTrackerSubsystem own an event trigger; together with
// a TriggeredEventHandler/Reporter (DefaultSystemSubsystem) Integrator::initialize() used to overrun a heap array in
// DefaultSystemSubsystem::Guts::calcEventTriggerInfoImpl (found here, repaired by 183ae3d6). The combination is
// generated by default; --cable-surface-with-handlers 0 gives such scenarios a via point instead (investigation aid).
struct ScenKnobs { int maxBodies = 5; int maxStates = 36; long budget = 6000; bool cableSurfaceWithHandlers = true; };

static long g_dumpStep = -1;   // investigation aid (--dumpstep K): print the raw vectors of returned step K of every run to stderr
inline void dumpVec(const char* nm, const Vector& v) { fprintf(stderr, "    %-10s[%d]", nm, v.size()); for (int i = 0; i < v.size(); ++i) fprintf(stderr, " %.17g", (double)v[i]); fprintf(stderr, "\n"); }

struct Scen {
    Model m;
    uint64_t bSeed = 0; long bCyc = 0; int bInteg = -1;   // what build() was called with (replay: --scen-seed/--scen-cyc/--scen-integ)
    std::unique_ptr<ContactTrackerSubsystem> tracker; std::unique_ptr<CompliantContactSubsystem> compliant;
    std::unique_ptr<GeneralContactSubsystem> gcs;
    std::unique_ptr<CableTrackerSubsystem> cables; std::vector<std::unique_ptr<CablePath>> paths;
    std::vector<Measure_<Real>> measures;
    RunCtl* active = nullptr;
    State s0;
    IntegOpts io; unsigned feats = 0; int contactKind = -1; std::string featKey, descr;
    double T = 0.5; int nReports = 4, maxStates = 36; bool reportAll = true; int driver = 0;  // 0 TimeStepper, 1 manual loop
    long budget = 6000;
    int nForces = 0;
    std::string elems;   // what was added besides the tree (constraint / motion kinds and bodies), for witnesses

    struct Probe { std::vector<int> nq, nu, q0, u0; std::vector<Transform> X; Vector q, u; };
    Probe pr;
    MobilizedBody& B(int k) { return k < 0 ? (MobilizedBody&)m.matter.updGround() : m.bodies[k]; }
    Transform XG(int k) const { return k < 0 ? Transform() : pr.X[k]; }

    void probe(const ModelDesc& md, uint64_t quSeed) {
        Model t; t.build(md); State s = t.init(); Rng r(quSeed); randomQU(t, s, r, false, 1.0);
        t.sys.realize(s, Stage::Position);
        for (auto& b : t.bodies) { pr.nq.push_back(b.getNumQ(s)); pr.nu.push_back(b.getNumU(s)); pr.q0.push_back(b.getFirstQIndex(s)); pr.u0.push_back(b.getFirstUIndex(s)); pr.X.push_back(b.getBodyTransform(s)); }
        pr.q = s.getQ(); pr.u = s.getU();
    }
    int pickBody(Rng& r, bool allowGround) { int nb = (int)m.bodies.size(); return allowGround ? r.integer(-1, nb - 1) : r.integer(0, nb - 1); }
    int pickOther(Rng& r, int a) { int nb = (int)m.bodies.size(); for (int k = 0; k < 8; ++k) { int b = r.integer(-1, nb - 1); if (b != a) return b; } return a < 0 ? 0 : -1; }
    // a body whose q's are its u's integrated (nq == nu > 0): MobilityLinearSpring/Stop document that they need qdot == u
    int pickBodyQeqU(Rng& r) { int nb = (int)m.bodies.size(); for (int k = 0; k < 12; ++k) { int b = r.integer(0, nb - 1); if (pr.nu[b] > 0 && pr.nq[b] == pr.nu[b]) return b; } for (int b = 0; b < nb; ++b) if (pr.nu[b] > 0 && pr.nq[b] == pr.nu[b]) return b; return -1; }
    int pickBodyWithU(Rng& r) { int nb = (int)m.bodies.size(); for (int k = 0; k < 12; ++k) { int b = r.integer(0, nb - 1); if (pr.nu[b] > 0) return b; } for (int b = 0; b < nb; ++b) if (pr.nu[b] > 0) return b; return -1; }

    // <seed, cyc> -> definition. cyc selects <integrator, feature combination> deterministically (all pairs are
    // visited over 10*13 consecutive values); forceInteg >= 0 overrides the integrator (noise scenarios).
    // cousin > 0: the same tree (same nq, nu, nz-free shape, same bodies) but everything else -- forces, constraints,
    // prescribed motion, handlers -- drawn from another stream and another feature combination that always has
    // constraints: a neighbour of identical *shape* and different *content*, the worst case for any hidden
    // workspace that is sized by nq/nu/nb and survives from one System's call to the next.
    int bCousin = 0;
    void build(uint64_t seed, long cyc, const ScenKnobs& kn, int forceInteg = -1, int cousin = 0) {
        bSeed = seed; bCyc = cyc; bInteg = forceInteg; bCousin = cousin;
        Rng r(seed);
        feats = FEAT_COMBOS[cyc % N_FEAT_COMBOS];
        if (cousin > 0) { static const unsigned CF[] = {FE_Cons, FE_Cons | FE_Motion, FE_Cons | FE_Events}; feats = CF[(cousin - 1) % 3]; }
        io.kind = forceInteg >= 0 ? forceInteg : (int)(cyc % IK_Count);
        GenOpts go; go.minBodies = 2; go.maxBodies = kn.maxBodies; go.forceCycle = false; go.pLoneParticle = 0.03;
        ModelDesc md = randomDesc(r, go, cyc);
        md.euler = r.coin(0.4);
        uint64_t quSeed = r.next();
        probe(md, quSeed);
        m.build(md);
        if (cousin > 0) r = Rng(mix(seed, 7700 + (uint64_t)cousin));
        m.forces.setNumberOfThreads(1);
        int nb = (int)m.bodies.size(), NU = pr.u.size(), NQ = pr.q.size();
        featKey = "tree+forces";

        // ---- force elements
        bool gravity = r.coin(0.8) || (feats & FE_Contact);
        Vec3 g(0, -r.uni(3, 12), 0); if (!(feats & FE_Contact) && r.coin(0.3)) g = randVec3(r, 8);
        if (gravity) { if (r.coin()) Force::UniformGravity(m.forces, m.matter, g); else Force::Gravity(m.forces, m.matter, g); ++nForces; }
        { std::vector<double> c(NU); for (auto& x : c) x = r.uni(0, 0.5); Force::Custom(m.forces, new BudgetForce(&active, c)); ++nForces; }
        int nF = r.integer(1, 4);
        ForceIndex toggled;
        for (int k = 0; k < nF; ++k) {
            int kind = r.integer(0, 8);
            int a = pickBody(r, false), b = pickOther(r, a);
            switch (kind) {
            case 0: Force::TwoPointLinearSpring(m.forces, B(a), randVec3(r, .5), B(b), randVec3(r, .5), r.uni(1, 60), r.uni(0, 1)); break;
            case 1: Force::TwoPointLinearDamper(m.forces, B(a), randVec3(r, .5), B(b), randVec3(r, .5), r.uni(0.1, 3)); break;
            case 2: { int c = pickBodyQeqU(r); if (c < 0) continue; Force::MobilityLinearSpring(m.forces, B(c), MobilizerQIndex(r.integer(0, pr.nq[c] - 1)), r.uni(1, 40), r.sym(1)); } break;
            case 3: { int c = pickBodyWithU(r); if (c < 0) continue; Force::MobilityLinearDamper(m.forces, B(c), MobilizerUIndex(r.integer(0, pr.nu[c] - 1)), r.uni(0.1, 2)); } break;
            case 4: { int c = pickBodyQeqU(r); if (c < 0) continue; int qi = r.integer(0, pr.nq[c] - 1); double q = pr.q[pr.q0[c] + qi];
                      Force::MobilityLinearStop(m.forces, B(c), MobilizerQIndex(qi), r.uni(50, 500), r.uni(0, 1), q - r.uni(0.02, 0.5), q + r.uni(0.02, 0.5)); } break;
            case 5: { Vec6 k6, c6; for (int i = 0; i < 6; ++i) { k6[i] = r.uni(1, 40); c6[i] = r.uni(0, 1); }
                      Force::LinearBushing(m.forces, B(a), randFrame(r, 2), B(b), randFrame(r, 2), k6, c6); } break;
            case 6: Force::GlobalDamper(m.forces, m.matter, r.uni(0.05, 1)); break;
            case 7: Force::Thermostat(m.forces, m.matter, 1.0, r.uni(0.5, 5), r.uni(0.05, 0.5), 0); break;
            default: { int c = pickBodyWithU(r); if (c < 0) continue; Force::MobilityConstantForce(m.forces, B(c), MobilizerUIndex(r.integer(0, pr.nu[c] - 1)), r.sym(3)); } break;
            }
            toggled = ForceIndex(m.forces.getNumForces() - 1);
            ++nForces;
        }

        // ---- constraints, assembled at the probe configuration by construction
        if (feats & FE_Cons) {
            featKey += "+constraints";
            int nC = r.integer(1, 2);
            for (int k = 0; k < nC; ++k) {
                int kind = r.integer(0, 5);
                int a = pickBody(r, false), b = pickOther(r, a);
                Transform Xa = XG(a), Xb = XG(b);
                switch (kind) {
                case 0: { Vec3 p1 = randVec3(r, .5), p2 = randVec3(r, .5); double d = ((Xb * p2) - (Xa * p1)).norm(); if (d < 0.05) continue; Constraint::Rod(B(a), p1, B(b), p2, d); elems += " Rod(" + std::to_string(a) + "," + std::to_string(b) + ")"; } break;
                case 1: { Vec3 p1 = randVec3(r, .5); Constraint::Ball(B(a), p1, B(b), ~Xb * (Xa * p1)); elems += " Ball(" + std::to_string(a) + "," + std::to_string(b) + ")"; } break;
                case 2: { UnitVec3 n = randUnit(r); Vec3 p2 = randVec3(r, .5); Vec3 pa = ~Xa * (Xb * p2); Constraint::PointInPlane(B(a), n, dot(Vec3(n), pa), B(b), p2); elems += " PointInPlane(" + std::to_string(a) + "," + std::to_string(b) + ")"; } break;
                case 3: { int c = pickBodyWithU(r); if (c < 0) continue; int ui = r.integer(0, pr.nu[c] - 1); Constraint::ConstantSpeed(B(c), MobilizerUIndex(ui), pr.u[pr.u0[c] + ui]); elems += " ConstantSpeed(" + std::to_string(c) + ":u" + std::to_string(ui) + ")"; } break;
                case 4: { Transform X1 = randFrame(r, 2); Constraint::Weld(B(a), X1, B(b), ~Xb * (Xa * X1)); elems += " WeldConstraint(" + std::to_string(a) + "," + std::to_string(b) + ")"; } break;
                default: { UnitVec3 n = randUnit(r); Vec3 pl = randVec3(r, .5), p2 = randVec3(r, .5);
                           // PointOnLine through the current position of the follower point
                           Vec3 pa = ~Xa * (Xb * p2); (void)pl; Constraint::PointOnLine(B(a), n, pa, B(b), p2); elems += " PointOnLine(" + std::to_string(a) + "," + std::to_string(b) + ")"; } break;
                }
            }
        }
        if (feats & FE_Motion) {
            featKey += "+motion";
            for (int tries = 0; tries < 6; ++tries) {
                int c = r.integer(0, nb - 1);
                if (pr.nu[c] == 0 || pr.nq[c] != pr.nu[c] || pr.nq[c] > 3) continue;
                int lv = r.integer(0, 3);
                if (lv == 0) Motion::Sinusoid(B(c), Motion::Position, r.uni(0.1, 0.6), r.uni(1, 8), r.sym(3));
                else if (lv == 1) Motion::Sinusoid(B(c), Motion::Velocity, r.uni(0.1, 1), r.uni(1, 8), r.sym(3));
                else if (lv == 2) Motion::Sinusoid(B(c), Motion::Acceleration, r.uni(0.5, 3), r.uni(1, 8), r.sym(3));
                else Motion::Steady(B(c), r.sym(2));
                elems += std::string(" Motion:") + (lv == 0 ? "Sinusoid/Position" : lv == 1 ? "Sinusoid/Velocity" : lv == 2 ? "Sinusoid/Acceleration" : "Steady") + "(" + std::to_string(c) + ")";
                break;
            }
        }

        // ---- contact
        if (feats & FE_Contact) {
            contactKind = (int)((cyc / N_FEAT_COMBOS) % 5);
            static const char* ckn[] = {"compliant-smooth", "compliant-mesh+brick", "huntcrossley", "elasticfoundation", "smoothsphere+expspring"};
            featKey += std::string("+contact:") + ckn[contactKind];
            buildContact(r);
        }
        // ---- cable
        if (feats & FE_Cable) { featKey += "+cable"; buildCable(r, kn); }

        // ---- handlers and reporters
        if (feats & FE_Events) {
            featKey += "+events";
            int id = 0;
            auto wit = [&](int kind) { WitnessSpec w; w.kind = kind; if (kind == 0) { w.idx = r.integer(0, std::max(0, NQ - 1)); w.c = (NQ ? pr.q[w.idx] : 0) + r.sym(0.2); }
                                       else if (kind == 1) { w.idx = r.integer(0, std::max(0, NU - 1)); w.c = (NU ? pr.u[w.idx] : 0) + r.sym(0.5); } else { w.w = r.uni(5, 40); w.c = r.uni(0.3, 2.5); } return w; };
            int nT = r.integer(1, 2);
            for (int k = 0; k < nT; ++k) { int kind = r.integer(0, 2); if ((kind == 0 && !NQ) || (kind == 1 && !NU)) kind = 2; m.sys.addEventHandler(new TrigHandler(&active, id++, wit(kind), r.integer(0, 3), r.integer(0, 2))); }
            if (r.coin(0.7)) m.sys.addEventHandler(new SchedHandler(&active, id++, r.uni(0.01, 0.1), r.uni(0.05, 0.3), r.integer(0, 3), &m.forces, toggled));
            if (r.coin(0.7)) m.sys.addEventReporter(new PerReporter(&active, id++, r.uni(0.02, 0.2)));
            if (r.coin(0.5)) { int kind = r.integer(0, 2); if ((kind == 0 && !NQ) || (kind == 1 && !NU)) kind = 2; m.sys.addEventReporter(new TrigReporter(&active, id++, wit(kind))); }
        }
        // ---- measures
        if (feats & FE_Meas) {
            featKey += "+measures";
            std::vector<double> wq(NQ), wu(NU); for (auto& x : wq) x = r.sym(2); for (auto& x : wu) x = r.sym(1);
            Subsystem& sub = m.forces;
            QUMeasure<Real> qu(sub, wq, wu); measures.push_back(qu);
            Measure::Time tm(sub);
            Measure::Sinusoid sn(sub, r.uni(0.5, 2), r.uni(2, 20), r.sym(3)); measures.push_back(sn);
            Measure::Plus pl(sub, qu, sn); measures.push_back(pl);
            Measure::Integrate in(sub, pl, Measure::Constant(sub, r.sym(1))); measures.push_back(in);
            if (r.coin(0.7)) { Measure::Differentiate df(sub, qu); measures.push_back(df); }
            if (r.coin(0.7)) { if (r.coin()) measures.push_back(Measure::Minimum(sub, qu)); else measures.push_back(Measure::MaxAbs(sub, qu)); }
            if (r.coin(0.6)) { Measure::Delay dl(sub, qu, r.uni(0.01, 0.08)); measures.push_back(dl); }
            if (r.coin(0.4)) { Measure::Scale sc(sub, r.sym(3), tm); measures.push_back(sc); }
        }

        // ---- initial state
        s0 = m.init();
        if (s0.getNQ() == NQ) s0.updQ() = pr.q;
        if (s0.getNU() == NU) s0.updU() = pr.u;
        s0.setTime(0);

        // ---- integrator options and schedule
        T = r.uni(0.15, 0.8); nReports = r.integer(2, 6); maxStates = kn.maxStates; budget = kn.budget;
        io.acc = r.logUni(1e-6, 1e-2);
        io.consTol = r.coin(0.4) ? r.logUni(1e-7, 1e-3) : 0;
        io.projEvery = r.integer(-1, 1); io.infNorm = r.integer(-1, 1); io.allowInterp = r.coin(0.3) ? 0 : -1; io.projInterp = r.integer(-1, 1);
        io.returnEvery = r.coin(0.5); io.finalTime = r.coin(0.5);
        io.stepMode = r.coin(0.6) ? 0 : r.integer(1, 3); io.h = T / r.integer(8, 40);
        io.stepLimit = r.coin(0.3) ? r.integer(3, 25) : 0;
        reportAll = r.coin(0.6); driver = r.coin(0.35) ? 1 : 0;
        if (getenv("DET_TRACE")) fprintf(stderr, "DET_TRACE build seed=%llu cyc=%ld integ=%d NQ=%d NU=%d NZ=%d %s|%s | %s | %s\n", (unsigned long long)seed, cyc, forceInteg, s0.getNQ(), s0.getNU(), s0.getNZ(), md.shortStr().c_str(), elems.c_str(), featKey.c_str(), ikName(io.kind));
        descr = md.shortStr() + "|" + elems + " | " + featKey + " | " + ikName(io.kind) + (driver ? " manual" : (reportAll ? " ts/all" : " ts"));
    }

    void buildContact(Rng& r) {
        int nb = (int)m.bodies.size();
        // shapes on bodies, centres known in Ground at the probe pose; the Ground half-space (free side +y) is put so
        // that the second-lowest shape just touches: the lowest one penetrates from the start
        struct Sh { int body; Vec3 cB; double rad; int kind; };
        std::vector<Sh> shapes; int nS = r.integer(2, 4);
        for (int k = 0; k < nS; ++k) { Sh s; s.body = r.integer(0, nb - 1); s.cB = randVec3(r, 0.4); s.rad = r.uni(0.15, 0.5); s.kind = r.integer(0, 1); shapes.push_back(s); }
        std::vector<double> bottoms; for (auto& s : shapes) bottoms.push_back((XG(s.body) * s.cB)[1] - s.rad);
        std::vector<double> sb = bottoms; std::sort(sb.begin(), sb.end());
        double y0 = sb[std::min<size_t>(1, sb.size() - 1)] + r.uni(0.0, 0.03);
        Transform X_GH(Rotation(-Pi / 2, ZAxis), Vec3(0, y0, 0));
        auto mat = [&]() { double us = r.uni(0.2, 0.9); return ContactMaterial(r.logUni(1e3, 1e5), r.uni(0.05, 0.8), us, us * r.uni(0.2, 1), r.uni(0, 0.3)); };
        if (contactKind == 0 || contactKind == 1) {
            tracker.reset(new ContactTrackerSubsystem(m.sys)); compliant.reset(new CompliantContactSubsystem(m.sys, *tracker));
            if (r.coin()) compliant->setTransitionVelocity(r.logUni(1e-3, 0.1));
            if (r.coin()) compliant->setTrackDissipatedEnergy(true);
            m.matter.updGround().updBody().addContactSurface(X_GH, ContactSurface(ContactGeometry::HalfSpace(), mat()));
            for (auto& s : shapes) {
                Transform X(randRotation(r), s.cB);
                if (contactKind == 0) {
                    if (s.kind == 0) B(s.body).updBody().addContactSurface(X, ContactSurface(ContactGeometry::Sphere(s.rad), mat()));
                    else B(s.body).updBody().addContactSurface(X, ContactSurface(ContactGeometry::Ellipsoid(Vec3(s.rad, s.rad * r.uni(0.6, 1), s.rad * r.uni(0.6, 1))), mat()));
                } else {
                    if (s.kind == 0) B(s.body).updBody().addContactSurface(X, ContactSurface(ContactGeometry::TriangleMesh(PolygonalMesh::createSphereMesh(s.rad, 1)), mat(), r.uni(0.05, 0.2)));
                    else B(s.body).updBody().addContactSurface(X, ContactSurface(ContactGeometry::Brick(Vec3(s.rad, s.rad * r.uni(0.6, 1), s.rad * r.uni(0.6, 1))), mat()));
                }
            }
        } else if (contactKind == 2 || contactKind == 3) {
            gcs.reset(new GeneralContactSubsystem(m.sys));
            ContactSetIndex set = gcs->createContactSet();
            gcs->addBody(set, m.matter.updGround(), ContactGeometry::HalfSpace(), X_GH);
            for (auto& s : shapes) {
                if (contactKind == 2) gcs->addBody(set, B(s.body), ContactGeometry::Sphere(s.rad), Transform(s.cB));
                else gcs->addBody(set, B(s.body), ContactGeometry::TriangleMesh(PolygonalMesh::createSphereMesh(s.rad, 1)), Transform(randRotation(r), s.cB));
            }
            if (contactKind == 2) {
                HuntCrossleyForce hc(m.forces, *gcs, set);
                for (int i = 0; i <= (int)shapes.size(); ++i) { double us = r.uni(0.2, 0.9); hc.setBodyParameters(ContactSurfaceIndex(i), r.logUni(1e3, 1e5), r.uni(0.05, 0.8), us, us * r.uni(0.2, 1), r.uni(0, 0.3)); }
            } else {
                ElasticFoundationForce ef(m.forces, *gcs, set);
                for (int i = 1; i <= (int)shapes.size(); ++i) { double us = r.uni(0.2, 0.9); ef.setBodyParameters(ContactSurfaceIndex(i), r.logUni(1e3, 1e5), r.uni(0.05, 0.8), us, us * r.uni(0.2, 1), r.uni(0, 0.3)); }
            }
        } else {
            for (auto& s : shapes) {
                if (s.kind == 0) {
                    SmoothSphereHalfSpaceForce ss(m.forces);
                    double us = r.uni(0.2, 0.9); ss.setParameters(r.logUni(1e3, 1e6), r.uni(0.05, 1), us, us * r.uni(0.2, 1), r.uni(0, 0.3), r.logUni(1e-3, 0.1), 1e-5, 300, 50);
                    ss.setContactSphereBody(B(s.body)); ss.setContactSphereLocationInBody(s.cB); ss.setContactSphereRadius(s.rad);
                    ss.setContactHalfSpaceBody(m.matter.updGround()); ss.setContactHalfSpaceFrame(X_GH);
                } else {
                    // plane with +z up at the height of this shape's bottom point
                    Vec3 st = s.cB; double h = (XG(s.body) * st)[1] - r.uni(0.0, 0.004);
                    Transform X_GP(Rotation(-Pi / 2, XAxis), Vec3(0, h, 0));
                    ExponentialSpringParameters prm; if (r.coin()) prm.setNormalViscosity(r.uni(0.1, 1));
                    ExponentialSpringForce(m.forces, X_GP, B(s.body), st, prm);
                }
            }
        }
    }
    void buildCable(Rng& r, const ScenKnobs& kn) {
        int nb = (int)m.bodies.size();
        cables.reset(new CableTrackerSubsystem(m.sys));
        int a = r.integer(0, nb - 1), b = pickOther(r, a);
        Vec3 s1 = randVec3(r, .5), s2 = randVec3(r, .5);
        paths.emplace_back(new CablePath(*cables, B(a), s1, B(b), s2));
        Vec3 p1 = XG(a) * s1, p2 = XG(b) * s2; double L = (p2 - p1).norm();
        int obst = r.integer(0, 2);
        if (obst == 2 && (feats & FE_Events) && !kn.cableSurfaceWithHandlers) obst = 1;
        if (obst == 1) { int v = pickBody(r, true); Vec3 sv = randVec3(r, .5); CableObstacle::ViaPoint(*paths.back(), B(v), sv); Vec3 pv = XG(v) * sv; L = (pv - p1).norm() + (p2 - pv).norm(); }
        else if (obst == 2) {
            // a sphere on Ground centred a little off the straight segment so that the cable has to wrap
            Vec3 mid = 0.5 * (p1 + p2); UnitVec3 d = randUnit(r); double rad = std::max(0.05, 0.25 * L);
            Vec3 ctr = mid + 0.5 * rad * Vec3(d);
            if ((p1 - ctr).norm() > 1.2 * rad && (p2 - ctr).norm() > 1.2 * rad) {
                CableObstacle::Surface sf(*paths.back(), m.matter.updGround(), Transform(ctr), ContactGeometry::Sphere(rad));
                sf.setNearPoint(rad * (mid - ctr) / std::max(1e-9, (mid - ctr).norm()));
                L += rad;
            }
        }
        CableSpring(m.forces, *paths.back(), r.uni(5, 200), std::max(0.01, L * r.uni(0.5, 1.2)), r.uni(0, 0.5));
    }
    Json toJson() const { char b[40]; snprintf(b, sizeof b, "%llu", (unsigned long long)bSeed); return Json::obj().set("model", descr).set("T", T).set("nReports", nReports).set("options", io.toJson()).set("scen_seed", std::string(b)).set("scen_cyc", bCyc).set("scen_integ", bInteg).set("cousin", bCousin); }
};

// ------------------------------------------------------------------------------------------------ one incremental run
struct Run {
    Scen& sc; std::unique_ptr<Integrator> integ; std::unique_ptr<TimeStepper> ts; RunCtl ctl; Traj traj;
    bool done = false; int rep = 1; double tRep = 0; double lastEventTime = -Infinity, lastReportTime = -Infinity;
    H64 cum;

    // construct + initialize from the given initial state (a copy is taken by the integrator)
    Run(Scen& sc, const State& init) : sc(sc) {
        ctl.budget = sc.budget;
        const IntegOpts& o = sc.io;
        integ.reset(makeInteg(o.kind, sc.m.sys, o.h));
        integ->setAccuracy(o.acc);
        if (o.consTol > 0) integ->setConstraintTolerance(o.consTol);
        if (o.projEvery >= 0) integ->setProjectEveryStep(o.projEvery == 1);
        if (o.projInterp >= 0) integ->setProjectInterpolatedStates(o.projInterp == 1);
        if (o.infNorm >= 0) integ->setUseInfinityNorm(o.infNorm == 1);
        if (o.allowInterp >= 0) integ->setAllowInterpolation(o.allowInterp == 1);
        integ->setReturnEveryInternalStep(o.returnEvery);
        if (o.finalTime) integ->setFinalTime(sc.T);
        if (o.kind != IK_SEE) { if (o.stepMode == 1) integ->setFixedStepSize(o.h); else if (o.stepMode == 2) integ->setMaximumStepSize(o.h); else if (o.stepMode == 3) integ->setInitialStepSize(o.h / 4); }
        if (o.stepLimit > 0) integ->setInternalStepLimit(o.stepLimit);
        tRep = sc.T / sc.nReports;
        // CPodesIntegrator on a System without continuous state variables dies in CPodes (SIGSEGV in nvmin_SimTK after
        // "CPLapackDense: A memory request failed"; reported with a standalone repro): such a run is not started
        if ((o.kind == IK_CPBDF || o.kind == IK_CPAdams) && init.getNY() == 0) { finish("not-run:CPodes-without-continuous-state"); return; }
        sc.active = &ctl;
        try {
            if (sc.driver == 0) { ts.reset(new TimeStepper(sc.m.sys, *integ)); ts->setReportAllSignificantStates(sc.reportAll); ts->initialize(init); }
            else integ->initialize(init);
        } catch (const std::exception& e) { finish(std::string("InitializationFailed: ") + e.what()); }
        sc.active = nullptr;
    }
    void finish(const std::string& outcome) { done = true; traj.outcome = firstLine(outcome, 200); H64 h; h.s(outcome); traj.hOutcome = h.h; }

    // the body of TimeStepperRep::stepTo(), one integrator call per invocation, with the event information that
    // TimeStepper consumes recorded before the handlers run
    Integrator::SuccessfulStepStatus manualStep(H64& hev) {
        const System& system = sc.m.sys;
        HandleEventsOptions handleOpts(integ->getConstraintToleranceInUse());
        if (integ->isInfinityNormInUse()) handleOpts.setOption(HandleEventsOptions::UseInfinityNorm);
        Array_<EventId> scheduledEventIds, scheduledReportIds;
        Real nextScheduledEvent = Infinity, nextScheduledReport = Infinity, currentTime = integ->getTime();
        system.realize(integ->getState(), Stage::Time); system.realize(integ->getAdvancedState(), Stage::Time);
        system.calcTimeOfNextScheduledEvent(integ->getState(), nextScheduledEvent, scheduledEventIds, lastEventTime != currentTime);
        system.calcTimeOfNextScheduledReport(integ->getState(), nextScheduledReport, scheduledReportIds, lastReportTime != currentTime);
        hev.d(nextScheduledEvent); hev.d(nextScheduledReport); hev.i(scheduledEventIds.size()); hev.i(scheduledReportIds.size());
        Real reportTime = std::min(nextScheduledReport, tRep), eventTime = std::min(nextScheduledEvent, tRep);
        Integrator::SuccessfulStepStatus status = integ->stepTo(reportTime, eventTime);
        Stage lowestModified = Stage::Report; bool shouldTerminate = false; HandleEventsResults results;
        switch (status) {
        case Integrator::ReachedStepLimit: case Integrator::StartOfContinuousInterval: return status;
        case Integrator::ReachedReportTime:
            if (integ->getTime() >= nextScheduledReport) { system.reportEvents(integ->getState(), Event::Cause::Scheduled, scheduledReportIds); lastReportTime = integ->getTime(); }
            return status;
        case Integrator::ReachedScheduledEvent:
            system.handleEvents(integ->updAdvancedState(), Event::Cause::Scheduled, scheduledEventIds, handleOpts, results); lastEventTime = integ->getTime(); break;
        case Integrator::TimeHasAdvanced:
            system.handleEvents(integ->updAdvancedState(), Event::Cause::TimeAdvanced, Array_<EventId>(), handleOpts, results); break;
        case Integrator::ReachedEventTrigger: {
            // the event window [t_low, t_high], the events and their estimated times
            hev.d(integ->getTime()); hev.d(integ->getAdvancedTime());
            const Array_<EventId>& ev = integ->getTriggeredEvents(); const Array_<Real>& et = integ->getEstimatedEventTimes(); const Array_<Event::Trigger>& tr = integ->getEventTransitionsSeen();
            hev.i(ev.size()); for (int i = 0; i < (int)ev.size(); ++i) hev.i((int)ev[i]);
            for (int i = 0; i < (int)et.size(); ++i) hev.d(et[i]);
            for (int i = 0; i < (int)tr.size(); ++i) hev.i((int)tr[i]);
            system.handleEvents(integ->updAdvancedState(), Event::Cause::Triggered, ev, handleOpts, results);
        } break;
        case Integrator::EndOfSimulation:
            system.handleEvents(integ->updAdvancedState(), Event::Cause::Termination, Array_<EventId>(), handleOpts, results); break;
        default: break;
        }
        lowestModified = results.getLowestModifiedStage();
        shouldTerminate = results.getExitStatus() == HandleEventsResults::ShouldTerminate;
        hev.i((int)lowestModified); hev.i(shouldTerminate);
        integ->reinitialize(lowestModified, shouldTerminate);
        return status;
    }

    // one step; returns false when the run is over
    bool step() {
        if (done) return false;
        sc.active = &ctl;
        Integrator::SuccessfulStepStatus st; H64 hev;
        try {
            if (sc.driver == 0) st = ts->stepTo(tRep); else st = manualStep(hev);
        } catch (const std::exception& e) { sc.active = nullptr; finish(std::string("StepFailed: ") + e.what()); return false; }
        record(st, hev);
        sc.active = nullptr;
        if (done) return false;
        if (st == Integrator::EndOfSimulation || integ->isSimulationOver()) { finish("completed:end-of-simulation"); return false; }
        if ((int)traj.steps.size() >= sc.maxStates) { finish("state-budget"); return false; }
        if (integ->getTime() >= tRep && (st == Integrator::ReachedReportTime || sc.driver == 1 || sc.reportAll)) {
            if (rep >= sc.nReports) { finish("completed:last-report"); return false; }
            ++rep; tRep = (rep == sc.nReports) ? sc.T : sc.T * rep / sc.nReports;
        }
        return true;
    }

    void record(Integrator::SuccessfulStepStatus st, H64& hev) {
        StepRec r; r.status = (int)st;
        const State& s = integ->getState();
        r.t = s.getTime();
        { H64 h; h.d(s.getTime()); h.v(s.getQ()); h.v(s.getU()); h.v(s.getZ()); r.hState = h.h; }
        bool realized = true; bool finite = true;
        { H64 hd, hm;
          try {
              sc.m.sys.realize(s, Stage::Acceleration);
              hd.v(s.getQDot()); hd.v(s.getUDot()); hd.v(s.getZDot()); hd.v(s.getQDotDot());
              hm.v(s.getMultipliers()); hm.v(s.getQErr()); hm.v(s.getUErr()); hm.v(s.getUDotErr());
              finite = allFinite(s.getQ()) && allFinite(s.getU()) && allFinite(s.getUDot());
              if (g_dumpStep == (long)traj.steps.size()) {
                  fprintf(stderr, "  dump of returned step %ld (t=%.17g, status %d) [%s]\n", g_dumpStep, (double)s.getTime(), (int)st, sc.descr.c_str());
                  dumpVec("q", s.getQ()); dumpVec("u", s.getU()); dumpVec("z", s.getZ()); dumpVec("qdot", s.getQDot()); dumpVec("udot", s.getUDot()); dumpVec("zdot", s.getZDot()); dumpVec("qdotdot", s.getQDotDot());
                  dumpVec("lambda", s.getMultipliers()); dumpVec("qerr", s.getQErr()); dumpVec("uerr", s.getUErr()); dumpVec("udoterr", s.getUDotErr());
              }
          } catch (const std::exception& e) { realized = false; hd.s(std::string("realize failed: ") + e.what()); }
          r.hDeriv = hd.h; r.hMult = hm.h; }
        { H64 h; try { h.i(integ->isStateInterpolated()); h.d(integ->getAdvancedTime()); h.d(integ->getPreviousStepSizeTaken()); h.d(integ->getPredictedNextStepSize());
          h.d(integ->getActualInitialStepSizeTaken()); h.d(integ->getAccuracyInUse()); h.d(integ->getConstraintToleranceInUse());
          h.i(integ->getNumStepsAttempted()); h.i(integ->getNumStepsTaken()); h.i(integ->getNumRealizations()); h.i(integ->getNumQProjections()); h.i(integ->getNumUProjections());
          h.i(integ->getNumErrorTestFailures()); h.i(integ->getNumConvergenceTestFailures()); h.i(integ->getNumRealizationFailures()); h.i(integ->getNumQProjectionFailures());
          h.i(integ->getNumUProjectionFailures()); h.i(integ->getNumConvergentIterations()); h.i(integ->getNumDivergentIterations()); h.i(integ->getNumIterations());
          } catch (const std::exception& e) { h.s(e.what()); }
          r.hStats = h.h; }
        { hev.i((long long)ctl.log.h); hev.i(ctl.logEntries); r.hEvents = hev.h; }
        { H64 h;
          if (realized) {
              for (auto& ms : sc.measures) { try { h.d(ms.getValue(s)); } catch (const std::exception& e) { h.s(e.what()); } }
              try { h.d(sc.m.sys.calcEnergy(s)); } catch (const std::exception& e) { h.s(e.what()); }
          }
          r.hMeas = h.h; }
        { H64 h;
          if (realized && sc.compliant) {
              try {
                  int n = sc.compliant->getNumContactForces(s); h.i(n);
                  for (int i = 0; i < n; ++i) { const ContactForce& f = sc.compliant->getContactForce(s, i); h.v3(f.getContactPoint()); h.v3(f.getForceOnSurface2()[0]); h.v3(f.getForceOnSurface2()[1]); h.d(f.getPotentialEnergy()); h.d(f.getPowerDissipation()); }
                  if (sc.compliant->getTrackDissipatedEnergy()) h.d(sc.compliant->getDissipatedEnergy(s));
              } catch (const std::exception& e) { h.s(e.what()); }
          }
          if (realized && sc.gcs) {
              try { for (ContactSetIndex cs(0); cs < sc.gcs->getNumContactSets(); ++cs) { const Array_<Contact>& ct = sc.gcs->getContacts(s, cs); h.i(ct.size());
                        for (int i = 0; i < (int)ct.size(); ++i) { h.i((int)ct[i].getSurface1()); h.i((int)ct[i].getSurface2()); if (PointContact::isInstance(ct[i])) { const PointContact& pc = static_cast<const PointContact&>(ct[i]); h.d(pc.getDepth()); h.v3(pc.getLocation()); } } }
              } catch (const std::exception& e) { h.s(e.what()); }
          }
          for (auto& p : sc.paths) { if (!realized) break; try { h.d(p->getCableLength(s)); h.d(p->getCableLengthDot(s)); } catch (const std::exception& e) { h.s(e.what()); } }
          r.hContact = h.h; }
        cum.d(r.t); cum.i(r.status); cum.i((long long)r.hState); cum.i((long long)r.hDeriv); cum.i((long long)r.hMult); cum.i((long long)r.hStats); cum.i((long long)r.hEvents); cum.i((long long)r.hMeas); cum.i((long long)r.hContact);
        r.cum = cum.h;
        traj.steps.push_back(r);
        if (!finite) finish("non-finite-state");
    }
    void runToEnd() { while (step()) {} }
};

} // namespace det
