// matrix_big_ops4.h — included inside class mx::Engine<B>: scalar-valued queries, inversion, sequence driver.

void checkScalar(const std::string& key, LD got, LD ref, LD tol, const std::string& what) {
    std::vector<std::complex<LD>> g(1, std::complex<LD>(got, 0)); std::vector<LC> rf(1, LC(ref, 0)); std::vector<LD> tl(1, tol);
    checkVals(key, g, rf, tl, what);
}
bool op_query() {
    Obj* a = pickAny(); if (!a) return false;
    if (hasNaN(*a)) { c.skip("nan-input"); return false; }
    int v = r.integer(0, 6);
    const int sh = shapeOf(a->kind), n = a->nr * a->nc;
    if ((v == 2 || v == 3) && !IsScalar) v = 0;
    if ((v == 3 || v == 4) && sh == 0) v = 1;
    if (v == 3 && (sh == 2 || (Cplx && a->t != 0))) v = 2;          // normInf is a VectorBase member only
    static const char* nm[] = {"norm", "normSqr", "normRMS", "normInf", "sum", "sizes", "weightedNorms"};
    if (v == 6 && (!IsScalar || sh != 1)) v = 5;
    std::vector<LC> A = logical(*a);
    LD ssq = 0; for (auto& x : A) ssq += std::norm(x);
    log(std::string(nm[v]) + " of " + tag(*a));
    std::string key = okey(nm[v], *a);
    cover(nm[v], *a);
    Obj* w = nullptr;
    if (v == 6) { w = pick([&](const Obj& o) { return shapeOf(o.kind) == 1 && o.nr == a->nr && !hasNaN(o) && (o.t & 2) == 0; }); if (!w) v = 5; }
    withT(a->t, [&](auto tt) {
        constexpr int T = decltype(tt)::value; typedef EltT<T> E; const MatrixBase<E>& m = asBase<T>(*a);
        if (v == 0) checkScalar("query:" + key, (LD)m.norm(), std::sqrt(ssq), tolOf(std::sqrt(ssq), n * K + 2), "norm()");
        else if (v == 1) { checkScalar("query:" + key, (LD)m.normSqr(), ssq, tolOf(ssq, n * K + 2), "normSqr()");
                           checkScalar("query:" + key, (LD)m.scalarNormSqr(), ssq, tolOf(ssq, n * K + 2), "scalarNormSqr()"); }
        else if (v == 2) {
            if constexpr (IsScalar) {
                LD ref = n ? std::sqrt(ssq / n) : 0;
                checkScalar("query:" + key, (LD)m.normRMS(), ref, tolOf(ref, n + 4), "MatrixBase::normRMS()");
                if constexpr (!Cplx) if (sh == 1) {
                    int worst = -7; LD got = (LD)asVec<T>(*a).normRMS(&worst);
                    checkScalar("query:" + key, got, ref, tolOf(ref, n + 4), "VectorBase::normRMS(&worst)");
                    LD mx = -1; int wi = -1; for (int i = 0; i < n; ++i) if (std::norm(A[i]) > mx) { mx = std::norm(A[i]); wi = i; }
                    bool ok = (n == 0) ? worst == -1 : (worst >= 0 && worst < n && std::norm(A[worst]) >= mx * (1 - 8 * eps()));
                    if (!c.require("query-index:" + key, ok, [&] { return vh::Json::obj().set("what", "normRMS worst index").set("got", worst).set("expected", wi).set("history", histJson()); })) throw SeqAbort();
                }
            }
        }
        else if (v == 3) {
            if constexpr (IsScalar && (!Cplx || T == 0)) {     // std::abs() of negator<complex>/conjugate: ill-formed (compile time)
                LD mx = 0; int wi = n ? 0 : -1; for (int i = 0; i < n; ++i) if (absLC(A[i]) > mx) { mx = absLC(A[i]); wi = i; }
                int worst = -7; LD got = r.coin() ? (LD)asVec<T>(*a).normInf(&worst) : (worst = wi, (LD)asVec<T>(*a).normInf());
                checkScalar("query:" + key, got, mx, Cplx ? tolOf(mx, 2) : LD(0), "normInf()");
                bool ok = (n == 0) ? worst == -1 : (worst >= 0 && worst < n && absLC(A[worst]) >= mx * (1 - 8 * eps()) && (Cplx || worst == wi));
                if (!c.require("query-index:" + key, ok, [&] { return vh::Json::obj().set("what", "normInf worst index").set("got", worst).set("expected", wi).set("history", histJson()); })) throw SeqAbort();
            }
        }
        else if (v == 4) {
            std::vector<LC> ref(K, LC(0)); std::vector<LD> tol(K, 0);
            for (int e = 0; e < n; ++e) for (int k = 0; k < K; ++k) { ref[k] += A[(size_t)e * K + k]; tol[k] += absLC(A[(size_t)e * K + k]); }
            for (auto& t : tol) t = tolOf(t, n);
            E s; if (sh == 1) s = asVec<T>(*a).sum(); else s = asRow<T>(*a).sum();
            std::vector<C> got(K); ET<E>::get(s, got.data());
            checkVals("query:" + key, got, ref, tol, "sum() of all elements");
        }
        else if (v == 5) {
            bool ok = m.nrow() == a->nr && m.ncol() == a->nc && m.nelt() == (ptrdiff_t)n;
            if (sh == 1) ok = ok && asVec<T>(*a).size() == n && asVec<T>(*a).nrow() == a->nr;
            if (sh == 2) ok = ok && asRow<T>(*a).size() == n && asRow<T>(*a).ncol() == a->nc;
            bool resz = m.isResizeable();
            if (!a->isOwner && !(a->kind & 1) && a->own->external && sh != 0) ok = ok && !resz;   // fixed-size commitment of external-data vectors
            if (!c.require("query:" + key, ok, [&] { return vh::Json::obj().set("what", "nrow/ncol/nelt/size").set("object", tag(*a)).set("history", histJson()); })) throw SeqAbort();
        }
        else if (v == 6) {
            if constexpr (IsScalar && !Cplx) {
                withT(w->t, [&](auto tw) {
                    constexpr int TW = decltype(tw)::value;
                    if constexpr ((TW & 2) == 0) {
                        std::vector<LC> W = logical(*w); LD s2 = 0, mx = 0; int wi = n ? 0 : -1;
                        for (int i = 0; i < n; ++i) { LD p2 = std::norm(W[i] * A[i]); s2 += p2; if (std::sqrt(p2) > mx) { mx = std::sqrt(p2); wi = i; } }
                        int w1 = -7, w2 = -7; LD ref = n ? std::sqrt(s2 / n) : 0;
                        checkScalar("query:" + key, (LD)asVec<T>(*a).weightedNormRMS(asVec<TW>(*w), &w1), ref, tolOf(ref, n + 6), "weightedNormRMS");
                        checkScalar("query:" + key, (LD)asVec<T>(*a).weightedNormInf(asVec<TW>(*w), &w2), mx, tolOf(mx, 3), "weightedNormInf");
                        bool ok = n == 0 ? (w1 == -1 && w2 == -1) : (w1 >= 0 && w1 < n && w2 >= 0 && w2 < n && absLC(W[w2] * A[w2]) >= mx * (1 - 16 * eps()) && absLC(W[w1] * A[w1]) >= mx * (1 - 16 * eps()));
                        if (!c.require("query-index:" + key, ok, [&] { return vh::Json::obj().set("what", "weighted norm worst index").set("gotRMS", w1).set("gotInf", w2).set("expected", wi).set("history", histJson()); })) throw SeqAbort();
                    }
                });
            }
        }
    });
    compareAll(key);
    return true;
}

// general inverse of small well-conditioned scalar matrices (LAPACK based in the library)
static bool refInverse(std::vector<LC> a, int n, std::vector<LC>& inv, LD& cond) {
    inv.assign((size_t)n * n, LC(0)); for (int i = 0; i < n; ++i) inv[i + i * n] = 1;
    LD na = 0; for (auto& x : a) na = std::max(na, absLC(x));
    for (int col = 0; col < n; ++col) {
        int piv = col; LD best = 0; for (int i = col; i < n; ++i) if (absLC(a[i + col * n]) > best) { best = absLC(a[i + col * n]); piv = i; }
        if (best < 1e-6 * (na + 1e-300)) return false;
        for (int j = 0; j < n; ++j) { std::swap(a[col + j * n], a[piv + j * n]); std::swap(inv[col + j * n], inv[piv + j * n]); }
        LC d = a[col + col * n];
        for (int j = 0; j < n; ++j) { a[col + j * n] /= d; inv[col + j * n] /= d; }
        for (int i = 0; i < n; ++i) if (i != col) { LC f = a[i + col * n]; if (f == LC(0)) continue;
            for (int j = 0; j < n; ++j) { a[i + j * n] -= f * a[col + j * n]; inv[i + j * n] -= f * inv[col + j * n]; } }
    }
    LD ni = 0; for (auto& x : inv) ni = std::max(ni, absLC(x));
    cond = na * ni * n;
    return true;
}
bool op_invert() {
    if constexpr (!IsScalar) return false;
    else {
        bool inplace = r.coin();
        Obj* a = pick([&](const Obj& o) { return o.nr == o.nc && o.nr >= 1 && o.nr <= 6 && shapeOf(o.kind) == 0 && (!inplace || (o.writable && o.isOwner)); });
        if (!a) return false;
        // invertInPlace(): documented precondition "no view" (MatrixHelper.h); invert() copies first
        if (hasNaN(*a)) { c.skip("nan-input"); return false; }
        const int n = a->nr; std::vector<LC> A = logical(*a), inv; LD cond = 0;
        if (!refInverse(A, n, inv, cond) || cond > 1e3) { c.skip("ill-conditioned-for-invert"); return false; }
        LD ni = 0; for (auto& x : inv) ni = std::max(ni, absLC(x));
        std::vector<LD> tol((size_t)n * n, 64 * n * eps() * cond * ni);
        log(std::string(inplace ? "invertInPlace " : "invert ") + tag(*a));
        std::string key = okey(inplace ? "invertInPlace" : "invert", *a);
        cover(inplace ? "invertInPlace" : "invert", *a);
        if (inplace) { destroyDependents(*a); }
        bool cant = false;
        withT(a->t, [&](auto tt) {
            constexpr int T = decltype(tt)::value;
            try {
                if (inplace) asBase<T>(*a).invertInPlace();
                else { auto res = asBase<T>(*a).invert(); finishResult(key, res, n, n, 1, inv, tol, true); }
            } catch (const SimTK::Exception::Cant&) { cant = true; }   // reported refusal (1-d storage behind a Matrix handle): an outcome, not a value error
        });
        if (cant) { c.obs("invert-refused-Exception::Cant"); hist.back() += "  => Exception::Cant"; compareAll(key, a); return true; }
        if (inplace) checkTarget("arith:" + key, *a, inv, tol);
        compareAll(key, a);
        return true;
    }
}

// ---------------------------------------------------------------- sequence driver
void runSequence(int nOpsWanted) {
    struct W { int w; bool (Engine::*f)(); };
    static const W table[] = {
        {10, &Engine::op_newOwner}, {4, &Engine::op_newExternal}, {5, &Engine::op_deepCopy},
        {9, &Engine::op_viewBlock}, {7, &Engine::op_viewRowCol}, {4, &Engine::op_viewDiag}, {7, &Engine::op_viewTranspose},
        {6, &Engine::op_viewNegate}, {5, &Engine::op_viewSubVector}, {3, &Engine::op_viewShallow}, {2, &Engine::op_viewAssign},
        {7, &Engine::op_destroy}, {7, &Engine::op_assign}, {6, &Engine::op_fill}, {6, &Engine::op_elementAccess}, {6, &Engine::op_resize},
        {9, &Engine::op_inplace}, {5, &Engine::op_elementwiseInplace}, {5, &Engine::op_addSub}, {5, &Engine::op_scalarExpr},
        {7, &Engine::op_matmul}, {5, &Engine::op_elementwiseExpr}, {5, &Engine::op_query}, {2, &Engine::op_invert}};
    int total = 0; for (auto& w : table) total += w.w;
    try {
        for (int k = 0; k < 3; ++k) op_newOwner();
        while (nOps < nOpsWanted) {
            if (pool.size() >= 14) { op_destroy(); ++nOps; continue; }
            bool done = false;
            for (int attempt = 0; attempt < 20 && !done; ++attempt) {
                int x = r.integer(0, total - 1); const W* pw = table; while (x >= pw->w) { x -= pw->w; ++pw; }
                try { done = (this->*(pw->f))(); }
                catch (const SeqAbort&) { throw; }
                catch (const std::exception& ex) {
                    std::string msg = ex.what();
                    // Vector/RowVector handle re-interpreting an n x 1 / 1 x n matrix whose storage is 2-d: one-index access refused
                    if (msg.find("One-index") != std::string::npos)
                        fail("exception:one-index-access-on-vector-handle-with-2d-storage", vh::Json::obj().set("what", vh::firstLine(msg, 500)).set("phase", c.phase));
                    fail("exception:" + vh::normMsg(msg).substr(0, 120), vh::Json::obj().set("what", vh::firstLine(msg, 500)).set("phase", c.phase));
                }
            }
            ++nOps;
        }
        log("end of sequence: destroy all");
        destroyAll();
        c.obs("big_sequences_completed");
        if (c.wantSample()) { vh::Json ops = vh::Json::arr(); for (size_t k = 0; k < hist.size() && k < 12; ++k) ops.push(vh::Json(hist[k]));
            c.sample(vh::Json::obj().set("family", famName()).set("operations", (long)nOps).set("first_ops", ops)); }
    } catch (const SeqAbort&) {
        c.obs("big_sequences_aborted_after_violation");
    }
    c.obs("big_ops", nOps);
    if (c.args.verbose) for (auto& h : hist) fprintf(stderr, "  %s\n", h.c_str());
}
