// force_contact.h — contact and cable elements for mon_force (C12 energy, C13 third law).
// Their documented force *laws* are checked elsewhere (C37, C45); here there is no
// reference model (hasReference=false): the oracles are the power/energy balance and the
// action/reaction sums, with scales taken from rough documented-formula estimates.
//
// Placement: the probe state's body poses are known when the element is built, so the
// geometry is put on the bodies such that the pair is penetrating / grazing / separated by a
// chosen amount at exactly that state.
#pragma once
namespace vh {

enum PoseRegime { PR_Penetrating = 0, PR_Separated = 1, PR_Grazing = 2 };
inline const char* poseName(int p) { return p == 0 ? "penetrating" : p == 1 ? "separated" : "grazing"; }
inline double chooseDepth(Rng& r, int pose, double size) {
    if (pose == PR_Penetrating) return r.uni(0.03, 0.25) * size;
    if (pose == PR_Separated) return -r.uni(0.05, 0.5) * size;
    return r.uni(2e-4, 2e-3) * size;
}
struct Mat5 { double k, c, us, ud, uv; };
inline Mat5 randMaterial(Rng& r, bool dissip, bool fric, double klo = 5, double khi = 5e3) {
    Mat5 m; m.k = r.logUni(klo, khi); m.c = dissip ? r.uni(0.05, 1.0) : 0.0;
    m.us = fric ? r.uni(0.2, 1.0) : 0.0; m.ud = fric ? r.uni(0.0, 1.0) * m.us : 0.0; m.uv = (fric && r.coin()) ? r.uni(0.0, 0.3) : 0.0;
    return m;
}
// a frame whose +x axis is 'x' (HalfSpace: material occupies x>0, outward normal -x)
inline Rotation rotWithX(Rng& r, const UnitVec3& x) { (void)r; return Rotation(x, XAxis); }

// common part: where surface 1 (a convex blob of "radius" extent along a direction) sits
struct ContactElemBase : Elem {
    int pose = 0; double depth0 = 0, sizeScale = 1, kScale = 1; bool dissip = false, fric = false;
    double vt = 0.01;
    void classify(int variant) {
        pose = (variant / 2) % 3;
        // variant 0..5 -> (dissipation, friction) cycles independently of the pose through the case index
    }
    void setEnergyFlags(bool d, bool f) { dissip = d; fric = f; damped = d || f; }
    // Hertz-type energies ~ x^(5/2) are not analytic at x = 0: keep the whole stencil well inside the penetration
    double fdStepFor(FCase& k, const State& s) override {
        if (!(depth0 > 0) || b1 < 0 || b2 < 0) return fdStep;
        double v = 2 * (spMax(k.mob(b1).getBodyVelocity(s)) + spMax(k.mob(b2).getBodyVelocity(s))) * (1 + sizeScale) + 1e-3;
        return std::max(1e-8, std::min(fdStep, depth0 / (40 * v)));
    }
};

// =========================================================================== HuntCrossleyForce
struct HuntCrossleyElem : ContactElemBase {
    std::unique_ptr<GeneralContactSubsystem> contacts; std::unique_ptr<GeneralForceSubsystem> forces2;
    ContactSetIndex set; std::unique_ptr<HuntCrossleyForce> hc; Mat5 m1, m2; double r1 = 0, r2 = 0; bool halfSpace = false;
    HuntCrossleyElem() { name = "HuntCrossleyForce"; hasReference = false; reportsPE = true; evalStage = Stage::Dynamics; peStage = Stage::Dynamics; fdStep = 1e-4; }   // PE ~ x^(5/2): small step
    bool build(FCase& k, const State& p, Rng& r, int attachCls, int variant, std::string&) override {
        k.pickPair(r, attachCls, b1, b2, attach);
        halfSpace = (variant % 2) == 1; pose = (variant / 2) % 3;
        int ef = r.integer(0, 3); setEnergyFlags(ef & 1, ef & 2);
        contacts.reset(new GeneralContactSubsystem(k.m.sys)); forces2.reset(new GeneralForceSubsystem(k.m.sys));
        set = contacts->createContactSet();
        r1 = r.uni(0.2, 1.0); r2 = r.uni(0.2, 1.0); sizeScale = halfSpace ? r1 : std::min(r1, r2);
        depth0 = chooseDepth(r, pose, sizeScale);
        const Transform& X1 = k.mob(b1).getBodyTransform(p); const Transform& X2 = k.mob(b2).getBodyTransform(p);
        Vec3 c1B = randVec3(r, 0.8), c1G = X1 * c1B; UnitVec3 dir = randUnit(r);
        contacts->addBody(set, k.m.matter.updMobilizedBody(MobilizedBodyIndex(b1)), ContactGeometry::Sphere(r1), Transform(c1B));
        if (halfSpace) {
            Transform X_GH(rotWithX(r, dir), c1G + (r1 - depth0) * Vec3(dir));
            contacts->addBody(set, k.m.matter.updMobilizedBody(MobilizedBodyIndex(b2)), ContactGeometry::HalfSpace(), ~X2 * X_GH);
        } else {
            Vec3 c2G = c1G + (r1 + r2 - depth0) * Vec3(dir);
            contacts->addBody(set, k.m.matter.updMobilizedBody(MobilizedBodyIndex(b2)), ContactGeometry::Sphere(r2), Transform(~X2 * c2G));
        }
        hc.reset(new HuntCrossleyForce(*forces2, *contacts, set));
        m1 = randMaterial(r, dissip, fric); m2 = randMaterial(r, dissip, fric);
        hc->setBodyParameters(ContactSurfaceIndex(0), m1.k, m1.c, m1.us, m1.ud, m1.uv);
        hc->setBodyParameters(ContactSurfaceIndex(1), m2.k, m2.c, m2.us, m2.ud, m2.uv);
        if (r.coin()) { vt = r.logUni(1e-3, 1.0); hc->setTransitionVelocity(vt); }
        force = *hc;
        regime = std::string(halfSpace ? "sphere-halfspace/" : "sphere-sphere/") + poseName(pose) + (dissip ? "/c" : "/c0") + (fric ? "/mu" : "/mu0");
        return true;
    }
    void actionScale(FCase& k, const State& s, const Ref*, double& aF, double& aM) override {
        const Array_<Contact>& cs = contacts->getContacts(s, set);
        double kk = m1.k * m2.k / (m1.k + m2.k), cc = std::max(m1.c, m2.c), mu = std::max(m1.us, m2.us) + 1;
        for (int i = 0; i < (int)cs.size(); ++i) {
            if (!PointContact::isInstance(cs[i])) continue;
            const PointContact& pc = static_cast<const PointContact&>(cs[i]);
            double d = pc.getDepth(), R = pc.getEffectiveRadiusOfCurvature();
            double vmax = spMax(k.mob(b1).getBodyVelocity(s)) + spMax(k.mob(b2).getBodyVelocity(s));
            double f = (4. / 3.) * kk * d * std::sqrt(R * kk * d) * (1 + 1.5 * cc * vmax * 3) * mu * 2;
            aF += f; aM += f * (pc.getLocation().norm() + 1);
        }
    }
    Json describe() override { return Json::obj().set("b1", b1).set("b2", b2).set("r1", r1).set("r2", r2).set("depth", depth0).set("k1", m1.k).set("k2", m2.k).set("c1", m1.c).set("c2", m2.c).set("us1", m1.us).set("us2", m2.us).set("vt", vt); }
};

// =========================================================================== ElasticFoundationForce
struct ElasticFoundationElem : ContactElemBase {
    std::unique_ptr<GeneralContactSubsystem> contacts; std::unique_ptr<GeneralForceSubsystem> forces2;
    ContactSetIndex set; std::unique_ptr<ElasticFoundationForce> ef; Mat5 m1, m2; double rm = 0, r2 = 0; int other = 0; int res = 1; double area = 0;
    ElasticFoundationElem() { name = "ElasticFoundationForce"; hasReference = false; reportsPE = true; evalStage = Stage::Dynamics; peStage = Stage::Dynamics; fdStep = 1e-4; }
    bool build(FCase& k, const State& p, Rng& r, int attachCls, int variant, std::string&) override {
        k.pickPair(r, attachCls, b1, b2, attach);
        other = variant % 3;  // 0 half-space, 1 sphere, 2 another mesh
        pose = (variant / 2) % 3;
        int ef_ = r.integer(0, 3); setEnergyFlags(ef_ & 1, ef_ & 2);
        contacts.reset(new GeneralContactSubsystem(k.m.sys)); forces2.reset(new GeneralForceSubsystem(k.m.sys));
        set = contacts->createContactSet();
        rm = r.uni(0.3, 1.0); r2 = r.uni(0.3, 1.0); res = r.integer(1, 2); sizeScale = other == 0 ? rm : std::min(rm, r2);
        depth0 = chooseDepth(r, pose, sizeScale); if (pose == PR_Penetrating) depth0 = std::max(depth0, 0.12 * rm);
        area = 4 * Pi * rm * rm;
        const Transform& X1 = k.mob(b1).getBodyTransform(p); const Transform& X2 = k.mob(b2).getBodyTransform(p);
        Transform X_B1M(randRotation(r), randVec3(r, 0.8)); Vec3 c1G = X1 * X_B1M.p(); UnitVec3 dir = randUnit(r);
        ContactGeometry::TriangleMesh mesh(PolygonalMesh::createSphereMesh(rm, res));
        contacts->addBody(set, k.m.matter.updMobilizedBody(MobilizedBodyIndex(b1)), mesh, X_B1M);
        if (other == 0) {
            Transform X_GH(rotWithX(r, dir), c1G + (rm - depth0) * Vec3(dir));
            contacts->addBody(set, k.m.matter.updMobilizedBody(MobilizedBodyIndex(b2)), ContactGeometry::HalfSpace(), ~X2 * X_GH);
        } else {
            Vec3 c2G = c1G + (rm + r2 - depth0) * Vec3(dir);
            if (other == 1) contacts->addBody(set, k.m.matter.updMobilizedBody(MobilizedBodyIndex(b2)), ContactGeometry::Sphere(r2), Transform(~X2 * c2G));
            else contacts->addBody(set, k.m.matter.updMobilizedBody(MobilizedBodyIndex(b2)), ContactGeometry::TriangleMesh(PolygonalMesh::createSphereMesh(r2, res)), ~X2 * Transform(randRotation(r), c2G));
        }
        ef.reset(new ElasticFoundationForce(*forces2, *contacts, set));
        m1 = randMaterial(r, dissip, fric, 20, 2e4); m2 = randMaterial(r, dissip, fric, 20, 2e4);
        ef->setBodyParameters(ContactSurfaceIndex(0), m1.k, m1.c, m1.us, m1.ud, m1.uv);
        if (other == 2) ef->setBodyParameters(ContactSurfaceIndex(1), m2.k, m2.c, m2.us, m2.ud, m2.uv);
        if (r.coin()) { vt = r.logUni(1e-3, 1.0); ef->setTransitionVelocity(vt); }
        force = *ef;
        regime = std::string(other == 0 ? "mesh-halfspace/" : other == 1 ? "mesh-sphere/" : "mesh-mesh/") + poseName(pose) + (dissip ? "/c" : "/c0") + (fric ? "/mu" : "/mu0");
        // distance to a faceted surface is only piecewise smooth: the gradient form is judged for the smooth partners only
        gradientForm = (other != 2);
        return true;
    }
    void actionScale(FCase& k, const State& s, const Ref*, double& aF, double& aM) override {
        if (depth0 <= 0) return;
        double vmax = spMax(k.mob(b1).getBodyVelocity(s)) + spMax(k.mob(b2).getBodyVelocity(s));
        double f = std::max(m1.k, other == 2 ? m2.k : 0.0) * area * depth0 * (1 + std::max(m1.c, m2.c) * vmax * 3) * (2 + m1.us + m2.us);
        aF += f; aM += f * (k.mob(b1).getBodyTransform(s).p().norm() + k.mob(b2).getBodyTransform(s).p().norm() + 3);
    }
    Json describe() override { return Json::obj().set("b1", b1).set("b2", b2).set("rMesh", rm).set("r2", r2).set("other", other).set("resolution", res).set("depth", depth0).set("k1", m1.k).set("c1", m1.c).set("us1", m1.us).set("vt", vt); }
};

// =========================================================================== CompliantContactSubsystem pairs
struct CompliantElem : ContactElemBase {
    std::unique_ptr<ContactTrackerSubsystem> tracker; std::unique_ptr<CompliantContactSubsystem> compliant;
    int pair = 0; Mat5 m1, m2; double ext1 = 0, r2 = 0; Vec3 radii;
    CompliantElem() { name = "CompliantContactSubsystem"; hasReference = false; reportsPE = true; evalStage = Stage::Dynamics; peStage = Stage::Position; fdStep = 1e-4; documentedYankOut = true; }
    bool build(FCase& k, const State& p, Rng& r, int attachCls, int variant, std::string&) override {
        if (attachCls == 3) attachCls = 2;      // surfaces on the same body never interact (documented); use two bodies
        k.pickPair(r, attachCls, b1, b2, attach);
        pair = variant;     // 0 sphere-sphere 1 sphere-halfspace 2 ellipsoid-halfspace 3 ellipsoid-sphere 4 mesh-halfspace/sphere 5 brick-halfspace
        pose = (int)(r.next() % 3);
        int ef_ = r.integer(0, 3); setEnergyFlags(ef_ & 1, ef_ & 2);
        tracker.reset(new ContactTrackerSubsystem(k.m.sys)); compliant.reset(new CompliantContactSubsystem(k.m.sys, *tracker));
        if (r.coin()) { vt = r.logUni(1e-3, 1.0); compliant->setTransitionVelocity(vt); } else vt = compliant->getTransitionVelocity();
        m1 = randMaterial(r, dissip, fric, 50, 5e4); m2 = randMaterial(r, dissip, fric, 50, 5e4);
        ContactMaterial cm1(m1.k, m1.c, m1.us, m1.ud, m1.uv), cm2(m2.k, m2.c, m2.us, m2.ud, m2.uv);
        const Transform& X1 = k.mob(b1).getBodyTransform(p); const Transform& X2 = k.mob(b2).getBodyTransform(p);
        MobilizedBody& B1 = k.m.matter.updMobilizedBody(MobilizedBodyIndex(b1)); MobilizedBody& B2 = k.m.matter.updMobilizedBody(MobilizedBodyIndex(b2));
        Transform X_B1S(randRotation(r), randVec3(r, 0.8)); Transform X_GS = X1 * X_B1S; Vec3 c1G = X_GS.p();
        UnitVec3 dir = randUnit(r); Vec3 dS = ~X_GS.R() * Vec3(dir);   // approach direction in surface-1 frame
        bool otherIsHalfSpace = (pair == 1 || pair == 2 || pair == 5 || (pair == 4 && r.coin()));
        r2 = r.uni(0.3, 1.0);
        Vec3 surfPtS, nS;   // point of surface 1 met first when moving along dS, and the outward normal there (surface-1 frame)
        const char* nm1;
        if (pair == 0 || pair == 1) { double r1 = r.uni(0.2, 1.0); ext1 = r1; radii = Vec3(r1); B1.updBody().addContactSurface(X_B1S, ContactSurface(ContactGeometry::Sphere(r1), cm1)); surfPtS = r1 * dS; nS = dS; nm1 = "sphere"; }
        else if (pair == 2 || pair == 3) {
            radii = Vec3(r.uni(0.3, 1.0), r.uni(0.3, 1.0), r.uni(0.3, 1.0)); B1.updBody().addContactSurface(X_B1S, ContactSurface(ContactGeometry::Ellipsoid(radii), cm1)); nm1 = "ellipsoid";
            // support point of the ellipsoid in direction dS: x_i = a_i^2 d_i / sqrt(sum a_j^2 d_j^2); the normal there is dS
            double den = std::sqrt(square(radii[0] * dS[0]) + square(radii[1] * dS[1]) + square(radii[2] * dS[2]));
            surfPtS = Vec3(radii[0] * radii[0] * dS[0], radii[1] * radii[1] * dS[1], radii[2] * radii[2] * dS[2]) / den; nS = dS; ext1 = radii.norm() / std::sqrt(3.0);
        } else if (pair == 4) { double rm = r.uni(0.3, 1.0); ext1 = rm; radii = Vec3(rm); nm1 = "mesh";
            B1.updBody().addContactSurface(X_B1S, ContactSurface(ContactGeometry::TriangleMesh(PolygonalMesh::createSphereMesh(rm, r.integer(1, 2))), cm1, r.uni(0.05, 0.3))); surfPtS = rm * dS; nS = dS; }
        else { radii = Vec3(r.uni(0.2, 0.8), r.uni(0.2, 0.8), r.uni(0.2, 0.8)); nm1 = "brick";
            B1.updBody().addContactSurface(X_B1S, ContactSurface(ContactGeometry::Brick(radii), cm1));
            surfPtS = Vec3(radii[0] * (dS[0] >= 0 ? 1 : -1), radii[1] * (dS[1] >= 0 ? 1 : -1), radii[2] * (dS[2] >= 0 ? 1 : -1)); nS = dS; ext1 = std::min(radii[0], std::min(radii[1], radii[2])); }
        sizeScale = otherIsHalfSpace ? ext1 : std::min(ext1, r2);
        depth0 = chooseDepth(r, pose, sizeScale); if (pair == 4 && pose == PR_Penetrating) depth0 = std::max(depth0, 0.12 * ext1);
        Vec3 ptG = X_GS * surfPtS, nG = X_GS.R() * nS;
        if (otherIsHalfSpace) {
            // half-space surface perpendicular to nG, 'depth0' behind the extreme point of surface 1
            Transform X_GH(rotWithX(r, UnitVec3(nG)), ptG - depth0 * nG);
            B2.updBody().addContactSurface(~X2 * X_GH, ContactSurface(ContactGeometry::HalfSpace(), cm2));
        } else {
            Vec3 c2G = ptG + (r2 - depth0) * nG;
            B2.updBody().addContactSurface(Transform(~X2 * c2G), ContactSurface(ContactGeometry::Sphere(r2), cm2));
        }
        (void)c1G;
        hasShapeCoefficient = (pair == 2 || pair == 3);
        name = std::string("CompliantContact-") + (pair <= 1 ? "HertzCircular" : pair <= 3 ? "HertzElliptical" : pair == 4 ? "ElasticFoundation" : "BrickHalfSpacePenalty");
        regime = std::string(nm1) + (otherIsHalfSpace ? "-halfspace/" : "-sphere/") + poseName(pose) + (dissip ? "/c" : "/c0") + (fric ? "/mu" : "/mu0");
        return true;
    }
    void observe(FCase& k, const State& s, Obs& o) override {
        // alone in the system: the system totals are this subsystem's contribution
        o.F = k.m.sys.getRigidBodyForces(s, Stage::Dynamics); o.f = k.m.sys.getMobilityForces(s, Stage::Dynamics);
    }
    double potentialEnergy(FCase& k, const State& s) override { return k.m.sys.calcPotentialEnergy(s); }
    // Documented exception ("yanking", CompliantContactSubsystem::getDissipatedEnergy and the generators' comments): a
    // contact element whose Hunt-Crossley force would be negative produces no force, no power loss and its stored
    // energy is dropped from the velocity-stage potential energy. Seen from outside as: the potential energy summed
    // from the contact forces (state realized to Velocity) is below the position-only value at the same q.
    bool yankOutPresent(FCase& k, const State& s) override {
        double peV = k.m.sys.calcPotentialEnergy(s);
        State w = s; w.updQ() = s.getQ(); k.m.sys.realize(w, Stage::Position);
        double peP = k.m.sys.calcPotentialEnergy(w);
        return peP - peV > 1e-9 * std::fabs(peP);
    }
    // Hertz contact of non-spherical surfaces: PE = C*x^(5/2) with C built from the surface curvatures at the current
    // contact point. C(q) = PE/x^(5/2) is read back from the library's own report (patch detail: deformation x).
    bool shapeCoefficient(FCase& k, State& w, double& C, double& x) override {
        if (pair != 2 && pair != 3) return false;
        k.m.sys.realize(w, Stage::Velocity);
        if (compliant->getNumContactForces(w) != 1) return false;
        const ContactForce& f = compliant->getContactForce(w, 0);
        ContactPatch patch;
        if (!compliant->calcContactPatchDetailsById(w, f.getContactId(), patch) || patch.getNumDetails() != 1) return false;
        x = patch.getContactDetail(0).getDeformation();
        if (!(x > 0) || !(f.getPotentialEnergy() > 0)) return false;
        C = f.getPotentialEnergy() / std::pow(x, 2.5);
        return true;
    }
    double reportedDissipation(FCase&, const State& s) override {
        double p = 0; int n = compliant->getNumContactForces(s);
        for (int i = 0; i < n; ++i) p += compliant->getContactForce(s, i).getPowerDissipation();
        return p;
    }
    void actionScale(FCase&, const State& s, const Ref*, double& aF, double& aM) override {
        int n = compliant->getNumContactForces(s);
        for (int i = 0; i < n; ++i) { const ContactForce& f = compliant->getContactForce(s, i); double a = f.getForceOnSurface2()[1].norm(), m = f.getForceOnSurface2()[0].norm();
            aF += 2 * a; aM += 2 * (m + a * f.getContactPoint().norm()); }
    }
    Json describe() override { return Json::obj().set("b1", b1).set("b2", b2).set("pair", pair).set("radii", jV3(radii)).set("r2", r2).set("depth", depth0).set("k1", m1.k).set("k2", m2.k).set("c1", m1.c).set("c2", m2.c).set("us1", m1.us).set("us2", m2.us).set("vt", vt); }
};

// =========================================================================== SmoothSphereHalfSpaceForce (C13 only)
struct SmoothSphereElem : ContactElemBase {
    std::unique_ptr<SmoothSphereHalfSpaceForce> ss; double rad = 0; Mat5 m;
    SmoothSphereElem() { name = "SmoothSphereHalfSpaceForce"; hasReference = false; reportsPE = false; evalStage = Stage::Dynamics; peStage = Stage::Dynamics; }
    bool build(FCase& k, const State& p, Rng& r, int attachCls, int variant, std::string&) override {
        k.pickPair(r, attachCls, b1, b2, attach);
        pose = variant % 3; int ef_ = r.integer(0, 3); setEnergyFlags(ef_ & 1, ef_ & 2);
        rad = r.uni(0.2, 1.0); depth0 = chooseDepth(r, pose, rad);
        const Transform& X1 = k.mob(b1).getBodyTransform(p); const Transform& X2 = k.mob(b2).getBodyTransform(p);
        Vec3 cB = randVec3(r, 0.8), cG = X1 * cB; UnitVec3 dir = randUnit(r);
        Transform X_GH(rotWithX(r, dir), cG + (rad - depth0) * Vec3(dir));
        ss.reset(new SmoothSphereHalfSpaceForce(k.m.forces));
        m = randMaterial(r, dissip, fric, 1e2, 1e6);
        ss->setParameters(m.k, m.c, m.us, m.ud, m.uv, r.logUni(1e-3, 1.0), 1e-5, 300, 50);
        ss->setContactSphereBody(k.m.matter.updMobilizedBody(MobilizedBodyIndex(b1))); ss->setContactSphereLocationInBody(cB); ss->setContactSphereRadius(rad);
        ss->setContactHalfSpaceBody(k.m.matter.updMobilizedBody(MobilizedBodyIndex(b2))); ss->setContactHalfSpaceFrame(~X2 * X_GH);
        force = *ss;
        regime = std::string(poseName(pose)) + (dissip ? "/c" : "/c0") + (fric ? "/mu" : "/mu0");
        return true;
    }
    void actionScale(FCase& k, const State& s, const Ref*, double& aF, double& aM) override {
        double kk = 0.5 * std::pow(m.k, 2. / 3.), d = std::fabs(depth0) + 0.01;
        double vmax = spMax(k.mob(b1).getBodyVelocity(s)) + spMax(k.mob(b2).getBodyVelocity(s));
        double f = (4. / 3.) * kk * std::sqrt(rad * kk) * std::pow(d, 1.5) * (1 + 1.5 * m.c * vmax * 3) * (2 + m.us);
        if (depth0 > 0) { aF += f; aM += f * (k.mob(b1).getBodyTransform(s).p().norm() + 3); }
    }
    Json describe() override { return Json::obj().set("b1", b1).set("b2", b2).set("radius", rad).set("depth", depth0).set("E", m.k).set("c", m.c).set("us", m.us); }
};

// =========================================================================== ExponentialSpringForce
struct ExpSpringElem : ContactElemBase {
    std::unique_ptr<ExponentialSpringForce> es; Vec3 st; double pz0 = 0; bool zeroMu = true; Transform X_GP; double cz = 0, d0 = 0, d1 = 0, d2 = 0;
    ExpSpringElem() { name = "ExponentialSpringForce"; hasReference = false; reportsPE = true; evalStage = Stage::Dynamics; peStage = Stage::Dynamics; fdStep = 5e-6; }   // PE ~ exp(-1150 z)
    bool build(FCase& k, const State& p, Rng& r, int, int variant, std::string&) override {
        b1 = r.integer(1, k.numMobile()); b2 = 0; attach = "B-G";   // the contact plane is fixed to Ground (documented)
        pose = variant % 3;
        st = randVec3(r, 0.8);
        pz0 = pose == 0 ? -r.uni(0.0005, 0.004) : pose == 1 ? r.uni(0.01, 0.05) : r.uni(0.0, 0.004);   // height of the station above the plane
        Vec3 sG = k.mob(b1).getBodyTransform(p) * st; UnitVec3 z = randUnit(r);
        Rotation R(z, ZAxis); X_GP = Transform(R, sG - pz0 * Vec3(z) + r.sym(0.3) * Vec3(R.x()) + r.sym(0.3) * Vec3(R.y()));
        ExponentialSpringParameters prm;
        bool custom = (variant >= 3);
        if (custom) { prm.setShapeParameters(r.sym(0.002), r.uni(0.2, 1.0), r.uni(300, 1500)); prm.setNormalViscosity(r.coin(0.3) ? 0.0 : r.uni(0.1, 1.0)); }
        prm.getShapeParameters(d0, d1, d2); cz = prm.getNormalViscosity();
        es.reset(new ExponentialSpringForce(k.m.forces, X_GP, k.mob(b1), st, prm));
        force = *es; damped = (cz != 0);
        regime = std::string(pose == 0 ? "below-plane" : pose == 1 ? "above-plane" : "at-plane") + (custom ? "/custom" : "/default") + (damped ? "/cz" : "/cz0");
        return true;
    }
    // C12 judges the normal (elastic) part only, as the statement says: the friction spring is
    // switched off through the documented state-level setters (mu_s = mu_k = 0)
    void prepareState(FCase&, State& s, const std::string& prop) override { if (prop == "C12") { es->setMuStatic(s, 0.0); es->setMuKinetic(s, 0.0); } }
    void actionScale(FCase& k, const State& s, const Ref*, double& aF, double& aM) override {
        Vec3 pP = ~X_GP * (k.mob(b1).getBodyTransform(s) * st);
        double f = d1 * std::exp(-d2 * (pP[2] - d0)); f = std::min(f, 1e5) * (1 + cz * 10) * 3;
        aF += f; aM += f * ((k.mob(b1).getBodyTransform(s) * st).norm() + 1);
    }
    Json describe() override { return Json::obj().set("body", b1).set("station", jV3(st)).set("pz", pz0).set("cz", cz).set("d0", d0).set("d1", d1).set("d2", d2); }
};

// =========================================================================== CableSpring over a CablePath (end points + via points)
struct CableSpringElem : ContactElemBase {
    std::unique_ptr<CableTrackerSubsystem> cables; std::unique_ptr<CablePath> path; CableSpring cs;
    Vec3 s1, s2, sv; int bv = -1; double kk = 0, L0 = 0, cc = 0, Lprobe = 0;
    // CablePath::Impl::realizeTopology() writes debugging text to std::cout; the harness protocol uses stdio, so
    // std::cout is silenced while a cable element is alive
    CableSpringElem() { name = "CableSpring"; hasReference = false; reportsPE = true; evalStage = Stage::Velocity; peStage = Stage::Position; std::cout.setstate(std::ios_base::failbit); }
    ~CableSpringElem() override { std::cout.clear(); }
    bool pureTwoBody() override { return bv < 0; }
    bool build(FCase& k, const State& p, Rng& r, int attachCls, int variant, std::string&) override {
        k.pickPair(r, attachCls, b1, b2, attach);
        s1 = randVec3(r, 1.0); s2 = randVec3(r, 1.0); if (b1 == b2) while ((s2 - s1).norm() < 0.3) s2 = randVec3(r, 1.0);
        cables.reset(new CableTrackerSubsystem(k.m.sys));
        path.reset(new CablePath(*cables, k.mob(b1), s1, k.mob(b2), s2));
        bool via = (variant % 2) == 1;
        Vec3 p1 = k.mob(b1).getBodyTransform(p) * s1, p2 = k.mob(b2).getBodyTransform(p) * s2;
        Lprobe = (p2 - p1).norm();
        if (via) { bv = r.integer(0, k.numMobile()); sv = randVec3(r, 1.0); CableObstacle::ViaPoint(*path, k.mob(bv), sv);
            Vec3 pv = k.mob(bv).getBodyTransform(p) * sv; Lprobe = (pv - p1).norm() + (p2 - pv).norm(); }
        int reg = (variant / 2) % 3;   // 0 taut, 1 slack, 2 taut without dissipation
        kk = r.logUni(1, 500); cc = reg == 2 ? 0.0 : r.uni(0.05, 1.0);
        L0 = reg == 1 ? Lprobe * r.uni(1.1, 1.6) : Lprobe * r.uni(0.3, 0.9);
        cs = CableSpring(k.m.forces, *path, kk, L0, cc);
        force = cs; damped = (cc != 0);
        regime = std::string(via ? "via/" : "straight/") + (reg == 1 ? "slack" : "taut") + (damped ? "/c" : "/c0");
        return true;
    }
    bool precond(FCase& k, const State& s, std::string& why) override {
        Vec3 p1 = k.mob(b1).getBodyTransform(s) * s1, p2 = k.mob(b2).getBodyTransform(s) * s2;
        if (bv >= 0) { Vec3 pv = k.mob(bv).getBodyTransform(s) * sv; if ((pv - p1).norm() < 0.05 || (p2 - pv).norm() < 0.05) { why = "cable-coincident-points"; return false; } }
        else if ((p2 - p1).norm() < 0.05) { why = "cable-coincident-points"; return false; }
        return true;
    }
    double reportedDissipation(FCase&, const State& s) override { return cs.getPowerDissipation(s); }
    void actionScale(FCase& k, const State& s, const Ref*, double& aF, double& aM) override {
        double x = std::max(0.0, Lprobe - L0), vmax = spMax(k.mob(b1).getBodyVelocity(s)) + spMax(k.mob(b2).getBodyVelocity(s));
        double f = kk * x * (1 + cc * vmax * 3) * 4; aF += f; aM += f * (k.mob(b1).getBodyTransform(s).p().norm() + k.mob(b2).getBodyTransform(s).p().norm() + 3);
    }
    Json describe() override { return Json::obj().set("b1", b1).set("b2", b2).set("via", bv).set("k", kk).set("L0", L0).set("c", cc).set("L", Lprobe); }
};

// =========================================================================== CableSpan (CableSubsystem): C13 only
// Not a Force element: CableSpan::applyBodyForces(state, tension, F) is the documented way to turn a cable tension
// into body forces. Straight spans and spans through a via point on a third body (wrapping geometry is C45's).
struct CableSpanElem : ContactElemBase {
    std::unique_ptr<CableSubsystem> cables; CableSpan span; Vec3 s1, s2, sv; int bv = -1; double T = 0;
    CableSpanElem() { name = "CableSpan"; hasReference = false; reportsPE = false; evalStage = Stage::Velocity; }
    bool build(FCase& k, const State&, Rng& r, int attachCls, int variant, std::string&) override {
        k.pickPair(r, attachCls, b1, b2, attach);
        s1 = randVec3(r, 1.0); s2 = randVec3(r, 1.0); if (b1 == b2) while ((s2 - s1).norm() < 0.3) s2 = randVec3(r, 1.0);
        cables.reset(new CableSubsystem(k.m.sys));
        span = CableSpan(*cables, MobilizedBodyIndex(b1), s1, MobilizedBodyIndex(b2), s2);
        if (variant % 2) { bv = r.integer(0, k.numMobile()); sv = randVec3(r, 1.0); span.addViaPoint(MobilizedBodyIndex(bv), sv); }
        T = variant == 4 ? 0.0 : r.logUni(1, 500);
        regime = std::string(bv >= 0 ? "via" : "straight") + (T == 0 ? "/slack" : "/taut");
        return true;
    }
    bool precond(FCase& k, const State& s, std::string& why) override {
        Vec3 p1 = k.mob(b1).getBodyTransform(s) * s1, p2 = k.mob(b2).getBodyTransform(s) * s2;
        if (bv >= 0) { Vec3 pv = k.mob(bv).getBodyTransform(s) * sv; if ((pv - p1).norm() < 0.05 || (p2 - pv).norm() < 0.05) { why = "cable-coincident-points"; return false; } }
        else if ((p2 - p1).norm() < 0.05) { why = "cable-coincident-points"; return false; }
        return true;
    }
    void observe(FCase& k, const State& s, Obs& o) override {
        o.F.resize(k.nb); o.F = SpatialVec(Vec3(0), Vec3(0)); o.f.resize(k.nu); o.f = 0;
        span.applyBodyForces(s, T, o.F);
    }
    bool pureTwoBody() override { return bv < 0; }
    void actionScale(FCase& k, const State& s, const Ref*, double& aF, double& aM) override {
        aF += 4 * T; aM += 4 * T * (k.mob(b1).getBodyTransform(s).p().norm() + k.mob(b2).getBodyTransform(s).p().norm() + 3);
    }
    Json describe() override { return Json::obj().set("b1", b1).set("b2", b2).set("via", bv).set("tension", T); }
};

inline std::unique_ptr<Elem> makeContactElem(int et) {
    switch (et) {
    case E_HuntCrossley: return std::unique_ptr<Elem>(new HuntCrossleyElem());
    case E_ElasticFoundation: return std::unique_ptr<Elem>(new ElasticFoundationElem());
    case E_Compliant: return std::unique_ptr<Elem>(new CompliantElem());
    case E_SmoothSphere: return std::unique_ptr<Elem>(new SmoothSphereElem());
    case E_ExpSpring: return std::unique_ptr<Elem>(new ExpSpringElem());
    case E_CableSpring: return std::unique_ptr<Elem>(new CableSpringElem());
    case E_CableSpan: return std::unique_ptr<Elem>(new CableSpanElem());
    default: return nullptr;
    }
}
} // namespace vh
