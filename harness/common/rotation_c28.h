// rotation_c28.h — C28: the helpers relating angular velocity / acceleration to Euler-angle
// and quaternion derivatives are mutually consistent and are exact time derivatives.
//
// Two independent references (long double, never calling the library):
//  (tight)  geometry: for a body-fixed sequence R = R_a(q0) R_b(q1) R_c(q2) the angular velocity
//           is  w_P = e_a q0' + R_a e_b q1' + R_a R_b e_c q2'  (columns of NInv_P), N = NInv^-1;
//           for quaternions q' = 1/2 (0,w) (x) q. NDot references are 5-point differences of these
//           closed forms in long double.
//  (loose)  kinematics: 5-point finite differences (h and h/2 must agree, else inconclusive) of the
//           *coordinates extracted continuously* from the exact motion R(t) = exp([w t + b t^2/2]) R0
//           (parent-frame helpers) or R0 exp([w t + b t^2/2]) (body-frame helpers).
//
// Preconditions: |cos q1| >= 0.2 for every Euler-angle helper (else skip, counted); quaternions of
// any norm in [0.3,3] (unnormalised ones follow the documented conventions N = |q| N', NInv = |q| NInv').
#pragma once
#include "rotation_glue.h"

namespace c28 {
using namespace glue;
using namespace SimTK;

inline V3 eAxis(int a) { return rr::mk(a == 0, a == 1, a == 2); }
inline M3 fromCols(const V3& a, const V3& b, const V3& c) { M3 r; for (int i = 0; i < 3; ++i) { r.m[i][0] = a[i]; r.m[i][1] = b[i]; r.m[i][2] = c[i]; } return r; }
inline M3 Rseq(const int ax[3], const LD q[3]) { return rr::mul(rr::axisRot(ax[0], q[0]), rr::mul(rr::axisRot(ax[1], q[1]), rr::axisRot(ax[2], q[2]))); }
inline M3 NInvP_ref(const int ax[3], const LD q[3]) {
    const M3 R0 = rr::axisRot(ax[0], q[0]), R01 = rr::mul(R0, rr::axisRot(ax[1], q[1]));
    return fromCols(eAxis(ax[0]), rr::mulv(R0, eAxis(ax[1])), rr::mulv(R01, eAxis(ax[2])));
}
inline M3 NInvB_ref(const int ax[3], const LD q[3]) { return rr::mul(rr::tr(Rseq(ax, q)), NInvP_ref(ax, q)); }
inline M3 NP_ref(const int ax[3], const LD q[3]) { return rr::inverse(NInvP_ref(ax, q)); }
inline M3 NB_ref(const int ax[3], const LD q[3]) { return rr::inverse(NInvB_ref(ax, q)); }
static const int XYZ[3] = {0, 1, 2};
static const int ZYX[3] = {2, 1, 0};

// d/dt of a matrix-valued closed form along q + t*qdot (5-point, long double)
template <class F> inline M3 dMat(F f, const LD q[3], const LD qd[3], LD h) {
    auto at = [&](LD t) { LD x[3] = {q[0] + t * qd[0], q[1] + t * qd[1], q[2] + t * qd[2]}; return f(x); };
    const M3 p2 = at(2 * h), p1 = at(h), m1 = at(-h), m2 = at(-2 * h);
    M3 r;
    for (int i = 0; i < 3; ++i) for (int j = 0; j < 3; ++j) r.m[i][j] = (-p2.m[i][j] + 8 * p1.m[i][j] - 8 * m1.m[i][j] + m2.m[i][j]) / (12 * h);
    return r;
}

// continuous extraction of body-fixed XYZ / ZYX angles close to 'near'
inline void pickNearest(const LD cand[2][3], const LD near[3], LD out[3]) {
    LD best = 1e300L;
    for (int b = 0; b < 2; ++b) {
        LD t[3], d = 0;
        for (int i = 0; i < 3; ++i) { t[i] = near[i] + rr::angDiff(cand[b][i], near[i]); d += (t[i] - near[i]) * (t[i] - near[i]); }
        if (d < best) { best = d; for (int i = 0; i < 3; ++i) out[i] = t[i]; }
    }
}
inline void extractXYZ(const M3& R, const LD near[3], LD out[3]) {
    const LD q1 = atan2l(R.m[0][2], sqrtl(R.m[0][0] * R.m[0][0] + R.m[0][1] * R.m[0][1]));
    const LD q0 = atan2l(-R.m[1][2], R.m[2][2]), q2 = atan2l(-R.m[0][1], R.m[0][0]);
    const LD cand[2][3] = {{q0, q1, q2}, {q0 + rr::PI, rr::PI - q1, q2 + rr::PI}};
    pickNearest(cand, near, out);
}
inline void extractZYX(const M3& R, const LD near[3], LD out[3]) {
    const LD q1 = atan2l(-R.m[2][0], sqrtl(R.m[0][0] * R.m[0][0] + R.m[1][0] * R.m[1][0]));
    const LD q0 = atan2l(R.m[1][0], R.m[0][0]), q2 = atan2l(R.m[2][1], R.m[2][2]);
    const LD cand[2][3] = {{q0, q1, q2}, {q0 + rr::PI, rr::PI - q1, q2 + rr::PI}};
    pickNearest(cand, near, out);
}

template <class P> struct B28 {
    typedef Rotation_<P> Rot; typedef Vec<3, P> Vec3P; typedef Vec<2, P> Vec2P; typedef Vec<4, P> Vec4P; typedef Mat<3, 3, P> Mat33P;
    vh::Ctx& c; vh::Rng& r; double eps;
    B28(vh::Ctx& c, vh::Rng& r) : c(c), r(r), eps(std::numeric_limits<P>::epsilon()) {}

    V3 randW(double lo, double hi) {
        const double u = r.uni();
        if (u < 0.05) return rr::mk(0, 0, 0);
        const LD s = (LD)r.logUni(lo, hi);
        if (u < 0.15) { int a = (int)(r.next() % 3); return (r.coin() ? s : -s) * eAxis(a); }
        return s * rr::randUnit(r);
    }

    // kinematic (loose) reference: derivative order 1 or 2 of coordinate i of the exact motion
    // returns false (inconclusive) if h and h/2 disagree
    template <class Coord> bool fdCoords(Coord coord, int order, LD h, LD scale, LD tolLoose, LD out[], int n) {
        bool ok = true;
        for (int i = 0; i < n; ++i) {
            auto f = [&](LD t) { return coord(t, i); };
            const LD a = order == 1 ? rr::fd1(f, h) : rr::fd2(f, h);
            const LD b = order == 1 ? rr::fd1(f, h / 2) : rr::fd2(f, h / 2);
            if (!(fabsl(a - b) <= tolLoose * scale / 10)) ok = false;
            out[i] = b;
        }
        return ok;
    }

    // ---------------------------------------------------------------- Euler-angle helpers
    void euler() {
        c.setPhase("C28 body-fixed XYZ / 321 helpers");
        const Vec3P q((P)r.uni(-3.14159, 3.14159), (P)r.uni(-3.14159, 3.14159), (P)r.uni(-3.14159, 3.14159));
        const LD qL[3] = {(LD)q[0], (LD)q[1], (LD)q[2]};
        const LD c1 = cosl(qL[1]), ac1 = fabsl(c1);
        if (ac1 < 0.2L) { c.skip("near-singular-q1 (|cos q1|<0.2)"); return; }
        const char* band = c1 > 0 ? (ac1 < 0.5L ? "cos+[0.2,0.5)" : "cos+[0.5,1]") : (ac1 < 0.5L ? "cos-[0.2,0.5)" : "cos-[0.5,1]");
        Chk k(c, band, PT<P>::name(), eps);
        const V3 wB = randW(0.3, 3), wdB = randW(0.3, 3);
        const Vec3P w = toVecP<P>(wB), wd = toVecP<P>(wdB);
        const V3 wL = toV(w), wdL = toV(wd);
        const LD wn = rr::norm(wL) + 1e-3L, wdn = rr::norm(wdL) + 1e-3L;
        k.inputs("q0,q1,q2,w0,w1,w2,wd0,wd1,wd2", {(double)q[0], (double)q[1], (double)q[2], (double)w[0], (double)w[1], (double)w[2], (double)wd[0], (double)wd[1], (double)wd[2]});
        const Vec3P cq(std::cos(q[0]), std::cos(q[1]), std::cos(q[2])), sq(std::sin(q[0]), std::sin(q[1]), std::sin(q[2]));
        const Vec2P cxy(cq[0], cq[1]), sxy(sq[0], sq[1]);
        const P ooc = 1 / cq[1];
        const LD t = k.tol, tN = t / (c1 * c1), tD = t / (ac1 * c1 * c1);

        // references
        const M3 R = Rseq(XYZ, qL), Rt = rr::tr(R);
        const M3 NiB = NInvB_ref(XYZ, qL), NiP = NInvP_ref(XYZ, qL), NB = rr::inverse(NiB), NP = rr::inverse(NiP);
        const V3 qdRef = rr::mulv(NB, wL);                       // qdot for body-frame w
        const LD qdR[3] = {qdRef[0], qdRef[1], qdRef[2]};
        const LD qdn = rr::maxAbs(qdRef) + 1e-3L;
        const LD hN = 1e-4L * ac1 / qdn;
        const M3 NBdot = dMat([&](const LD* x) { return NB_ref(XYZ, x); }, qL, qdR, hN);
        const V3 qddRef = rr::mulv(NB, wdL) + rr::mulv(NBdot, wL);
        const V3 wP = rr::mulv(R, wL), bP = rr::mulv(R, wdL);     // same motion seen from the parent

        // --- N, NInv and their products
        const Mat33P lNB = Rot::calcNForBodyXYZInBodyFrame(q), lNiB = Rot::calcNInvForBodyXYZInBodyFrame(q);
        const Mat33P lNP = Rot::calcNForBodyXYZInParentFrame(q), lNiP = Rot::calcNInvForBodyXYZInParentFrame(q);
        k.cover("N/NInv body"); k.cover("N/NInv parent");
        k.sameM("N", "calcNForBodyXYZInBodyFrame", toM(lNB), NB, tN);
        k.sameM("N", "calcNInvForBodyXYZInBodyFrame", toM(lNiB), NiB, t);
        k.sameM("N", "calcNForBodyXYZInParentFrame", toM(lNP), NP, tN);
        k.sameM("N", "calcNInvForBodyXYZInParentFrame", toM(lNiP), NiP, t);
        k.sameM("N", "calcNForBodyXYZInBodyFrame(cq,sq)", toM(Rot::calcNForBodyXYZInBodyFrame(cq, sq)), NB, tN);
        k.sameM("N", "calcNInvForBodyXYZInBodyFrame(cq,sq)", toM(Rot::calcNInvForBodyXYZInBodyFrame(cq, sq)), NiB, t);
        k.sameM("N", "calcNForBodyXYZInParentFrame(cq,sq)", toM(Rot::calcNForBodyXYZInParentFrame(cq, sq)), NP, tN);
        k.sameM("N", "calcNInvForBodyXYZInParentFrame(cq,sq)", toM(Rot::calcNInvForBodyXYZInParentFrame(cq, sq)), NiP, t);
        k.sameM("NNInv", "body N*NInv=I", toM(lNB * lNiB), rr::ident(), tN);
        k.sameM("NNInv", "body NInv*N=I", toM(lNiB * lNB), rr::ident(), tN);
        k.sameM("NNInv", "parent N*NInv=I", toM(lNP * lNiP), rr::ident(), tN);
        k.sameM("NNInv", "parent NInv*N=I", toM(lNiP * lNP), rr::ident(), tN);
        // body/parent consistency through the library's own rotation
        Rot lR; lR.setRotationToBodyFixedXYZ(q);
        k.sameM("frames", "N_B = N_P*R_PB", toM(lNB), toM(Mat33P(lNP * lR.asMat33())), 2 * tN);
        k.sameM("frames", "NInv_B = ~R_PB*NInv_P", toM(lNiB), toM(Mat33P(~lR.asMat33() * lNiP)), 2 * t);

        // --- fast multiply helpers
        const Vec3P x = toVecP<P>(rr::randVec(r, 2));
        const V3 xL = toV(x); const LD xs = rr::maxAbs(xL) + 1e-3L;
        k.cover("multiplyByBodyXYZ_*");
        k.sameV("N", "multiplyByBodyXYZ_N_P", toV(Rot::multiplyByBodyXYZ_N_P(cxy, sxy, ooc, x)), rr::mulv(NP, xL), tN * xs);
        k.sameV("N", "multiplyByBodyXYZ_NT_P", toV(Rot::multiplyByBodyXYZ_NT_P(cxy, sxy, ooc, x)), rr::mulv(rr::tr(NP), xL), tN * xs);
        k.sameV("N", "multiplyByBodyXYZ_NInv_P", toV(Rot::multiplyByBodyXYZ_NInv_P(cxy, sxy, x)), rr::mulv(NiP, xL), t * xs);
        k.sameV("N", "multiplyByBodyXYZ_NInvT_P", toV(Rot::multiplyByBodyXYZ_NInvT_P(cxy, sxy, x)), rr::mulv(rr::tr(NiP), xL), t * xs);

        // --- first derivatives: qdot (tight: geometry)
        k.cover("qdot body"); k.cover("qdot parent");
        const Vec3P lqd = Rot::convertAngVelInBodyFrameToBodyXYZDot(q, w);
        k.sameV("qdot", "convertAngVelInBodyFrameToBodyXYZDot", toV(lqd), qdRef, tN * wn);
        k.sameV("qdot", "convertAngVelInBodyFrameToBodyXYZDot(cq,sq)", toV(Rot::convertAngVelInBodyFrameToBodyXYZDot(cq, sq, w)), qdRef, tN * wn);
        const Vec3P wPp = toVecP<P>(wP); const V3 wPL = toV(wPp);
        const V3 qdRefP = rr::mulv(NP, wPL);
        const Vec3P lqdP = Rot::convertAngVelInParentToBodyXYZDot(cxy, sxy, ooc, wPp);
        k.sameV("qdot", "convertAngVelInParentToBodyXYZDot", toV(lqdP), qdRefP, tN * wn);
        k.sameV("qdot", "convertBodyXYZDotToAngVelInBodyFrame", toV(Rot::convertBodyXYZDotToAngVelInBodyFrame(q, lqd)), rr::mulv(NiB, toV(lqd)), t * qdn);
        k.sameV("qdot", "convertBodyXYZDotToAngVelInBodyFrame(cq,sq)", toV(Rot::convertBodyXYZDotToAngVelInBodyFrame(cq, sq, lqd)), rr::mulv(NiB, toV(lqd)), t * qdn);
        k.sameV("qdot", "convertBodyXYZDotToAngVelInBodyFrame(inverse)", toV(Rot::convertBodyXYZDotToAngVelInBodyFrame(q, lqd)), wL, 2 * tN * wn);

        // --- first derivatives (loose: coordinates of the moving rotation)
        const LD loose1 = 1e-7L + 1024 * eps, loose2 = 1e-6L + 1024 * eps;
        const LD rho = c1 * c1 / (wn + 1);
        {
            LD fd[3];
            auto coordB = [&](LD tt, int i) { LD o[3]; extractXYZ(rr::mul(R, rr::expSO3(tt * wL)), qL, o); return o[i]; };
            if (fdCoords(coordB, 1, 1e-3L * rho, qdn, loose1, fd, 3)) k.sameV("fd-qdot", "convertAngVelInBodyFrameToBodyXYZDot", toV(lqd), rr::mk(fd[0], fd[1], fd[2]), loose1 * qdn / ac1);
            else c.skip("fd h vs h/2 disagree (qdot body)");
            auto coordP = [&](LD tt, int i) { LD o[3]; extractXYZ(rr::mul(rr::expSO3(tt * wPL), R), qL, o); return o[i]; };
            if (fdCoords(coordP, 1, 1e-3L * rho, qdn, loose1, fd, 3)) k.sameV("fd-qdot", "convertAngVelInParentToBodyXYZDot", toV(lqdP), rr::mk(fd[0], fd[1], fd[2]), loose1 * qdn / ac1);
            else c.skip("fd h vs h/2 disagree (qdot parent)");
        }

        // --- NDot
        k.cover("NDot body"); k.cover("NDot parent");
        const Vec3P qdP = toVecP<P>(qdRef);                     // a P-rounded qdot, reference recomputed from it
        const V3 qdPL = toV(qdP); const LD qdPa[3] = {qdPL[0], qdPL[1], qdPL[2]};
        const M3 NBdotP = dMat([&](const LD* xx) { return NB_ref(XYZ, xx); }, qL, qdPa, hN);
        const M3 NPdotP = dMat([&](const LD* xx) { return NP_ref(XYZ, xx); }, qL, qdPa, hN);
        const LD tND = (tD + 1e-11L / (ac1 * c1 * c1)) * qdn;
        k.sameM("NDot", "calcNDotForBodyXYZInBodyFrame", toM(Rot::calcNDotForBodyXYZInBodyFrame(q, qdP)), NBdotP, tND);
        k.sameM("NDot", "calcNDotForBodyXYZInBodyFrame(cq,sq)", toM(Rot::calcNDotForBodyXYZInBodyFrame(cq, sq, qdP)), NBdotP, tND);
        k.sameM("NDot", "calcNDotForBodyXYZInParentFrame", toM(Rot::calcNDotForBodyXYZInParentFrame(q, qdP)), NPdotP, tND);
        k.sameM("NDot", "calcNDotForBodyXYZInParentFrame(cq,sq,ooc1)", toM(Rot::calcNDotForBodyXYZInParentFrame(cxy, sxy, ooc, qdP)), NPdotP, tND);

        // --- second derivatives (tight)
        k.cover("qdotdot body"); k.cover("qdotdot parent");
        const LD tDD = (tN + 1e-11L) * wdn + tND * wn;
        const Vec3P lqdd = Rot::convertAngVelDotInBodyFrameToBodyXYZDotDot(q, w, wd);
        k.sameV("qdotdot", "convertAngVelDotInBodyFrameToBodyXYZDotDot", toV(lqdd), qddRef, tDD);
        k.sameV("qdotdot", "convertAngVelDotInBodyFrameToBodyXYZDotDot(cq,sq)", toV(Rot::convertAngVelDotInBodyFrameToBodyXYZDotDot(cq, sq, w, wd)), qddRef, tDD);
        // parent-frame route for the same physical motion: b_P = R*wdot_B (w x w = 0)
        const Vec3P bPp = toVecP<P>(bP); const V3 bPL = toV(bPp);
        const V3 qddRefP = rr::mulv(NP, bPL) + rr::mulv(NPdotP, rr::mulv(NiP, qdPL));
        const Vec3P lqddP = Rot::convertAngAccInParentToBodyXYZDotDot(cxy, sxy, ooc, qdP, bPp);
        k.sameV("qdotdot", "convertAngAccInParentToBodyXYZDotDot", toV(lqddP), qddRefP, tDD);
        k.sameV("frames", "qdotdot parent route = body route", toV(lqddP), toV(lqdd), 4 * tDD + 1024 * eps * (wdn + wn * wn) / (ac1 * c1 * c1));

        // --- second derivatives (loose)
        const LD qddn = rr::maxAbs(qddRef) + qdn * qdn / ac1 + 1e-3L;
        {
            LD fd[3];
            auto coordB = [&](LD tt, int i) { LD o[3]; extractXYZ(rr::mul(R, rr::expSO3(tt * wL + (tt * tt / 2) * wdL)), qL, o); return o[i]; };
            if (fdCoords(coordB, 2, 3e-3L * rho, qddn, loose2, fd, 3)) k.sameV("fd-qdotdot", "convertAngVelDotInBodyFrameToBodyXYZDotDot", toV(lqdd), rr::mk(fd[0], fd[1], fd[2]), loose2 * qddn / ac1);
            else c.skip("fd h vs h/2 disagree (qdotdot body)");
            const V3 wPr = rr::mulv(NiP, qdPL);                 // the angular velocity the P-rounded qdot stands for
            auto coordP = [&](LD tt, int i) { LD o[3]; extractXYZ(rr::mul(rr::expSO3(tt * wPr + (tt * tt / 2) * bPL), R), qL, o); return o[i]; };
            if (fdCoords(coordP, 2, 3e-3L * rho, qddn, loose2, fd, 3)) k.sameV("fd-qdotdot", "convertAngAccInParentToBodyXYZDotDot", toV(lqddP), rr::mk(fd[0], fd[1], fd[2]), loose2 * qddn / ac1);
            else c.skip("fd h vs h/2 disagree (qdotdot parent)");
        }

        // --- body-fixed 3-2-1 helpers (angular velocity expressed in the body frame)
        k.cover("321 helpers");
        const M3 Rz = Rseq(ZYX, qL);
        const M3 EiB = NInvB_ref(ZYX, qL), EB = rr::inverse(EiB);
        const V3 zqd = rr::mulv(EB, wL); const LD zqdA[3] = {zqd[0], zqd[1], zqd[2]};
        const LD zn = rr::maxAbs(zqd) + 1e-3L;
        const Vec3P lz = Rot::convertAngVelToBodyFixed321Dot(q, w);
        k.sameV("qdot", "convertAngVelToBodyFixed321Dot", toV(lz), zqd, tN * wn);
        k.sameV("qdot", "convertBodyFixed321DotToAngVel", toV(Rot::convertBodyFixed321DotToAngVel(q, lz)), rr::mulv(EiB, toV(lz)), t * zn);
        k.sameV("qdot", "convertBodyFixed321DotToAngVel(inverse)", toV(Rot::convertBodyFixed321DotToAngVel(q, lz)), wL, 2 * tN * wn);
        const M3 EBdot = dMat([&](const LD* xx) { return NB_ref(ZYX, xx); }, qL, zqdA, 1e-4L * ac1 / zn);
        const V3 zqdd = rr::mulv(EB, wdL) + rr::mulv(EBdot, wL);
        const Vec3P lzdd = Rot::convertAngVelDotToBodyFixed321DotDot(q, w, wd);
        k.sameV("qdotdot", "convertAngVelDotToBodyFixed321DotDot", toV(lzdd), zqdd, (tN + 1e-11L) * wdn + (tD + 1e-11L / (ac1 * c1 * c1)) * zn * wn);
        {
            LD fd[3];
            auto coordZ = [&](LD tt, int i) { LD o[3]; extractZYX(rr::mul(Rz, rr::expSO3(tt * wL + (tt * tt / 2) * wdL)), qL, o); return o[i]; };
            if (fdCoords(coordZ, 1, 1e-3L * rho, zn, loose1, fd, 3)) k.sameV("fd-qdot", "convertAngVelToBodyFixed321Dot", toV(lz), rr::mk(fd[0], fd[1], fd[2]), loose1 * zn / ac1);
            else c.skip("fd h vs h/2 disagree (321 qdot)");
            const LD zddn = rr::maxAbs(zqdd) + zn * zn / ac1 + 1e-3L;
            if (fdCoords(coordZ, 2, 3e-3L * rho, zddn, loose2, fd, 3)) k.sameV("fd-qdotdot", "convertAngVelDotToBodyFixed321DotDot", toV(lzdd), rr::mk(fd[0], fd[1], fd[2]), loose2 * zddn / ac1);
            else c.skip("fd h vs h/2 disagree (321 qdotdot)");
        }
        if (c.wantSample())
            c.sample(Json::obj().set("precision", PT<P>::name()).set("q", vh::jvec(q, 3)).set("w_B", vh::jvec(w, 3)).set("wdot_B", vh::jvec(wd, 3)).set("qdot", vh::jvec(lqd, 3)).set("qdotdot", vh::jvec(lqdd, 3)));
    }

    // ---------------------------------------------------------------- quaternion helpers
    void quaternion() {
        c.setPhase("C28 quaternion helpers");
        LD qh[4]; rr::randUnitQuat(r, qh);
        const double u = r.uni();
        const P s = u < 0.3 ? P(1) : (P)r.uni(0.3, 3.0);
        const char* cls = u < 0.3 ? "norm~1" : (s < 1 ? "norm<1" : "norm>1");
        Chk k(c, cls, PT<P>::name(), eps);
        const Vec4P q((P)(s * qh[0]), (P)(s * qh[1]), (P)(s * qh[2]), (P)(s * qh[3]));
        const LD ql[4] = {(LD)q[0], (LD)q[1], (LD)q[2], (LD)q[3]};
        const LD n2 = ql[0] * ql[0] + ql[1] * ql[1] + ql[2] * ql[2] + ql[3] * ql[3], n = sqrtl(n2);
        const Vec3P w = toVecP<P>(randW(0.3, 3)), b = toVecP<P>(randW(0.3, 3));
        const V3 wL = toV(w), bL = toV(b);
        const LD wn = rr::norm(wL) + 1e-3L, bn = rr::norm(bL) + 1e-3L;
        k.inputs("q0,q1,q2,q3,w0,w1,w2,b0,b1,b2", {(double)q[0], (double)q[1], (double)q[2], (double)q[3], (double)w[0], (double)w[1], (double)w[2], (double)b[0], (double)b[1], (double)b[2]});
        const LD t = k.tol;
        auto halfWq = [&](const V3& v, const LD* x, LD out[4]) { LD a[4] = {0, v[0] / 2, v[1] / 2, v[2] / 2}; rr::qmul(a, x, out); };

        // N (4x3): column j = 1/2 (0,e_j) (x) q ; NInv (3x4): NInv*v = 2 vec(v (x) conj(q))
        k.cover("quaternion N/NInv/NDot");
        const Mat<4, 3, P> lN = Rot::calcUnnormalizedNForQuaternion(q);
        const Mat<3, 4, P> lNi = Rot::calcUnnormalizedNInvForQuaternion(q);
        LD eN = 0, eNi = 0;
        const LD qc[4] = {ql[0], -ql[1], -ql[2], -ql[3]};
        for (int j = 0; j < 3; ++j) { LD col[4]; halfWq(eAxis(j), ql, col); for (int i = 0; i < 4; ++i) { LD d = fabsl((LD)lN(i, j) - col[i]); if (!(d <= eN)) eN = d; } }
        for (int j = 0; j < 4; ++j) { LD e4[4] = {0, 0, 0, 0}; e4[j] = 1; LD pr[4]; rr::qmul(e4, qc, pr); for (int i = 0; i < 3; ++i) { LD d = fabsl((LD)lNi(i, j) - 2 * pr[i + 1]); if (!(d <= eNi)) eNi = d; } }
        k.num(k.key("N", "calcUnnormalizedNForQuaternion"), eN, t * n, [&] { return k.wit(); });
        k.num(k.key("N", "calcUnnormalizedNInvForQuaternion"), eNi, t * n, [&] { return k.wit(); });
        // documented products: NInv*N = |q|^2 I3 ; N*NInv = |q|^2 (I4 - qhat qhat^T)
        { const Mat<3, 3, P> A = lNi * lN; M3 want = rr::scale(n2, rr::ident()); k.sameM("NNInv", "quaternion NInv*N=|q|^2 I", toM(A), want, 4 * t * n2);
          const Mat<4, 4, P> B = lN * lNi; LD e = 0; for (int i = 0; i < 4; ++i) for (int j = 0; j < 4; ++j) { LD wv = n2 * ((i == j) - ql[i] * ql[j] / n2); LD d = fabsl((LD)B(i, j) - wv); if (!(d <= e)) e = d; }
          k.num(k.key("NNInv", "quaternion N*NInv=|q|^2 projector"), e, 4 * t * n2, [&] { return k.wit(); }); }

        // qdot (tight) and its inverse
        k.cover("quaternion qdot");
        LD qdRef[4]; halfWq(wL, ql, qdRef);
        const Vec4P lqd = Rot::convertAngVelToQuaternionDot(q, w);
        LD e = 0; for (int i = 0; i < 4; ++i) { LD d = fabsl((LD)lqd[i] - qdRef[i]); if (!(d <= e)) e = d; }
        k.num(k.key("qdot", "convertAngVelToQuaternionDot"), e, t * n * wn, [&] { return k.wit().set("got", vh::jvec(lqd, 4)); });
        const Vec3P lw = Rot::convertQuaternionDotToAngVel(q, lqd);
        k.sameV("qdot", "convertQuaternionDotToAngVel(N w)=|q|^2 w", toV(lw), n2 * wL, 4 * t * n2 * wn);
        // NDot = N(qdot) (N is linear in q)
        const Mat<4, 3, P> lNd = Rot::calcUnnormalizedNDotForQuaternion(lqd);
        const LD qdl[4] = {(LD)lqd[0], (LD)lqd[1], (LD)lqd[2], (LD)lqd[3]};
        LD eNd = 0; for (int j = 0; j < 3; ++j) { LD col[4]; halfWq(eAxis(j), qdl, col); for (int i = 0; i < 4; ++i) { LD d = fabsl((LD)lNd(i, j) - col[i]); if (!(d <= eNd)) eNd = d; } }
        k.num(k.key("NDot", "calcUnnormalizedNDotForQuaternion"), eNd, t * n * wn, [&] { return k.wit(); });

        // qdotdot (tight): q'' = 1/2 (0,b)(x)q + 1/2 (0,w)(x)q'
        k.cover("quaternion qdotdot");
        LD t1[4], t2[4], qddRef[4]; halfWq(bL, ql, t1); halfWq(wL, qdRef, t2); for (int i = 0; i < 4; ++i) qddRef[i] = t1[i] + t2[i];
        const Vec4P lqdd = Rot::convertAngVelDotToQuaternionDotDot(q, w, b);
        LD edd = 0; for (int i = 0; i < 4; ++i) { LD d = fabsl((LD)lqdd[i] - qddRef[i]); if (!(d <= edd)) edd = d; }
        k.num(k.key("qdotdot", "convertAngVelDotToQuaternionDotDot"), edd, t * n * (bn + wn * wn), [&] { return k.wit().set("got", vh::jvec(lqdd, 4)); });
        // = N*b + NDot*w through the library's own matrices
        { const Vec4P viaN = lN * b + lNd * w; LD ev = 0; for (int i = 0; i < 4; ++i) { LD d = fabsl((LD)viaN[i] - (LD)lqdd[i]); if (!(d <= ev)) ev = d; }
          k.num(k.key("frames", "quaternion qdotdot = N b + NDot w"), ev, 4 * t * n * (bn + wn * wn), [&] { return k.wit(); }); }

        // kinematics (loose): q(t) = |q| * quat(exp([w t + b t^2/2])) (x) qhat, parent-frame angular velocity
        const LD loose1 = 1e-7L + 1024 * eps, loose2 = 1e-6L + 1024 * eps;
        LD qhat[4] = {ql[0] / n, ql[1] / n, ql[2] / n, ql[3] / n};
        const M3 R0 = rr::fromQuat(qhat);
        auto qOf = [&](LD tt, LD out[4]) { LD ex[4]; rr::qexp(tt * wL + (tt * tt / 2) * bL, ex); rr::qmul(ex, qhat, out); for (int i = 0; i < 4; ++i) out[i] *= n; };
        { // self-check of the reference path: it really is the rotation exp(theta(t)) R0
          const LD tt = 0.37L; LD qq[4]; qOf(tt, qq);
          k.sameM("ref", "quaternion path is exp(theta) R0", rr::fromQuat(qq), rr::mul(rr::expSO3(tt * wL + (tt * tt / 2) * bL), R0), 1e-15L); }
        auto coordQ = [&](LD tt, int i) { LD o[4]; qOf(tt, o); return o[i]; };
        LD fd[4];
        if (fdCoords(coordQ, 1, 1e-3L / (wn + 1), n * wn, loose1, fd, 4)) {
            LD ef = 0; for (int i = 0; i < 4; ++i) { LD d = fabsl((LD)lqd[i] - fd[i]); if (!(d <= ef)) ef = d; }
            k.num(k.key("fd-qdot", "convertAngVelToQuaternionDot"), ef, loose1 * n * wn, [&] { return k.wit(); });
        } else c.skip("fd h vs h/2 disagree (quaternion qdot)");
        if (fdCoords(coordQ, 2, 3e-3L / (wn + 1), n * (bn + wn * wn), loose2, fd, 4)) {
            LD ef = 0; for (int i = 0; i < 4; ++i) { LD d = fabsl((LD)lqdd[i] - fd[i]); if (!(d <= ef)) ef = d; }
            k.num(k.key("fd-qdotdot", "convertAngVelDotToQuaternionDotDot"), ef, loose2 * n * (bn + wn * wn), [&] { return k.wit(); });
        } else c.skip("fd h vs h/2 disagree (quaternion qdotdot)");
    }
};

inline void caseC28(vh::Ctx& c, long i, vh::Rng& r) {
    if (i % 2) { B28<float> b(c, r); b.euler(); b.quaternion(); }
    else { B28<double> b(c, r); b.euler(); b.quaternion(); }
}

} // namespace c28
