// rotation_c27_angles.h — included INSIDE c27::Battery<P>: one/two/three-angle sequences,
// two-axis construction, closest-rotation fitting.

    static std::string seqName(bool space, int n, const int* ax) {
        std::string s = space ? "space-" : "body-";
        for (int i = 0; i < n; ++i) s += AXN[ax[i]];
        return s;
    }
    static const char* family3(const int* ax) {
        if (ax[0] == ax[1] && ax[1] == ax[2]) return "iii";
        if (ax[0] == ax[1]) return "iij";
        if (ax[1] == ax[2]) return "ijj";
        return ax[0] == ax[2] ? "iji" : "ijk";
    }
    Rot set3(bool space, const int* ax, const Vec3P& th) {
        Rot R; R.setRotationToNaN();                       // stale entries would show
        R.setRotationFromThreeAnglesThreeAxes(space ? SpaceRotationSequence : BodyRotationSequence,
                                              th[0], AX(ax[0]), th[1], AX(ax[1]), th[2], AX(ax[2]));
        return R;
    }
    Vec3P get3(const Rot& R, bool space, const int* ax) {
        return R.convertThreeAxesRotationToThreeAngles(space ? SpaceRotationSequence : BodyRotationSequence, AX(ax[0]), AX(ax[1]), AX(ax[2]));
    }

    // rotation round trip R -> angles -> R' for an arbitrary rotation; the violation key carries the
    // *measured* conditioning class of R for this sequence, not the generating region.
    void rotRoundTrip3(const Rot& R, bool space, const int* ax, const std::string& api, const char* how) {
        const M3 Rm = toM(R);
        const bool sym = ax[0] == ax[2];
        // |cos q2| (ijk) resp. |sin q2| (iji) of this rotation for this sequence
        LD cnd;
        { const int i = space ? ax[2] : ax[0]; const int kk = space ? ax[0] : ax[2];
          LD e = sym ? Rm.m[i][i] : Rm.m[i][kk];   // iji: R[i][i]=cos q2; ijk: R[i][k]=+-sin q2
          cnd = sqrtl(std::max((LD)0, 1 - e * e)); }
        const bool properSeq3 = ax[0] != ax[1] && ax[1] != ax[2];
        const char* cls = (!properSeq3 || cnd >= 0.1L) ? "regular" : "near-gimbal";   // degenerate sequences have no gimbal lock
        const Vec3P th = get3(R, space, ax);
        k.inputs("R(row-major),angles", {(double)Rm.m[0][0], (double)Rm.m[0][1], (double)Rm.m[0][2], (double)Rm.m[1][0], (double)Rm.m[1][1], (double)Rm.m[1][2],
                                          (double)Rm.m[2][0], (double)Rm.m[2][1], (double)Rm.m[2][2], (double)th[0], (double)th[1], (double)th[2]});
        k.req(k.keyR("finite", api + ".angles", cls), isFinite(th[0]) && isFinite(th[1]) && isFinite(th[2]), [&] { return k.wit().set("seq", seqName(space, 3, ax)); });
        const Rot R2 = set3(space, ax, th);
        c.cover(std::string("rt-rot3/") + seqName(space, 3, ax) + "/" + how + "/" + cls + "/" + k.prec);
        c.obs(std::string("rt3.") + cls);
        k.num(k.keyR(cls[0] == 'r' ? "rt-rot" : "rt-rot-gimbal", api, cls), rr::maxAbsDiff(toM(R2), Rm), 10 * k.tol,
              [&] { return k.witM(toM(R2), &Rm).set("seq", seqName(space, 3, ax)).set("cond", (double)cnd).set("how", how); });
        // documented ranges of the returned angles
        const P pi = NTraits<P>::getPi(), e = (P)k.tol;
        bool inRange = th[0] >= -pi - e && th[0] <= pi + e && th[2] >= -pi - e && th[2] <= pi + e &&
                       (!properSeq3 ? (th[1] >= -pi - e && th[1] <= pi + e) : sym ? (th[1] >= -e && th[1] <= pi + e) : (th[1] >= -pi / 2 - e && th[1] <= pi / 2 + e));
        k.req(k.keyR("range", api, cls), inRange, [&] { return k.wit().set("seq", seqName(space, 3, ax)); });
    }

    // ---------------------------------------------------------------- C. three-angle sequences
    void threeAngles(const Rot& Rany, const Rot& Rquat, const Rot& Rprod) {
        c.setPhase("C27 three-angle sequences");
        for (int sp = 0; sp < 2; ++sp) for (int a0 = 0; a0 < 3; ++a0) for (int a1 = 0; a1 < 3; ++a1) for (int a2 = 0; a2 < 3; ++a2) {
            const bool space = sp == 1; const int ax[3] = {a0, a1, a2};
            const char* fam = family3(ax);
            const bool properSeq3 = a0 != a1 && a1 != a2;
            const std::string api = std::string("threeAngles/") + fam + "/" + (space ? "space" : "body");
            const std::string name = seqName(space, 3, ax);
            k.cover("threeAngles/" + name);
            // (i) forward construction, angles anywhere
            Vec3P th(regionAngle(), regionAngle(), regionAngle());
            bool principal = false;
            if (properSeq3 && r.coin(0.6)) {       // inside the documented ranges and away from the singularity
                const bool sym = a0 == a2;
                P t2 = sym ? (P)r.uni(0.11, 3.03) : (P)r.uni(-1.46, 1.46);
                th = Vec3P(randAngle(), t2, randAngle());
                principal = true;
            }
            const LD thL[3] = {(LD)th[0], (LD)th[1], (LD)th[2]};
            const M3 Rref = refSeq(space, 3, ax, thL);
            k.inputs("a1,a2,a3", {(double)th[0], (double)th[1], (double)th[2]});
            const Rot R = set3(space, ax, th);
            k.proper(api + ".set", toM(R)); k.sameM("fwd", api + ".set", toM(R), Rref, k.tol);
            if (sp == 0 && a0 == 0 && a1 == 1 && a2 == 2) {      // the named body-XYZ entry points
                Rot Rb; Rb.setRotationToNaN(); Rb.setRotationToBodyFixedXYZ(th);
                k.sameM("fwd", "setRotationToBodyFixedXYZ(v)", toM(Rb), Rref, k.tol);
                Rot Rc; Rc.setRotationToNaN();
                Rc.setRotationToBodyFixedXYZ(Vec3P(std::cos(th[0]), std::cos(th[1]), std::cos(th[2])), Vec3P(std::sin(th[0]), std::sin(th[1]), std::sin(th[2])));
                k.sameM("fwd", "setRotationToBodyFixedXYZ(c,s)", toM(Rc), Rref, k.tol);
                const Vec3P t1 = R.convertRotationToBodyFixedXYZ(), t2 = get3(R, false, ax);
                k.req(k.key("rt-angle", "convertRotationToBodyFixedXYZ=generic"), (t1[0] == t2[0] && t1[1] == t2[1] && t1[2] == t2[2]) || (isNaN(t1[0]) && isNaN(t2[0])), [&] { return k.wit(); });
                Rot Rd(BodyRotationSequence, th[0], XAxis, th[1], YAxis, th[2], ZAxis);
                k.sameM("fwd", "Rotation(3 angles) ctor", toM(Rd), Rref, k.tol);
            }
            // (ii) angles round trip inside the domain
            if (principal) {
                const Vec3P tb = get3(R, space, ax);
                LD e = std::max(fabsl(rr::angDiff(tb[0], th[0])), std::max(fabsl((LD)tb[1] - th[1]), fabsl(rr::angDiff(tb[2], th[2]))));
                if (!(tb[0] == tb[0] && tb[1] == tb[1] && tb[2] == tb[2])) e = NAN;
                k.num(k.key("rt-angle", api), e, 10 * k.tol, [&] { return k.wit().set("seq", name).set("got", vh::jvec(tb, 3)); });
            }
            // (iii) rotation round trips: the rotation just built, and (proper sequences) any rotation
            rotRoundTrip3(R, space, ax, api, "own");
            if (properSeq3) { rotRoundTrip3(Rany, space, ax, api, "any"); rotRoundTrip3(Rquat, space, ax, api, "via-quaternion"); rotRoundTrip3(Rprod, space, ax, api, "via-product"); }
        }
    }

    // ---------------------------------------------------------------- D. two-angle sequences
    void twoAngles() {
        c.setPhase("C27 two-angle sequences");
        for (int sp = 0; sp < 2; ++sp) for (int a0 = 0; a0 < 3; ++a0) for (int a1 = 0; a1 < 3; ++a1) {
            const bool space = sp == 1; const int ax[2] = {a0, a1};
            const BodyOrSpaceType bs = space ? SpaceRotationSequence : BodyRotationSequence;
            const std::string api = std::string("twoAngles/") + (a0 == a1 ? "ii" : "ij") + "/" + (space ? "space" : "body");
            const std::string name = seqName(space, 2, ax);
            k.cover("twoAngles/" + name);
            const Vec2P th(regionAngle(), regionAngle());
            const LD thL[2] = {(LD)th[0], (LD)th[1]};
            const M3 Rref = refSeq(space, 2, ax, thL);
            k.inputs("a1,a2", {(double)th[0], (double)th[1]});
            Rot R; R.setRotationToNaN(); R.setRotationFromTwoAnglesTwoAxes(bs, th[0], AX(a0), th[1], AX(a1));
            k.proper(api + ".set", toM(R)); k.sameM("fwd", api + ".set", toM(R), Rref, k.tol);
            Rot Rc(bs, th[0], AX(a0), th[1], AX(a1));
            k.sameM("fwd", "Rotation(2 angles) ctor", toM(Rc), Rref, k.tol);
            const Vec2P tb = R.convertTwoAxesRotationToTwoAngles(bs, AX(a0), AX(a1));
            LD e;
            if (a0 == a1) e = fabsl(rr::angDiff((LD)tb[0] + tb[1], (LD)th[0] + th[1]));
            else e = std::max(fabsl(rr::angDiff(tb[0], th[0])), fabsl(rr::angDiff(tb[1], th[1])));
            if (!(tb[0] == tb[0] && tb[1] == tb[1])) e = NAN;
            k.num(k.key("rt-angle", api), e, 4 * k.tol, [&] { return k.wit().set("seq", name).set("got", vh::jvec(tb, 2)); });
            Rot R2; R2.setRotationToNaN(); R2.setRotationFromTwoAnglesTwoAxes(bs, tb[0], AX(a0), tb[1], AX(a1));
            k.proper(api + ".roundTrip", toM(R2)); k.sameM("rt-rot", api, toM(R2), toM(R), 4 * k.tol);
            if (sp == 0 && a0 == 0 && a1 == 1) {
                Rot Rb; Rb.setRotationToNaN(); Rb.setRotationToBodyFixedXY(th);
                k.sameM("fwd", "setRotationToBodyFixedXY", toM(Rb), Rref, k.tol);
                const Vec2P t1 = R.convertRotationToBodyFixedXY();
                k.req(k.key("rt-angle", "convertRotationToBodyFixedXY=generic"), t1[0] == tb[0] && t1[1] == tb[1], [&] { return k.wit(); });
            }
        }
    }

    // ---------------------------------------------------------------- E. one-angle rotations
    void oneAngle() {
        c.setPhase("C27 one-angle rotations");
        for (int a = 0; a < 3; ++a) {
            const P th = regionAngle();
            const M3 Rref = rr::axisRot(a, (LD)th);
            const std::string api = "oneAngle";
            k.cover(std::string("oneAngle/") + AXN[a]);
            k.inputs("axis,angle", {(double)a, (double)th});
            Rot R1(th, AX(a));
            k.proper(api + ".ctor(axis)", toM(R1)); k.sameM("fwd", api + ".ctor(axis)", toM(R1), Rref, k.tol);
            Rot R2 = a == 0 ? Rot(th, XAxis) : a == 1 ? Rot(th, YAxis) : Rot(th, ZAxis);
            k.sameM("fwd", api + ".ctor(typed axis)", toM(R2), Rref, k.tol);
            Rot R3; R3.setRotationToNaN();
            if (a == 0) R3.setRotationFromAngleAboutX(th); else if (a == 1) R3.setRotationFromAngleAboutY(th); else R3.setRotationFromAngleAboutZ(th);
            k.sameM("fwd", api + ".setAboutXYZ(angle)", toM(R3), Rref, k.tol);
            Rot R4; R4.setRotationToNaN();
            const P cs = std::cos(th), sn = std::sin(th);
            if (a == 0) R4.setRotationFromAngleAboutX(cs, sn); else if (a == 1) R4.setRotationFromAngleAboutY(cs, sn); else R4.setRotationFromAngleAboutZ(cs, sn);
            k.sameM("fwd", api + ".setAboutXYZ(cos,sin)", toM(R4), Rref, k.tol);
            Rot R5; R5.setRotationToNaN(); R5.setRotationFromAngleAboutAxis(th, AX(a));
            k.sameM("fwd", api + ".setAboutAxis", toM(R5), Rref, k.tol);
            const P tb = R1.convertOneAxisRotationToOneAngle(AX(a));
            LD e = fabsl(rr::angDiff(tb, th)); if (!(tb == tb)) e = NAN;
            k.num(k.key("rt-angle", api), e, 2 * k.tol, [&] { return k.wit().set("got", (double)tb); });
            Rot R6(tb, AX(a));
            k.sameM("rt-rot", api, toM(R6), toM(R1), 2 * k.tol);
        }
        Rot I0; k.sameM("fwd", "default ctor", toM(I0), rr::ident(), 0);
        Rot I1 = rotP<P>(rr::haar(r)); I1.setRotationToIdentityMatrix(); k.sameM("fwd", "setRotationToIdentityMatrix", toM(I1), rr::ident(), 0);
    }

    // ---------------------------------------------------------------- F. one-axis / two-axes construction
    void twoAxes(const Rot& Rany) {
        c.setPhase("C27 two-axes construction");
        for (int i = 0; i < 3; ++i) {
            // unit vector classes: random, coordinate axis, nearly axis-aligned, equal components
            Vec3P uraw;
            switch ((int)((idx + i) % 4)) {
            case 0: uraw = toVecP<P>(rr::randUnit(r)); break;
            case 1: uraw = Vec3P(0); uraw[(int)(r.next() % 3)] = r.coin() ? P(1) : P(-1); break;
            case 2: uraw = Vec3P((P)r.sym(1e-9), (P)r.sym(1e-9), (P)r.sym(1e-9)); uraw[(int)(r.next() % 3)] = 1; break;
            default: uraw = Vec3P(r.coin() ? 1 : -1, r.coin() ? 1 : -1, r.coin() ? 1 : -1); break;
            }
            const UVec u(uraw);
            const V3 uL = toV(u.asVec3());
            k.inputs("ux,uy,uz,axis", {(double)u[0], (double)u[1], (double)u[2], (double)i});
            k.cover(std::string("oneAxis/") + AXN[i]);
            Rot R1; R1.setRotationToNaN(); R1.setRotationFromOneAxis(u, AX(i));
            k.proper("setRotationFromOneAxis", toM(R1), 2);
            k.sameV("fwd", "setRotationFromOneAxis.col", rr::col(toM(R1), i), uL, 0);
            Rot R1c(u, AX(i));
            k.sameM("fwd", "Rotation(UnitVec,axis) ctor", toM(R1c), toM(R1), 0);

            for (int j = 0; j < 3; ++j) {
                const std::string pair = std::string() + AXN[i] + AXN[j];
                // second vector: general / degenerate
                const int kind = (int)(r.next() % 8);
                Vec3P v;
                const char* vk;
                if (kind <= 4) { v = toVecP<P>((LD)r.logUni(1e-3, 1e3) * rr::randUnit(r)); vk = "general"; }
                else if (kind == 5) { v = Vec3P(0); vk = "zero"; }
                else if (kind == 6) { v = (P)r.logUni(1e-3, 1e3) * (r.coin() ? P(1) : P(-1)) * u.asVec3(); vk = "parallel"; }
                else { v = u.asVec3() + toVecP<P>((LD)r.logUni(1e-12, 1e-7) * rr::randUnit(r)); vk = "nearly-parallel"; }
                const V3 vL = toV(v);
                k.inputs("ux,uy,uz,vx,vy,vz,i,j", {(double)u[0], (double)u[1], (double)u[2], (double)v[0], (double)v[1], (double)v[2], (double)i, (double)j});
                c.cover(std::string("twoAxes/") + pair + "/" + vk + "/" + k.prec);
                Rot R2; R2.setRotationToNaN(); R2.setRotationFromTwoAxes(u, AX(i), v, AX(j));
                const std::string api = std::string("twoAxes/") + (i == j ? "same" : "distinct") + "/" + vk;
                k.proper(api, toM(R2), 2);
                k.sameV("fwd", api + ".col_i", rr::col(toM(R2), i), uL, 0);
                Rot R2c(u, AX(i), v, AX(j));
                k.sameM("fwd", "Rotation(2 axes) ctor", toM(R2c), toM(R2), 0);
                if (i != j && kind <= 4) {
                    const V3 un = rr::unit(uL);
                    const V3 perp = vL - rr::dot(vL, un) * un;
                    const LD sn = rr::norm(perp) / rr::norm(vL);
                    if (sn >= 0.05L) k.sameV("fwd", api + ".col_j", rr::col(toM(R2), j), rr::unit(perp), 2 * k.tol / sn);
                    else c.skip("twoAxes: vectors nearly parallel (direction oracle not applicable)");
                }
            }
        }
        // round trip: any rotation is reproduced from two of its own columns
        const M3 Rm = toM(Rany);
        for (int i = 0; i < 3; ++i) for (int j = 0; j < 3; ++j) if (i != j) {
            k.inputs("i,j,R00,R11,R22", {(double)i, (double)j, (double)Rm.m[0][0], (double)Rm.m[1][1], (double)Rm.m[2][2]});
            const UVec ui(Rany.col(i));
            const Vec3P vj(Rany.col(j).asVec3());
            Rot Rb(ui, AX(i), vj, AX(j));
            k.proper("twoAxes.roundTrip", toM(Rb), 2);
            k.sameM("rt-rot", "twoAxes", toM(Rb), Rm, 4 * k.tol);
        }
    }

    // ---------------------------------------------------------------- G. closest-rotation fitting
    void approximate(const M3& R0) {
        c.setPhase("C27 setRotationFromApproximateMat33");
        const double dl = r.coin(0.25) ? 0.0 : r.logUni(1e-12, 1e-3);
        M3 Ap = R0;
        for (int i = 0; i < 3; ++i) for (int j = 0; j < 3; ++j) Ap.m[i][j] += (LD)r.sym(dl);
        const Mat33P A = toMatP<P>(Ap);
        const M3 Am = toM(A);
        const M3 Rp = rr::polarRot(Am);
        const LD dist = rr::maxAbsDiff(Am, Rp);
        k.inputs("perturbation,A(row-major)", {dl, (double)A(0, 0), (double)A(0, 1), (double)A(0, 2), (double)A(1, 0), (double)A(1, 1), (double)A(1, 2), (double)A(2, 0), (double)A(2, 1), (double)A(2, 2)});
        const char* pc = dl == 0 ? "exact" : dl < 1e-8 ? "tiny" : "upto1e-3";
        c.cover(std::string("approximateMat33/") + pc + "/" + k.reg + "/" + k.prec);
        Rot R1; R1.setRotationToNaN(); R1.setRotationFromApproximateMat33(A);
        k.proper(std::string("approximateMat33/") + pc, toM(R1));
        Rot R2(A);
        k.sameM("fwd", "Rotation(Mat33) ctor", toM(R2), toM(R1), 0);
        // within a modest multiple of the distance to the nearest rotation (it is documented as
        // "hopefully nearby", not as the projection itself)
        k.num(k.key("approx", std::string("approximateMat33/") + pc), rr::maxAbsDiff(toM(R1), Rp), 8 * dist + 2 * k.tol,
              [&] { return k.witM(toM(R1), &Rp).set("distToNearest", (double)dist); });
    }
