// massprops_c29.h — C29: mass-property identities against a point-mass-cloud reference.
//
// Every body is a cloud of 4..12 point masses whose coordinates/masses are exactly representable
// in the precision P under test, so the inertia about any point o in any frame R is
//      I = sum m (|d|^2 1 - d d^T),  d = R^T (r - o)          (long double, first principles)
// and every library route (shift to/from the mass centre, re-expression, SpatialInertia /
// ArticulatedInertia / MassProperties shifts and transforms) is compared with it.
//
// Preconditions (legal client): masses > 0; shift vectors of the size of the body (<= 3 body
// sizes: cancellation in "shift to mass centre" is part of the error model, tolerance
// 1024 eps * M * (extent + shifts)^2); ArticulatedInertia::shift shifts by -s (documented).
// isValidInertiaMatrix: "valid" inputs are P-rounded cloud inertias (rods/discs/points sit
// exactly on the triangle-inequality boundary); "invalid" inputs violate one documented
// condition by a margin far above the documented slop  max(trace,1)*NTraits<P>::getSignificant().
#pragma once
#include "rotation_glue.h"

namespace c29 {
using namespace glue;
using namespace SimTK;

struct Cloud { std::vector<LD> m; std::vector<V3> r; };
inline LD cloudMass(const Cloud& c) { LD s = 0; for (LD x : c.m) s += x; return s; }
inline V3 cloudCom(const Cloud& c) { V3 s = rr::mk(0, 0, 0); for (size_t i = 0; i < c.m.size(); ++i) s = s + c.m[i] * c.r[i]; return (1 / cloudMass(c)) * s; }
// inertia about point o, expressed in the frame whose axes are the columns of R (given in F)
inline M3 cloudInertia(const Cloud& c, const V3& o, const M3& R) {
    M3 I = rr::zero3();
    const M3 Rt = rr::tr(R);
    for (size_t i = 0; i < c.m.size(); ++i) {
        const V3 d = rr::mulv(Rt, c.r[i] - o);
        const LD d2 = rr::dot(d, d);
        for (int a = 0; a < 3; ++a) for (int b = 0; b < 3; ++b) I.m[a][b] += c.m[i] * ((a == b ? d2 : 0) - d[a] * d[b]);
    }
    return I;
}

// 6x6 as 2x2 blocks of 3x3: [[A,B],[C,D]]
struct S6 { M3 A, B, C, D; };
inline S6 rigidS6(const M3& I, LD m, const V3& p) { S6 s; s.A = I; s.B = rr::scale(m, rr::skew(p)); s.C = rr::tr(s.B); s.D = rr::scale(m, rr::ident()); return s; }
inline S6 mul6(const S6& x, const S6& y) {
    S6 r;
    r.A = rr::add(rr::mul(x.A, y.A), rr::mul(x.B, y.C)); r.B = rr::add(rr::mul(x.A, y.B), rr::mul(x.B, y.D));
    r.C = rr::add(rr::mul(x.C, y.A), rr::mul(x.D, y.C)); r.D = rr::add(rr::mul(x.C, y.B), rr::mul(x.D, y.D));
    return r;
}
inline void mulv6(const S6& x, const V3& a, const V3& b, V3& oa, V3& ob) { oa = rr::mulv(x.A, a) + rr::mulv(x.B, b); ob = rr::mulv(x.C, a) + rr::mulv(x.D, b); }
// entrywise bound |X| |v| of a 6x6 times spatial vector product (scale for the rounding tolerance)
inline void absMulv6(const S6& x, const V3& a, const V3& b, LD& sa, LD& sb) {
    auto ab = [](const M3& m, const V3& v) { LD r = 0; for (int i = 0; i < 3; ++i) { LD s = 0; for (int j = 0; j < 3; ++j) s += fabsl(m.m[i][j]) * fabsl(v[j]); r = std::max(r, s); } return r; };
    sa = ab(x.A, a) + ab(x.B, b); sb = ab(x.C, a) + ab(x.D, b);
}
inline S6 phi6(const V3& l) { S6 s; s.A = rr::ident(); s.B = rr::skew(l); s.C = rr::zero3(); s.D = rr::ident(); return s; }
inline S6 tr6(const S6& x) { S6 r; r.A = rr::tr(x.A); r.B = rr::tr(x.C); r.C = rr::tr(x.B); r.D = rr::tr(x.D); return r; }

template <class P> struct B29 {
    typedef Vec<3, P> Vec3P; typedef Mat<3, 3, P> Mat33P; typedef SymMat<3, P> Sym;
    typedef Inertia_<P> In; typedef UnitInertia_<P> UIn; typedef SpatialInertia_<P> SI; typedef ArticulatedInertia_<P> AI; typedef MassProperties_<P> MP;
    typedef Rotation_<P> Rot; typedef Transform_<P> Xf; typedef Vec<2, Vec3P> SVecP; typedef Mat<2, 2, Mat33P> SMatP;

    vh::Ctx& c; vh::Rng& r; long idx; Chk k;
    Cloud cl; LD M; V3 com; LD ext;                  // total mass, mass centre, extent max|r_k|
    const char* shape;
    struct Produced { std::string what; M3 I; LD scale; };
    std::vector<Produced> produced;                  // every inertia the library handed out in this case

    static const char* shapeName(long idx) { static const char* n[6] = {"general", "rod", "disc", "point", "offset", "two-points"}; return n[(idx / 2) % 6]; }
    B29(vh::Ctx& c, vh::Rng& r, long idx) : c(c), r(r), idx(idx), k(c, shapeName(idx), PT<P>::name(), std::numeric_limits<P>::epsilon()), shape(shapeName(idx)) {}

    static Sym symP(const M3& A) { return Sym((P)A.m[0][0], (P)A.m[1][0], (P)A.m[1][1], (P)A.m[2][0], (P)A.m[2][1], (P)A.m[2][2]); }
    Vec3P randShift(double lo, double hi) { return toVecP<P>((LD)(ext > 0 ? (double)ext : 1.0) * (LD)r.uni(lo, hi) * rr::randUnit(r)); }

    void makeCloud() {
        const int kind = (int)((idx / 2) % 6);
        const int n = kind == 5 ? 2 : (int)r.integer(4, 12);
        const LD L = (LD)r.logUni(1e-2, 1e2), ms = (LD)r.logUni(1e-3, 1e3);
        V3 c0 = rr::mk(0, 0, 0);
        if (kind == 4 || r.coin(0.5)) c0 = (L * (LD)r.uni(0.2, 3.0)) * rr::randUnit(r);
        const V3 a1 = rr::randUnit(r); V3 a2 = rr::unit(rr::cross(a1, rr::randUnit(r)));
        const V3 pt = L * rr::randVec(r, 1);
        for (int i = 0; i < n; ++i) {
            V3 p;
            switch (kind) {
            case 1: p = (L * (LD)r.sym(1)) * a1; break;                                     // thin rod
            case 2: p = (L * (LD)r.sym(1)) * a1 + (L * (LD)r.sym(1)) * a2; break;           // flat disc
            case 3: p = pt; break;                                                          // all mass in one point
            default: p = L * rr::randVec(r, 1); break;
            }
            p = p + c0;
            if (kind == 1 && r.coin(0.3) && i == 0) p = c0;                                  // a rod point exactly on the axis origin
            cl.r.push_back(toV(toVecP<P>(p)));                                               // exactly representable in P
            cl.m.push_back((LD)(P)(ms * (LD)r.uni(0.1, 1.0)));
        }
        if ((idx / 12) % 5 == 0) {                      // coordinate-aligned variants: exact rods/discs along axes
            for (auto& p : cl.r) { if (kind == 1) { p[0] = 0; p[1] = 0; } else if (kind == 2) p[2] = 0; }
        }
        M = cloudMass(cl); com = cloudCom(cl);
        ext = 0; for (auto& p : cl.r) ext = std::max(ext, rr::norm(p));
        if (ext == 0) ext = L;
    }

    void note(const std::string& what, const M3& I, LD scale) { produced.push_back({what, I, scale}); }

    void sameSpatial(const std::string& api, const SMatP& got, const S6& want, LD m, LD D) {
        const LD t = 4 * k.tol;
        k.sameM("spatial", api + ".J", toM(got(0, 0)), want.A, t * m * D * D);
        k.sameM("spatial", api + ".F", toM(got(0, 1)), want.B, t * m * D);
        k.sameM("spatial", api + ".Ft", toM(got(1, 0)), want.C, t * m * D);
        k.sameM("spatial", api + ".M", toM(got(1, 1)), want.D, t * m);
    }

    // ---------------------------------------------------------------- inertia / unit inertia
    void inertias() {
        c.setPhase("C29 Inertia/UnitInertia");
        const Vec3P cP = toVecP<P>(com); const P mP = (P)M;
        const Vec3P sh = randShift(0.2, 2.0);
        const V3 shL = toV(sh);
        const LD D = ext + rr::norm(shL) + rr::norm(com), s2 = M * D * D, t = 4 * k.tol * s2;
        const M3 I3 = rr::ident(), RB = rr::haar(r);
        const Rot R_FB = rotP<P>(RB); const M3 RBp = toM(R_FB);
        k.inputs("n,M,extent,cx,cy,cz,sx,sy,sz", {(double)cl.m.size(), (double)M, (double)ext, (double)com[0], (double)com[1], (double)com[2], (double)sh[0], (double)sh[1], (double)sh[2]});
        k.cover("Inertia");

        // sum of point masses
        In Iacc(P(0));
        for (size_t i = 0; i < cl.m.size(); ++i) Iacc += In(toVecP<P>(cl.r[i]), (P)cl.m[i]);
        const M3 IO = cloudInertia(cl, rr::mk(0, 0, 0), I3);
        k.sameM("cloud", "sum Inertia(p,m)", toM(Iacc.asSymMat33()), IO, t); note("sum of point masses", toM(Iacc.asSymMat33()), s2);
        { In J(P(0)); for (size_t i = 0; i < cl.m.size(); ++i) J += In::pointMassAt(toVecP<P>(cl.r[i]), (P)cl.m[i]); k.sameM("cloud", "sum pointMassAt(p,m)", toM(J.asSymMat33()), IO, t);
          In K(P(0)); for (size_t i = 0; i < cl.m.size(); ++i) K += (P)cl.m[i] * UIn::pointMassAt(toVecP<P>(cl.r[i])); k.sameM("cloud", "sum m*UnitInertia::pointMassAt", toM(K.asSymMat33()), IO, t);
          k.sameM("cloud", "pointMassAtOrigin", toM(In::pointMassAtOrigin().asSymMat33()), rr::zero3(), 0); }
        // to the mass centre
        const M3 IC = cloudInertia(cl, com, I3);
        const In Ic = Iacc.shiftToMassCenter(cP, mP);
        k.sameM("shift", "shiftToMassCenter", toM(Ic.asSymMat33()), IC, t); note("shiftToMassCenter", toM(Ic.asSymMat33()), s2);
        { In J(Iacc); J.shiftToMassCenterInPlace(cP, mP); k.sameM("shift", "shiftToMassCenterInPlace", toM(J.asSymMat33()), toM(Ic.asSymMat33()), 0); }
        // from the mass centre to com+sh
        const M3 IS = cloudInertia(cl, com + shL, I3);
        const In Is = Ic.shiftFromMassCenter(sh, mP);
        k.sameM("shift", "shiftFromMassCenter", toM(Is.asSymMat33()), IS, t); note("shiftFromMassCenter", toM(Is.asSymMat33()), s2);
        { In J(Ic); J.shiftFromMassCenterInPlace(sh, mP); k.sameM("shift", "shiftFromMassCenterInPlace", toM(J.asSymMat33()), toM(Is.asSymMat33()), 0); }
        // exact inverse pair
        k.sameM("shift", "to then from mass centre", toM(Ic.shiftFromMassCenter(cP, mP).asSymMat33()), toM(Iacc.asSymMat33()), t);
        k.sameM("shift", "from then to mass centre", toM(Is.shiftToMassCenter(sh, mP).asSymMat33()), toM(Ic.asSymMat33()), t);
        // re-expression
        const M3 IOB = cloudInertia(cl, rr::mk(0, 0, 0), RBp);
        const In Ib = Iacc.reexpress(R_FB);
        k.sameM("reexpress", "Inertia.reexpress(Rotation)", toM(Ib.asSymMat33()), IOB, t); note("reexpress", toM(Ib.asSymMat33()), s2);
        const Rot R_BF(~R_FB);
        k.sameM("reexpress", "Inertia.reexpress(InverseRotation)", toM(Iacc.reexpress(~R_BF).asSymMat33()), IOB, t);
        { In J(Iacc); J.reexpressInPlace(R_FB); k.sameM("reexpress", "reexpressInPlace(Rotation)", toM(J.asSymMat33()), toM(Ib.asSymMat33()), 0);
          In K(Iacc); K.reexpressInPlace(~R_BF); k.sameM("reexpress", "reexpressInPlace(InverseRotation)", toM(K.asSymMat33()), IOB, t); }
        { LD e0[3], e1[3]; rr::symEig(toM(Iacc.asSymMat33()), e0); rr::symEig(toM(Ib.asSymMat33()), e1);
          k.sameV("reexpress", "principal moments preserved", rr::mk(e1[0], e1[1], e1[2]), rr::mk(e0[0], e0[1], e0[2]), t); }
        k.sameM("reexpress", "reexpress there and back", toM(Ib.reexpress(R_BF).asSymMat33()), toM(Iacc.asSymMat33()), t);
        // arithmetic and accessors
        { const In two = Iacc + Iacc; k.sameM("algebra", "I+I", toM(two.asSymMat33()), rr::scale(2, toM(Iacc.asSymMat33())), t);
          k.sameM("algebra", "I-I", toM((two - Iacc).asSymMat33()), toM(Iacc.asSymMat33()), t);
          k.sameM("algebra", "I*s,s*I,I/s", toM(((Iacc * P(3)) / P(3)).asSymMat33()), toM(Iacc.asSymMat33()), t); k.sameM("algebra", "int*I", toM((2 * Iacc).asSymMat33()), toM(two.asSymMat33()), t);
          const Vec3P w = toVecP<P>(rr::randVec(r, 2)); k.sameV("algebra", "I*w", toV(Iacc * w), rr::mulv(toM(Iacc.asSymMat33()), toV(w)), t * 2);
          k.sameS("algebra", "trace", Iacc.trace(), IO.m[0][0] + IO.m[1][1] + IO.m[2][2], t);
          k.sameV("algebra", "getMoments", toV(Iacc.getMoments()), rr::mk(IO.m[0][0], IO.m[1][1], IO.m[2][2]), t);
          k.sameV("algebra", "getProducts", toV(Iacc.getProducts()), rr::mk(IO.m[1][0], IO.m[2][0], IO.m[2][1]), t);
          k.sameM("algebra", "toMat33", toM(Iacc.toMat33()), toM(Iacc.asSymMat33()), 0);
          k.req(k.key("algebra", "isFinite/isNaN/isInf"), Iacc.isFinite() && !Iacc.isNaN() && !Iacc.isInf() && In().isNaN(), [&] { return k.wit(); });
          k.req(k.key("algebra", "isNumericallyEqual"), Iacc.isNumericallyEqual(Iacc) && (s2 == 0 || !Iacc.isNumericallyEqual(two + In(P(1)))), [&] { return k.wit(); }); }
        // constructors from scalars/vectors/matrices reproduce the same tensor
        { const M3 A = toM(Iacc.asSymMat33());
          In a((P)A.m[0][0], (P)A.m[1][1], (P)A.m[2][2], (P)A.m[1][0], (P)A.m[2][0], (P)A.m[2][1]); k.sameM("ctor", "Inertia(xx,yy,zz,xy,xz,yz)", toM(a.asSymMat33()), A, 0);
          In b(Vec3P((P)A.m[0][0], (P)A.m[1][1], (P)A.m[2][2]), Vec3P((P)A.m[1][0], (P)A.m[2][0], (P)A.m[2][1])); k.sameM("ctor", "Inertia(moments,products)", toM(b.asSymMat33()), A, 0);
          In d(Iacc.asSymMat33()); k.sameM("ctor", "Inertia(SymMat33)", toM(d.asSymMat33()), A, 0);
          In e(Iacc.toMat33()); k.sameM("ctor", "Inertia(Mat33)", toM(e.asSymMat33()), A, 0);
          In f; f.setInertia((P)A.m[0][0], (P)A.m[1][1], (P)A.m[2][2], (P)A.m[1][0], (P)A.m[2][0], (P)A.m[2][1]); k.sameM("ctor", "setInertia(6)", toM(f.asSymMat33()), A, 0);
          In g; g.setInertia(Vec3P((P)A.m[0][0], (P)A.m[1][1], (P)A.m[2][2]), Vec3P((P)A.m[1][0], (P)A.m[2][0], (P)A.m[2][1])); k.sameM("ctor", "setInertia(moments,products)", toM(g.asSymMat33()), A, 0);
          In h; h.setInertia((P)A.m[0][0], (P)A.m[1][1], (P)A.m[2][2]); M3 Dg = rr::zero3(); for (int i = 0; i < 3; ++i) Dg.m[i][i] = A.m[i][i]; k.sameM("ctor", "setInertia(xx,yy,zz)", toM(h.asSymMat33()), Dg, 0);
          In p3((P)A.m[0][0], (P)A.m[1][1], (P)A.m[2][2]); k.sameM("ctor", "Inertia(xx,yy,zz)", toM(p3.asSymMat33()), Dg, 0); }

        // unit inertias
        k.cover("UnitInertia");
        const LD tu = 4 * k.tol * D * D;
        const UIn G(Iacc / mP);
        k.sameM("unit", "UnitInertia(Inertia/m)", toM(G.asSymMat33()), rr::scale(1 / M, IO), tu);
        const UIn Gc = G.shiftToCentroid(cP);
        k.sameM("unit", "shiftToCentroid", toM(Gc.asSymMat33()), rr::scale(1 / M, IC), tu); note("unit shiftToCentroid (x mass)", rr::scale(M, toM(Gc.asSymMat33())), s2);
        { UIn J(G); J.shiftToCentroidInPlace(cP); k.sameM("unit", "shiftToCentroidInPlace", toM(J.asSymMat33()), toM(Gc.asSymMat33()), 0); }
        const UIn Gs = Gc.shiftFromCentroid(sh);
        k.sameM("unit", "shiftFromCentroid", toM(Gs.asSymMat33()), rr::scale(1 / M, IS), tu);
        { UIn J(Gc); J.shiftFromCentroidInPlace(sh); k.sameM("unit", "shiftFromCentroidInPlace", toM(J.asSymMat33()), toM(Gs.asSymMat33()), 0); }
        k.sameM("unit", "reexpress(Rotation)", toM(G.reexpress(R_FB).asSymMat33()), rr::scale(1 / M, IOB), tu);
        k.sameM("unit", "reexpress(InverseRotation)", toM(G.reexpress(~R_BF).asSymMat33()), rr::scale(1 / M, IOB), tu);
        { UIn J(G); J.reexpressInPlace(R_FB); k.sameM("unit", "reexpressInPlace(Rotation)", toM(J.asSymMat33()), rr::scale(1 / M, IOB), tu);
          UIn K(G); K.reexpressInPlace(~R_BF); k.sameM("unit", "reexpressInPlace(InverseRotation)", toM(K.asSymMat33()), rr::scale(1 / M, IOB), tu);
          UIn L; L.setFromUnitInertia(Iacc / mP); k.sameM("unit", "setFromUnitInertia", toM(L.asSymMat33()), toM(G.asSymMat33()), 0);
          k.sameM("unit", "asUnitInertia", toM(G.asUnitInertia().asSymMat33()), toM(G.asSymMat33()), 0);
          k.sameM("unit", "mass*UnitInertia", toM((mP * G).asSymMat33()), IO, t); }
        k.sameM("unit", "pointMassAt(p)", toM(UIn::pointMassAt(sh).asSymMat33()), rr::sub(rr::scale(rr::dot(shL, shL), I3), rr::outer(shL, shL)), 4 * k.tol * rr::dot(shL, shL));
    }

    // ---------------------------------------------------------------- shape factories (closed forms)
    void factories() {
        c.setPhase("C29 unit inertia factories");
        k.cover("factories");
        const P a = (P)r.logUni(1e-2, 1e2), b = r.coin(0.2) ? P(0) : (P)r.logUni(1e-2, 1e2), d = r.coin(0.2) ? P(0) : (P)r.logUni(1e-2, 1e2);
        const LD A = a, B = b, Dd = d, t = 4 * k.tol * (A * A + B * B + Dd * Dd);
        k.inputs("a,b,c", {(double)a, (double)b, (double)d});
        auto diag = [&](LD x, LD y, LD z) { M3 m = rr::zero3(); m.m[0][0] = x; m.m[1][1] = y; m.m[2][2] = z; return m; };
        auto both = [&](const char* nm, const UIn& u, const In& i, const M3& want) {
            k.sameM("factory", std::string("UnitInertia::") + nm, toM(u.asSymMat33()), want, t);
            k.sameM("factory", std::string("Inertia::") + nm, toM(i.asSymMat33()), want, t);
            k.req(k.key("valid", std::string("isValid(factory ") + nm + ")"), In::isValidInertiaMatrix(u.asSymMat33()) && UIn::isValidUnitInertiaMatrix(u.asSymMat33()), [&] { return k.wit(); });
            note(std::string("factory ") + nm, toM(u.asSymMat33()), A * A + B * B + Dd * Dd);
        };
        both("sphere", UIn::sphere(a), In::sphere(a), diag(0.4L * A * A, 0.4L * A * A, 0.4L * A * A));
        const LD q = B * B / 4 + A * A / 3;      // radius b, half-length a (b may be 0: thin rod)
        both("cylinderAlongZ", UIn::cylinderAlongZ(b, a), In::cylinderAlongZ(b, a), diag(q, q, B * B / 2));
        both("cylinderAlongY", UIn::cylinderAlongY(b, a), In::cylinderAlongY(b, a), diag(q, B * B / 2, q));
        both("cylinderAlongX", UIn::cylinderAlongX(b, a), In::cylinderAlongX(b, a), diag(B * B / 2, q, q));
        both("brick", UIn::brick(a, b, d), In::brick(a, b, d), diag((B * B + Dd * Dd) / 3, (A * A + Dd * Dd) / 3, (A * A + B * B) / 3));
        both("brick(Vec3)", UIn::brick(Vec3P(a, b, d)), In::brick(Vec3P(a, b, d)), diag((B * B + Dd * Dd) / 3, (A * A + Dd * Dd) / 3, (A * A + B * B) / 3));
        both("ellipsoid", UIn::ellipsoid(a, b, d), In::ellipsoid(a, b, d), diag((B * B + Dd * Dd) / 5, (A * A + Dd * Dd) / 5, (A * A + B * B) / 5));
        both("ellipsoid(Vec3)", UIn::ellipsoid(Vec3P(a, b, d)), In::ellipsoid(Vec3P(a, b, d)), diag((B * B + Dd * Dd) / 5, (A * A + Dd * Dd) / 5, (A * A + B * B) / 5));
        both("pointMassAtOrigin", UIn::pointMassAtOrigin(), In::pointMassAtOrigin(), rr::zero3());
    }

#include "massprops_c29_spatial.h"
#include "massprops_c29_valid.h"
};

} // namespace c29
