// massprops_c29_spatial.h — included INSIDE c29::B29<P>: SpatialInertia, ArticulatedInertia,
// MassProperties against the cloud; kinetic energy / power invariance; spatial-algebra helpers.

    static M3 blk(const SMatP& m, int i, int j) { return toM(m(i, j)); }

    void spatialInertia() {
        c.setPhase("C29 SpatialInertia/ArticulatedInertia/MassProperties");
        const Vec3P cP = toVecP<P>(com); const P mP = (P)M;
        const V3 cL = toV(cP); const LD mL = mP;
        const Vec3P S = randShift(0.2, 2.0); const V3 SL = toV(S);
        const M3 I3 = rr::ident();
        const Rot R_FB = rotP<P>(rr::haar(r)); const M3 RB = toM(R_FB); const Rot R_BF(~R_FB);
        const Xf X_FB(R_FB, S); const Xf X_BF(~X_FB);
        const LD D = ext + rr::norm(SL) + rr::norm(com), s2 = M * D * D, t = 4 * k.tol;
        k.inputs("n,M,extent,cx,cy,cz,Sx,Sy,Sz", {(double)cl.m.size(), (double)M, (double)ext, (double)com[0], (double)com[1], (double)com[2], (double)S[0], (double)S[1], (double)S[2]});
        k.cover("SpatialInertia"); k.cover("ArticulatedInertia"); k.cover("MassProperties");

        const M3 IO = cloudInertia(cl, rr::mk(0, 0, 0), I3);
        In Iacc(P(0)); for (size_t i = 0; i < cl.m.size(); ++i) Iacc += In(toVecP<P>(cl.r[i]), (P)cl.m[i]);
        const UIn G(Iacc / mP);
        const SI si(mP, cP, G);
        // references (com and mass as the library was given them; inertia from the cloud)
        const S6 refO = rigidS6(IO, mL, cL);
        const S6 refS = rigidS6(cloudInertia(cl, SL, I3), mL, cL - SL);
        const S6 refOB = rigidS6(cloudInertia(cl, rr::mk(0, 0, 0), RB), mL, rr::mulv(rr::tr(RB), cL));
        const S6 refSB = rigidS6(cloudInertia(cl, SL, RB), mL, rr::mulv(rr::tr(RB), cL - SL));

        sameSpatial("SpatialInertia.toSpatialMat", si.toSpatialMat(), refO, M, D);
        k.sameS("spatial", "getMass", si.getMass(), mL, 0); k.sameV("spatial", "getMassCenter", toV(si.getMassCenter()), cL, 0);
        k.sameV("spatial", "calcMassMoment", toV(si.calcMassMoment()), mL * cL, t * M * D);
        k.sameM("spatial", "calcInertia", toM(si.calcInertia().asSymMat33()), IO, t * s2);
        const SI siS = si.shift(S);
        sameSpatial("SpatialInertia.shift", siS.toSpatialMat(), refS, M, D); note("SpatialInertia.shift", toM(siS.calcInertia().asSymMat33()), s2);
        { SI x(si); x.shiftInPlace(S); sameSpatial("SpatialInertia.shiftInPlace", x.toSpatialMat(), refS, M, D); }
        sameSpatial("SpatialInertia.shift there and back", siS.shift(Vec3P(-S)).toSpatialMat(), refO, M, D);
        const SI siB = si.reexpress(R_FB);
        sameSpatial("SpatialInertia.reexpress(Rotation)", siB.toSpatialMat(), refOB, M, D); note("SpatialInertia.reexpress", toM(siB.calcInertia().asSymMat33()), s2);
        sameSpatial("SpatialInertia.reexpress(InverseRotation)", si.reexpress(~R_BF).toSpatialMat(), refOB, M, D);
        { SI x(si); x.reexpressInPlace(R_FB); sameSpatial("SpatialInertia.reexpressInPlace(Rotation)", x.toSpatialMat(), refOB, M, D);
          SI y(si); y.reexpressInPlace(~R_BF); sameSpatial("SpatialInertia.reexpressInPlace(InverseRotation)", y.toSpatialMat(), refOB, M, D); }
        const SI siX = si.transform(X_FB);
        sameSpatial("SpatialInertia.transform(Transform)", siX.toSpatialMat(), refSB, M, D); note("SpatialInertia.transform", toM(siX.calcInertia().asSymMat33()), s2);
        sameSpatial("SpatialInertia.transform(InverseTransform)", si.transform(~X_BF).toSpatialMat(), refSB, M, D);
        { SI x(si); x.transformInPlace(X_FB); sameSpatial("SpatialInertia.transformInPlace(Transform)", x.toSpatialMat(), refSB, M, D);
          SI y(si); y.transformInPlace(~X_BF); sameSpatial("SpatialInertia.transformInPlace(InverseTransform)", y.toSpatialMat(), refSB, M, D); }
        sameSpatial("SpatialInertia.transform there and back", siX.transform(X_BF).toSpatialMat(), refO, M, D);
        // product with a spatial vector
        const Vec3P w = toVecP<P>(rr::randVec(r, 2)), v = toVecP<P>((ext * rr::randVec(r, 2)));
        const V3 wL = toV(w), vL = toV(v); const LD vs = rr::maxAbs(vL) + D * rr::maxAbs(wL);
        { SVecP o = si * SVecP(w, v); V3 ra, rb; mulv6(refO, wL, vL, ra, rb);
          LD ba, bb; absMulv6(refO, wL, vL, ba, bb);
          k.sameV("spatial", "SpatialInertia*V.angular", toV(o[0]), ra, t * ba + t * M * D * vs); k.sameV("spatial", "SpatialInertia*V.linear", toV(o[1]), rb, t * bb + t * M * vs); }
        // additivity over a split of the cloud, scaling
        if (cl.m.size() >= 2) {
            Cloud a, b; for (size_t i = 0; i < cl.m.size(); ++i) { Cloud& q = (i < cl.m.size() / 2) ? a : b; q.m.push_back(cl.m[i]); q.r.push_back(cl.r[i]); }
            auto make = [&](const Cloud& q) { In I(P(0)); for (size_t i = 0; i < q.m.size(); ++i) I += In(toVecP<P>(q.r[i]), (P)q.m[i]); const P mq = (P)cloudMass(q); return SI(mq, toVecP<P>(cloudCom(q)), UIn(I / mq)); };
            const SI sa = make(a), sb = make(b);
            const S6 refA = rigidS6(cloudInertia(a, rr::mk(0, 0, 0), I3), cloudMass(a), cloudCom(a));
            sameSpatial("SpatialInertia a+b", (sa + sb).toSpatialMat(), refO, M, D);
            sameSpatial("SpatialInertia (a+b)-b", ((sa + sb) - sb).toSpatialMat(), refA, M, D);
            { SI x(sa); x += sb; sameSpatial("SpatialInertia +=", x.toSpatialMat(), refO, M, D); x -= sb; sameSpatial("SpatialInertia -=", x.toSpatialMat(), refA, M, D); }
        }
        { SI x(si); x *= P(2); S6 two = refO; two.A = rr::scale(2, two.A); two.B = rr::scale(2, two.B); two.C = rr::scale(2, two.C); two.D = rr::scale(2, two.D);
          sameSpatial("SpatialInertia *=", x.toSpatialMat(), two, M, D); x /= P(2); sameSpatial("SpatialInertia /=", x.toSpatialMat(), refO, M, D);
          SI y; y.setMass(mP).setMassCenter(cP).setUnitInertia(G); sameSpatial("SpatialInertia setters", y.toSpatialMat(), refO, M, D); }

        // ---- articulated body inertia: rigid case and a general symmetric 6x6
        const AI ai(si);
        sameSpatial("ArticulatedInertia(rbi).toSpatialMat", ai.toSpatialMat(), refO, M, D);
        // shift(s) is documented to shift by -s: new origin O - s
        const S6 refMinus = rigidS6(cloudInertia(cl, -SL, I3), mL, cL + SL);
        sameSpatial("ArticulatedInertia.shift(rigid)", ai.shift(S).toSpatialMat(), refMinus, M, D);
        { AI x(ai); x.shiftInPlace(S); sameSpatial("ArticulatedInertia.shiftInPlace(rigid)", x.toSpatialMat(), refMinus, M, D); }
        sameSpatial("ArticulatedInertia.shift(-S)=SpatialInertia.shift(S)", ai.shift(Vec3P(-S)).toSpatialMat(), refS, M, D);
        {
            // general ABI: P' = [1 sx;0 1] P [1 0;-sx 1]
            auto rs = [&](LD sc) { M3 a; for (int i = 0; i < 3; ++i) for (int j = 0; j <= i; ++j) a.m[i][j] = a.m[j][i] = sc * (LD)r.sym(1); for (int i = 0; i < 3; ++i) a.m[i][i] = sc * (LD)r.uni(1, 3); return a; };
            const Sym Mm = symP(rs(M)), Jj = symP(rs(s2));
            M3 Ff; for (int i = 0; i < 3; ++i) for (int j = 0; j < 3; ++j) Ff.m[i][j] = M * D * (LD)r.sym(1);
            const Mat33P F = toMatP<P>(Ff);
            const AI g(Mm, F, Jj);
            S6 Pm; Pm.A = toM(Jj); Pm.B = toM(F); Pm.C = rr::tr(Pm.B); Pm.D = toM(Mm);
            sameSpatial("ArticulatedInertia(M,F,J).toSpatialMat", g.toSpatialMat(), Pm, M, D);
            k.sameM("spatial", "ArticulatedInertia getters", toM(g.getMass()), Pm.D, 0); k.sameM("spatial", "ArticulatedInertia getters", toM(g.getMassMoment()), Pm.B, 0); k.sameM("spatial", "ArticulatedInertia getters", toM(g.getInertia()), Pm.A, 0);
            const S6 T = phi6(SL);
            const S6 want = mul6(T, mul6(Pm, tr6(T)));
            sameSpatial("ArticulatedInertia.shift(general)", g.shift(S).toSpatialMat(), want, 4 * M, D);
            { AI x(g); x.shiftInPlace(S); sameSpatial("ArticulatedInertia.shiftInPlace(general)", x.toSpatialMat(), want, 4 * M, D); }
            S6 sum = Pm; sum.A = rr::add(sum.A, refO.A); sum.B = rr::add(sum.B, refO.B); sum.C = rr::add(sum.C, refO.C); sum.D = rr::add(sum.D, refO.D);
            sameSpatial("ArticulatedInertia +", (g + ai).toSpatialMat(), sum, 4 * M, D);
            sameSpatial("ArticulatedInertia -", ((g + ai) - ai).toSpatialMat(), Pm, 4 * M, D);
            { AI x(g); x += ai; sameSpatial("ArticulatedInertia +=", x.toSpatialMat(), sum, 4 * M, D); x -= ai; sameSpatial("ArticulatedInertia -=", x.toSpatialMat(), Pm, 4 * M, D);
              AI y; y.setMass(Mm).setMassMoment(F).setInertia(Jj); sameSpatial("ArticulatedInertia setters", y.toSpatialMat(), Pm, M, D); }
            SVecP o = g * SVecP(w, v); V3 ra, rb; mulv6(Pm, wL, vL, ra, rb);
            LD ba, bb, ca, cb; absMulv6(Pm, wL, vL, ba, bb); absMulv6(Pm, vL, wL, ca, cb);     // |P||x|: scale of the rounding error
            k.sameV("spatial", "ArticulatedInertia*V.angular", toV(o[0]), ra, t * ba); k.sameV("spatial", "ArticulatedInertia*V.linear", toV(o[1]), rb, t * bb);
            Mat<2, 2, Vec3P> two; two(0, 0) = w; two(1, 0) = v; two(0, 1) = v; two(1, 1) = w;
            Mat<2, 2, Vec3P> o2 = g * two; V3 qa, qb; mulv6(Pm, vL, wL, qa, qb);
            k.sameV("spatial", "ArticulatedInertia*Mat<2,N>.col0", toV(o2(0, 0)), ra, t * ba); k.sameV("spatial", "ArticulatedInertia*Mat<2,N>.col0.linear", toV(o2(1, 0)), rb, t * bb);
            k.sameV("spatial", "ArticulatedInertia*Mat<2,N>.col1", toV(o2(0, 1)), qa, t * ca); k.sameV("spatial", "ArticulatedInertia*Mat<2,N>.col1.linear", toV(o2(1, 1)), qb, t * cb);
        }

        // ---- MassProperties
        const MP mp(mP, cP, Iacc), mpG(mP, cP, G);
        k.sameS("massprops", "getMass", mp.getMass(), mL, 0); k.sameV("massprops", "getMassCenter", toV(mp.getMassCenter()), cL, 0);
        k.sameM("massprops", "getUnitInertia(Inertia ctor)", toM(mp.getUnitInertia().asSymMat33()), rr::scale(1 / mL, IO), t * D * D);
        k.sameM("massprops", "getUnitInertia(UnitInertia ctor)", toM(mpG.getUnitInertia().asSymMat33()), toM(G.asSymMat33()), 0);
        k.sameM("massprops", "calcInertia", toM(mp.calcInertia().asSymMat33()), IO, t * s2); k.sameM("massprops", "getInertia", toM(mp.getInertia().asSymMat33()), IO, t * s2);
        const M3 ICc = cloudInertia(cl, cL, I3);     // about the com the library was told
        k.sameM("massprops", "calcCentralInertia", toM(mp.calcCentralInertia().asSymMat33()), ICc, t * s2); note("MassProperties.calcCentralInertia", toM(mp.calcCentralInertia().asSymMat33()), s2);
        k.sameM("massprops", "calcShiftedInertia", toM(mp.calcShiftedInertia(S).asSymMat33()), refS.A, t * s2); note("MassProperties.calcShiftedInertia", toM(mp.calcShiftedInertia(S).asSymMat33()), s2);
        k.sameM("massprops", "calcTransformedInertia", toM(mp.calcTransformedInertia(X_FB).asSymMat33()), refSB.A, t * s2); note("MassProperties.calcTransformedInertia", toM(mp.calcTransformedInertia(X_FB).asSymMat33()), s2);
        { const MP q = mp.calcShiftedMassProps(S); sameSpatial("MassProperties.calcShiftedMassProps", q.toSpatialMat(), refS, M, D); k.sameV("massprops", "calcShiftedMassProps.com", toV(q.getMassCenter()), cL - SL, t * D); }
        { const MP q = mp.calcTransformedMassProps(X_FB); sameSpatial("MassProperties.calcTransformedMassProps", q.toSpatialMat(), refSB, M, D);
          // = transform of the spatial inertia (library against library)
          k.sameS("massprops", "transformed = SpatialInertia.transform (mass)", q.getMass(), siX.getMass(), 0);
          k.sameV("massprops", "transformed = SpatialInertia.transform (com)", toV(q.getMassCenter()), toV(siX.getMassCenter()), t * D);
          k.sameM("massprops", "transformed = SpatialInertia.transform (unit inertia)", toM(q.getUnitInertia().asSymMat33()), toM(siX.getUnitInertia().asSymMat33()), t * D * D); }
        { const MP q = mp.reexpress(R_FB); sameSpatial("MassProperties.reexpress", q.toSpatialMat(), refOB, M, D); }
        sameSpatial("MassProperties.toSpatialMat", mp.toSpatialMat(), refO, M, D);
        { const Mat<6, 6, P> m66 = mp.toMat66(); M3 a, b, cc, d; for (int i = 0; i < 3; ++i) for (int j = 0; j < 3; ++j) { a.m[i][j] = m66(i, j); b.m[i][j] = m66(i, j + 3); cc.m[i][j] = m66(i + 3, j); d.m[i][j] = m66(i + 3, j + 3); }
          k.sameM("massprops", "toMat66.J", a, refO.A, t * s2); k.sameM("massprops", "toMat66.F", b, refO.B, t * M * D); k.sameM("massprops", "toMat66.Ft", cc, refO.C, t * M * D); k.sameM("massprops", "toMat66.M", d, refO.D, t * M); }
        { const MP z(P(0), Vec3P(0), In(P(0))); const MP inf(NTraits<P>::getInfinity(), Vec3P(0), UIn(P(1))); MP nan(mp); nan.setMassProperties(NTraits<P>::getNaN(), cP, G);
          k.req(k.key("massprops", "predicates"), !mp.isExactlyMassless() && z.isExactlyMassless() && z.isNearlyMassless() && !mp.isNearlyMassless((P)(mL / 2)) && z.isExactlyCentral() && z.isNearlyCentral() &&
                    (rr::norm(cL) == 0 || !mp.isExactlyCentral()) && mp.isFinite() && !mp.isNaN() && !mp.isInf() && inf.isInf() && !inf.isFinite() && !inf.isNaN() && nan.isNaN() && !nan.isInf() && !nan.isFinite(),
                [&] { return k.wit(); }); }
        if (c.wantSample()) c.sample(Json::obj().set("precision", PT<P>::name()).set("shape", shape).set("points", (long)cl.m.size()).set("mass", (double)M).set("com", rr::jV(com)).set("inertia about origin", rr::jM(IO)).set("shift", rr::jV(SL)));
    }

    // ---------------------------------------------------------------- every produced inertia is physical
    void physical() {
        c.setPhase("C29 produced inertias are PSD and satisfy the triangle inequalities");
        for (auto& p : produced) {
            LD ev[3]; rr::symEig(p.I, ev);
            const LD tl = 8 * k.tol * std::max(p.scale, (LD)1e-300L);
            k.inputs("scale", {(double)p.scale});
            k.num(k.key("psd", "min eigenvalue >= 0"), std::max((LD)0, -ev[0]), tl, [&] { return k.witM(p.I, nullptr).set("what", p.what); });
            k.num(k.key("triangle", "principal moments"), std::max((LD)0, ev[2] - ev[0] - ev[1]), tl, [&] { return k.witM(p.I, nullptr).set("what", p.what); });
            const LD a = p.I.m[0][0], b = p.I.m[1][1], d = p.I.m[2][2];
            k.num(k.key("triangle", "diagonal moments"), std::max((LD)0, std::max(a - b - d, std::max(b - a - d, d - a - b))), tl, [&] { return k.witM(p.I, nullptr).set("what", p.what); });
        }
    }
