// cable_surf.h -- harness-side model of the analytic wrapping surfaces (no library geometry
// code): level function, gradient, Hessian, normal, signed distance, the function the library's
// geodesic integrator constrains, Gaussian and normal curvature. Same model as in mon_geodesic.cpp.
#pragma once
#include "SimTKmath.h"
#include "vh.h"
namespace csurf {
using namespace SimTK;
using vh::Json;
static inline Json jV3(const Vec3& v) { return Json::arr().push(v[0]).push(v[1]).push(v[2]); }
// ------------------------------------------------------------------ harness surface model
enum Kind { K_Sphere, K_Cylinder, K_Ellipsoid, K_Torus, K_Count };
static const char* kindName(int k) { static const char* n[] = {"sphere", "cylinder", "ellipsoid", "torus"}; return n[k]; }

struct Surf {
    int kind = K_Sphere;
    double r = 1;          // sphere / cylinder radius, torus tube radius
    Vec3 abc = Vec3(1);    // ellipsoid semi axes
    double R = 2;          // torus radius
    double charR = 1;      // radius defining "one circumference"
    double size = 1;       // largest extent (scale of positions)
    double kmax = 1;       // bound on |normal curvature|

    static double sq(double x) { return x * x; }
    double rho(const Vec3& p) const { return std::sqrt(p[0] * p[0] + p[1] * p[1]); }
    // level function phi, increasing outwards
    double phi(const Vec3& p) const {
        switch (kind) {
        case K_Sphere: return p.normSqr() - r * r;
        case K_Cylinder: return p[0] * p[0] + p[1] * p[1] - r * r;
        case K_Ellipsoid: return sq(p[0] / abc[0]) + sq(p[1] / abc[1]) + sq(p[2] / abc[2]) - 1;
        default: return sq(rho(p) - R) + p[2] * p[2] - r * r;
        }
    }
    Vec3 grad(const Vec3& p) const {
        switch (kind) {
        case K_Sphere: return 2 * p;
        case K_Cylinder: return Vec3(2 * p[0], 2 * p[1], 0);
        case K_Ellipsoid: return Vec3(2 * p[0] / sq(abc[0]), 2 * p[1] / sq(abc[1]), 2 * p[2] / sq(abc[2]));
        default: { double h = rho(p), f = 2 * (h - R) / h; return Vec3(f * p[0], f * p[1], 2 * p[2]); }
        }
    }
    Mat33 hess(const Vec3& p) const {
        Mat33 H(0.0);
        switch (kind) {
        case K_Sphere: H(0, 0) = H(1, 1) = H(2, 2) = 2; break;
        case K_Cylinder: H(0, 0) = H(1, 1) = 2; break;
        case K_Ellipsoid: for (int i = 0; i < 3; ++i) H(i, i) = 2 / sq(abc[i]); break;
        default: {
            double h = rho(p), h2 = h * h, h3 = h2 * h, d = h - R, x = p[0], y = p[1];
            H(0, 0) = 2 * (x * x / h2 + d * y * y / h3);
            H(1, 1) = 2 * (y * y / h2 + d * x * x / h3);
            H(0, 1) = H(1, 0) = 2 * (x * y / h2 - d * x * y / h3);
            H(2, 2) = 2;
        }
        }
        return H;
    }
    Vec3 normal(const Vec3& p) const { Vec3 g = grad(p); return g / g.norm(); }
    // signed distance to the surface (exact for sphere/cylinder/torus, first order for ellipsoid)
    double dist(const Vec3& p) const {
        switch (kind) {
        case K_Sphere: return p.norm() - r;
        case K_Cylinder: return rho(p) - r;
        case K_Ellipsoid: return phi(p) / grad(p).norm();
        default: return std::sqrt(sq(rho(p) - R) + p[2] * p[2]) - r;
        }
    }
    // the function the library's geodesic integrator constrains (ContactGeometryImpl::calcSurfaceValue:
    // r^2-|p|^2 for sphere and cylinder -- *not* their getImplicitFunction(), which is 1-|p|^2/r^2 --
    // and the dimensionless implicit function for ellipsoid and torus) and |its gradient|
    double fLib(const Vec3& p) const {
        switch (kind) {
        case K_Sphere: return r * r - p.normSqr();
        case K_Cylinder: return r * r - (p[0] * p[0] + p[1] * p[1]);
        case K_Ellipsoid: return -phi(p);
        default: return 1 - (sq(R - rho(p)) + p[2] * p[2]) / (r * r);
        }
    }
    double gLibNorm(const Vec3& p) const {
        switch (kind) {
        case K_Sphere: return 2 * p.norm();
        case K_Cylinder: return 2 * rho(p);
        case K_Ellipsoid: return grad(p).norm();
        default: return 2 * std::sqrt(sq(rho(p) - R) + p[2] * p[2]) / (r * r);
        }
    }
    // Gaussian curvature, closed forms
    double gaussK(const Vec3& p) const {
        switch (kind) {
        case K_Sphere: return 1 / (r * r);
        case K_Cylinder: return 0;
        case K_Ellipsoid: {
            double a2 = sq(abc[0]), b2 = sq(abc[1]), c2 = sq(abc[2]);
            double w = p[0] * p[0] / (a2 * a2) + p[1] * p[1] / (b2 * b2) + p[2] * p[2] / (c2 * c2);
            return 1 / (a2 * b2 * c2 * w * w);
        }
        default: { double h = rho(p); double cosT = (h - R) / r; return cosT / (r * h); }
        }
    }
    // normal curvature in unit tangent direction t (positive = convex)
    double normalCurv(const Vec3& p, const Vec3& t) const { return (~t * (hess(p) * t)) / grad(p).norm(); }
    // project a nearby point onto the surface along the gradient
    Vec3 project(Vec3 p) const {
        for (int it = 0; it < 8; ++it) { Vec3 g = grad(p); double f = phi(p); p -= g * (f / (~g * g)); }
        return p;
    }
    Json toJson() const {
        return Json::obj().set("kind", kindName(kind)).set("r", r).set("abc", jV3(abc)).set("R", R);
    }
};

} // namespace csurf
