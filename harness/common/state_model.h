// state_model.h — executable reference model of SimTK::State stage/cache semantics (C18).
//
// Written from the documentation in State.h / Stage.h (class comment + per-method
// comments), not from StateImpl's data structures. What the model knows:
//   * one realized stage per subsystem and one for the system (system <= every subsystem);
//   * allocation stacks: anything allocated while a subsystem is at stage s belongs to
//     stage s+1 and is forgotten when the subsystem falls below s+1;
//   * "invalidate stage g" lowers system and every subsystem that is at g or higher to g-1;
//   * a cache entry <dependsOn, computedBy, prerequisites, flag> reads valid iff
//         subsystemStage >= computedBy  ||  (subsystemStage >= dependsOn && flag)
//     where flag is set by markCacheValueRealized and cleared when dependsOn is
//     invalidated, when a prerequisite is written / explicitly invalidated, and by
//     markCacheValueNotRealized;  flag is tri-state (false,true,unknown) because a copy's
//     entries at or below Instance are a documented don't-care (State.h: cache not copied,
//     StateImpl.h: copied through Instance);
//   * version counters are abstract: only change / no-change is ever compared.
#pragma once
#include <vector>
#include <string>
#include <utility>
#include <cmath>
#include <limits>

namespace sm {

enum : int { SEmpty = 0, STopology, SModel, SInstance, STime, SPosition, SVelocity, SDynamics, SAcceleration, SReport, SInfinity, NST };
static const char* const SN[NST] = {"Empty", "Topology", "Model", "Instance", "Time", "Position", "Velocity", "Dynamics", "Acceleration", "Report", "Infinity"};
static const double NaN_ = std::numeric_limits<double>::quiet_NaN();

typedef std::pair<int, int> Key;   // (subsystem, local index)

struct MChunk { int alloc = 0; std::vector<double> init; };
struct MErr   { int alloc = 0; int n = 0; };
struct MDV {
    int alloc = 0, inval = 0; long val = 0; int autoCE = -1; double tLast = NaN_;
    long ver = 0, verSeen = 0; long long realVer = -1;          // abstract value version + last real one seen
};
struct MCE {
    int alloc = 0, dep = 0, comp = 0; int assocDV = -1;
    bool pq = false, pu = false, pz = false; std::vector<Key> pdv, pce;
    int flag = 0;                   // 0 false, 1 true, 2 unknown (don't-care after copy)
    long val = 0;
    const char* cause = "alloc";    // op kind (string literal) that last decided the flag (violation attribution)
    long ver = 0, verSeen = 0; long long realVer = -1;
    bool hasPre() const { return pq || pu || pz || !pdv.empty() || !pce.empty(); }
    const char* kind() const {
        if (assocDV >= 0) return "auto";
        if (hasPre()) return comp == SInfinity ? "lazy+pre" : "bounded+pre";
        return comp == SInfinity ? "lazy" : (comp == dep ? "exact" : "bounded");
    }
};
struct MSub {
    int stage = SEmpty;
    std::vector<MChunk> q, u, z;
    std::vector<MErr> qe, ue, ude;
    std::vector<MDV> dv;
    std::vector<MCE> ce;
    long sver[NST], sverSeen[NST]; long long realSver[NST]; bool seen = false;
    MSub() { for (int i = 0; i < NST; ++i) { sver[i] = sverSeen[i] = 0; realSver[i] = -1; } }
    static int count(const std::vector<MChunk>& v) { int n = 0; for (auto& c : v) n += (int)c.init.size(); return n; }
    static int count(const std::vector<MErr>& v) { int n = 0; for (auto& c : v) n += c.n; return n; }
    int nq() const { return count(q); } int nu() const { return count(u); } int nz() const { return count(z); }
    int nqe() const { return count(qe); } int nue() const { return count(ue); } int nude() const { return count(ude); }
};
struct MState {
    bool impl = true;               // false: moved-from handle (no implementation object)
    std::vector<MSub> subs;
    int sys = SEmpty;
    double t = NaN_;
    std::vector<double> q, u, z, uw, zw, qew, uew;
    long sysVer[NST];
    long qv = 0, uv = 0, zv = 0, qvSeen = 0, uvSeen = 0, zvSeen = 0;
    long long realQv = -1, realUv = -1, realZv = -1;
    std::vector<double> seenQ, seenU, seenZ; bool haveSeenY = false; long long seenQv = -1, seenUv = -1, seenZv = -1;   // last observed values (version oracle)
    bool haveSnap = false; std::vector<long long> realSnap; long snapVer[NST]; int snapStage = 0;
    MState() { for (int i = 0; i < NST; ++i) sysVer[i] = snapVer[i] = 0; }

    int minSub() const { int m = SInfinity; for (auto& b : subs) m = std::min(m, b.stage); return subs.empty() ? SInfinity : m; }
    int qStart(int si) const { int n = 0; for (int i = 0; i < si; ++i) n += subs[i].nq(); return n; }
    int uStart(int si) const { int n = 0; for (int i = 0; i < si; ++i) n += subs[i].nu(); return n; }
    int zStart(int si) const { int n = 0; for (int i = 0; i < si; ++i) n += subs[i].nz(); return n; }
    int qeStart(int si) const { int n = 0; for (int i = 0; i < si; ++i) n += subs[i].nqe(); return n; }
    int ueStart(int si) const { int n = 0; for (int i = 0; i < si; ++i) n += subs[i].nue(); return n; }
    int udeStart(int si) const { int n = 0; for (int i = 0; i < si; ++i) n += subs[i].nude(); return n; }
};

// ---- validity of a cache entry as documented (0 invalid, 1 valid, 2 don't-care)
inline int valid(const MSub& b, const MCE& e) {
    if (b.stage >= e.comp) return 1;
    if (b.stage < e.dep) return 0;
    return e.flag;
}
inline bool contains(const std::vector<Key>& v, const Key& k) { for (auto& x : v) if (x == k) return true; return false; }

// explicit invalidation of one entry; its downstream dependents follow (prerequisite DAG)
inline void invalidateCE(MState& s, Key k, const char* cause) {
    MCE& e = s.subs[k.first].ce[k.second];
    e.flag = 0; e.cause = cause; ++e.ver;
    for (int si = 0; si < (int)s.subs.size(); ++si)
        for (int ci = 0; ci < (int)s.subs[si].ce.size(); ++ci)
            if (contains(s.subs[si].ce[ci].pce, k)) invalidateCE(s, Key(si, ci), cause);
}
inline void noteQ(MState& s, const char* cause, bool bump = true) {
    if (bump) ++s.qv;
    for (int si = 0; si < (int)s.subs.size(); ++si) for (int ci = 0; ci < (int)s.subs[si].ce.size(); ++ci) if (s.subs[si].ce[ci].pq) invalidateCE(s, Key(si, ci), cause);
}
inline void noteU(MState& s, const char* cause, bool bump = true) {
    if (bump) ++s.uv;
    for (int si = 0; si < (int)s.subs.size(); ++si) for (int ci = 0; ci < (int)s.subs[si].ce.size(); ++ci) if (s.subs[si].ce[ci].pu) invalidateCE(s, Key(si, ci), cause);
}
inline void noteZ(MState& s, const char* cause, bool bump = true) {
    if (bump) ++s.zv;
    for (int si = 0; si < (int)s.subs.size(); ++si) for (int ci = 0; ci < (int)s.subs[si].ce.size(); ++ci) if (s.subs[si].ce[ci].pz) invalidateCE(s, Key(si, ci), cause);
}
inline void noteDV(MState& s, Key dk, const char* cause) {
    for (int si = 0; si < (int)s.subs.size(); ++si) for (int ci = 0; ci < (int)s.subs[si].ce.size(); ++ci) if (contains(s.subs[si].ce[ci].pdv, dk)) invalidateCE(s, Key(si, ci), cause);
}

template <class T> inline void popAbove(std::vector<T>& v, int g) { while (!v.empty() && v.back().alloc > g) v.pop_back(); }

// one subsystem falls to newStage (no-op if it is already there or lower)
inline void dropSub(MState& s, int si, int newStage, const char* cause) {
    MSub& b = s.subs[si];
    const int old = b.stage;
    if (old <= newStage) return;
    if (newStage == SEmpty) { MSub fresh; b = fresh; return; }   // default-constructed condition, re-baseline
    popAbove(b.q, newStage); popAbove(b.u, newStage); popAbove(b.z, newStage);
    popAbove(b.qe, newStage); popAbove(b.ue, newStage); popAbove(b.ude, newStage);
    popAbove(b.dv, newStage); popAbove(b.ce, newStage);
    for (int i = newStage + 1; i <= old; ++i) ++b.sver[i];
    for (auto& e : b.ce) if (e.dep > newStage && e.dep <= old) { e.flag = 0; e.cause = cause; }
    b.stage = newStage;
}

// "invalidate stage g": system and every subsystem back to g-1 if at g or higher
inline void invalidateAll(MState& s, int g, const char* cause) {
    if (s.sys >= g) {
        for (int i = g; i <= s.sys; ++i) ++s.sysVer[i];
        if (s.sys >= SInstance && SInstance >= g) { s.qew.clear(); s.uew.clear(); }
        if (s.sys >= SModel && SModel >= g) {
            s.q.clear(); s.u.clear(); s.z.clear(); s.uw.clear(); s.zw.clear();
            noteQ(s, cause); noteU(s, cause); noteZ(s, cause);      // the continuous variables are destroyed
        }
        if (STopology >= g) s.t = NaN_;
        s.sys = g - 1;
    }
    for (int si = 0; si < (int)s.subs.size(); ++si) dropSub(s, si, g - 1, cause);
}

inline void advanceSystem(MState& s, int g) {
    if (g == STopology) s.t = 0;
    else if (g == SModel) {
        s.q.clear(); s.u.clear(); s.z.clear();
        for (auto& b : s.subs) for (auto& c : b.q) s.q.insert(s.q.end(), c.init.begin(), c.init.end());
        for (auto& b : s.subs) for (auto& c : b.u) s.u.insert(s.u.end(), c.init.begin(), c.init.end());
        for (auto& b : s.subs) for (auto& c : b.z) s.z.insert(s.z.end(), c.init.begin(), c.init.end());
        s.uw.assign(s.u.size(), 1.0); s.zw.assign(s.z.size(), 1.0);
        // freshly allocated q,u,z: nothing computed from them can be valid; versions need not move
        noteQ(s, "advanceSystemToStage", false); noteU(s, "advanceSystemToStage", false); noteZ(s, "advanceSystemToStage", false);
    } else if (g == SInstance) {
        int nqe = 0, nue = 0; for (auto& b : s.subs) { nqe += b.nqe(); nue += b.nue(); }
        s.qew.assign(nqe, 1.0); s.uew.assign(nue, 1.0);
    }
    s.sys = g;
}

// would any surviving cache entry name a prerequisite that no longer exists?
inline bool hasDangling(const MState& s) {
    for (auto& b : s.subs) for (auto& e : b.ce) {
        for (auto& k : e.pdv) if (k.first >= (int)s.subs.size() || k.second >= (int)s.subs[k.first].dv.size()) return true;
        for (auto& k : e.pce) if (k.first >= (int)s.subs.size() || k.second >= (int)s.subs[k.first].ce.size()) return true;
    }
    return false;
}

template <class T> inline void copyThrough(std::vector<T>& d, const std::vector<T>& s, int g) { d.clear(); for (auto& x : s) if (x.alloc <= g) d.push_back(x); }

// Deep copy as documented: all variables; stage = min(source, Instance); cache entries
// whose depends-on stage is above the copied stage are invalid; entries at or below it
// that were valid in the source are don't-care; entries invalid in the source are invalid.
inline MState copyOf(const MState& src) {
    MState d;
    if (!src.impl) { d.impl = false; return d; }
    for (auto& sb : src.subs) {
        MSub b;
        const int tgt = std::min(sb.stage, (int)SInstance);
        copyThrough(b.q, sb.q, tgt); copyThrough(b.u, sb.u, tgt); copyThrough(b.z, sb.z, tgt);
        copyThrough(b.qe, sb.qe, tgt); copyThrough(b.ue, sb.ue, tgt); copyThrough(b.ude, sb.ude, tgt);
        copyThrough(b.dv, sb.dv, tgt); copyThrough(b.ce, sb.ce, tgt);
        for (auto& v : b.dv) { v.ver = v.verSeen = 0; v.realVer = -1; }
        for (auto& e : b.ce) {
            e.flag = (e.flag != 0 && e.dep <= tgt) ? 2 : 0;
            e.cause = "copy"; e.ver = e.verSeen = 0; e.realVer = -1;
        }
        b.stage = tgt;
        d.subs.push_back(b);
    }
    d.sys = std::min(src.sys, (int)SInstance);
    d.t = d.sys >= STopology ? src.t : NaN_;
    if (d.sys >= SModel) { d.q = src.q; d.u = src.u; d.z = src.z; d.uw = src.uw; d.zw = src.zw; }
    if (d.sys >= SInstance) { d.qew = src.qew; d.uew = src.uew; }
    return d;
}

} // namespace sm
