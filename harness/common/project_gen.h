// project_gen.h — generator used by mon_project (C09, C10): random trees (model.h) plus
// Motions / locks and constraints. Constraints are parameterised from a reference
// configuration so that they are exactly satisfied there ("assembled by construction").
#pragma once
#include "model.h"

namespace vh {

// ------------------------------------------------------------------ motion specs
enum MKind { MK_None = 0, MK_SteadyScalar, MK_SteadyVec, MK_Sinusoid, MK_Custom, MK_CustomZero, MK_CustomDiscrete, MK_Count };
inline const char* mkName(int k) {
    static const char* n[] = {"none", "SteadyScalar", "SteadyVec", "Sinusoid", "Custom", "CustomZero", "CustomDiscrete"};
    return (k >= 0 && k < MK_Count) ? n[k] : "?";
}
enum LKind { LK_None = 0, LK_Lock, LK_LockAtScalar, LK_LockAtVector, LK_LockAtVec, LK_Count };
inline const char* lkName(int k) {
    static const char* n[] = {"none", "lock", "lockAtScalar", "lockAtVector", "lockAtVec"};
    return (k >= 0 && k < LK_Count) ? n[k] : "?";
}
inline const char* levelName(Motion::Level l) {
    return l == Motion::Position ? "pos" : l == Motion::Velocity ? "vel" : l == Motion::Acceleration ? "acc" : "nolevel";
}

struct MotSpec {
    int kind = MK_None;
    Motion::Level level = Motion::Velocity;
    bool qDep = false;                 // custom vel/acc level depends on own q (only N=I mobilizers)
    double a[7] = {0}, b[7] = {0}, c[7] = {0}, ph[7] = {0}, d[7] = {0}, e[7] = {0}, w = 1;
    double amp = 0, rate = 0, phase = 0;   // Sinusoid; Steady uses a[]
    Motion::Level lockDefault = Motion::NoLevel;   // lockByDefault (topological)
    // dynamic lock applied to the State (after q,u have been set)
    int lockKind = LK_None; Motion::Level lockLevel = Motion::NoLevel; double lockVal[7] = {0};
    bool any() const { return kind != MK_None || lockDefault != Motion::NoLevel || lockKind != LK_None; }
};

// analytic values of the harness Custom motion
inline double cPos(const MotSpec& s, int i, double t) { return s.a[i] + s.b[i] * t + s.c[i] * std::sin(s.w * t + s.ph[i]); }
inline double cPosD(const MotSpec& s, int i, double t) { return s.b[i] + s.c[i] * s.w * std::cos(s.w * t + s.ph[i]); }
inline double cPosDD(const MotSpec& s, int i, double t) { return -s.c[i] * s.w * s.w * std::sin(s.w * t + s.ph[i]); }
inline double cVel(const MotSpec& s, int i, double t, double qi) { return s.a[i] + s.c[i] * std::sin(s.w * t + s.ph[i]) + (s.qDep ? s.d[i] * std::cos(qi) : 0.0); }
inline double cVelD(const MotSpec& s, int i, double t, double qi, double ui) { return s.c[i] * s.w * std::cos(s.w * t + s.ph[i]) - (s.qDep ? s.d[i] * std::sin(qi) * ui : 0.0); }
inline double cAcc(const MotSpec& s, int i, double t, double qi, double ui) { return s.a[i] + s.c[i] * std::sin(s.w * t + s.ph[i]) + s.e[i] * ui + (s.qDep ? s.d[i] * std::cos(qi) : 0.0); }

class HMotion : public Motion::Custom::Implementation {
public:
    MotSpec sp; const SimbodyMatterSubsystem* matter = nullptr; MobilizedBodyIndex mbx;
    Implementation* clone() const override { return new HMotion(*this); }
    Motion::Level getLevel(const State&) const override { return sp.level; }
    Motion::Method getLevelMethod(const State&) const override {
        return sp.kind == MK_CustomZero ? Motion::Zero : sp.kind == MK_CustomDiscrete ? Motion::Discrete : Motion::Prescribed;
    }
    double qi(const State& s, int i) const { return sp.qDep ? matter->getMobilizedBody(mbx).getOneQ(s, i) : 0.0; }
    double ui(const State& s, int i) const { return matter->getMobilizedBody(mbx).getOneU(s, i); }
    void calcPrescribedPosition(const State& s, int nq, Real* q) const override { for (int i = 0; i < nq; ++i) q[i] = cPos(sp, i, s.getTime()); }
    void calcPrescribedPositionDot(const State& s, int nq, Real* qd) const override { for (int i = 0; i < nq; ++i) qd[i] = cPosD(sp, i, s.getTime()); }
    void calcPrescribedPositionDotDot(const State& s, int nq, Real* qdd) const override { for (int i = 0; i < nq; ++i) qdd[i] = cPosDD(sp, i, s.getTime()); }
    void calcPrescribedVelocity(const State& s, int nu, Real* u) const override { for (int i = 0; i < nu; ++i) u[i] = cVel(sp, i, s.getTime(), qi(s, i)); }
    void calcPrescribedVelocityDot(const State& s, int nu, Real* ud) const override { for (int i = 0; i < nu; ++i) ud[i] = cVelD(sp, i, s.getTime(), qi(s, i), sp.qDep ? ui(s, i) : 0.0); }
    void calcPrescribedAcceleration(const State& s, int nu, Real* ud) const override { for (int i = 0; i < nu; ++i) ud[i] = cAcc(sp, i, s.getTime(), qi(s, i), ui(s, i)); }
};

// mobilizer types for which qdot == u always (N = I) and q=small values are regular
inline bool mobNIsIdentity(int t) {
    return t == MT_Pin || t == MT_Slider || t == MT_Screw || t == MT_Universal || t == MT_Cylinder || t == MT_Planar || t == MT_Translation;
}
// types that may carry a position-level Motion (bounded q stays away from singularities)
inline bool mobPosMotionOK(int t, bool euler) {
    if (mobNIsIdentity(t) || t == MT_Gimbal || t == MT_Bushing) return true;
    if (euler && (t == MT_Ball || t == MT_Free)) return true;
    return false;
}
// types whose default (reference) configuration is regular, so lockByDefault(Position) is legal
inline bool mobDefaultConfigOK(int t) { return t != MT_SphericalCoords && t != MT_BendStretch; }

// ------------------------------------------------------------------ constraint specs
enum CType { CT_Rod = 0, CT_Ball, CT_Weld, CT_PointInPlane, CT_PointOnLine, CT_ConstantAngle, CT_ConstantOrientation,
             CT_ConstantCoordinate, CT_CouplerLinear, CT_CouplerQuadratic, CT_PrescribedMotionC,
             CT_ConstantSpeed, CT_NoSlip1D, CT_SpeedCouplerLinear, CT_ConstantAcceleration, CT_Count };
inline const char* ctName(int t) {
    static const char* n[] = {"Rod", "Ball", "Weld", "PointInPlane", "PointOnLine", "ConstantAngle", "ConstantOrientation",
                              "ConstantCoordinate", "CouplerLinear", "CouplerQuadratic", "PrescribedMotionC",
                              "ConstantSpeed", "NoSlip1D", "SpeedCouplerLinear", "ConstantAcceleration"};
    return (t >= 0 && t < CT_Count) ? n[t] : "?";
}
inline bool ctLinearInQ(int t) { return t == CT_ConstantCoordinate || t == CT_CouplerLinear || t == CT_PrescribedMotionC; }
inline bool ctHolonomic(int t) { return t <= CT_PrescribedMotionC; }
inline bool ctNonholonomic(int t) { return t == CT_ConstantSpeed || t == CT_NoSlip1D || t == CT_SpeedCouplerLinear; }

struct ConSpec {
    int type = CT_Rod; int b1 = -1, b2 = -1, b3 = -1;     // node indices, -1 = Ground
    Vec3 p1 = Vec3(0), p2 = Vec3(0); Vec3 n1 = Vec3(1, 0, 0), n2 = Vec3(1, 0, 0);
    Rotation R1, R2; Transform X1, X2; double val = 0;
    std::vector<int> cb, ci; std::vector<double> coef;    // coordinate-type constraints
    Json toJson() const {
        Json j = Json::obj(); j.set("type", ctName(type)).set("b1", b1).set("b2", b2).set("val", val);
        if (!cb.empty()) { Json a = Json::arr(), b = Json::arr(); for (int x : cb) a.push(x); for (int x : ci) b.push(x); j.set("cb", a).set("ci", b).set("coef", jvec(coef)); }
        return j;
    }
};

// quadratic coupling q0 = k*q1^2 + c   (nonlinear in q)
class QuadCouple : public Function {
public:
    double k, c0;
    QuadCouple(double k, double c0) : k(k), c0(c0) {}
    Real calcValue(const Vector& x) const override { return x[0] - k * x[1] * x[1] - c0; }
    Real calcDerivative(const Array_<int>& d, const Vector& x) const override {
        if (d.size() == 1) return d[0] == 0 ? 1.0 : -2 * k * x[1];
        if (d.size() == 2) return (d[0] == 1 && d[1] == 1) ? -2 * k : 0.0;
        return 0.0;
    }
    int getArgumentSize() const override { return 2; }
    int getMaxDerivativeOrder() const override { return 1000; }
    QuadCouple* clone() const override { return new QuadCouple(*this); }
};

struct Built {
    Model m;
    std::vector<MotSpec> mots;          // per node (may be empty = no motions)
    std::vector<Motion> motions;        // per node; empty handle if none
    std::vector<ConSpec> cspecs;
    std::vector<Constraint> cons;
    Force::DiscreteForces* disc = nullptr;
    MobilizedBody& body(int node) { return node < 0 ? (MobilizedBody&)m.matter.updGround() : m.bodies[node]; }
    const MobilizedBody& body(int node) const { return node < 0 ? (const MobilizedBody&)m.matter.getGround() : m.bodies[node]; }
};

inline Constraint makeConstraint(Built& B, const ConSpec& cs) {
    SimbodyMatterSubsystem& matter = B.m.matter;
    MobilizedBody& b1 = B.body(cs.b1); MobilizedBody& b2 = B.body(cs.b2);
    switch (cs.type) {
    case CT_Rod: return Constraint::Rod(b1, cs.p1, b2, cs.p2, cs.val);
    case CT_Ball: return Constraint::Ball(b1, cs.p1, b2, cs.p2);
    case CT_Weld: return Constraint::Weld(b1, cs.X1, b2, cs.X2);
    case CT_PointInPlane: return Constraint::PointInPlane(b1, UnitVec3(cs.n1), cs.val, b2, cs.p2);
    case CT_PointOnLine: return Constraint::PointOnLine(b1, UnitVec3(cs.n1), cs.p1, b2, cs.p2);
    case CT_ConstantAngle: return Constraint::ConstantAngle(b1, UnitVec3(cs.n1), b2, UnitVec3(cs.n2), cs.val);
    case CT_ConstantOrientation: return Constraint::ConstantOrientation(b1, cs.R1, b2, cs.R2);
    case CT_ConstantCoordinate: return Constraint::ConstantCoordinate(b1, MobilizerQIndex(cs.ci[0]), cs.val);
    case CT_ConstantSpeed: return Constraint::ConstantSpeed(b1, MobilizerUIndex(cs.ci[0]), cs.val);
    case CT_ConstantAcceleration: return Constraint::ConstantAcceleration(b1, MobilizerUIndex(cs.ci[0]), cs.val);
    case CT_NoSlip1D: return Constraint::NoSlip1D(B.body(cs.b3), cs.p1, UnitVec3(cs.n1), b1, b2);
    case CT_CouplerLinear: case CT_CouplerQuadratic: {
        Array_<MobilizedBodyIndex> mb; Array_<MobilizerQIndex> qi;
        for (size_t i = 0; i < cs.cb.size(); ++i) { mb.push_back(B.body(cs.cb[i]).getMobilizedBodyIndex()); qi.push_back(MobilizerQIndex(cs.ci[i])); }
        Function* f;
        if (cs.type == CT_CouplerLinear) { Vector co((int)cs.coef.size()); for (int i = 0; i < co.size(); ++i) co[i] = cs.coef[i]; f = new Function::Linear(co); }
        else f = new QuadCouple(cs.coef[0], cs.coef[1]);
        return Constraint::CoordinateCoupler(matter, f, mb, qi);
    }
    case CT_SpeedCouplerLinear: {
        Array_<MobilizedBodyIndex> mb; Array_<MobilizerUIndex> ui;
        for (size_t i = 0; i < cs.cb.size(); ++i) { mb.push_back(B.body(cs.cb[i]).getMobilizedBodyIndex()); ui.push_back(MobilizerUIndex(cs.ci[i])); }
        Vector co((int)cs.coef.size()); for (int i = 0; i < co.size(); ++i) co[i] = cs.coef[i];
        return Constraint::SpeedCoupler(matter, new Function::Linear(co), mb, ui);
    }
    case CT_PrescribedMotionC: {
        Vector co(2); co[0] = cs.coef[0]; co[1] = cs.coef[1];   // q = a*t + c
        return Constraint::PrescribedMotion(matter, new Function::Linear(co), b1.getMobilizedBodyIndex(), MobilizerQIndex(cs.ci[0]));
    }
    }
    throw std::logic_error("bad constraint type");
}

template <int N> inline Vec<N> toVec(const double* a) { Vec<N> v; for (int i = 0; i < N; ++i) v[i] = a[i]; return v; }

inline Motion makeMotion(Built& B, int node, const MotSpec& sp, int nuHint) {
    MobilizedBody& mb = B.m.bodies[node];
    switch (sp.kind) {
    case MK_SteadyScalar: return Motion::Steady(mb, sp.a[0]);
    case MK_SteadyVec:
        switch (nuHint) {
        case 1: return Motion::Steady(mb, toVec<1>(sp.a)); case 2: return Motion::Steady(mb, toVec<2>(sp.a));
        case 3: return Motion::Steady(mb, toVec<3>(sp.a)); case 4: return Motion::Steady(mb, toVec<4>(sp.a));
        case 5: return Motion::Steady(mb, toVec<5>(sp.a)); default: return Motion::Steady(mb, toVec<6>(sp.a));
        }
    case MK_Sinusoid: return Motion::Sinusoid(mb, sp.level, sp.amp, sp.rate, sp.phase);
    case MK_Custom: case MK_CustomZero: case MK_CustomDiscrete: {
        HMotion* h = new HMotion; h->sp = sp; h->matter = &B.m.matter; h->mbx = mb.getMobilizedBodyIndex();
        return Motion::Custom(mb, h);
    }
    }
    return Motion();
}

// number of mobilities by type (independent of a State; needed before realizeTopology)
inline int mobNU(int t) {
    switch (t) {
    case MT_Pin: case MT_Slider: case MT_Screw: return 1;
    case MT_Universal: case MT_Cylinder: case MT_BendStretch: case MT_LineOrientation: return 2;
    case MT_Planar: case MT_Gimbal: case MT_Ball: case MT_Translation: case MT_SphericalCoords: case MT_Ellipsoid: case MT_CantileverFreeBeam: return 3;
    case MT_FreeLine: return 5;
    case MT_Bushing: case MT_Free: return 6;
    default: return 0;
    }
}

// Build desc + (optional) motions/default locks + constraints + gravity + a DiscreteForces element.
inline void buildSys(Built& B, const ModelDesc& d, const std::vector<MotSpec>* mots, const std::vector<ConSpec>& cons, const Vec3& gravity) {
    B.m.build(d);
    B.motions.assign(d.nodes.size(), Motion());
    if (mots) {
        B.mots = *mots;
        for (size_t k = 0; k < d.nodes.size(); ++k) {
            const MotSpec& sp = (*mots)[k];
            if (sp.kind != MK_None) B.motions[k] = makeMotion(B, (int)k, sp, mobNU(d.nodes[k].type));
            if (sp.lockDefault != Motion::NoLevel) B.m.bodies[k].lockByDefault(sp.lockDefault);
        }
    } else B.mots.assign(d.nodes.size(), MotSpec());
    B.cspecs = cons;
    for (auto& cs : cons) B.cons.push_back(makeConstraint(B, cs));
    if (gravity.norm() > 0) Force::UniformGravity(B.m.forces, B.m.matter, gravity);
    B.disc = new Force::DiscreteForces(B.m.forces, B.m.matter);
}

// apply the dynamic locks of the specs to a State whose q,u are already set
inline void applyDynamicLocks(const Built& B, State& s) {
    for (size_t k = 0; k < B.mots.size(); ++k) {
        const MotSpec& sp = B.mots[k]; if (sp.lockKind == LK_None) continue;
        const MobilizedBody& mb = B.m.bodies[k];
        int n = (sp.lockLevel == Motion::Position) ? mb.getNumQ(s) : mb.getNumU(s);
        switch (sp.lockKind) {
        case LK_Lock: mb.lock(s, sp.lockLevel); break;
        case LK_LockAtScalar: mb.lockAt(s, sp.lockVal[0], sp.lockLevel); break;
        case LK_LockAtVector: { Vector v(n); for (int i = 0; i < n; ++i) v[i] = sp.lockVal[i]; mb.lockAt(s, v, sp.lockLevel); break; }
        case LK_LockAtVec:
            switch (n) {
            case 1: mb.lockAt(s, toVec<1>(sp.lockVal), sp.lockLevel); break; case 2: mb.lockAt(s, toVec<2>(sp.lockVal), sp.lockLevel); break;
            case 3: mb.lockAt(s, toVec<3>(sp.lockVal), sp.lockLevel); break; case 4: mb.lockAt(s, toVec<4>(sp.lockVal), sp.lockLevel); break;
            case 5: mb.lockAt(s, toVec<5>(sp.lockVal), sp.lockLevel); break; case 6: mb.lockAt(s, toVec<6>(sp.lockVal), sp.lockLevel); break;
            case 7: mb.lockAt(s, toVec<7>(sp.lockVal), sp.lockLevel); break;
            }
            break;
        }
    }
}

// ------------------------------------------------------------------ constraint generator
struct ConGenOpts {
    std::vector<int> types;            // allowed; empty = all holonomic+nonholonomic
    std::vector<char> nodeBlocked;     // nodes whose coordinates must not be constrained directly (prescribed ones)
    double t0 = 0;
};

inline Transform poseOf(const Built& R, const State& s, int node) { return node < 0 ? Transform() : R.m.bodies[node].getBodyTransform(s); }

// Generate one constraint spec satisfied at the reference state 'sr' (realized to Velocity) of 'R'.
// Returns false if no valid placement was found.
inline bool genConstraint(Rng& r, const Built& R, const State& sr, const ConGenOpts& o, ConSpec& cs) {
    const ModelDesc& d = R.m.desc; int nn = (int)d.nodes.size();
    std::vector<int> types = o.types;
    if (types.empty()) for (int t = 0; t < CT_ConstantAcceleration; ++t) types.push_back(t);
    for (int attempt = 0; attempt < 12; ++attempt) {
        cs = ConSpec(); cs.type = types[r.next() % types.size()];
        // body pair
        cs.b1 = r.integer(-1, nn - 1); cs.b2 = r.integer(-1, nn - 1);
        if (nn == 1) { cs.b1 = -1; cs.b2 = 0; if (r.coin()) std::swap(cs.b1, cs.b2); }
        auto isBlocked = [&](int node) { return node >= 0 && node < (int)o.nodeBlocked.size() && o.nodeBlocked[node]; };
        // coordinate candidates
        std::vector<std::pair<int, int>> qc, uc;
        for (int k = 0; k < nn; ++k) {
            if (isBlocked(k)) continue;
            const MobilizedBody& mb = R.m.bodies[k];
            bool quat = mobHasQuat(d.nodes[k].type) && !d.euler;
            int nq = mb.getNumQ(sr), nu = mb.getNumU(sr);
            for (int i = quat ? 4 : 0; i < nq; ++i) qc.push_back({k, i});
            for (int i = 0; i < nu; ++i) uc.push_back({k, i});
        }
        int t = cs.type;
        bool bodyType = t <= CT_ConstantOrientation || t == CT_NoSlip1D;
        if (bodyType && cs.b1 == cs.b2) continue;
        Transform X1 = poseOf(R, sr, cs.b1), X2 = poseOf(R, sr, cs.b2);
        switch (t) {
        case CT_Rod: {
            cs.p1 = randVec3(r, 0.8); cs.p2 = randVec3(r, 0.8);
            double L = (X1 * cs.p1 - X2 * cs.p2).norm(); if (L < 0.25) continue; cs.val = L; return true; }
        case CT_Ball: cs.p1 = randVec3(r, 0.8); cs.p2 = ~X2 * (X1 * cs.p1); return true;
        case CT_Weld: cs.X1 = randFrame(r, 2); cs.X2 = ~X2 * (X1 * cs.X1); return true;
        case CT_PointInPlane: { cs.n1 = Vec3(randUnit(r)); cs.p2 = randVec3(r, 0.8); Vec3 pB = ~X1 * (X2 * cs.p2); cs.val = dot(cs.n1, pB); return true; }
        case CT_PointOnLine: { cs.n1 = Vec3(randUnit(r)); cs.p2 = randVec3(r, 0.8); Vec3 pB = ~X1 * (X2 * cs.p2); cs.p1 = pB - r.sym(1.0) * cs.n1; return true; }
        case CT_ConstantAngle: {
            cs.n1 = Vec3(randUnit(r)); cs.n2 = Vec3(randUnit(r));
            double cth = dot(X1.R() * cs.n1, X2.R() * cs.n2); if (std::fabs(cth) > 0.9) continue;
            cs.val = std::acos(cth); return true; }
        case CT_ConstantOrientation: { cs.R1 = randRotation(r); cs.R2 = ~X2.R() * (X1.R() * cs.R1); return true; }
        case CT_ConstantCoordinate: {
            if (qc.empty()) continue; auto pc = qc[r.next() % qc.size()];
            cs.b1 = pc.first; cs.b2 = -1; cs.ci = {pc.second}; cs.cb = {pc.first};
            cs.val = R.m.bodies[pc.first].getOneQ(sr, pc.second); return true; }
        case CT_PrescribedMotionC: {
            if (qc.empty()) continue; auto pc = qc[r.next() % qc.size()];
            cs.b1 = pc.first; cs.b2 = -1; cs.ci = {pc.second}; cs.cb = {pc.first};
            double a = r.sym(1.5); cs.coef = {a, R.m.bodies[pc.first].getOneQ(sr, pc.second) - a * o.t0}; return true; }
        case CT_CouplerLinear: {
            if (qc.size() < 2) continue; int n = std::min<int>((int)qc.size(), r.integer(2, 3));
            std::vector<std::pair<int, int>> pick = qc; for (int i = 0; i < n; ++i) std::swap(pick[i], pick[i + r.next() % (pick.size() - i)]);
            double c0 = 0;
            for (int i = 0; i < n; ++i) { cs.cb.push_back(pick[i].first); cs.ci.push_back(pick[i].second); double a = (r.coin() ? 1 : -1) * r.uni(0.3, 2.0); cs.coef.push_back(a); c0 -= a * R.m.bodies[pick[i].first].getOneQ(sr, pick[i].second); }
            cs.coef.push_back(c0); cs.b1 = cs.b2 = -1; return true; }
        case CT_CouplerQuadratic: {
            if (qc.size() < 2) continue; size_t i0 = r.next() % qc.size(), i1 = r.next() % qc.size(); if (i0 == i1) continue;
            cs.cb = {qc[i0].first, qc[i1].first}; cs.ci = {qc[i0].second, qc[i1].second};
            double k = r.sym(0.8), q0 = R.m.bodies[qc[i0].first].getOneQ(sr, qc[i0].second), q1 = R.m.bodies[qc[i1].first].getOneQ(sr, qc[i1].second);
            cs.coef = {k, q0 - k * q1 * q1}; cs.b1 = cs.b2 = -1; return true; }
        case CT_ConstantSpeed: case CT_ConstantAcceleration: {
            if (uc.empty()) continue; auto pc = uc[r.next() % uc.size()];
            cs.b1 = pc.first; cs.b2 = -1; cs.ci = {pc.second}; cs.cb = {pc.first}; cs.val = r.sym(1.5); return true; }
        case CT_SpeedCouplerLinear: {
            if (uc.size() < 2) continue; int n = std::min<int>((int)uc.size(), r.integer(2, 3));
            std::vector<std::pair<int, int>> pick = uc; for (int i = 0; i < n; ++i) std::swap(pick[i], pick[i + r.next() % (pick.size() - i)]);
            for (int i = 0; i < n; ++i) { cs.cb.push_back(pick[i].first); cs.ci.push_back(pick[i].second); cs.coef.push_back((r.coin() ? 1 : -1) * r.uni(0.3, 2.0)); }
            cs.coef.push_back(r.sym(1.0)); cs.b1 = cs.b2 = -1; return true; }
        case CT_NoSlip1D: {
            cs.b3 = r.integer(-1, nn - 1); cs.p1 = randVec3(r, 0.8); cs.n1 = Vec3(randUnit(r)); return true; }
        }
    }
    return false;
}

// ------------------------------------------------------------------ small dense helpers
// residual of projecting y onto span(columns of A) — modified Gram-Schmidt with
// re-orthogonalisation; columns below dropTol*max are dropped. Returns ||r||_2; rank out.
inline double rangeResidual(const std::vector<std::vector<double>>& cols, std::vector<double> y, int* rankOut = nullptr, double* minPivotRatio = nullptr, double scale = 0) {
    size_t n = y.size(); std::vector<std::vector<double>> Q;
    double maxn = scale; for (auto& c : cols) { double s = 0; for (double x : c) s += x * x; maxn = std::max(maxn, std::sqrt(s)); }
    double minratio = 1;
    for (auto c : cols) {
        double n0 = 0; for (double x : c) n0 += x * x; n0 = std::sqrt(n0);
        for (int pass = 0; pass < 2; ++pass)
            for (auto& q : Q) { double dd = 0; for (size_t i = 0; i < n; ++i) dd += q[i] * c[i]; for (size_t i = 0; i < n; ++i) c[i] -= dd * q[i]; }
        double nn = 0; for (double x : c) nn += x * x; nn = std::sqrt(nn);
        if (!(nn > 1e-9 * maxn) || !(nn > 1e-9 * n0)) { minratio = 0; continue; }
        minratio = std::min(minratio, nn / maxn);
        for (double& x : c) x /= nn; Q.push_back(c);
    }
    for (int pass = 0; pass < 2; ++pass)
        for (auto& q : Q) { double dd = 0; for (size_t i = 0; i < n; ++i) dd += q[i] * y[i]; for (size_t i = 0; i < n; ++i) y[i] -= dd * q[i]; }
    if (rankOut) *rankOut = (int)Q.size();
    if (minPivotRatio) *minPivotRatio = minratio;
    double s = 0; for (double x : y) s += x * x; return std::sqrt(s);
}
inline double vnorm2(const std::vector<double>& v) { double s = 0; for (double x : v) s += x * x; return std::sqrt(s); }

} // namespace vh
