// rotation_c27_algebra.h — included INSIDE c27::Battery<P>: composition, inversion,
// re-expression of Rotation / InverseRotation / Transform / InverseTransform / UnitVec,
// CoordinateAxis algebra.

    // ---------------------------------------------------------------- H. rotations as matrices
    void rotationAlgebra(const Rot& R1, const Rot& R2) {
        c.setPhase("C27 rotation algebra");
        const M3 A = toM(R1), B = toM(R2), At = rr::tr(A), Bt = rr::tr(B);
        k.inputs("R1 diag,R2 diag", {(double)A.m[0][0], (double)A.m[1][1], (double)A.m[2][2], (double)B.m[0][0], (double)B.m[1][1], (double)B.m[2][2]});
        k.cover("rotationAlgebra");
        const LD t = k.tol;
        k.sameM("compose", "R*R", toM(R1 * R2), rr::mul(A, B), t);
        k.sameM("compose", "R*~R", toM(R1 * ~R2), rr::mul(A, Bt), t);
        k.sameM("compose", "~R*R", toM(~R1 * R2), rr::mul(At, B), t);
        k.sameM("compose", "~R*~R", toM(~R1 * ~R2), rr::mul(At, Bt), t);
        k.sameM("compose", "R/R", toM(R1 / R2), rr::mul(A, Bt), t);
        k.sameM("compose", "~R/R", toM(~R1 / R2), rr::mul(At, Bt), t);
        k.sameM("compose", "~R/~R", toM(~R1 / ~R2), rr::mul(At, B), t);
        { Rot X(R1); X *= R2; k.sameM("compose", "R*=R", toM(X), rr::mul(A, B), t); }
        { Rot X(R1); X *= ~R2; k.sameM("compose", "R*=~R", toM(X), rr::mul(A, Bt), t); }
        { Rot X(R1); X /= R2; k.sameM("compose", "R/=R", toM(X), rr::mul(A, Bt), t); }
        { Rot X(R1); X /= ~R2; k.sameM("compose", "R/=~R", toM(X), rr::mul(A, B), t); }
        k.proper("R*R", toM(R1 * R2), 2);
        // inversion
        k.sameM("invert", "~R", toM(~R1), At, 0);
        k.sameM("invert", "invert()", toM(R1.invert()), At, 0);
        k.sameM("invert", "transpose()", toM(R1.transpose()), At, 0);
        k.sameM("invert", "~~R", toM(~(~R1)), A, 0);
        { Rot X(~R1); k.sameM("invert", "Rotation(InverseRotation)", toM(X), At, 0); }
        { Rot X; X = ~R1; k.sameM("invert", "Rotation=InverseRotation", toM(X), At, 0); }
        { Rot X(R1); X.updInvert() = R2.invert(); k.sameM("invert", "updInvert()=", toM(X), B, 0); }
        { IRot Y(~R1); k.sameM("invert", "InverseRotation copy", toM(Y), At, 0); IRot Z; Z = Y; k.sameM("invert", "InverseRotation assign", toM(Z), At, 0);
          IRot D; k.sameM("invert", "InverseRotation default", toM(D), rr::ident(), 0); }
        k.sameM("compose", "R*~R=I", toM(R1 * ~R1), rr::ident(), 2 * t);
        // accessors
        for (int i = 0; i < 3; ++i) {
            k.sameV("access", "row(i)", toV(Vec3P(R1.row(i)[0], R1.row(i)[1], R1.row(i)[2])), rr::row(A, i), 0);
            k.sameV("access", "col(j)", toV(Vec3P(R1.col(i)[0], R1.col(i)[1], R1.col(i)[2])), rr::col(A, i), 0);
            k.sameV("access", "operator[]", toV(Vec3P(R1[i][0], R1[i][1], R1[i][2])), rr::row(A, i), 0);
            k.sameV("access", "operator()", toV(Vec3P(R1(i)[0], R1(i)[1], R1(i)[2])), rr::col(A, i), 0);
            k.sameV("access", "getAxisUnitVec(axis)", toV(Vec3P(R1.getAxisUnitVec(AX(i)))), rr::col(A, i), 0);
            k.sameV("access", "getAxisUnitVec(+dir)", toV(R1.getAxisUnitVec(CoordinateDirection(AX(i), 1)).asVec3()), rr::col(A, i), 0);
            k.sameV("access", "getAxisUnitVec(-dir)", toV(R1.getAxisUnitVec(CoordinateDirection(AX(i), -1)).asVec3()), -rr::col(A, i), 0);
            const IRot& Ri = ~R1;
            k.sameV("access", "inv.row(i)", toV(Vec3P(Ri.row(i)[0], Ri.row(i)[1], Ri.row(i)[2])), rr::row(At, i), 0);
            k.sameV("access", "inv.col(j)", toV(Vec3P(Ri.col(i)[0], Ri.col(i)[1], Ri.col(i)[2])), rr::col(At, i), 0);
            k.sameV("access", "inv.getAxisUnitVec(axis)", toV(Vec3P(Ri.getAxisUnitVec(AX(i)))), rr::col(At, i), 0);
            k.sameV("access", "inv.getAxisUnitVec(-dir)", toV(Ri.getAxisUnitVec(CoordinateDirection(AX(i), -1)).asVec3()), -rr::col(At, i), 0);
        }
        k.sameV("access", "x()", toV(Vec3P(R1.x())), rr::col(A, 0), 0);
        k.sameV("access", "y()", toV(Vec3P(R1.y())), rr::col(A, 1), 0);
        k.sameV("access", "z()", toV(Vec3P(R1.z())), rr::col(A, 2), 0);
        k.sameV("access", "inv.x()", toV(Vec3P((~R1).x())), rr::col(At, 0), 0);
        k.sameV("access", "inv.y()", toV(Vec3P((~R1).y())), rr::col(At, 1), 0);
        k.sameV("access", "inv.z()", toV(Vec3P((~R1).z())), rr::col(At, 2), 0);
        k.sameM("access", "toMat33()", toM(R1.toMat33()), A, 0);
        k.sameM("access", "inv.toMat33()", toM((~R1).toMat33()), At, 0);
        // re-expression of vectors and unit vectors
        const LD sc = (LD)r.logUni(1e-3, 1e3);
        const Vec3P v = toVecP<P>(sc * rr::randUnit(r));
        const V3 vL = toV(v); const LD vs = rr::maxAbs(vL);
        k.sameV("reexpress", "R*v", toV(R1 * v), rr::mulv(A, vL), t * vs);
        k.sameV("reexpress", "~R*v", toV(~R1 * v), rr::mulv(At, vL), t * vs);
        k.sameV("reexpress", "row*R", toV(~v * R1), rr::mulv(At, vL), t * vs);
        k.sameV("reexpress", "row*~R", toV(~v * ~R1), rr::mulv(A, vL), t * vs);
        const UVec u(toVecP<P>(rr::randUnit(r)));
        const V3 uL = toV(u.asVec3());
        { UVec w = R1 * u; k.sameV("reexpress", "R*UnitVec", toV(w.asVec3()), rr::mulv(A, uL), t);
          k.num(k.key("unitvec", "R*UnitVec.norm"), fabsl(rr::norm(toV(w.asVec3())) - 1), t, [&] { return k.wit(); }); }
        { UVec w = ~R1 * u; k.sameV("reexpress", "~R*UnitVec", toV(w.asVec3()), rr::mulv(At, uL), t); }
        { UnitRow<P, 1> w = ~u * R1; k.sameV("reexpress", "UnitRow*R", toV(w.asRow3()), rr::mulv(At, uL), t); }
        { UnitRow<P, 1> w = ~u * ~R1; k.sameV("reexpress", "UnitRow*~R", toV(w.asRow3()), rr::mulv(A, uL), t); }
        // re-expression of symmetric dyadics: S_AA = R S_BB R^T
        const LD ss = (LD)r.logUni(1e-3, 1e3);
        SymMat<3, P> S((P)(ss * r.sym(1)), (P)(ss * r.sym(1)), (P)(ss * r.sym(1)), (P)(ss * r.sym(1)), (P)(ss * r.sym(1)), (P)(ss * r.sym(1)));
        const M3 Sm = toM(S);
        k.sameM("reexpress", "Rotation.reexpressSymMat33", toM(R1.reexpressSymMat33(S)), rr::mul(A, rr::mul(Sm, At)), 4 * t * rr::maxAbs(Sm));
        k.sameM("reexpress", "InverseRotation.reexpressSymMat33", toM((~R1).reexpressSymMat33(S)), rr::mul(At, rr::mul(Sm, A)), 4 * t * rr::maxAbs(Sm));
        // comparison helpers
        const LD phi = (LD)r.logUni(1e-6, 0.5);
        const Rot R3 = rotP<P>(rr::mul(A, rr::expSO3(phi * rr::randUnit(r))));
        if (phi > 1e4 * k.eps) {
            k.req(k.key("query", "isSameRotationToWithinAngle.true"), R1.isSameRotationToWithinAngle(R3, (P)(2 * phi)), [&] { return k.wit().set("phi", (double)phi); });
            k.req(k.key("query", "isSameRotationToWithinAngle.false"), !R1.isSameRotationToWithinAngle(R3, (P)(phi / 2)), [&] { return k.wit().set("phi", (double)phi); });
        }
        k.req(k.key("query", "isSameRotationToWithinAngleOfMachinePrecision(self)"), R1.isSameRotationToWithinAngleOfMachinePrecision(R1), [&] { return k.wit(); });
        const LD md = rr::maxAbsDiff(A, toM(R3));
        k.sameS("query", "getMaxAbsDifferenceInRotationElements", R1.getMaxAbsDifferenceInRotationElements(R3), md, 4 * k.eps);
        k.req(k.key("query", "areAllRotationElementsSameToEpsilon"), R1.areAllRotationElementsSameToEpsilon(R3, (P)(2 * md)) && (md == 0 || !R1.areAllRotationElementsSameToEpsilon(R3, (P)(md / 2))), [&] { return k.wit(); });
        k.req(k.key("query", "areAllRotationElementsSameToMachinePrecision(self)"), R1.areAllRotationElementsSameToMachinePrecision(R1), [&] { return k.wit(); });
    }

    // ---------------------------------------------------------------- I. transforms as 4x4 matrices
    struct X4 { M3 R; V3 p; };
    static X4 x4mul(const X4& a, const X4& b) { X4 r; r.R = rr::mul(a.R, b.R); r.p = a.p + rr::mulv(a.R, b.p); return r; }
    static X4 x4inv(const X4& a) { X4 r; r.R = rr::tr(a.R); r.p = -rr::mulv(r.R, a.p); return r; }
    static X4 toX(const Xf& X) { X4 r; r.R = toM(X.R()); r.p = toV(X.p()); return r; }
    void sameX(const std::string& api, const Xf& got, const X4& want, LD ps) {
        k.sameM("xform", api + ".R", toM(got.R()), want.R, 2 * k.tol);
        k.sameV("xform", api + ".p", toV(got.p()), want.p, 2 * k.tol * ps);
    }
    void transforms(const Rot& R1, const Rot& R2) {
        c.setPhase("C27 transforms");
        const LD s1 = (LD)r.logUni(1e-3, 1e3), s2 = (LD)r.logUni(1e-3, 1e3);
        const Vec3P p1 = toVecP<P>(s1 * rr::randUnit(r)), p2 = toVecP<P>(s2 * rr::randUnit(r));
        const Xf X1(R1, p1), X2(R2, p2);
        const X4 a = toX(X1), b = toX(X2), ai = x4inv(a), bi = x4inv(b);
        const LD ps = rr::maxAbs(a.p) + rr::maxAbs(b.p);
        k.inputs("p1,p2", {(double)p1[0], (double)p1[1], (double)p1[2], (double)p2[0], (double)p2[1], (double)p2[2]});
        k.cover("transforms");
        sameX("X*X", X1 * X2, x4mul(a, b), ps);
        sameX("X*~X", X1 * ~X2, x4mul(a, bi), ps);
        sameX("~X*X", ~X1 * X2, x4mul(ai, b), ps);
        sameX("~X*~X", ~X1 * ~X2, x4mul(ai, bi), ps);
        sameX("X.compose(X)", X1.compose(X2), x4mul(a, b), ps);
        sameX("X.compose(~X)", X1.compose(~X2), x4mul(a, bi), ps);
        sameX("~X.compose(X)", (~X1).compose(X2), x4mul(ai, b), ps);
        sameX("~X.compose(~X)", (~X1).compose(~X2), x4mul(ai, bi), ps);
        sameX("X*~X=I", X1 * ~X1, X4{rr::ident(), rr::mk(0, 0, 0)}, ps);
        k.proper("X*X.R", toM((X1 * X2).R()), 2);
        // inversion and conversion
        { Xf Y(~X1); sameX("Transform(InverseTransform)", Y, ai, ps); }
        { Xf Y; Y = ~X1; sameX("Transform=InverseTransform", Y, ai, ps); }
        { IXf Z; Z = X1; sameX("InverseTransform=Transform", Xf(Z), a, ps); sameX("~(InverseTransform=Transform)", ~Z, ai, ps); }
        { const IXf& Z = ~X1;
          k.sameM("xform", "inv.R()", toM(Z.R()), ai.R, 0); k.sameV("xform", "inv.p()", toV(Z.p()), ai.p, 2 * k.tol * ps);
          k.sameM("xform", "inv.RInv()", toM(Z.RInv()), a.R, 0); k.sameV("xform", "inv.pInv()", toV(Z.pInv()), a.p, 0);
          k.sameV("xform", "inv.T()", toV(Z.T()), ai.p, 2 * k.tol * ps);
          k.sameV("xform", "inv.x()", toV(Vec3P(Z.x())), rr::col(ai.R, 0), 0); k.sameV("xform", "inv.y()", toV(Vec3P(Z.y())), rr::col(ai.R, 1), 0); k.sameV("xform", "inv.z()", toV(Vec3P(Z.z())), rr::col(ai.R, 2), 0);
          k.sameM("xform", "inv.toMat34.R", toM(Z.toMat34().template getSubMat<3, 3>(0, 0)), ai.R, 0); }
        k.sameM("xform", "RInv()", toM(X1.RInv()), ai.R, 0);
        k.sameV("xform", "pInv()", toV(X1.pInv()), ai.p, 2 * k.tol * ps);
        k.sameV("xform", "T()", toV(X1.T()), a.p, 0);
        k.sameV("xform", "x()", toV(Vec3P(X1.x())), rr::col(a.R, 0), 0); k.sameV("xform", "y()", toV(Vec3P(X1.y())), rr::col(a.R, 1), 0); k.sameV("xform", "z()", toV(Vec3P(X1.z())), rr::col(a.R, 2), 0);
        { Xf Y(R1); Y.setPInv(p2); sameX("setPInv", Y, x4inv(X4{rr::tr(a.R), b.p}), ps); }
        { Xf Y(X1); IXf& Z = ~Y; Z.setP(p2); sameX("inv.setP", Xf(Z), X4{ai.R, b.p}, ps); Z.setPInv(p2); sameX("inv.setPInv", Y, X4{a.R, b.p}, ps); }
        { Xf Y; Y.set(R2, p1); sameX("set(R,p)", Y, X4{b.R, a.p}, ps); Y.setP(p2); sameX("setP", Y, b, ps); Y.updR() = R1; Y.updP() = p1; sameX("updR/updP", Y, a, ps);
          Y.setToZero(); sameX("setToZero", Y, X4{rr::ident(), rr::mk(0, 0, 0)}, ps); }
        { Xf D; sameX("default ctor", D, X4{rr::ident(), rr::mk(0, 0, 0)}, ps); Xf E(p1); sameX("Transform(p)", E, X4{rr::ident(), a.p}, ps); Xf F(R1); sameX("Transform(R)", F, X4{a.R, rr::mk(0, 0, 0)}, ps); }
        // action on stations and vectors
        const LD s3 = (LD)r.logUni(1e-3, 1e3);
        const Vec3P s = toVecP<P>(s3 * rr::randUnit(r));
        const V3 sL = toV(s); const LD ss = ps + rr::maxAbs(sL);
        k.sameV("xform", "X*station", toV(X1 * s), a.p + rr::mulv(a.R, sL), 2 * k.tol * ss);
        k.sameV("xform", "~X*station", toV(~X1 * s), ai.p + rr::mulv(ai.R, sL), 2 * k.tol * ss);
        k.sameV("xform", "shiftFrameStationToBase", toV(X1.shiftFrameStationToBase(s)), a.p + rr::mulv(a.R, sL), 2 * k.tol * ss);
        k.sameV("xform", "shiftBaseStationToFrame", toV(X1.shiftBaseStationToFrame(s)), ai.p + rr::mulv(ai.R, sL), 2 * k.tol * ss);
        k.sameV("xform", "xformFrameVecToBase", toV(X1.xformFrameVecToBase(s)), rr::mulv(a.R, sL), 2 * k.tol * ss);
        k.sameV("xform", "xformBaseVecToFrame", toV(X1.xformBaseVecToFrame(s)), rr::mulv(ai.R, sL), 2 * k.tol * ss);
        k.sameV("xform", "inv.shiftFrameStationToBase", toV((~X1).shiftFrameStationToBase(s)), ai.p + rr::mulv(ai.R, sL), 2 * k.tol * ss);
        k.sameV("xform", "inv.shiftBaseStationToFrame", toV((~X1).shiftBaseStationToFrame(s)), a.p + rr::mulv(a.R, sL), 2 * k.tol * ss);
        k.sameV("xform", "inv.xformFrameVecToBase", toV((~X1).xformFrameVecToBase(s)), rr::mulv(ai.R, sL), 2 * k.tol * ss);
        k.sameV("xform", "inv.xformBaseVecToFrame", toV((~X1).xformBaseVecToFrame(s)), rr::mulv(a.R, sL), 2 * k.tol * ss);
        k.sameV("xform", "X*(-station)", toV(X1 * (-s)), a.p - rr::mulv(a.R, sL), 2 * k.tol * ss);
        { Vec4P h1(s[0], s[1], s[2], 1), h0(s[0], s[1], s[2], 0);
          Vec4P o1 = X1 * h1, o0 = X1 * h0, i1 = ~X1 * h1, i0 = ~X1 * h0;
          k.sameV("xform", "X*Vec4(w=1)", rr::mk(o1[0], o1[1], o1[2]), a.p + rr::mulv(a.R, sL), 2 * k.tol * ss);
          k.sameV("xform", "X*Vec4(w=0)", rr::mk(o0[0], o0[1], o0[2]), rr::mulv(a.R, sL), 2 * k.tol * ss);
          k.sameV("xform", "~X*Vec4(w=1)", rr::mk(i1[0], i1[1], i1[2]), ai.p + rr::mulv(ai.R, sL), 2 * k.tol * ss);
          k.sameV("xform", "~X*Vec4(w=0)", rr::mk(i0[0], i0[1], i0[2]), rr::mulv(ai.R, sL), 2 * k.tol * ss);
          k.req(k.key("xform", "X*Vec4.w"), o1[3] == 1 && o0[3] == 0 && i1[3] == 1 && i0[3] == 0, [&] { return k.wit(); }); }
        // homogeneous forms
        { Mat<4, 4, P> H = X1.toMat44(), Hi = (~X1).toMat44();
          k.sameM("xform", "toMat44.R", toM(H.template getSubMat<3, 3>(0, 0)), a.R, 0);
          k.sameV("xform", "toMat44.p", rr::mk(H(0, 3), H(1, 3), H(2, 3)), a.p, 0);
          k.req(k.key("xform", "toMat44.lastRow"), H(3, 0) == 0 && H(3, 1) == 0 && H(3, 2) == 0 && H(3, 3) == 1 && Hi(3, 0) == 0 && Hi(3, 3) == 1, [&] { return k.wit(); });
          k.sameM("xform", "inv.toMat44.R", toM(Hi.template getSubMat<3, 3>(0, 0)), ai.R, 0);
          k.sameV("xform", "inv.toMat44.p", rr::mk(Hi(0, 3), Hi(1, 3), Hi(2, 3)), ai.p, 2 * k.tol * ps);
          Mat<3, 4, P> G = X1.toMat34(); k.sameV("xform", "toMat34.p", rr::mk(G(0, 3), G(1, 3), G(2, 3)), a.p, 0); k.sameM("xform", "toMat34.R", toM(G.template getSubMat<3, 3>(0, 0)), a.R, 0); }
        // offsets
        { Xf Y = X1 + p2; sameX("X+offset", Y, X4{a.R, a.p + b.p}, ps); Xf Z = p2 + X1; sameX("offset+X", Z, X4{a.R, a.p + b.p}, ps);
          Xf W = X1 - p2; sameX("X-offset", W, X4{a.R, a.p - b.p}, ps); Xf V(X1); V += p2; V -= p2; sameX("X+=,-=", V, a, ps); }
        k.req(k.key("xform", "operator=="), X1 == X1 && !(X1 == X2) && (~X1 == ~X1), [&] { return k.wit(); });
    }

    // ---------------------------------------------------------------- J. unit vectors
    void unitVectors() {
        c.setPhase("C27 unit vectors");
        k.cover("unitVectors");
        for (int rep = 0; rep < 4; ++rep) {
            Vec3P raw; const char* cls;
            switch ((int)((idx + rep) % 6)) {
            case 0: raw = toVecP<P>((LD)r.logUni(1e-6, 1e6) * rr::randUnit(r)); cls = "general"; break;
            case 1: raw = Vec3P(0); raw[(int)(r.next() % 3)] = (P)(r.coin() ? 1 : -1) * (P)r.logUni(1e-3, 1e3); cls = "axis-aligned"; break;
            case 2: raw = Vec3P((P)r.sym(1e-8), (P)r.sym(1e-8), (P)r.sym(1e-8)); raw[(int)(r.next() % 3)] = r.coin() ? 1 : -1; cls = "nearly-axis-aligned"; break;
            case 3: raw = Vec3P(r.coin() ? 1 : -1, r.coin() ? 1 : -1, r.coin() ? 1 : -1); cls = "equal-components"; break;
            case 4: { int z = (int)(r.next() % 3); raw = toVecP<P>(rr::randUnit(r)); raw[z] = 0; if (raw.norm() == 0) raw[(z + 1) % 3] = 1; cls = "in-coordinate-plane"; break; }
            default: { int a = (int)(r.next() % 3); P m = (P)r.uni(0.1, 1); raw = Vec3P(m, m, m); raw[a] = (P)r.sym(1); cls = "two-equal"; break; }
            }
            k.inputs("x,y,z", {(double)raw[0], (double)raw[1], (double)raw[2]});
            c.cover(std::string("UnitVec/") + cls + "/" + k.prec);
            const V3 want = rr::unit(toV(raw));
            const std::string sfx = std::string("/") + cls;
            const UVec u1(raw), u2(raw[0], raw[1], raw[2]);
            k.sameV("unitvec", "UnitVec(Vec3)" + sfx, toV(u1.asVec3()), want, k.tol);
            k.sameV("unitvec", "UnitVec(x,y,z)" + sfx, toV(u2.asVec3()), want, k.tol);
            const UnitRow<P, 1> r1(~raw), r2(raw[0], raw[1], raw[2]);
            k.sameV("unitvec", "UnitRow(Row3)" + sfx, toV(r1.asRow3()), want, k.tol);
            k.sameV("unitvec", "UnitRow(x,y,z)" + sfx, toV(r2.asRow3()), want, k.tol);
            k.sameV("unitvec", "negate" + sfx, toV(u1.negate().asVec3()), -toV(u1.asVec3()), 0);
            k.sameV("unitvec", "operator-" + sfx, toV((-u1).asVec3()), -toV(u1.asVec3()), 0);
            k.sameV("unitvec", "abs" + sfx, toV(u1.abs().asVec3()), rr::mk(fabsl((LD)u1[0]), fabsl((LD)u1[1]), fabsl((LD)u1[2])), 0);
            k.sameV("unitvec", "transpose" + sfx, toV((~u1).asRow3()), toV(u1.asVec3()), 0);
            const UVec p = u1.perp();
            const V3 pl = toV(p.asVec3()), ul = toV(u1.asVec3());
            k.num(k.key("unitvec", "perp.norm" + sfx), fabsl(rr::norm(pl) - 1), k.tol, [&] { return k.witV(pl, ul); });
            k.num(k.key("unitvec", "perp.orthogonal" + sfx), fabsl(rr::dot(pl, ul)), k.tol, [&] { return k.witV(pl, ul); });
            const UnitRow<P, 1> pr = r1.perp();
            const V3 prl = toV(pr.asRow3());
            k.num(k.key("unitvec", "UnitRow.perp.norm" + sfx), fabsl(rr::norm(prl) - 1), k.tol, [&] { return k.witV(prl, ul); });
            k.num(k.key("unitvec", "UnitRow.perp.orthogonal" + sfx), fabsl(rr::dot(prl, ul)), k.tol, [&] { return k.witV(prl, ul); });
            // strided source (a column of a matrix)
            Mat33P M(0); M[1] = ~raw;                       // a row of a Mat33 is a strided vector
            const UVec u4(~M[1]);
            k.sameV("unitvec", "UnitVec(strided Vec3)" + sfx, toV(u4.asVec3()), want, k.tol);
        }
    }

    // ---------------------------------------------------------------- K. coordinate axes (exact integer model)
    void coordinateAxes() {
        c.setPhase("C27 coordinate axes");
        k.cover("coordinateAxes");
        bool ok = true; std::string bad;
        auto fail = [&](const std::string& w) { if (ok) bad = w; ok = false; };
        for (int i = 0; i < 3; ++i) {
            const CoordinateAxis a = AX(i);
            if (int(a) != i) fail("int");
            if (int(a.getNextAxis()) != (i + 1) % 3) fail("getNextAxis");
            if (int(a.getPreviousAxis()) != (i + 2) % 3) fail("getPreviousAxis");
            if (a.isXAxis() != (i == 0) || a.isYAxis() != (i == 1) || a.isZAxis() != (i == 2)) fail("isXYZ");
            const UVec ua(a); const Vec3 e(i == 0, i == 1, i == 2);
            for (int m = 0; m < 3; ++m) if (ua[m] != (P)e[m]) fail("UnitVec(axis)");
            const UVec ui(i); for (int m = 0; m < 3; ++m) if (ui[m] != (P)e[m]) fail("UnitVec(int)");
            for (int j = 0; j < 3; ++j) {
                const CoordinateAxis b = AX(j);
                const int cr[3] = {(i == 1 && j == 2) - (i == 2 && j == 1), (i == 2 && j == 0) - (i == 0 && j == 2), (i == 0 && j == 1) - (i == 1 && j == 0)};
                const int sign = cr[0] + cr[1] + cr[2];
                if (a.isSameAxis(b) != (i == j) || a.isDifferentAxis(b) == (i == j) || (a == b) != (i == j) || (a != b) == (i == j)) fail("isSameAxis");
                if (a.isNextAxis(b) != (j == (i + 1) % 3) || a.isForwardCyclical(b) != (j == (i + 1) % 3)) fail("isNextAxis");
                if (a.isPreviousAxis(b) != (j == (i + 2) % 3) || a.isReverseCyclical(b) != (j == (i + 2) % 3)) fail("isPreviousAxis");
                if (a.dotProduct(b) != (i == j)) fail("dotProduct");
                if (a.crossProductSign(b) != sign) fail("crossProductSign");
                int s2 = 99; const CoordinateAxis ca = a.crossProduct(b, s2);
                if (s2 != sign) fail("crossProduct.sign");
                if (i != j) { if (int(a.getThirdAxis(b)) != 3 - i - j || int(a.crossProductAxis(b)) != 3 - i - j || int(ca) != 3 - i - j) fail("thirdAxis"); }
                else if (int(a.crossProductAxis(b)) != i) fail("crossProductAxis(same)");
                for (int kx = 0; kx < 3; ++kx) {
                    const CoordinateAxis d = AX(kx);
                    if (a.areAllSameAxes(b, d) != (i == j && j == kx)) fail("areAllSameAxes");
                    if (a.areAllDifferentAxes(b, d) != (i != j && j != kx && i != kx)) fail("areAllDifferentAxes");
                }
                for (int si = -1; si <= 1; si += 2) for (int sj = -1; sj <= 1; sj += 2) {
                    const CoordinateDirection da(a, si), db(b, sj);
                    if (da.dotProduct(db) != (i == j ? si * sj : 0)) fail("dir.dotProduct");
                    if (da.crossProductSign(db) != sign * si * sj) fail("dir.crossProductSign");
                    if (da.hasSameAxis(db) != (i == j)) fail("dir.hasSameAxis");
                    if (da.isSameAxisAndDirection(db) != (i == j && si == sj)) fail("dir.isSameAxisAndDirection");
                    if (i != j && int(da.crossProductAxis(db)) != 3 - i - j) fail("dir.crossProductAxis");
                    const UVec ud(da); for (int m = 0; m < 3; ++m) if (ud[m] != (P)(si * e[m])) fail("UnitVec(direction)");
                    if (int(da.getAxis()) != i || da.getDirection() != si) fail("dir.accessors");
                }
            }
        }
        if (!(int(XAxis) == 0 && int(YAxis) == 1 && int(ZAxis) == 2)) fail("constants");
        if (!((-XAxis).getDirection() == -1 && int((-XAxis).getAxis()) == 0 && int(-NegZAxis) == 2 && (-CoordinateDirection(NegYAxis)).getDirection() == 1 && int((-CoordinateDirection(NegYAxis)).getAxis()) == 1 &&
              (+YAxis).getDirection() == 1 && (-AX(1)).getDirection() == -1)) fail("negation");
        k.req("axes:CoordinateAxis/Direction algebra:" + bad, ok, [&] { return Json::obj().set("first failing", bad); });
    }
