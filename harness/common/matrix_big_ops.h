// matrix_big_ops.h — included INSIDE class mx::Engine<B> (see matrix_big.h). Operations of the
// lock-step model. Every op returns false (without side effects) when it is not applicable.

std::string okey(const std::string& op, const Obj& o) const { return op + ":" + typeName(o.t) + ":" + kKindName[o.kind]; }
int randDim() { double u = r.uni(); if (u < 0.08) return 0; if (u < 0.2) return 1; return r.integer(1, maxDim); }
int randT() { return r.coin(0.55) ? 0 : r.integer(0, NT - 1); }

// ---------------------------------------------------------------- owners
bool op_newOwner() {
    int shape = r.integer(0, 2), t = randT();
    int nr = shape == 2 ? 1 : randDim(), nc = shape == 1 ? 1 : randDim();
    if (shape == 0 && nr * nc > 100) nc = std::max(1, 100 / nr);
    int variant = r.integer(0, 4);
    auto ow = newOwnerModel(nr, nc, t);
    const int n = nr * nc;
    std::vector<C> L((size_t)n * K);      // logical values (type t frame)
    C fillv[K]; randEltVals(fillv);
    for (int e = 0; e < n; ++e) for (int k = 0; k < K; ++k) L[(size_t)e * K + k] = (variant == 1) ? fillv[k] : randScalar();
    void* p = nullptr;
    static const char* vn[] = {"dims+element-writes", "dims+init-value", "dims+cpp-array", "default+resize+element-writes", "from-fixed-size"};
    if (variant == 4) { if (shape == 0) { nr = 2; nc = 3; } else if (shape == 1) { nr = 3; nc = 1; } else { nr = 1; nc = 3; }
        ow = newOwnerModel(nr, nc, t); L.resize((size_t)nr * nc * K); for (auto& x : L) x = randScalar(); }
    log("new " + std::string(kKindName[shape * 2]) + "<" + typeName(t) + "> " + std::to_string(nr) + "x" + std::to_string(nc) + " via " + vn[variant]);
    withT(t, [&](auto tt) {
        constexpr int T = decltype(tt)::value; typedef EltT<T> E;
        auto eltOf = [&](int e) { return mkElt<E>(&L[(size_t)e * K]); };
        const E fillE = mkElt<E>(fillv);
        if (shape == 0) {
            Matrix_<E>* m = nullptr;
            if (variant == 0) { m = new Matrix_<E>(nr, nc); for (int j = 0; j < nc; ++j) for (int i = 0; i < nr; ++i) { if (r.coin()) (*m)(i, j) = eltOf(i + j * nr); else m->set(i, j, eltOf(i + j * nr)); } }
            else if (variant == 1) m = new Matrix_<E>(nr, nc, fillE);
            else if (variant == 2) { std::vector<E> a((size_t)std::max(1, nr * nc)); for (int i = 0; i < nr; ++i) for (int j = 0; j < nc; ++j) a[(size_t)i * nc + j] = eltOf(i + j * nr); m = new Matrix_<E>(nr, nc, a.data()); }
            else if (variant == 3) { m = new Matrix_<E>(); m->resize(nr, nc); for (int j = 0; j < nc; ++j) for (int i = 0; i < nr; ++i) m->updElt(i, j) = eltOf(i + j * nr); }
            else { Mat<2, 3, E> f; for (int i = 0; i < 2; ++i) for (int j = 0; j < 3; ++j) f(i, j) = eltOf(i + j * 2); m = new Matrix_<E>(f); }
            p = static_cast<MatrixBase<E>*>(m);
        } else if (shape == 1) {
            Vector_<E>* v = nullptr;
            if (variant == 0) { v = new Vector_<E>(nr); for (int i = 0; i < nr; ++i) { if (r.coin()) (*v)[i] = eltOf(i); else v->set(i, eltOf(i)); } }
            else if (variant == 1) v = new Vector_<E>(nr, fillE);
            else if (variant == 2) { std::vector<E> a((size_t)std::max(1, nr)); for (int i = 0; i < nr; ++i) a[i] = eltOf(i); v = new Vector_<E>(nr, a.data()); }
            else if (variant == 3) { v = new Vector_<E>(); v->resize(nr); for (int i = 0; i < nr; ++i) (*v)(i) = eltOf(i); }
            else { Vec<3, E> f; for (int i = 0; i < 3; ++i) f[i] = eltOf(i); v = new Vector_<E>(f); }
            p = static_cast<MatrixBase<E>*>(v);
        } else {
            RowVector_<E>* v = nullptr;
            if (variant == 0) { v = new RowVector_<E>(nc); for (int i = 0; i < nc; ++i) (*v)[i] = eltOf(i); }
            else if (variant == 1) v = new RowVector_<E>(nc, fillE);
            else if (variant == 2) { std::vector<E> a((size_t)std::max(1, nc)); for (int i = 0; i < nc; ++i) a[i] = eltOf(i); v = new RowVector_<E>(nc, a.data()); }
            else if (variant == 3) { v = new RowVector_<E>(); v->resize(nc); for (int i = 0; i < nc; ++i) (*v)(i) = eltOf(i); }
            else { Row<3, E> f; for (int i = 0; i < 3; ++i) f[i] = eltOf(i); v = new RowVector_<E>(f); }
            p = static_cast<MatrixBase<E>*>(v);
        }
    });
    for (size_t s = 0; s < L.size(); ++s) ow->b[s] = toLog(t, L[s]);
    Obj* o = add(shape * 2, t, p, ow, nr, nc, identityMap(nr * nc), true, true, 0, false, shape == 2 ? 1 : -1, shape == 1 ? 1 : -1);
    cover(std::string("new:") + vn[variant], *o);
    compareAll(okey(std::string("new:") + vn[variant], *o), o);
    return true;
}

// objects looking at a harness-owned buffer (documented "view" constructors)
bool op_newExternal() {
    int shape = r.integer(0, 2), t = randT();
    bool writable = r.coin(0.75);
    int m = shape == 0 ? r.integer(0, 8) : r.integer(0, maxDim), n = shape == 0 ? r.integer(0, 8) : 1;
    int gap = r.integer(0, 2), stride = r.integer(1, 3);
    int vectorVariant = r.integer(0, 1);         // 0: (m, data, true)  1: (m, stride, data, true)
    if (shape != 0 && vectorVariant == 0) stride = 1;
    int onr = shape == 0 ? m + gap : std::max(1, m * stride + gap), onc = shape == 0 ? std::max(n, 1) : 1;
    auto ow = newOwnerModel(onr, onc, t); ow->external = true;
    const int cp = Cplx ? 2 : 1;
    ow->raw.assign(ow->b.size() * cp + 2, P(0));
    for (size_t s = 0; s < ow->b.size(); ++s) { C x = randScalar(); ow->b[s] = x; ow->raw[s * cp] = x.real(); if (Cplx) ow->raw[s * cp + 1] = x.imag(); }
    std::vector<int> map; int nr, nc;
    if (shape == 0) { nr = m; nc = n; map.resize((size_t)m * n); for (int j = 0; j < n; ++j) for (int i = 0; i < m; ++i) map[i + j * m] = i + j * onr; }
    else { nr = shape == 1 ? m : 1; nc = shape == 1 ? 1 : m; map.resize(m); for (int i = 0; i < m; ++i) map[i] = i * stride; }
    void* p = nullptr;
    std::string how = shape == 0 ? "Matrix_(m,n,lda,data)" : (vectorVariant == 0 ? "(n,data,true)" : "(n,stride,data,true)");
    log("new external " + std::string(kKindName[shape * 2]) + "<" + typeName(t) + "> " + std::to_string(nr) + "x" + std::to_string(nc) + " " + how +
        (writable ? " writable" : " read-only") + " ld/stride(elts)=" + std::to_string(shape == 0 ? onr : stride));
    withT(t, [&](auto tt) {
        constexpr int T = decltype(tt)::value; typedef EltT<T> E; typedef typename CNT<E>::Scalar S;
        S* data = reinterpret_cast<S*>(ow->raw.data()); const S* cdata = data;
        if (shape == 0) { Matrix_<E>* x = writable ? new Matrix_<E>(m, n, onr * K, data) : new Matrix_<E>(m, n, onr * K, cdata); p = static_cast<MatrixBase<E>*>(x); }
        else if (shape == 1) {
            Vector_<E>* x = vectorVariant == 0 ? (writable ? new Vector_<E>(m, data, true) : new Vector_<E>(m, cdata, true))
                                               : (writable ? new Vector_<E>(m, stride * K, data, true) : new Vector_<E>(m, stride * K, cdata, true));
            p = static_cast<MatrixBase<E>*>(x);
        } else {
            RowVector_<E>* x = vectorVariant == 0 ? (writable ? new RowVector_<E>(m, data, true) : new RowVector_<E>(m, cdata, true))
                                                  : (writable ? new RowVector_<E>(m, stride * K, data, true) : new RowVector_<E>(m, stride * K, cdata, true));
            p = static_cast<MatrixBase<E>*>(x);
        }
    });
    Obj* o = add(shape * 2, t, p, ow, nr, nc, map, writable, false, 0, false, shape == 0 ? -1 : nr, shape == 0 ? -1 : nc);
    cover("new-external:" + how, *o);
    compareAll(okey("new-external:" + how, *o), o);
    return true;
}

// deep copy constructors (same element type or the negated one)
bool op_deepCopy() {
    Obj* s = pickAny(); if (!s) return false;
    bool fromNeg = r.coin(0.3);
    int td = fromNeg ? (s->t ^ 1) : s->t;
    int shape = shapeOf(s->kind);
    bool asMatrix = shape != 0 && r.coin(0.25);       // Matrix_(const MatrixBase&) accepts any shape
    int dshape = asMatrix ? 0 : shape;
    std::vector<C> L = logicalC(*s);
    auto ow = newOwnerModel(s->nr, s->nc, td);
    for (size_t k = 0; k < L.size(); ++k) ow->b[k] = toLog(td, L[k]);
    log("new " + std::string(kKindName[dshape * 2]) + "<" + typeName(td) + "> = deep copy of " + tag(*s));
    void* p = nullptr;
    withT(td, [&](auto tt) {
        constexpr int TD = decltype(tt)::value; typedef EltT<TD> E; constexpr int TS2 = TD ^ 1;
        auto build = [&](const auto& src) {   // src: MatrixBase/VectorBase/RowVectorBase of E or ENeg
            typedef std::decay_t<decltype(src)> SrcT;
            if constexpr (std::is_base_of<VectorBase<typename SrcT::E>, SrcT>::value) {
                if (dshape == 1) { p = static_cast<MatrixBase<E>*>(new Vector_<E>(src)); return; }
            }
            if constexpr (std::is_base_of<RowVectorBase<typename SrcT::E>, SrcT>::value) {
                if (dshape == 2) { p = static_cast<MatrixBase<E>*>(new RowVector_<E>(src)); return; }
            }
            p = static_cast<MatrixBase<E>*>(new Matrix_<E>(static_cast<const MatrixBase<typename SrcT::E>&>(src)));
        };
        if (fromNeg) withShape<TS2>(*s, [&](auto& src) { build(src); });
        else withShape<TD>(*s, [&](auto& src) { build(src); });
    });
    Obj* o = add(dshape * 2, td, p, ow, s->nr, s->nc, identityMap(s->nr * s->nc), true, true, 0, false, s->fixR, s->fixC);
    cover(fromNeg ? "deepcopy-from-negated" : "deepcopy", *s);
    compareAll(okey(fromNeg ? "deepcopy-from-negated" : "deepcopy", *s), o);
    return true;
}

// ---------------------------------------------------------------- views
Obj* addView(Obj& s, int kind, int t, void* p, int nr, int nc, std::vector<int> map, bool writable, bool trans, int fixR, int fixC) {
    return add(kind, t, p, s.own, nr, nc, std::move(map), writable, false, s.depth + 1, trans, fixR, fixC);
}
bool op_viewBlock() {
    Obj* s = pickAny(); if (!s) return false;
    bool cst = r.coin(0.25) || !s->writable;
    int i = r.integer(0, s->nr), j = r.integer(0, s->nc);
    int m = r.integer(0, s->nr - i), n = r.integer(0, s->nc - j);
    if (r.coin(0.15)) { i = 0; j = 0; m = s->nr; n = s->nc; }
    // input class "view with a non-zero offset into an owner that holds no memory" (pointer
    // arithmetic on a null data pointer inside the helper) is generated only on request
    if ((s->own->b.empty() || s->nr * s->nc == 0) && (i || j) && !allowNullOffsetViews) { i = 0; j = 0; m = std::min(m, s->nr); n = std::min(n, s->nc); }
    bool paren = r.coin();
    std::vector<int> map((size_t)m * n);
    for (int jj = 0; jj < n; ++jj) for (int ii = 0; ii < m; ++ii) map[ii + jj * m] = s->map[(i + ii) + (j + jj) * s->nr];
    log("block" + std::string(cst ? " const" : "") + " of " + tag(*s) + " (" + std::to_string(i) + "," + std::to_string(j) + "," + std::to_string(m) + "," + std::to_string(n) + ")");
    void* p = nullptr;
    withT(s->t, [&](auto tt) {
        constexpr int T = decltype(tt)::value; typedef EltT<T> E; MatrixBase<E>& b = asBase<T>(*s); const MatrixBase<E>& cb = b;
        MatrixView_<E>* v = cst ? (paren ? new MatrixView_<E>(cb(i, j, m, n)) : new MatrixView_<E>(cb.block(i, j, m, n)))
                                : (paren ? new MatrixView_<E>(b(i, j, m, n)) : new MatrixView_<E>(b.updBlock(i, j, m, n)));
        p = static_cast<MatrixBase<E>*>(v);
    });
    Obj* o = addView(*s, MV, s->t, p, m, n, map, s->writable && !cst, s->trans, -1, -1);
    std::string cls = (n == 1 ? "block-as-col" : m == 1 ? "block-as-row" : (m == 0 || n == 0) ? "block-empty" : "block");
    cover(cls, *s);
    compareAll("view:" + cls + ":" + kKindName[s->kind] + (IsScalar ? ":scalar-elt" : ":composite-elt"), o);
    return true;
}
bool op_viewRowCol() {
    bool wantRow = r.coin();
    Obj* s = pick([&](const Obj& o) { return wantRow ? o.nr > 0 : o.nc > 0; }); if (!s) return false;
    bool cst = r.coin(0.25) || !s->writable; bool bracket = r.coin();
    int idx = wantRow ? r.integer(0, s->nr - 1) : r.integer(0, s->nc - 1);
    int n = wantRow ? s->nc : s->nr;
    std::vector<int> map(n);
    for (int q = 0; q < n; ++q) map[q] = wantRow ? s->map[idx + q * s->nr] : s->map[q + idx * s->nr];
    log(std::string(wantRow ? "row" : "col") + (cst ? " const" : "") + " " + std::to_string(idx) + " of " + tag(*s));
    void* p = nullptr;
    withT(s->t, [&](auto tt) {
        constexpr int T = decltype(tt)::value; typedef EltT<T> E; MatrixBase<E>& b = asBase<T>(*s); const MatrixBase<E>& cb = b;
        if (wantRow) { RowVectorView_<E>* v = cst ? (bracket ? new RowVectorView_<E>(cb[idx]) : new RowVectorView_<E>(cb.row(idx)))
                                                    : (bracket ? new RowVectorView_<E>(b[idx]) : new RowVectorView_<E>(b.updRow(idx)));
                       p = static_cast<MatrixBase<E>*>(v); }
        else { VectorView_<E>* v = cst ? (bracket ? new VectorView_<E>(cb(idx)) : new VectorView_<E>(cb.col(idx)))
                                       : (bracket ? new VectorView_<E>(b(idx)) : new VectorView_<E>(b.updCol(idx)));
               p = static_cast<MatrixBase<E>*>(v); }
    });
    Obj* o = addView(*s, wantRow ? RV : VV, s->t, p, wantRow ? 1 : n, wantRow ? n : 1, map, s->writable && !cst, s->trans, wantRow ? 1 : -1, wantRow ? -1 : 1);
    cover(wantRow ? "row" : "col", *s);
    compareAll(std::string("view:") + (wantRow ? "row" : "col") + ":" + kKindName[s->kind] + (IsScalar ? ":scalar-elt" : ":composite-elt"), o);
    return true;
}
bool op_viewDiag() {
    Obj* s = pickAny(); if (!s) return false;
    bool cst = r.coin(0.25) || !s->writable;
    int n = std::min(s->nr, s->nc);
    std::vector<int> map(n); for (int q = 0; q < n; ++q) map[q] = s->map[q + q * s->nr];
    log(std::string("diag") + (cst ? " const" : "") + " of " + tag(*s));
    void* p = nullptr;
    withT(s->t, [&](auto tt) {
        constexpr int T = decltype(tt)::value; typedef EltT<T> E; MatrixBase<E>& b = asBase<T>(*s); const MatrixBase<E>& cb = b;
        VectorView_<E>* v = cst ? new VectorView_<E>(cb.diag()) : (r.coin() ? new VectorView_<E>(b.updDiag()) : new VectorView_<E>(b.diag()));
        p = static_cast<MatrixBase<E>*>(v);
    });
    Obj* o = addView(*s, VV, s->t, p, n, 1, map, s->writable && !cst, s->trans, -1, 1);
    cover("diag", *s);
    compareAll(std::string("view:diag:") + kKindName[s->kind] + (IsScalar ? ":scalar-elt" : ":composite-elt"), o);
    return true;
}
bool op_viewTranspose() {
    Obj* s = pickAny(); if (!s) return false;
    bool cst = r.coin(0.25) || !s->writable; bool tilde = r.coin();
    int th = hermOf(s->t);
    std::vector<int> map((size_t)s->nr * s->nc);
    for (int i = 0; i < s->nr; ++i) for (int j = 0; j < s->nc; ++j) map[j + i * s->nc] = s->map[i + j * s->nr];
    log(std::string("transpose") + (cst ? " const" : "") + " of " + tag(*s));
    void* p = nullptr; int kind = MV; int fr = -1, fc = -1;
    withT(s->t, [&](auto tt) {
        constexpr int T = decltype(tt)::value; typedef EltT<T> E; typedef typename CNT<E>::THerm EH;
        static_assert(std::is_same<EH, EltT<(NT == 2 ? T : (T ^ 2))>>::value, "herm type in family");
        int sh = shapeOf(s->kind);
        if (sh == 0) { MatrixBase<E>& b = asBase<T>(*s); const MatrixBase<E>& cb = b;
            MatrixView_<EH>* v = cst ? (tilde ? new MatrixView_<EH>(~cb) : new MatrixView_<EH>(cb.transpose())) : (tilde ? new MatrixView_<EH>(~b) : new MatrixView_<EH>(b.updTranspose()));
            p = static_cast<MatrixBase<EH>*>(v); kind = MV; }
        else if (sh == 1) { VectorBase<E>& b = asVec<T>(*s); const VectorBase<E>& cb = b;
            RowVectorView_<EH>* v = cst ? (tilde ? new RowVectorView_<EH>(~cb) : new RowVectorView_<EH>(cb.transpose())) : (tilde ? new RowVectorView_<EH>(~b) : new RowVectorView_<EH>(b.updTranspose()));
            p = static_cast<MatrixBase<EH>*>(v); kind = RV; fr = 1; }
        else { RowVectorBase<E>& b = asRow<T>(*s); const RowVectorBase<E>& cb = b;
            VectorView_<EH>* v = cst ? (tilde ? new VectorView_<EH>(~cb) : new VectorView_<EH>(cb.transpose())) : (tilde ? new VectorView_<EH>(~b) : new VectorView_<EH>(b.updTranspose()));
            p = static_cast<MatrixBase<EH>*>(v); kind = VV; fc = 1; }
    });
    Obj* o = addView(*s, kind, th, p, s->nc, s->nr, map, s->writable && !cst, !s->trans, fr, fc);
    cover("transpose", *s);
    compareAll(std::string("view:transpose:") + kKindName[s->kind] + (IsScalar ? ":scalar-elt" : ":composite-elt"), o);
    return true;
}
// negate()/unary minus reinterpret the same handle; a new handle on it is made by the (shallow) view copy constructor
bool op_viewNegate() {
    Obj* s = pickAny(); if (!s) return false;
    bool cst = r.coin(0.25) || !s->writable; bool minus = r.coin();
    log(std::string("negate-view") + (cst ? " const" : "") + " of " + tag(*s));
    void* p = nullptr; int kind = MV;
    withT(s->t, [&](auto tt) {
        constexpr int T = decltype(tt)::value; typedef EltT<T> E; typedef EltT<(T ^ 1)> EN;
        int sh = shapeOf(s->kind);
        if (sh == 0) { MatrixBase<E>& b = asBase<T>(*s); const MatrixBase<E>& cb = b;
            MatrixView_<EN>* v = cst ? new MatrixView_<EN>((minus ? -cb : cb.negate()).getAsMatrixView()) : new MatrixView_<EN>((minus ? -b : b.updNegate()).updAsMatrixView());
            p = static_cast<MatrixBase<EN>*>(v); kind = MV; }
        else if (sh == 1) { VectorBase<E>& b = asVec<T>(*s); const VectorBase<E>& cb = b;
            VectorView_<EN>* v = cst ? new VectorView_<EN>((minus ? -cb : cb.negate()).getAsVectorView()) : new VectorView_<EN>((minus ? -b : b.updNegate()).updAsVectorView());
            p = static_cast<MatrixBase<EN>*>(v); kind = VV; }
        else { RowVectorBase<E>& b = asRow<T>(*s); const RowVectorBase<E>& cb = b;
            RowVectorView_<EN>* v = cst ? new RowVectorView_<EN>((minus ? -cb : cb.negate()).getAsRowVectorView()) : new RowVectorView_<EN>((minus ? -b : b.updNegate()).updAsRowVectorView());
            p = static_cast<MatrixBase<EN>*>(v); kind = RV; }
    });
    // the shallow copy constructors keep the writability of the source whatever its constness
    Obj* o = addView(*s, kind, s->t ^ 1, p, s->nr, s->nc, s->map, s->writable, s->trans, kind == RV ? 1 : -1, kind == VV ? 1 : -1);
    cover("negate-view", *s);
    compareAll(std::string("view:negate:") + kKindName[s->kind] + (IsScalar ? ":scalar-elt" : ":composite-elt"), o);
    return true;
}
// contiguous sub-vector v(i,m) and indexed sub-vector v.index(...)
bool op_viewSubVector() {
    Obj* s = pick([](const Obj& o) { return shapeOf(o.kind) != 0; }); if (!s) return false;
    bool cst = r.coin(0.25) || !s->writable; bool isRow = shapeOf(s->kind) == 2;
    int len = isRow ? s->nc : s->nr;
    bool indexed = r.coin(0.4);
    std::vector<int> idx;
    if (indexed) { for (int q = 0; q < len; ++q) if (r.coin(0.5)) idx.push_back(q); }
    else { int i = r.integer(0, len), m = r.integer(0, len - i); for (int q = 0; q < m; ++q) idx.push_back(i + q); if (idx.empty()) idx.clear(); }
    bool srcContig = true;
    withT(s->t, [&](auto tt) { constexpr int T = decltype(tt)::value; srcContig = asBase<T>(*s).hasContiguousData(); });
    // two input classes with known findings are generated at a reduced rate (and keyed apart):
    // index() on a non-contiguous source, and index() with an empty list
    const bool rowAsCol = (isRow == libColumnOrder(*s));   // helper's row/column flag disagrees with the handle (vector born with length 1, or its transpose)
    if (indexed && ((!idx.empty() && !srcContig && !r.coin(0.3)) || (rowAsCol && !r.coin(0.3)))) {
        indexed = false; idx.clear(); int i = r.integer(0, len), m = r.integer(0, len - i); for (int q = 0; q < m; ++q) idx.push_back(i + q);
    }
    int start = idx.empty() ? r.integer(0, len) : idx[0], n = (int)idx.size();
    std::vector<int> map(n); for (int q = 0; q < n; ++q) map[q] = s->map[idx[q]];
    std::string is; for (int q : idx) is += std::to_string(q) + " ";
    log(std::string(indexed ? "index" : "subvector") + (cst ? " const" : "") + " of " + tag(*s) + (indexed ? " [" + is + "]" : " (" + std::to_string(start) + "," + std::to_string(n) + ")") + (srcContig ? " src-contiguous" : " src-noncontiguous"));
    void* p = nullptr;
    withT(s->t, [&](auto tt) {
        constexpr int T = decltype(tt)::value; typedef EltT<T> E;
        Array_<int> ix; for (int q : idx) ix.push_back(q);
        bool paren = r.coin();
        if (!isRow) { VectorBase<E>& b = asVec<T>(*s); const VectorBase<E>& cb = b;
            VectorView_<E>* v = indexed ? (cst ? (paren ? new VectorView_<E>(cb(ix)) : new VectorView_<E>(cb.index(ix))) : (paren ? new VectorView_<E>(b(ix)) : new VectorView_<E>(b.updIndex(ix))))
                                        : (cst ? new VectorView_<E>(cb(start, n)) : new VectorView_<E>(b(start, n)));
            p = static_cast<MatrixBase<E>*>(v); }
        else { RowVectorBase<E>& b = asRow<T>(*s); const RowVectorBase<E>& cb = b;
            RowVectorView_<E>* v = indexed ? (cst ? (paren ? new RowVectorView_<E>(cb(ix)) : new RowVectorView_<E>(cb.index(ix))) : (paren ? new RowVectorView_<E>(b(ix)) : new RowVectorView_<E>(b.updIndex(ix))))
                                           : (cst ? new RowVectorView_<E>(cb(start, n)) : new RowVectorView_<E>(b(start, n)));
            p = static_cast<MatrixBase<E>*>(v); }
    });
    Obj* o = addView(*s, isRow ? RV : VV, s->t, p, isRow ? 1 : n, isRow ? n : 1, map, s->writable && !cst, s->trans, isRow ? 1 : -1, isRow ? -1 : 1);
    std::string cls = indexed ? (rowAsCol ? "index:source-with-mismatched-storage-order-flag" : (srcContig || n == 0) ? "index:src-contiguous" : "index:src-noncontiguous") : "subvector";
    cover(cls, *s);
    compareAll("view:" + cls + (IsScalar ? ":scalar-elt" : ":composite-elt"), o);
    return true;
}
// shallow handle copies and shape re-interpretations (getAs/updAs + view copy constructor), viewAssign
bool op_viewShallow() {
    Obj* s = pickAny(); if (!s) return false;
    int sh = shapeOf(s->kind);
    std::vector<int> targets; targets.push_back(sh);
    if (sh != 0) targets.push_back(0);
    if (sh == 0 && s->nc == 1) targets.push_back(1);
    if (sh == 0 && s->nr == 1) targets.push_back(2);
    int ts = targets[r.next() % targets.size()];
    // a Vector/RowVector handle on 2-d storage refuses one-index element access (finding): rare
    if (ts != 0 && sh == 0 && !lib1d(*s) && !r.coin(0.1)) ts = 0;
    bool cst = r.coin(0.3);
    log(std::string("shallow handle ") + kKindName[ts * 2 + 1] + " on " + tag(*s));
    void* p = nullptr;
    withT(s->t, [&](auto tt) {
        constexpr int T = decltype(tt)::value; typedef EltT<T> E; MatrixBase<E>& b = asBase<T>(*s); const MatrixBase<E>& cb = b;
        if (ts == 0) p = static_cast<MatrixBase<E>*>(cst ? new MatrixView_<E>(cb.getAsMatrixView()) : new MatrixView_<E>(b.updAsMatrixView()));
        else if (ts == 1) p = static_cast<MatrixBase<E>*>(cst ? new VectorView_<E>(cb.getAsVectorView()) : new VectorView_<E>(b.updAsVectorView()));
        else p = static_cast<MatrixBase<E>*>(cst ? new RowVectorView_<E>(cb.getAsRowVectorView()) : new RowVectorView_<E>(b.updAsRowVectorView()));
    });
    Obj* o = addView(*s, ts * 2 + 1, s->t, p, s->nr, s->nc, s->map, s->writable, s->trans, ts == 2 ? 1 : -1, ts == 1 ? 1 : -1);
    cover(std::string("shallow-as-") + kKindName[ts * 2 + 1], *s);
    compareAll(std::string("view:shallow:") + kKindName[s->kind] + "->" + kKindName[ts * 2 + 1], o);
    return true;
}
bool op_viewAssign() {
    Obj* d = pick([](const Obj& o) { return !o.isOwner && (o.kind & 1) && !o.own->external; }); if (!d) return false;
    Obj* s = pick([&](const Obj& o) { return o.t == d->t && &o != d && (d->fixR < 0 || o.nr == d->fixR) && (d->fixC < 0 || o.nc == d->fixC); }); if (!s) return false;
    if (shapeOf(d->kind) != 0 && !lib1d(*s) && !r.coin(0.1)) return false;
    log("viewAssign " + tag(*d) + " <- " + tag(*s));
    withT(d->t, [&](auto tt) { constexpr int T = decltype(tt)::value; asBase<T>(*d).viewAssign(asBase<T>(*s)); });
    d->own = s->own; d->map = s->map; d->nr = s->nr; d->nc = s->nc; d->writable = s->writable; d->trans = s->trans; d->depth = s->depth + 1;
    cover("viewAssign", *s);
    compareAll(std::string("view:viewAssign:") + kKindName[d->kind], d);
    return true;
}
bool op_destroy() {
    Obj* o = pickAny(); if (!o) return false;
    log("destroy " + tag(*o) + (o->isOwner ? " (and its views)" : ""));
    c.cover(std::string("destroy|") + kKindName[o->kind]);
    destroyObj(o);
    compareAll("destroy");
    return true;
}
#include "matrix_big_ops2.h"
