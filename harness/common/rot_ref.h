// rot_ref.h — long-double 3x3 / quaternion / SO(3) reference arithmetic for the
// SimTKcommon-level monitors (mon_rotation: C27 C28, mon_massprops: C29).
// Nothing in here calls the library: it is the independent side of every oracle.
#pragma once
#include <cmath>
#include "vh.h"

namespace rr {
typedef long double LD;
static const LD PI = 3.141592653589793238462643383279502884L;

struct V3 {
    LD v[3];
    LD& operator[](int i) { return v[i]; }
    const LD& operator[](int i) const { return v[i]; }
};
struct M3 { LD m[3][3]; };

inline V3 mk(LD a, LD b, LD c) { V3 r; r[0] = a; r[1] = b; r[2] = c; return r; }
inline V3 operator+(const V3& a, const V3& b) { return mk(a[0] + b[0], a[1] + b[1], a[2] + b[2]); }
inline V3 operator-(const V3& a, const V3& b) { return mk(a[0] - b[0], a[1] - b[1], a[2] - b[2]); }
inline V3 operator-(const V3& a) { return mk(-a[0], -a[1], -a[2]); }
inline V3 operator*(LD s, const V3& a) { return mk(s * a[0], s * a[1], s * a[2]); }
inline LD dot(const V3& a, const V3& b) { return a[0] * b[0] + a[1] * b[1] + a[2] * b[2]; }
inline V3 cross(const V3& a, const V3& b) { return mk(a[1] * b[2] - a[2] * b[1], a[2] * b[0] - a[0] * b[2], a[0] * b[1] - a[1] * b[0]); }
inline LD norm(const V3& a) { return sqrtl(dot(a, a)); }
inline LD maxAbs(const V3& a) { return std::max(fabsl(a[0]), std::max(fabsl(a[1]), fabsl(a[2]))); }
inline V3 unit(const V3& a) { LD n = norm(a); return (1 / n) * a; }

inline M3 zero3() { M3 r; for (int i = 0; i < 3; ++i) for (int j = 0; j < 3; ++j) r.m[i][j] = 0; return r; }
inline M3 ident() { M3 r = zero3(); r.m[0][0] = r.m[1][1] = r.m[2][2] = 1; return r; }
inline M3 mul(const M3& a, const M3& b) {
    M3 r;
    for (int i = 0; i < 3; ++i) for (int j = 0; j < 3; ++j) { LD s = 0; for (int k = 0; k < 3; ++k) s += a.m[i][k] * b.m[k][j]; r.m[i][j] = s; }
    return r;
}
inline M3 tr(const M3& a) { M3 r; for (int i = 0; i < 3; ++i) for (int j = 0; j < 3; ++j) r.m[i][j] = a.m[j][i]; return r; }
inline M3 add(const M3& a, const M3& b) { M3 r; for (int i = 0; i < 3; ++i) for (int j = 0; j < 3; ++j) r.m[i][j] = a.m[i][j] + b.m[i][j]; return r; }
inline M3 sub(const M3& a, const M3& b) { M3 r; for (int i = 0; i < 3; ++i) for (int j = 0; j < 3; ++j) r.m[i][j] = a.m[i][j] - b.m[i][j]; return r; }
inline M3 scale(LD s, const M3& a) { M3 r; for (int i = 0; i < 3; ++i) for (int j = 0; j < 3; ++j) r.m[i][j] = s * a.m[i][j]; return r; }
inline V3 mulv(const M3& a, const V3& v) { return mk(a.m[0][0] * v[0] + a.m[0][1] * v[1] + a.m[0][2] * v[2], a.m[1][0] * v[0] + a.m[1][1] * v[1] + a.m[1][2] * v[2], a.m[2][0] * v[0] + a.m[2][1] * v[1] + a.m[2][2] * v[2]); }
inline V3 col(const M3& a, int j) { return mk(a.m[0][j], a.m[1][j], a.m[2][j]); }
inline V3 row(const M3& a, int i) { return mk(a.m[i][0], a.m[i][1], a.m[i][2]); }
inline LD det(const M3& a) {
    return a.m[0][0] * (a.m[1][1] * a.m[2][2] - a.m[1][2] * a.m[2][1]) - a.m[0][1] * (a.m[1][0] * a.m[2][2] - a.m[1][2] * a.m[2][0]) +
           a.m[0][2] * (a.m[1][0] * a.m[2][1] - a.m[1][1] * a.m[2][0]);
}
inline M3 inverse(const M3& a) {
    LD d = det(a);
    M3 r;
    r.m[0][0] = (a.m[1][1] * a.m[2][2] - a.m[1][2] * a.m[2][1]) / d;
    r.m[0][1] = (a.m[0][2] * a.m[2][1] - a.m[0][1] * a.m[2][2]) / d;
    r.m[0][2] = (a.m[0][1] * a.m[1][2] - a.m[0][2] * a.m[1][1]) / d;
    r.m[1][0] = (a.m[1][2] * a.m[2][0] - a.m[1][0] * a.m[2][2]) / d;
    r.m[1][1] = (a.m[0][0] * a.m[2][2] - a.m[0][2] * a.m[2][0]) / d;
    r.m[1][2] = (a.m[0][2] * a.m[1][0] - a.m[0][0] * a.m[1][2]) / d;
    r.m[2][0] = (a.m[1][0] * a.m[2][1] - a.m[1][1] * a.m[2][0]) / d;
    r.m[2][1] = (a.m[0][1] * a.m[2][0] - a.m[0][0] * a.m[2][1]) / d;
    r.m[2][2] = (a.m[0][0] * a.m[1][1] - a.m[0][1] * a.m[1][0]) / d;
    return r;
}
inline LD maxAbs(const M3& a) { LD r = 0; for (int i = 0; i < 3; ++i) for (int j = 0; j < 3; ++j) { LD x = fabsl(a.m[i][j]); if (!(x <= r)) r = x; } return r; }
inline LD maxAbsDiff(const M3& a, const M3& b) { return maxAbs(sub(a, b)); }
inline LD maxAbsDiff(const V3& a, const V3& b) { V3 d = a - b; LD r = 0; for (int i = 0; i < 3; ++i) { LD x = fabsl(d[i]); if (!(x <= r)) r = x; } return r; }
// max |R^T R - I|  (NaN-propagating: a NaN entry gives NaN)
inline LD orthoErr(const M3& R) { return maxAbs(sub(mul(tr(R), R), ident())); }
inline M3 skew(const V3& w) { M3 r = zero3(); r.m[0][1] = -w[2]; r.m[0][2] = w[1]; r.m[1][0] = w[2]; r.m[1][2] = -w[0]; r.m[2][0] = -w[1]; r.m[2][1] = w[0]; return r; }
inline M3 outer(const V3& a, const V3& b) { M3 r; for (int i = 0; i < 3; ++i) for (int j = 0; j < 3; ++j) r.m[i][j] = a[i] * b[j]; return r; }

// right-handed rotation by ang about coordinate axis 0/1/2
inline M3 axisRot(int axis, LD ang) {
    LD c = cosl(ang), s = sinl(ang);
    M3 r = ident();
    int j = (axis + 1) % 3, k = (axis + 2) % 3;
    r.m[j][j] = c; r.m[k][k] = c; r.m[k][j] = s; r.m[j][k] = -s;
    return r;
}
// exp of the skew matrix of w (Rodrigues, series near 0)
inline M3 expSO3(const V3& w) {
    LD th2 = dot(w, w), th = sqrtl(th2), A, B;
    if (th < 1e-3L) {
        A = 1 - th2 / 6 * (1 - th2 / 20 * (1 - th2 / 42 * (1 - th2 / 72)));
        B = 0.5L * (1 - th2 / 12 * (1 - th2 / 30 * (1 - th2 / 56 * (1 - th2 / 90))));
    } else {
        A = sinl(th) / th;
        LD sh = sinl(th / 2);
        B = 2 * sh * sh / th2;
    }
    M3 K = skew(w);
    return add(ident(), add(scale(A, K), scale(B, mul(K, K))));
}
// unit quaternion (w,x,y,z) -> rotation; input is normalised here
inline M3 fromQuat(const LD qi[4]) {
    LD n = sqrtl(qi[0] * qi[0] + qi[1] * qi[1] + qi[2] * qi[2] + qi[3] * qi[3]);
    LD w = qi[0] / n, x = qi[1] / n, y = qi[2] / n, z = qi[3] / n;
    M3 r;
    r.m[0][0] = 1 - 2 * (y * y + z * z); r.m[0][1] = 2 * (x * y - w * z); r.m[0][2] = 2 * (x * z + w * y);
    r.m[1][0] = 2 * (x * y + w * z); r.m[1][1] = 1 - 2 * (x * x + z * z); r.m[1][2] = 2 * (y * z - w * x);
    r.m[2][0] = 2 * (x * z - w * y); r.m[2][1] = 2 * (y * z + w * x); r.m[2][2] = 1 - 2 * (x * x + y * y);
    return r;
}
// rotation -> canonical (w>=0) unit quaternion, Shepperd's method with the largest pivot
inline void toQuat(const M3& R, LD q[4]) {
    LD t = R.m[0][0] + R.m[1][1] + R.m[2][2];
    LD c[4] = {1 + t, 1 + 2 * R.m[0][0] - t, 1 + 2 * R.m[1][1] - t, 1 + 2 * R.m[2][2] - t};
    int b = 0; for (int i = 1; i < 4; ++i) if (c[i] > c[b]) b = i;
    if (b == 0) { q[0] = c[0]; q[1] = R.m[2][1] - R.m[1][2]; q[2] = R.m[0][2] - R.m[2][0]; q[3] = R.m[1][0] - R.m[0][1]; }
    else if (b == 1) { q[0] = R.m[2][1] - R.m[1][2]; q[1] = c[1]; q[2] = R.m[0][1] + R.m[1][0]; q[3] = R.m[0][2] + R.m[2][0]; }
    else if (b == 2) { q[0] = R.m[0][2] - R.m[2][0]; q[1] = R.m[0][1] + R.m[1][0]; q[2] = c[2]; q[3] = R.m[1][2] + R.m[2][1]; }
    else { q[0] = R.m[1][0] - R.m[0][1]; q[1] = R.m[0][2] + R.m[2][0]; q[2] = R.m[1][2] + R.m[2][1]; q[3] = c[3]; }
    LD n = sqrtl(q[0] * q[0] + q[1] * q[1] + q[2] * q[2] + q[3] * q[3]);
    if (q[0] < 0) n = -n;
    for (int i = 0; i < 4; ++i) q[i] /= n;
}
// Hamilton product
inline void qmul(const LD a[4], const LD b[4], LD r[4]) {
    LD t[4];
    t[0] = a[0] * b[0] - a[1] * b[1] - a[2] * b[2] - a[3] * b[3];
    t[1] = a[0] * b[1] + a[1] * b[0] + a[2] * b[3] - a[3] * b[2];
    t[2] = a[0] * b[2] - a[1] * b[3] + a[2] * b[0] + a[3] * b[1];
    t[3] = a[0] * b[3] + a[1] * b[2] - a[2] * b[1] + a[3] * b[0];
    for (int i = 0; i < 4; ++i) r[i] = t[i];
}
// quaternion of exp(skew(w)):  (cos|w|/2, sin(|w|/2) w/|w|)
inline void qexp(const V3& w, LD q[4]) {
    LD th = norm(w), h = th / 2, s;
    if (th < 1e-3L) { LD h2 = h * h; s = 0.5L * (1 - h2 / 6 * (1 - h2 / 20 * (1 - h2 / 42))); }
    else s = sinl(h) / th;
    q[0] = cosl(h); q[1] = s * w[0]; q[2] = s * w[1]; q[3] = s * w[2];
}
// rotation vector (angle*axis), angle in [0,pi]
inline V3 logSO3(const M3& R) {
    LD q[4]; toQuat(R, q);
    V3 v = mk(q[1], q[2], q[3]);
    LD s = norm(v);
    if (s < 1e-300L) return (2 / q[0]) * v;
    LD ang = 2 * atan2l(s, q[0]);       // accurate for tiny s as well; ang/s has no cancellation
    return (ang / s) * v;
}
// geodesic angle between two rotations
inline LD angleBetween(const M3& A, const M3& B) { return norm(logSO3(mul(tr(A), B))); }

// nearest rotation (polar factor) of a nearly orthogonal matrix: Newton X <- (X + X^-T)/2
inline M3 polarRot(const M3& A) {
    M3 X = A;
    for (int it = 0; it < 60; ++it) {
        M3 Y = scale(0.5L, add(X, tr(inverse(X))));
        LD d = maxAbsDiff(X, Y);
        X = Y;
        if (d < 1e-18L) break;
    }
    return X;
}

// eigenvalues of a symmetric 3x3 (cyclic Jacobi), ascending
inline void symEig(const M3& Ain, LD ev[3]) {
    M3 A = Ain;
    for (int sweep = 0; sweep < 60; ++sweep) {
        LD off = fabsl(A.m[0][1]) + fabsl(A.m[0][2]) + fabsl(A.m[1][2]);
        LD dg = fabsl(A.m[0][0]) + fabsl(A.m[1][1]) + fabsl(A.m[2][2]);
        if (off <= 1e-19L * dg || off == 0) break;
        for (int p = 0; p < 2; ++p) for (int q = p + 1; q < 3; ++q) {
            if (A.m[p][q] == 0) continue;
            LD th = (A.m[q][q] - A.m[p][p]) / (2 * A.m[p][q]);
            LD t = (th >= 0 ? 1 : -1) / (fabsl(th) + sqrtl(th * th + 1));
            LD c = 1 / sqrtl(t * t + 1), s = t * c;
            M3 J = ident(); J.m[p][p] = c; J.m[q][q] = c; J.m[p][q] = s; J.m[q][p] = -s;
            A = mul(tr(J), mul(A, J));
        }
    }
    ev[0] = A.m[0][0]; ev[1] = A.m[1][1]; ev[2] = A.m[2][2];
    std::sort(ev, ev + 3);
}

// Haar-uniform rotation / unit quaternion
inline void randUnitQuat(vh::Rng& r, LD q[4]) {
    LD n;
    do { for (int i = 0; i < 4; ++i) q[i] = r.normal(); n = sqrtl(q[0] * q[0] + q[1] * q[1] + q[2] * q[2] + q[3] * q[3]); } while (n < 1e-3L);
    for (int i = 0; i < 4; ++i) q[i] /= n;
}
inline M3 haar(vh::Rng& r) { LD q[4]; randUnitQuat(r, q); return fromQuat(q); }
inline V3 randUnit(vh::Rng& r) {
    V3 v; LD n;
    do { v = mk(r.normal(), r.normal(), r.normal()); n = norm(v); } while (n < 1e-3L);
    return (1 / n) * v;
}
inline V3 randVec(vh::Rng& r, double s) { return mk(r.sym(s), r.sym(s), r.sym(s)); }

// angle difference folded to (-pi,pi]
inline LD angDiff(LD a, LD b) {
    LD d = fmodl(a - b, 2 * PI);
    if (d > PI) d -= 2 * PI;
    if (d <= -PI) d += 2 * PI;
    return d;
}

// 5-point central differences
template <class F> inline LD fd1(F f, LD h) { return (-f(2 * h) + 8 * f(h) - 8 * f(-h) + f(-2 * h)) / (12 * h); }
template <class F> inline LD fd2(F f, LD h) { return (-f(2 * h) + 16 * f(h) - 30 * f(0) + 16 * f(-h) - f(-2 * h)) / (12 * h * h); }

inline vh::Json jM(const M3& a) {
    vh::Json j = vh::Json::arr();
    for (int i = 0; i < 3; ++i) { vh::Json r = vh::Json::arr(); for (int k = 0; k < 3; ++k) r.push(vh::Json((double)a.m[i][k])); j.push(r); }
    return j;
}
inline vh::Json jV(const V3& a) { return vh::Json::arr().push(vh::Json((double)a[0])).push(vh::Json((double)a[1])).push(vh::Json((double)a[2])); }

} // namespace rr
