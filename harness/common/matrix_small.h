// matrix_small.h — fixed-size Vec/Row/Mat/SymMat and scalar adaptors vs long-double reference (C25)
#pragma once
#include "matrix_ref.h"
namespace mx {
inline void runSmallCase(vh::Ctx& c, vh::Rng& r, long idx) { c.skip("small-part-not-built"); }
inline void runScalarCase(vh::Ctx& c, vh::Rng& r, long idx) { c.skip("scalar-part-not-built"); }
}
