// matrix_small.h — fixed-size Vec/Row/Mat/SymMat (sizes 1..6) and the negator<>/conjugate<> scalar
// adaptors against a long-double reference (C25, fixed-size part).
#pragma once
#include "matrix_ref.h"

namespace mx {
using namespace SimTK;

struct SmallCtx {
    vh::Ctx& c; vh::Rng& r; std::string etype; int M; LD eps;
    LD tolOf(LD mag, int n) const { return 32 * (n + 2) * eps * mag + 1e-300L; }
    // compare flat logical values (column major nr x nc, one scalar per element)
    void check(const std::string& op, const std::vector<LC>& got, int gr, int gc, const std::vector<LC>& ref, int rr, int rc, const std::vector<LD>& tol) {
        std::string key = "fixed:" + op + ":" + etype + ":" + std::to_string(M);
        c.cover(op + "|" + etype + "|" + std::to_string(M));
        if (gr != rr || gc != rc || got.size() != ref.size()) { c.viol("fixed-shape:" + op + ":" + etype + ":" + std::to_string(M), vh::Json::obj().set("got_rows", gr).set("got_cols", gc).set("rows", rr).set("cols", rc)); return; }
        double worst = 0; size_t wi = 0;
        for (size_t s = 0; s < got.size(); ++s) {
            bool gn = std::isnan(got[s].real()) || std::isnan(got[s].imag()) || std::isinf(got[s].real()) || std::isinf(got[s].imag());
            double ratio = gn ? std::numeric_limits<double>::infinity() : (tol[s] == 0 ? (got[s] == ref[s] ? 0 : std::numeric_limits<double>::infinity()) : (double)(absLC(got[s] - ref[s]) / tol[s]));
            if (ratio > worst) { worst = ratio; wi = s; }
        }
        c.check(key, worst, 1.0, [&] { vh::Json w = vh::Json::obj(); if (!got.empty()) w.set("index", (long)wi).set("expected", jLC(ref[wi])).set("got", jLC(got[wi])).set("tolerance", (double)tol[wi]); return w.set("op", op).set("elt", etype).set("size", M); });
    }
};

// ---- flatten any fixed-size object to logical scalar values (column major)
template <class E> inline LC scal(const E& e) { typename ET<E>::C o[1]; ET<E>::get(e, o); return toLC(o[0]); }
template <int M, class E, int S> inline void flat(const Vec<M, E, S>& v, std::vector<LC>& o, int& nr, int& nc) { nr = M; nc = 1; o.resize(M); for (int i = 0; i < M; ++i) o[i] = scal(v[i]); }
template <int N, class E, int S> inline void flat(const Row<N, E, S>& v, std::vector<LC>& o, int& nr, int& nc) { nr = 1; nc = N; o.resize(N); for (int i = 0; i < N; ++i) o[i] = scal(v[i]); }
template <int M, int N, class E, int CS, int RS> inline void flat(const Mat<M, N, E, CS, RS>& m, std::vector<LC>& o, int& nr, int& nc) {
    nr = M; nc = N; o.resize((size_t)M * N); for (int j = 0; j < N; ++j) for (int i = 0; i < M; ++i) o[i + j * M] = scal(m(i, j)); }
template <int M, class E, int RS> inline void flat(const SymMat<M, E, RS>& m, std::vector<LC>& o, int& nr, int& nc) {
    nr = M; nc = M; o.resize((size_t)M * M); for (int j = 0; j < M; ++j) for (int i = 0; i < M; ++i) o[i + j * M] = (i == j) ? scal(m.getEltDiag(i)) : (i > j) ? scal(m.getEltLower(i, j)) : scal(m.getEltUpper(i, j)); }
template <class X> inline void flatScalar(const X& x, std::vector<LC>& o, int& nr, int& nc) { nr = nc = 1; o.assign(1, scal(x)); }

struct RefM {     // dense reference matrix
    int nr = 0, nc = 0; std::vector<LC> v;
    RefM() {} RefM(int r, int c) : nr(r), nc(c), v((size_t)r * c, LC(0)) {}
    LC& operator()(int i, int j) { return v[i + (size_t)j * nr]; } const LC& operator()(int i, int j) const { return v[i + (size_t)j * nr]; }
};
inline RefM refMul(const RefM& a, const RefM& b, std::vector<LD>& mag) {
    RefM c(a.nr, b.nc); mag.assign(c.v.size(), 0);
    for (int i = 0; i < a.nr; ++i) for (int j = 0; j < b.nc; ++j) for (int k = 0; k < a.nc; ++k) { c(i, j) += a(i, k) * b(k, j); mag[i + (size_t)j * c.nr] += absLC(a(i, k)) * absLC(b(k, j)); }
    return c;
}
inline RefM refHerm(const RefM& a) { RefM t(a.nc, a.nr); for (int i = 0; i < a.nr; ++i) for (int j = 0; j < a.nc; ++j) t(j, i) = std::conj(a(i, j)); return t; }
inline LC refDet(RefM a) {      // LU with partial pivoting
    int n = a.nr; LC d(1);
    for (int col = 0; col < n; ++col) {
        int piv = col; LD best = 0; for (int i = col; i < n; ++i) if (absLC(a(i, col)) > best) { best = absLC(a(i, col)); piv = i; }
        if (best == 0) return LC(0);
        if (piv != col) { for (int j = 0; j < n; ++j) std::swap(a(col, j), a(piv, j)); d = -d; }
        d *= a(col, col);
        for (int i = col + 1; i < n; ++i) { LC f = a(i, col) / a(col, col); for (int j = col; j < n; ++j) a(i, j) -= f * a(col, j); }
    }
    return d;
}
inline bool refInv(RefM a, RefM& inv, LD& cond) {
    int n = a.nr; inv = RefM(n, n); for (int i = 0; i < n; ++i) inv(i, i) = 1;
    LD na = 0; for (auto& x : a.v) na = std::max(na, absLC(x));
    for (int col = 0; col < n; ++col) {
        int piv = col; LD best = 0; for (int i = col; i < n; ++i) if (absLC(a(i, col)) > best) { best = absLC(a(i, col)); piv = i; }
        if (best < 1e-9L * (na + 1e-300L)) return false;
        for (int j = 0; j < n; ++j) { std::swap(a(col, j), a(piv, j)); std::swap(inv(col, j), inv(piv, j)); }
        LC d = a(col, col); for (int j = 0; j < n; ++j) { a(col, j) /= d; inv(col, j) /= d; }
        for (int i = 0; i < n; ++i) if (i != col) { LC f = a(i, col); for (int j = 0; j < n; ++j) { a(i, j) -= f * a(col, j); inv(i, j) -= f * inv(col, j); } }
    }
    LD ni = 0; for (auto& x : inv.v) ni = std::max(ni, absLC(x)); cond = na * ni * n; return true;
}

template <class E, int M> struct SmallCase {
    typedef typename ET<E>::P P; typedef std::complex<P> C; typedef typename CNT<E>::StdNumber SN;
    enum { Cplx = ET<E>::Cplx, N = (M % 4) + 1, IsStd = std::is_same<E, typename CNT<E>::StdNumber>::value, NegCplx = (ET<E>::Cplx && !std::is_same<E, typename CNT<E>::TWithoutNegator>::value), Easy = (!ET<E>::Cplx || std::is_same<E, typename CNT<E>::StdNumber>::value) };
    SmallCtx& x;
    explicit SmallCase(SmallCtx& x_) : x(x_) {}
    C rs() { P re = (P)x.r.sym(4.0); if (x.r.coin(0.3)) re = (P)x.r.integer(-3, 3); P im = Cplx ? (P)x.r.sym(4.0) : P(0); return C(re, im); }
    E re() { C v = rs(); return ET<E>::make(&v); }
    SN rsn() { C v = rs(); if (std::abs(v) < 0.1) v = C(1.5, 0); if constexpr (Cplx) return SN(v); else return SN(v.real()); }
    template <class X> RefM ref(const X& obj) { RefM m; flat(obj, m.v, m.nr, m.nc); return m; }
    template <class X> void chk(const std::string& op, const X& got, const RefM& rf, const std::vector<LD>& tol) { std::vector<LC> g; int gr, gc; flat(got, g, gr, gc); x.check(op, g, gr, gc, rf.v, rf.nr, rf.nc, tol); }
    template <class X> void chkS(const std::string& op, const X& got, LC rf, LD tol) { std::vector<LC> g(1, scal(got)); x.check(op, g, 1, 1, std::vector<LC>(1, rf), 1, 1, std::vector<LD>(1, tol)); }
    std::vector<LD> tolv(const std::vector<LD>& mag, int n) { std::vector<LD> t(mag.size()); for (size_t i = 0; i < mag.size(); ++i) t[i] = x.tolOf(mag[i], n); return t; }
    std::vector<LD> exact(size_t n) { return std::vector<LD>(n, 0); }

    void run() {
        Vec<M, E> a, b; Row<M, E> rw; Mat<M, M, E> A, B; Mat<M, N, E> R; Vec<N, E> vn;
        for (int i = 0; i < M; ++i) { a[i] = re(); b[i] = re(); rw[i] = re(); for (int j = 0; j < M; ++j) { A(i, j) = re(); B(i, j) = re(); } for (int j = 0; j < N; ++j) R(i, j) = re(); }
        for (int j = 0; j < N; ++j) vn[j] = re();
        const RefM ra = ref(a), rb = ref(b), rr = ref(rw), rA = ref(A), rB = ref(B), rR = ref(R), rvn = ref(vn);
        const SN s = rsn(); const LC sl = scal(s);
        std::vector<LD> mag;
        auto addRef = [&](const RefM& p, const RefM& q, int sgn, std::vector<LD>& mg) { RefM o(p.nr, p.nc); mg.resize(o.v.size()); for (size_t k = 0; k < o.v.size(); ++k) { o.v[k] = p.v[k] + LC(sgn) * q.v[k]; mg[k] = absLC(p.v[k]) + absLC(q.v[k]); } return o; };
        auto scaleRef = [&](const RefM& p, LC f, bool div, std::vector<LD>& mg) { RefM o(p.nr, p.nc); mg.resize(o.v.size()); for (size_t k = 0; k < o.v.size(); ++k) { o.v[k] = div ? p.v[k] / f : p.v[k] * f; mg[k] = absLC(o.v[k]); } return o; };
        auto negRef = [&](const RefM& p) { RefM o = p; for (auto& z : o.v) z = -z; return o; };
        // ---- Vec / Row
        { RefM o = addRef(ra, rb, +1, mag); chk("Vec+Vec", a + b, o, tolv(mag, 1)); }
        { RefM o = addRef(ra, rb, -1, mag); chk("Vec-Vec", a - b, o, tolv(mag, 1)); }
        chk("-Vec", -a, negRef(ra), exact(M));
        chk("~Vec", ~a, refHerm(ra), exact(M));
        chk("~~Vec", ~~a, ra, exact(M));
        chk("Vec.positionalTranspose", a.positionalTranspose(), [&] { RefM t(1, M); for (int i = 0; i < M; ++i) t(0, i) = ra(i, 0); return t; }(), exact(M));
        { RefM o = scaleRef(ra, sl, false, mag); chk("Vec*scalar", a * s, o, tolv(mag, 2)); chk("scalar*Vec", s * a, o, tolv(mag, 2)); }
        { RefM o = scaleRef(ra, sl, true, mag); chk("Vec/scalar", a / s, o, tolv(mag, 4)); }
        // Products that pair negator<conjugate> with negator<complex> scalars (hermitian products of
        // negator<complex> data, (-~A)*(-B) of complex data) hit the scalar-level finding that the scalar part
        // keys pair by pair; they are not repeated here for every operation and size.
        if constexpr (!NegCplx) { RefM o = refMul(refHerm(ra), rb, mag); chkS("~Vec*Vec", ~a * b, o.v[0], x.tolOf(mag[0], M + 1)); chkS("dot(Vec,Vec)", dot(a, b), o.v[0], x.tolOf(mag[0], M + 1)); }
        { RefM o = refMul(rr, rb, mag); chkS("Row*Vec", rw * b, o.v[0], x.tolOf(mag[0], M + 1)); }
        { RefM o = refMul(ra, rr, mag); chk("Vec*Row(outer)", a * rw, o, tolv(mag, 2)); }
        { RefM o = refMul(ra, refHerm(rb), mag); chk("outer(Vec,Vec)", outer(a, b), o, tolv(mag, 2)); }
        { LD ss = 0; for (auto& z : ra.v) ss += std::norm(z); chkS("Vec.normSqr", a.normSqr(), LC(ss), x.tolOf(ss, M + 1)); chkS("Vec.norm", a.norm(), LC(std::sqrt(ss)), x.tolOf(std::sqrt(ss), M + 2)); }
        { LC sm(0); LD mg = 0; for (auto& z : ra.v) { sm += z; mg += absLC(z); } chkS("Vec.sum", a.sum(), sm, x.tolOf(mg, M)); }
        { RefM o(M, 1); for (int i = 0; i < M; ++i) o(i, 0) = Cplx ? LC(absLC(ra(i, 0))) : LC(std::fabs(ra(i, 0).real())); chk("Vec.abs", a.abs(), o, Cplx ? tolv(std::vector<LD>(M, 8), 2) : exact(M)); }
        { Vec<M, E> t = a; t += b; RefM o = addRef(ra, rb, +1, mag); chk("Vec+=Vec", t, o, tolv(mag, 1)); t = a; t -= b; o = addRef(ra, rb, -1, mag); chk("Vec-=Vec", t, o, tolv(mag, 1));
          t = a; t *= s; o = scaleRef(ra, sl, false, mag); chk("Vec*=scalar", t, o, tolv(mag, 2)); t = a; t /= s; o = scaleRef(ra, sl, true, mag); chk("Vec/=scalar", t, o, tolv(mag, 4)); }
        { Vec<M, typename CNT<E>::TNeg> na = -a; Vec<M, E> back(na); chk("Vec(negated Vec)", back, negRef(ra), exact(M)); RefM o = addRef(ra, negRef(rb), +1, mag); chk("Vec+(-Vec)", a + (-b), o, tolv(mag, 1)); }
        { E buf[2 * M + 1]; for (int i = 0; i < 2 * M + 1; ++i) { C z(P(100 + i), Cplx ? P(-i) : P(0)); buf[i] = ET<E>::make(&z); }
          Vec<M, E, 2>& sv = Vec<M, E, 2>::updAs(buf); sv = a; chk("strided Vec = Vec", sv, ra, exact(M));
          bool gapsOk = true; for (int i = 0; i < M; ++i) if (i * 2 + 1 < 2 * M + 1) { C z(P(100 + 2 * i + 1), Cplx ? P(-(2 * i + 1)) : P(0)); if (scal(buf[2 * i + 1]) != toLC(z)) gapsOk = false; }
          x.c.require("fixed:strided-Vec-write-leaves-gaps:" + x.etype + ":" + std::to_string(M), gapsOk, nullptr);
          Vec<M, E> cp(sv); chk("Vec(strided Vec)", cp, ra, exact(M)); RefM o = addRef(ra, rb, +1, mag); chk("stridedVec+Vec", sv + b, o, tolv(mag, 1)); }
        if constexpr (M == 3) {
            RefM o(3, 1); std::vector<LD> mg(3);
            for (int i = 0; i < 3; ++i) { int j = (i + 1) % 3, k = (i + 2) % 3; o(i, 0) = ra(j, 0) * rb(k, 0) - ra(k, 0) * rb(j, 0); mg[i] = absLC(ra(j, 0)) * absLC(rb(k, 0)) + absLC(ra(k, 0)) * absLC(rb(j, 0)); }
            chk("Vec3%Vec3", a % b, o, tolv(mg, 3)); chk("cross(Vec3,Vec3)", cross(a, b), o, tolv(mg, 3));
            RefM orow(1, 3); for (int i = 0; i < 3; ++i) orow(0, i) = o(i, 0);
            // row % vec uses the row's elements as they are (no conjugation): r % b with r = positional transpose of a
            chk("Row3%Vec3", a.positionalTranspose() % b, orow, tolv(mg, 3));
            if constexpr (Easy) {   // crossMat() of conjugate<>/negated-complex elements: ill-formed (compile time)
            chk("crossMat(Vec3)*Vec3", crossMat(a) * b, o, tolv(mg, 4));
            { Mat<3, 3, E> cm = crossMat(a); RefM rc(3, 3); rc(0, 1) = -ra(2, 0); rc(0, 2) = ra(1, 0); rc(1, 0) = ra(2, 0); rc(1, 2) = -ra(0, 0); rc(2, 0) = -ra(1, 0); rc(2, 1) = ra(0, 0); chk("crossMat(Vec3)", cm, rc, exact(9)); }
            }
            { RefM o2(3, M); std::vector<LD> m2(3 * M); for (int c2 = 0; c2 < M; ++c2) for (int i = 0; i < 3; ++i) { int j = (i + 1) % 3, k = (i + 2) % 3; o2(i, c2) = ra(j, 0) * rA(k, c2) - ra(k, 0) * rA(j, c2); m2[i + 3 * c2] = absLC(ra(j, 0)) * absLC(rA(k, c2)) + absLC(ra(k, 0)) * absLC(rA(j, c2)); }
              chk("Vec3%Mat33", a % A, o2, tolv(m2, 3)); }
        }
        if constexpr (M == 2) { LC o = ra(0, 0) * rb(1, 0) - ra(1, 0) * rb(0, 0); LD mg = absLC(ra(0, 0)) * absLC(rb(1, 0)) + absLC(ra(1, 0)) * absLC(rb(0, 0)); chkS("Vec2%Vec2", a % b, o, x.tolOf(mg, 3)); }
        // ---- Mat
        { RefM o = addRef(rA, rB, +1, mag); chk("Mat+Mat", A + B, o, tolv(mag, 1)); o = addRef(rA, rB, -1, mag); chk("Mat-Mat", A - B, o, tolv(mag, 1)); }
        chk("-Mat", -A, negRef(rA), exact(M * M)); chk("~Mat", ~A, refHerm(rA), exact(M * M)); chk("~Mat(rect)", ~R, refHerm(rR), exact(M * N));
        { RefM o = refMul(rA, rB, mag); chk("Mat*Mat", A * B, o, tolv(mag, M + 1)); }
        { RefM o = refMul(rA, rR, mag); chk("Mat*Mat(rect)", A * R, o, tolv(mag, M + 1)); }
        if constexpr (!NegCplx) { RefM o = refMul(refHerm(rR), rA, mag); chk("~Mat(rect)*Mat", ~R * A, o, tolv(mag, M + 1)); }
        { RefM o = refMul(rA, rb, mag); chk("Mat*Vec", A * b, o, tolv(mag, M + 1)); }
        { RefM o = refMul(rR, rvn, mag); chk("Mat(rect)*Vec", R * vn, o, tolv(mag, N + 1)); }
        { RefM o = refMul(rr, rA, mag); chk("Row*Mat", rw * A, o, tolv(mag, M + 1)); }
        if constexpr (!NegCplx) { RefM o = refMul(refHerm(ra), rA, mag); chk("~Vec*Mat", ~a * A, o, tolv(mag, M + 1)); }
        if constexpr (!Cplx) { RefM o = refMul(negRef(refHerm(rA)), negRef(rB), mag); chk("(-~Mat)*(-Mat)", (-~A) * (-B), o, tolv(mag, M + 1)); }
        { RefM o = refMul(negRef(rA), refHerm(rB), mag); chk("(-Mat)*(~Mat)", (-A) * (~B), o, tolv(mag, M + 1)); }
        { RefM o = scaleRef(rA, sl, false, mag); chk("Mat*scalar", A * s, o, tolv(mag, 2)); chk("scalar*Mat", s * A, o, tolv(mag, 2)); o = scaleRef(rA, sl, true, mag); chk("Mat/scalar", A / s, o, tolv(mag, 4)); }
        { int i = x.r.integer(0, M - 1), j = x.r.integer(0, M - 1); RefM o(1, M), oc(M, 1); for (int k = 0; k < M; ++k) { o(0, k) = rA(i, k); oc(k, 0) = rA(k, j); }
          chk("Mat[i](row view)", A[i], o, exact(M)); chk("Mat(j)(col view)", A(j), oc, exact(M)); chk("Mat.row(i)", A.row(i), o, exact(M)); chk("Mat.col(j)", A.col(j), oc, exact(M));
          RefM od(M, 1); LC tr(0); LD tm = 0; for (int k = 0; k < M; ++k) { od(k, 0) = rA(k, k); tr += rA(k, k); tm += absLC(rA(k, k)); } chk("Mat.diag", A.diag(), od, exact(M)); chkS("Mat.trace", A.trace(), tr, x.tolOf(tm, M));
          Mat<M, M, E> W = A; W[i] = rw; RefM ow = rA; for (int k = 0; k < M; ++k) ow(i, k) = rr(0, k); chk("Mat[i]=Row(write-through)", W, ow, exact(M * M));
          W = A; W(j) = b; ow = rA; for (int k = 0; k < M; ++k) ow(k, j) = rb(k, 0); chk("Mat(j)=Vec(write-through)", W, ow, exact(M * M)); }
        { RefM cs(1, M), rsu(M, 1); std::vector<LD> mc(M, 0), mr(M, 0); for (int i = 0; i < M; ++i) for (int j = 0; j < M; ++j) { cs(0, j) += rA(i, j); mc[j] += absLC(rA(i, j)); rsu(i, 0) += rA(i, j); mr[i] += absLC(rA(i, j)); }
          chk("Mat.colSum", A.colSum(), cs, tolv(mc, M)); chk("Mat.rowSum", A.rowSum(), rsu, tolv(mr, M)); }
        { LD ss = 0; for (auto& z : rA.v) ss += std::norm(z); chkS("Mat.norm", A.norm(), LC(std::sqrt(ss)), x.tolOf(std::sqrt(ss), M * M + 2)); }
        { RefM t(M, M); for (int i = 0; i < M; ++i) for (int j = 0; j < M; ++j) t(j, i) = rA(i, j); chk("Mat.positionalTranspose", A.positionalTranspose(), t, exact(M * M)); }
        if constexpr (M >= 2) {
            int p = x.r.integer(0, M - 1);
            RefM dr(M - 1, M), dc(M, M - 1); for (int i = 0, ii = 0; i < M; ++i) { if (i == p) continue; for (int j = 0; j < M; ++j) dr(ii, j) = rA(i, j); ++ii; }
            for (int j = 0, jj = 0; j < M; ++j) { if (j == p) continue; for (int i = 0; i < M; ++i) dc(i, jj) = rA(i, j); ++jj; }
            chk("Mat.dropRow", A.dropRow(p), dr, exact((M - 1) * M)); chk("Mat.dropCol", A.dropCol(p), dc, exact((M - 1) * M));
            RefM sub(M - 1, M - 1); for (int i = 0; i < M - 1; ++i) for (int j = 0; j < M - 1; ++j) sub(i, j) = rA(i + 1, j + 1); chk("Mat.getSubMat", A.template getSubMat<M - 1, M - 1>(1, 1), sub, exact((M - 1) * (M - 1)));
            RefM ap(M + 1, M); for (int i = 0; i < M; ++i) for (int j = 0; j < M; ++j) ap(i, j) = rA(i, j); for (int j = 0; j < M; ++j) ap(M, j) = rr(0, j); chk("Mat.appendRow", A.appendRow(rw), ap, exact((M + 1) * M));
        }
        { // determinant and inverse (well conditioned inputs only)
            Mat<M, M, E> D = A; for (int i = 0; i < M; ++i) { C z = C(P(3 + M), 0) + rs() * P(0.1); D(i, i) = D(i, i) + ET<E>::make(&z); }
            RefM rD = ref(D), inv; LD cond = 0;
            if (refInv(rD, inv, cond) && cond < 1e3) {
                LC dt = refDet(rD); LD scale = 1; for (int j = 0; j < M; ++j) { LD cn = 0; for (int i = 0; i < M; ++i) cn += absLC(rD(i, j)); scale *= cn; }
                chkS("det(Mat)", det(D), dt, x.tolOf(scale, 4 * M * M));
                LD ni = 0; for (auto& z : inv.v) ni = std::max(ni, absLC(z));
                std::vector<LD> ti(inv.v.size(), 64 * M * x.eps * cond * ni);
                chk("Mat.invert", D.invert(), inv, ti); chk("inverse(Mat)", inverse(D), inv, ti); chk("lapackInverse(Mat)", lapackInverse(D), inv, ti);
                // inversion of Mat with conjugate<>/negated complex elements is ill-formed for several combinations (compile time)
                if constexpr (!Cplx) { chk("(~Mat).invert", (~D).invert(), refHerm(inv), ti); chk("(-Mat).invert", (-D).invert(), negRef(inv), ti); }
            } else x.c.skip("fixed-ill-conditioned");
        }
        // ---- SymMat (Hermitian for complex elements)
        if constexpr (!NegCplx) {
            Mat<M, M, E> H; for (int i = 0; i < M; ++i) for (int j = 0; j < M; ++j) { C z; ET<E>::get(A(i, j), &z); C w; ET<E>::get(A(j, i), &w); C h = z + std::conj(w); if (i == j) h = C(h.real() + P(2 * M), 0); H(i, j) = ET<E>::make(&h); }
            const RefM rH = ref(H);
            // SymMat(Mat) and setFromSymmetric() are ill-formed for negator<> elements (compile time):
            // such a SymMat is obtained as the negated view of a SymMat of the plain element type
            typedef typename CNT<E>::TNeg ENeg0; constexpr bool plain = std::is_same<E, typename CNT<E>::TWithoutNegator>::value;
            typedef typename std::conditional<plain, E, ENeg0>::type EStore;
            Mat<M, M, EStore> Hs; if constexpr (plain) Hs = H; else Hs = -H;
            SymMat<M, EStore> Sstore; Sstore.setFromSymmetric(Hs);
            const SymMat<M, E>& S = [&]() -> const SymMat<M, E>& { if constexpr (plain) return Sstore; else return -Sstore; }();
            if constexpr (plain) { chk("SymMat.setFromSymmetric", Sstore, rH, exact(M * M)); chk("SymMat(Mat)", SymMat<M, E>(H), rH, exact(M * M)); }
            chk("Mat(SymMat)", Mat<M, M, E>(S), rH, exact(M * M));
            { RefM o = refMul(rH, rb, mag); chk("SymMat*Vec", S * b, o, tolv(mag, M + 1)); }
            { RefM o = refMul(rr, rH, mag); chk("Row*SymMat", rw * S, o, tolv(mag, M + 1)); }
            { RefM o = addRef(rH, rH, +1, mag); chk("SymMat+SymMat", S + S, o, tolv(mag, 1)); }
            chk("-SymMat", -S, negRef(rH), exact(M * M)); chk("~SymMat", ~S, refHerm(rH), exact(M * M));
            { P sr = (P)x.r.uni(0.5, 3.0); std::vector<LD> mg; RefM o = scaleRef(rH, LC(sr), false, mg); chk("SymMat*real", S * sr, o, tolv(mg, 2)); }
            { LC tr(0); LD tm = 0; for (int k = 0; k < M; ++k) { tr += rH(k, k); tm += absLC(rH(k, k)); } chkS("SymMat.trace", S.trace(), tr, x.tolOf(tm, M)); }
            if constexpr (Easy) { RefM cs(1, M); std::vector<LD> mc(M, 0); for (int i = 0; i < M; ++i) for (int j = 0; j < M; ++j) { cs(0, j) += rH(i, j); mc[j] += absLC(rH(i, j)); } chk("SymMat.colSum", S.colSum(), cs, tolv(mc, M)); }
            RefM inv; LD cond = 0;
            if (refInv(rH, inv, cond) && cond < 1e3) {
                LC dt = refDet(rH); LD scale = 1; for (int j = 0; j < M; ++j) { LD cn = 0; for (int i = 0; i < M; ++i) cn += absLC(rH(i, j)); scale *= cn; }
                chkS("det(SymMat)", det(S), dt, x.tolOf(scale, 4 * M * M));
                if constexpr (M <= 3) { LD ni = 0; for (auto& z : inv.v) ni = std::max(ni, absLC(z)); std::vector<LD> ti(inv.v.size(), 64 * M * x.eps * cond * ni); chk("inverse(SymMat)", inverse(S), inv, ti); }
            } else x.c.skip("fixed-ill-conditioned");
            if constexpr (M == 3) { RefM rc(3, 3); rc(0, 1) = -ra(2, 0); rc(0, 2) = ra(1, 0); rc(1, 0) = ra(2, 0); rc(1, 2) = -ra(0, 0); rc(2, 0) = -ra(1, 0); rc(2, 1) = ra(0, 0);
                RefM o = refMul(rc, rH, mag); chk("Vec3%SymMat33", a % S, o, tolv(mag, 4)); RefM o2 = refMul(rH, rc, mag); chk("SymMat33%Vec3", S % a, o2, tolv(mag, 4)); }
        }
    }
};

template <class E, int M> inline void runSmallOne(vh::Ctx& c, vh::Rng& r) {
    SmallCtx x{c, r, ET<E>::name(), M, (LD)std::numeric_limits<typename ET<E>::P>::epsilon()};
    c.setPhase("fixed-size " + x.etype + " M=" + std::to_string(M));
    SmallCase<E, M>(x).run();
}
// <element type, size> cells (all sizes 1..6 for Real; a spread of sizes for the adaptor types to
// keep the compile time of this single translation unit bounded)
inline void runSmallCase(vh::Ctx& c, vh::Rng& r, long idx) {
    typedef std::complex<double> Z;
    switch ((int)(idx % 22)) {
    case 0: runSmallOne<double, 1>(c, r); break;  case 1: runSmallOne<double, 2>(c, r); break;  case 2: runSmallOne<double, 3>(c, r); break;
    case 3: runSmallOne<double, 4>(c, r); break;  case 4: runSmallOne<double, 5>(c, r); break;  case 5: runSmallOne<double, 6>(c, r); break;
    case 6: runSmallOne<Z, 1>(c, r); break;       case 7: runSmallOne<Z, 2>(c, r); break;       case 8: runSmallOne<Z, 3>(c, r); break;
    case 9: runSmallOne<Z, 4>(c, r); break;       case 10: runSmallOne<Z, 6>(c, r); break;
    case 11: runSmallOne<negator<double>, 2>(c, r); break; case 12: runSmallOne<negator<double>, 3>(c, r); break; case 13: runSmallOne<negator<double>, 5>(c, r); break;
    case 14: runSmallOne<conjugate<double>, 1>(c, r); break; case 15: runSmallOne<conjugate<double>, 3>(c, r); break; case 16: runSmallOne<conjugate<double>, 4>(c, r); break;
    case 17: runSmallOne<float, 2>(c, r); break;  case 18: runSmallOne<float, 3>(c, r); break;  case 19: runSmallOne<float, 6>(c, r); break;
    case 20: runSmallOne<negator<Z>, 2>(c, r); break; default: runSmallOne<negator<Z>, 3>(c, r); break;
    }
}

// ---------------------------------------------------------------- scalar adaptors
template <class A, class B> inline void scalarPair(vh::Ctx& c, vh::Rng& r) {
    typedef typename ET<A>::P P; typedef std::complex<P> C;
    const LD eps = std::numeric_limits<P>::epsilon();
    for (int rep = 0; rep < 4; ++rep) {
        C av((P)r.sym(5.0), ET<A>::Cplx ? (P)r.sym(5.0) : P(0)), bv((P)r.sym(5.0), ET<B>::Cplx ? (P)r.sym(5.0) : P(0));
        if (std::abs(bv) < 0.2) bv = C(1.25, 0);
        A a = ET<A>::make(&av); B b = ET<B>::make(&bv); LC al = toLC(av), bl = toLC(bv);
        auto chk = [&](const char* op, LC got, LC ref, LD mag) {
            std::string key = std::string("scalar:") + op + ":" + ET<A>::name() + "," + ET<B>::name();
            c.cover(std::string("scalar") + op + "|" + ET<A>::name() + "|" + ET<B>::name());
            LD tol = 64 * eps * mag;
            bool bad = std::isnan(got.real()) || std::isnan(got.imag());
            c.check(key, bad ? std::numeric_limits<double>::infinity() : (double)(absLC(got - ref) / (tol + 1e-300L)), 1.0,
                    [&] { return vh::Json::obj().set("a", jLC(al)).set("b", jLC(bl)).set("expected", jLC(ref)).set("got", jLC(got)); });
        };
        chk("+", scal(a + b), al + bl, absLC(al) + absLC(bl));
        chk("-", scal(a - b), al - bl, absLC(al) + absLC(bl));
        chk("*", scal(a * b), al * bl, absLC(al) * absLC(bl));
        chk("/", scal(a / b), al / bl, absLC(al / bl));
        chk("unary-", scal(-a), -al, 0);
        chk("CNT::transpose", scal(CNT<A>::transpose(a)), std::conj(al), 0);
        c.require(std::string("scalar:==:") + ET<A>::name() + "," + ET<B>::name(), (a == b) == (al == bl) && (a != b) == (al != bl), nullptr);
        if constexpr ((!ET<A>::Cplx && !ET<B>::Cplx) || std::is_same<A, B>::value)   // other compound assignments: ill-formed for several pairs
        { A t = a; t += b; chk("+=", scal(t), al + bl, absLC(al) + absLC(bl)); t = a; t -= b; chk("-=", scal(t), al - bl, absLC(al) + absLC(bl)); }
    }
}
template <class A, class B> inline void scalarPairMulEq(vh::Ctx& c, vh::Rng& r) { scalarPair<A, B>(c, r); }
template <class R> inline void scalarFamily(vh::Ctx& c, vh::Rng& r, int which) {
    typedef std::complex<R> Z; typedef conjugate<R> J; typedef negator<R> NR; typedef negator<Z> NZ; typedef negator<J> NJ;
    switch (which) {
    case 0: scalarPair<R, NR>(c, r); scalarPair<NR, R>(c, r); scalarPair<NR, NR>(c, r); scalarPair<Z, J>(c, r); scalarPair<J, Z>(c, r); scalarPair<J, J>(c, r); break;
    case 1: scalarPair<Z, NZ>(c, r); scalarPair<NZ, Z>(c, r); scalarPair<NZ, NZ>(c, r); scalarPair<J, NZ>(c, r); scalarPair<NZ, J>(c, r); break;
    case 2: scalarPair<Z, NJ>(c, r); scalarPair<NJ, Z>(c, r); scalarPair<NJ, NJ>(c, r); scalarPair<J, NJ>(c, r); scalarPair<NJ, J>(c, r); break;
    case 3: scalarPair<NZ, NJ>(c, r); scalarPair<NJ, NZ>(c, r); break;
    case 4: scalarPair<Z, R>(c, r); scalarPair<J, R>(c, r); scalarPair<NZ, R>(c, r); scalarPair<NJ, R>(c, r); scalarPair<Z, NR>(c, r); scalarPair<J, NR>(c, r); break;
    case 5: scalarPair<NZ, NR>(c, r); scalarPair<NJ, NR>(c, r); scalarPair<Z, Z>(c, r); break;
    case 6: scalarPair<R, Z>(c, r); scalarPair<R, J>(c, r); scalarPair<R, NZ>(c, r); scalarPair<R, NJ>(c, r); break;     // real on the left
    default: scalarPair<NR, Z>(c, r); scalarPair<NR, J>(c, r); scalarPair<NR, NZ>(c, r); scalarPair<NR, NJ>(c, r); break;
    }
}
inline void runScalarCase(vh::Ctx& c, vh::Rng& r, long idx) {
    int which = (int)(idx % 8); bool dbl = ((idx / 8) % 2) == 0;
    c.setPhase(std::string("scalar adaptors group ") + std::to_string(which) + (dbl ? " double" : " float"));
    if (dbl) scalarFamily<double>(c, r, which); else scalarFamily<float>(c, r, which);
}

} // namespace mx
