// text_xml.h — C32 part (c): XML round trips against a harness-side tree model, and parser memory safety on mutated documents.
// Included by mon_text.cpp only.
//
// Legal-client preconditions of the round trip (each one is a documented property of the TinyXML-based reader, see Xml.h "Details
// about XML" and setXmlCondenseWhiteSpace):
//   * names (tags, attribute names) start with a letter or '_' and continue with letters, digits, '_', '-', '.', ':';
//     attribute names are unique within an element;
//   * no NUL and no control characters other than \t \n \r in any string (XML 1.0 cannot represent them); strings are valid UTF-8;
//   * text nodes are non-blank and never adjacent to another text node; in "condense white space" mode (the default) a text has
//     no leading/trailing blank and no run of two blanks (they are condensed by design); in "preserve" mode documents are written
//     compact (pretty printing adds indentation that preserve mode would keep) and contain no \r (the file reader normalises line
//     ends);
//   * comments do not contain "-->", unknowns do not contain '>' and start with '!' or '?' or '%' but not with "!--", "![CDATA["
//     or "?xml";
//   * text containing the three characters "&#x" is a separate input class (TinyXML passes such sequences through unescaped).
#pragma once
#include "SimTKcommon.h"
#include "vh.h"
#include "text_values.h"
#include <sys/wait.h>
#include <unistd.h>
#include <fcntl.h>
#include <poll.h>
#include <sys/stat.h>

namespace tx {
using namespace SimTK;
using vh::Json;

struct MNode {
    enum Kind { Element, Text, Comment, Unknown } kind = Element;
    std::string text;                                        // tag / text / comment text / unknown contents
    std::vector<std::pair<std::string, std::string>> attrs;  // elements only, ordered
    std::vector<MNode> kids;                                 // elements only
    bool cdata = false;                                      // text written as CDATA by the harness serializer
};
struct MDoc {
    std::vector<MNode> before, after;   // top-level comments / unknowns around the root
    MNode root;
    std::string version = "1.0", encoding = "UTF-8"; bool standalone = true;
    bool hasAmpHashX = false;           // some text/attribute contains "&#x"
    bool hasCR = false;
    bool mixedText = false;             // some text node has siblings (pretty printing would surround it with white space)
};

static const char* kindName(MNode::Kind k) { return k == MNode::Element ? "element" : k == MNode::Text ? "text" : k == MNode::Comment ? "comment" : "unknown"; }

// ------------------------------------------------------------------------------------------------ generators
inline std::string randName(vh::Rng& r) {
    static const char first[] = "abcdefghijklmnopqrstuvwxyzABCDEFGHIJKLMNOPQRSTUVWXYZ_";
    static const char rest[] = "abcdefghijklmnopqrstuvwxyzABCDEFGHIJKLMNOPQRSTUVWXYZ_0123456789-.:";
    std::string s(1, first[r.next() % (sizeof first - 1)]);
    int n = r.integer(0, 7);
    for (int i = 0; i < n; ++i) s += rest[r.next() % (sizeof rest - 1)];
    if (s.size() >= 3 && (s[0] == 'x' || s[0] == 'X') && (s[1] == 'm' || s[1] == 'M') && (s[2] == 'l' || s[2] == 'L')) s[0] = 'y';   // "xml" is reserved
    return s;
}
inline void appendUtf8(std::string& s, uint32_t cp) {
    if (cp < 0x80) s += (char)cp;
    else if (cp < 0x800) { s += (char)(0xC0 | (cp >> 6)); s += (char)(0x80 | (cp & 0x3F)); }
    else if (cp < 0x10000) { s += (char)(0xE0 | (cp >> 12)); s += (char)(0x80 | ((cp >> 6) & 0x3F)); s += (char)(0x80 | (cp & 0x3F)); }
    else { s += (char)(0xF0 | (cp >> 18)); s += (char)(0x80 | ((cp >> 12) & 0x3F)); s += (char)(0x80 | ((cp >> 6) & 0x3F)); s += (char)(0x80 | (cp & 0x3F)); }
}
// mode: 0 attribute value, 1 text (condense), 2 text (preserve), 3 comment, 4 attribute value in preserve mode
inline std::string randChars(vh::Rng& r, int mode, bool allowCR, bool ampHashX) {
    static const char specials[] = "<>&\"'";
    static const char plain[] = "abcdefghijklmnopqrstuvwxyzABCDEFGHIJKLMNOPQRSTUVWXYZ0123456789.,;:!?#%*+-/=()[]{}_|~^@$`\\";
    std::string s;
    int n = r.integer(mode == 0 || mode == 4 ? 0 : 1, 24);
    for (int i = 0; i < n; ++i) {
        double u = r.uni();
        if (u < 0.22) s += specials[r.next() % 5];
        else if (u < 0.30) s += ' ';
        else if (u < 0.34) s += (r.coin() ? '\n' : '\t');
        else if (u < 0.35 && allowCR) s += '\r';
        else if (u < 0.42) { static const uint32_t cps[] = {0xE9, 0x3A9, 0x20AC, 0x4E2D, 0x1F600, 0xA0, 0x7FF, 0x800, 0xFFFD, 0x10000}; appendUtf8(s, cps[r.next() % 10]); }
        else if (u < 0.45) { static const char* ent[] = {"&amp;", "&lt;", "&#65;", "&quot;", "&bogus;", "&", "&#", "&;"}; s += ent[r.next() % 8]; }   // literal text that looks like an entity
        else s += plain[r.next() % (sizeof plain - 1)];
    }
    if (ampHashX) { static const char* t[] = {"&#x41;", "&#x", "a&#xZZ;b", "&#x3A9;"}; s.insert((size_t)r.integer(0, (int)s.size()), t[r.next() % 4]); }
    else { size_t p; while ((p = s.find("&#x")) != std::string::npos) s[p + 2] = 'y'; }
    if (mode == 3) { size_t p; while ((p = s.find("-->")) != std::string::npos) s[p + 2] = ')'; }
    if (mode == 1) {   // canonical blanks for condense mode
        std::string t; for (char ch : s) { if (ch == ' ' && (t.empty() || t.back() == ' ')) continue; t += ch; }
        while (!t.empty() && t.back() == ' ') t.pop_back();
        s = t;
    }
    if (mode == 1 || mode == 2) {   // non-blank
        bool blank = true; for (char ch : s) if (!std::isspace((unsigned char)ch)) blank = false;
        if (blank) s += "x";
    }
    return s;
}
inline std::string randUnknown(vh::Rng& r) {
    static const char* heads[] = {"!DOCTYPE ", "!ELEMENT ", "?php ", "%pe ", "!whazzis ", "?target "};
    std::string s = heads[r.next() % 6];
    static const char plain[] = "abcdefghijklmnopqrstuvwxyz ABC0123456789\"'=[]()&;#-";
    int n = r.integer(0, 16);
    for (int i = 0; i < n; ++i) s += plain[r.next() % (sizeof plain - 1)];
    return s;
}
struct GenOpt { bool preserve; bool allowAmpHashX; bool allowCR; bool allowCdata; };
inline MNode randElement(vh::Rng& r, int depth, const GenOpt& o, MDoc& d) {
    MNode e; e.kind = MNode::Element; e.text = randName(r);
    int na = r.coin(0.5) ? 0 : r.integer(1, 4);
    for (int i = 0; i < na; ++i) {
        std::string nm = randName(r); bool dup = false; for (auto& a : e.attrs) if (a.first == nm) dup = true; if (dup) continue;
        bool ahx = o.allowAmpHashX && r.coin(0.15); if (ahx) d.hasAmpHashX = true;
        std::string v = randChars(r, o.preserve ? 4 : 0, o.allowCR, ahx);
        if (v.find('\r') != std::string::npos) d.hasCR = true;
        e.attrs.emplace_back(nm, v);
    }
    double u = r.uni();
    if (u < 0.2 || depth >= 4) { // leaf: empty or value element
        if (r.coin(0.75)) { MNode t; t.kind = MNode::Text; bool ahx = o.allowAmpHashX && r.coin(0.15); if (ahx) d.hasAmpHashX = true; t.text = randChars(r, o.preserve ? 2 : 1, o.allowCR, ahx); if (t.text.find('\r') != std::string::npos) d.hasCR = true; e.kids.push_back(t); }
        return e;
    }
    int nk = r.integer(1, 5);
    bool lastWasText = false;
    for (int i = 0; i < nk; ++i) {
        double w = r.uni();
        MNode k;
        if (w < 0.45) { k = randElement(r, depth + 1, o, d); lastWasText = false; }
        else if (w < 0.70 && !lastWasText) { k.kind = MNode::Text; bool ahx = o.allowAmpHashX && r.coin(0.1); if (ahx) d.hasAmpHashX = true; k.text = randChars(r, o.preserve ? 2 : 1, o.allowCR, ahx); if (k.text.find('\r') != std::string::npos) d.hasCR = true;
                                              if (o.allowCdata && r.coin(0.3) && k.text.find("]]>") == std::string::npos) k.cdata = true; lastWasText = true; }
        else if (w < 0.85) { k.kind = MNode::Comment; k.text = randChars(r, 3, false, false); lastWasText = false; }
        else if (w < 0.95) { k.kind = MNode::Unknown; k.text = randUnknown(r); lastWasText = false; }
        else continue;
        e.kids.push_back(k);
    }
    bool hasText = false; for (auto& k : e.kids) if (k.kind == MNode::Text) hasText = true;
    if (hasText && e.kids.size() > 1) d.mixedText = true;
    return e;
}
inline MDoc randDoc(vh::Rng& r, const GenOpt& o) {
    MDoc d;
    d.root = randElement(r, 0, o, d);
    int nb = r.coin(0.5) ? 0 : r.integer(1, 2), na = r.coin(0.6) ? 0 : r.integer(1, 2);
    for (int i = 0; i < nb + na; ++i) { MNode k; if (r.coin(0.7)) { k.kind = MNode::Comment; k.text = randChars(r, 3, false, false); } else { k.kind = MNode::Unknown; k.text = randUnknown(r); } (i < nb ? d.before : d.after).push_back(k); }
    if (r.coin(0.2)) d.standalone = false;
    if (r.coin(0.2)) d.version = "1.1";
    return d;
}

// ------------------------------------------------------------------------------------------------ building through the API
inline Xml::Node buildNode(const MNode& m);
inline Xml::Element buildElement(const MNode& m) {
    Xml::Element e(m.text);
    for (auto& a : m.attrs) e.setAttributeValue(a.first, a.second);
    for (auto& k : m.kids) e.appendNode(buildNode(k));
    return e;
}
inline Xml::Node buildNode(const MNode& m) {
    switch (m.kind) {
    case MNode::Element: return buildElement(m);
    case MNode::Text: return Xml::Text(m.text);
    case MNode::Comment: return Xml::Comment(m.text);
    default: return Xml::Unknown(m.text);
    }
}
inline void buildDoc(const MDoc& d, Xml::Document& doc) {
    Xml::Element root = doc.getRootElement();
    root.setElementTag(d.root.text);
    for (auto& a : d.root.attrs) root.setAttributeValue(a.first, a.second);
    for (auto& k : d.root.kids) root.appendNode(buildNode(k));
    Xml::node_iterator rootIt = doc.node_begin(Xml::ElementNode);
    for (auto& k : d.before) doc.insertTopLevelNodeBefore(rootIt, buildNode(k));
    for (auto& k : d.after) doc.insertTopLevelNodeAfter(doc.node_end(), buildNode(k));
    if (d.version != "1.0") doc.setXmlVersion(d.version);
    if (!d.standalone) doc.setXmlIsStandalone(false);
}

// ------------------------------------------------------------------------------------------------ comparison model <-> library document
inline std::string show(const std::string& s) { std::string o; Json::esc(s.size() > 120 ? s.substr(0, 120) + "..." : s, o); return o; }
inline bool cmpNode(const MNode& m, Xml::Node& n, const std::string& path, std::string& diff);
inline bool cmpKids(const std::vector<MNode>& kids, Xml::node_iterator it, const Xml::node_iterator& end, const std::string& path, std::string& diff) {
    size_t i = 0;
    for (; it != end; ++it, ++i) {
        if (i >= kids.size()) { diff = path + ": extra node #" + std::to_string(i) + " of type " + std::string(it->getNodeTypeAsString()) + " text " + show(it->getNodeText()); return false; }
        if (!cmpNode(kids[i], *it, path + "/" + std::to_string(i), diff)) return false;
    }
    if (i != kids.size()) { diff = path + ": node #" + std::to_string(i) + " (" + kindName(kids[i].kind) + " " + show(kids[i].text) + ") is missing"; return false; }
    return true;
}
inline bool cmpNode(const MNode& m, Xml::Node& n, const std::string& path, std::string& diff) {
    Xml::NodeType want = m.kind == MNode::Element ? Xml::ElementNode : m.kind == MNode::Text ? Xml::TextNode : m.kind == MNode::Comment ? Xml::CommentNode : Xml::UnknownNode;
    if (n.getNodeType() != want) { diff = path + ": node type " + std::string(n.getNodeTypeAsString()) + " (" + show(n.getNodeText()) + ") where " + kindName(m.kind) + " " + show(m.text) + " was expected"; return false; }
    if (std::string(n.getNodeText()) != m.text) { diff = path + ": " + kindName(m.kind) + " text " + show(n.getNodeText()) + " differs from " + show(m.text); return false; }
    if (m.kind != MNode::Element) return true;
    Xml::Element e = Xml::Element::getAs(n);
    size_t i = 0;
    for (Xml::attribute_iterator a = e.attribute_begin(); a != e.attribute_end(); ++a, ++i) {
        if (i >= m.attrs.size()) { diff = path + ": extra attribute " + show(a->getName()); return false; }
        if (std::string(a->getName()) != m.attrs[i].first) { diff = path + ": attribute #" + std::to_string(i) + " is " + show(a->getName()) + ", expected " + show(m.attrs[i].first) + " (order/name)"; return false; }
        if (std::string(a->getValue()) != m.attrs[i].second) { diff = path + ": attribute " + m.attrs[i].first + " value " + show(a->getValue()) + " differs from " + show(m.attrs[i].second); return false; }
    }
    if (i != m.attrs.size()) { diff = path + ": attribute " + m.attrs[i].first + " is missing"; return false; }
    return cmpKids(m.kids, e.node_begin(), e.node_end(), path, diff);
}
inline bool cmpDoc(const MDoc& d, Xml::Document& doc, std::string& diff) {
    std::vector<MNode> top = d.before; top.push_back(d.root); for (auto& k : d.after) top.push_back(k);
    if (!cmpKids(top, doc.node_begin(), doc.node_end(), "", diff)) return false;
    if (std::string(doc.getRootTag()) != d.root.text) { diff = "getRootTag() " + show(doc.getRootTag()) + " differs from " + show(d.root.text); return false; }
    if (std::string(doc.getXmlVersion()) != d.version) { diff = "xml version " + show(doc.getXmlVersion()) + " differs from " + d.version; return false; }
    if (doc.getXmlIsStandalone() != d.standalone) { diff = "standalone flag differs"; return false; }
    if (std::string(doc.getXmlEncoding()) != d.encoding) { diff = "encoding " + show(doc.getXmlEncoding()) + " differs from " + d.encoding; return false; }
    return true;
}

// ------------------------------------------------------------------------------------------------ harness-side serializer (alternate spellings)
struct Esc { bool attr; char quote; bool preserve; bool nonAsciiRefs; };
inline void escapeInto(std::string& out, const std::string& s, const Esc& e, vh::Rng& r, bool& usedNonAsciiRef) {
    for (size_t i = 0; i < s.size();) {
        const unsigned char ch = (unsigned char)s[i];
        uint32_t cp = ch; size_t len = 1;
        auto cont = [&](size_t k) { return (uint32_t)((unsigned char)s[i + k] & 0x3Fu); };
        if (ch >= 0xF0 && i + 3 < s.size()) { cp = ((ch & 7u) << 18) | (cont(1) << 12) | (cont(2) << 6) | cont(3); len = 4; }
        else if (ch >= 0xE0 && i + 2 < s.size()) { cp = ((ch & 0xFu) << 12) | (cont(1) << 6) | cont(2); len = 3; }
        else if (ch >= 0xC0 && i + 1 < s.size()) { cp = ((ch & 0x1Fu) << 6) | cont(1); len = 2; }
        // control characters: raw white space is only safe in preserve-mode text; everywhere else write a character reference
        const bool must = cp == '<' || cp == '&' || (e.attr && cp == (unsigned char)e.quote) || (cp < 0x20 && (e.attr || !e.preserve));
        const bool optional = !must && ((cp >= 0x20 && cp < 0x80 && r.coin(0.08)) || (cp >= 0x80 && e.nonAsciiRefs && r.coin(0.5)) || (cp == '>' && r.coin(0.5)));
        if (must || optional) {
            char buf[16];
            if (cp == '<' && r.coin()) out += "&lt;";
            else if (cp == '&' && r.coin()) out += "&amp;";
            else if (cp == '>' && r.coin()) out += "&gt;";
            else if (cp == '"' && r.coin()) out += "&quot;";
            else if (cp == '\'' && r.coin()) out += "&apos;";
            else { if (r.coin()) snprintf(buf, sizeof buf, "&#%u;", cp); else snprintf(buf, sizeof buf, r.coin() ? "&#x%X;" : "&#x%x;", cp); out += buf; if (cp >= 0x80) usedNonAsciiRef = true; }
        } else out.append(s, i, len);
        i += len;
    }
}
struct SerOpt { bool numericRefsNonAscii; bool bom; bool preserve; };
inline void serNode(std::string& out, const MNode& m, vh::Rng& r, const SerOpt& o, bool& usedNonAsciiRef) {
    auto ws = [&]() { return o.preserve ? std::string() : std::string(r.coin(0.3) ? (r.coin() ? "\n  " : " ") : ""); };
    switch (m.kind) {
    case MNode::Text:
        if (m.cdata) out += "<![CDATA[" + m.text + "]]>";
        else escapeInto(out, m.text, Esc{false, 0, o.preserve, o.numericRefsNonAscii}, r, usedNonAsciiRef);
        break;
    case MNode::Comment: out += ws() + "<!--" + m.text + "-->" + ws(); break;
    case MNode::Unknown: out += ws() + "<" + m.text + ">" + ws(); break;
    case MNode::Element: {
        out += ws() + "<" + m.text;
        for (auto& a : m.attrs) {
            const char q = r.coin() ? '"' : '\'';
            out += (r.coin(0.2) ? "\n  " : " ") + a.first + (r.coin(0.2) ? " = " : "=") + q;
            escapeInto(out, a.second, Esc{true, q, o.preserve, o.numericRefsNonAscii}, r, usedNonAsciiRef);
            out += q;
        }
        if (m.kids.empty() && r.coin(0.7)) { out += r.coin() ? "/>" : " />"; out += ws(); break; }
        out += r.coin(0.2) ? " >" : ">";
        for (auto& k : m.kids) serNode(out, k, r, o, usedNonAsciiRef);
        out += "</" + m.text + ">" + ws();
    } break;
    }
}
inline std::string serialize(const MDoc& d, vh::Rng& r, const SerOpt& o, bool& usedNonAsciiRef) {
    std::string out;
    if (o.bom) out += "\xEF\xBB\xBF";
    out += "<?xml version=\"" + d.version + "\" encoding=\"" + d.encoding + "\"" + (d.standalone ? "" : " standalone=\"no\"") + (r.coin() ? "?>" : " ?>") + "\n";
    for (auto& k : d.before) { serNode(out, k, r, o, usedNonAsciiRef); out += "\n"; }
    serNode(out, d.root, r, o, usedNonAsciiRef); out += "\n";
    for (auto& k : d.after) { serNode(out, k, r, o, usedNonAsciiRef); out += "\n"; }
    return out;
}

inline std::string tmpPath(const vh::Ctx& c, const char* tag) {
    char b[256]; snprintf(b, sizeof b, "/tmp/vh_c32_%d_%d_%s.xml", (int)getpid(), c.args.worker, tag); return b;
}

// ------------------------------------------------------------------------------------------------ the round-trip case
inline void xmlRoundTrip(vh::Ctx& c, long idx, vh::Rng& r) {
    const bool preserve = (idx / 5) % 3 == 2;                 // every third tree in "preserve white space" mode
    const bool ampClass = (idx / 5) % 7 == 3;                 // dedicated "&#x" input class
    GenOpt go{preserve, ampClass, preserve ? false : true, false};
    // in condense mode \r inside text/attributes is written as &#x0D; and survives both routes
    struct ModeGuard { bool old; ModeGuard(bool cond) : old(Xml::Document::isXmlWhiteSpaceCondensed()) { Xml::Document::setXmlCondenseWhiteSpace(cond); } ~ModeGuard() { Xml::Document::setXmlCondenseWhiteSpace(old); } } guard(!preserve);
    c.setPhase("xml generate");
    MDoc d = randDoc(r, go);
    const std::string mode = preserve ? "preserve" : "condense";
    const bool amp = d.hasAmpHashX;   // separate input class: one key whatever the route / mode
    const std::string icls;
    auto W = [&](const std::string& what, const std::string& diff, const std::string& text) {
        return [=]() { return Json::obj().set("what", what).set("difference", diff).set("white_space_mode", mode).set("document", text.substr(0, 1500)); };
    };
    std::string diff, text;
    try {
        c.setPhase("xml build through API");
        Xml::Document doc;
        buildDoc(d, doc);
        c.cover(std::string("xml:built:") + (amp ? "amp-hash-x:" : "") + mode + (d.mixedText ? ":mixed-content" : ":value-elements-only") + (d.before.empty() && d.after.empty() ? "" : ":top-level-junk"));
        bool ok = cmpDoc(d, doc, diff);
        c.require(amp ? std::string("xml:roundtrip:text-contains-amp-hash-x") : "xml:api-build-then-read:" + mode, ok, W("document built through the API does not read back as built", diff, ""));

        // string route, pretty and compact
        for (int compact = 0; compact < 2; ++compact) {
            if (preserve && !compact && d.mixedText) { c.skip("pretty-print-adds-whitespace-in-preserve-mode"); continue; }
            c.setPhase(std::string("xml writeToString ") + (compact ? "compact" : "pretty"));
            String s; doc.writeToString(s, compact != 0); text = s;
            Xml::Document back;
            bool parsed = true; std::string perr;
            try { if (r.coin()) back.readFromString(s); else back.readFromString(s.c_str()); } catch (const std::exception& e) { parsed = false; perr = vh::firstLine(e.what()); }
            ok = parsed && cmpDoc(d, back, diff);
            c.require(amp ? std::string("xml:roundtrip:text-contains-amp-hash-x") : "xml:writeToString-readFromString:" + mode + (compact ? ":compact" : ":pretty"), ok, W(parsed ? "re-read document differs from the original" : "library cannot re-read its own output: " + perr, diff, text));
            if (ok && compact) {  // written twice gives the same text (idempotence of the canonical form)
                String s2; back.writeToString(s2, true);
                c.require(amp ? std::string("xml:roundtrip:text-contains-amp-hash-x") : "xml:rewrite-is-stable:" + mode, std::string(s2) == std::string(s), W("second write differs from first", "", std::string(s2)));
            }
        }
        // deep copy
        c.setPhase("xml copy");
        { Xml::Document cp(doc); Xml::Document as; as = doc; ok = cmpDoc(d, cp, diff) && cmpDoc(d, as, diff);
          c.require(amp ? std::string("xml:roundtrip:text-contains-amp-hash-x") : "xml:copy-is-deep-and-equal:" + mode, ok, W("copy-constructed / assigned document differs", diff, "")); }
        // file route (always pretty printed)
        if (preserve && d.mixedText) c.skip("file-route-pretty-prints");
        else {
            c.setPhase("xml file route");
            const std::string path = tmpPath(c, "rt");
            doc.writeToFile(path);
            bool parsed = true; std::string perr;
            Xml::Document back;
            try { if (r.coin()) back.readFromFile(path); else back = Xml::Document(path); } catch (const std::exception& e) { parsed = false; perr = vh::firstLine(e.what()); }
            ok = parsed && cmpDoc(d, back, diff);
            c.require(amp ? std::string("xml:roundtrip:text-contains-amp-hash-x") : "xml:writeToFile-readFromFile:" + mode, ok, W(parsed ? "document re-read from file differs" : "library cannot re-read its own file: " + perr, diff, ""));
            unlink(path.c_str());
        }
    } catch (const std::exception& e) {
        c.viol(amp ? std::string("xml:roundtrip:text-contains-amp-hash-x") : "xml:unexpected-exception:" + mode, Json::obj().set("what", vh::firstLine(e.what(), 400)).set("phase", c.phase));
    }
}

// parse direction: documents written by the harness (alternate but legal spellings) must parse to the model
inline void xmlParseModel(vh::Ctx& c, long idx, vh::Rng& r) {
    const bool preserve = (idx / 5) % 4 == 3;
    struct ModeGuard { bool old; ModeGuard(bool cond) : old(Xml::Document::isXmlWhiteSpaceCondensed()) { Xml::Document::setXmlCondenseWhiteSpace(cond); } ~ModeGuard() { Xml::Document::setXmlCondenseWhiteSpace(old); } } guard(!preserve);
    GenOpt go{preserve, false, false, true};
    MDoc d = randDoc(r, go);
    SerOpt so{(idx / 5) % 2 == 1, r.coin(0.2), preserve};
    bool usedNonAsciiRef = false;
    std::string text = serialize(d, r, so, usedNonAsciiRef);
    const std::string mode = preserve ? "preserve" : "condense";

    c.setPhase("xml parse harness-written document");
    c.cover("xml:parse:" + mode + (so.bom ? ":bom" : "") + (usedNonAsciiRef ? ":non-ascii-charref" : ""));
    std::string diff; bool parsed = true; std::string perr;
    try {
        Xml::Document doc;
        try { doc.readFromString(text.c_str()); } catch (const std::exception& e) { parsed = false; perr = vh::firstLine(e.what()); }
        bool ok = parsed && cmpDoc(d, doc, diff);
        c.require(usedNonAsciiRef && !so.bom ? std::string("xml:parse-harness-written-document:non-ascii-numeric-character-reference") : "xml:parse-harness-written-document:" + mode, ok, [&] {
            return Json::obj().set("what", parsed ? "parsed document differs from the model it was written from" : "legal document rejected: " + perr).set("difference", diff).set("white_space_mode", mode).set("document", text.substr(0, 1500)); });
    } catch (const std::exception& e) {
        c.viol("xml:unexpected-exception:parse:" + mode, Json::obj().set("what", vh::firstLine(e.what(), 400)).set("document", text.substr(0, 1500)));
    }
}

// typed values through XML (getValueAs / setValueAs / toXmlElement / fromXmlElement)
inline void xmlTypedValues(vh::Ctx& c, vh::Rng& r) {
    using tv::same;
    c.setPhase("xml typed values");
    try {
        Xml::Document doc; doc.setRootTag("values");
        Xml::Element root = doc.getRootElement();
        std::string cl; bool nf = false;
        const double xd = tv::randFloat<double>(r, cl); const float xf = tv::randFloat<float>(r, cl); const int xi = tv::randInt<int>(r); const bool xb = r.coin();
        const Vec3 v3 = tv::randVec<double, 3>(r, false, nf); const Mat33 m33 = tv::randMat<double, 3, 3>(r, false, nf);
        int n = r.integer(0, 9); Vector_<double> vec(n); for (int i = 0; i < n; ++i) vec[i] = tv::elem<double>(r, false, nf);
        const Vec3 v3fin = tv::randVec<double, 3>(r, true, nf);
        root.appendNode(Xml::Element("d", xd));                       // templated constructor -> String(value)
        Xml::Element ef("f"); ef.setValueAs<float>(xf); root.appendNode(ef);
        root.appendNode(Xml::Element("i", String(xi)));
        Xml::Element eb("b"); eb.setValueAs<bool>(xb); root.appendNode(eb);
        root.appendNode(toXmlElement(v3, "v3"));
        root.appendNode(toXmlElement(m33, "m33"));
        root.appendNode(toXmlElement(vec, "vec"));
        root.appendNode(toXmlElement(v3fin, "v3fin"));
        root.setAttributeValue("ad", String(xd)); root.setAttributeValue("ab", String(xb));
        String s; doc.writeToString(s, r.coin());
        Xml::Document back; back.readFromString(s);
        Xml::Element br = back.getRootElement();
        auto W = [&](const char* what) { return [&, what]() { return Json::obj().set("what", what).set("document", std::string(s).substr(0, 1500)); }; };
        c.cover("xml:typed-values");
        c.require("xml:getValueAs:double", same(br.getRequiredElement("d").getValueAs<double>(), xd) && same(br.getRequiredElementValueAs<double>("d"), xd), W("getValueAs<double> after round trip differs bitwise"));
        c.require("xml:getValueAs:float", same(br.getRequiredElement("f").getValueAs<float>(), xf), W("getValueAs<float> after round trip differs bitwise"));
        c.require("xml:getValueAs:int", br.getRequiredElement("i").getValueAs<int>() == xi && br.getOptionalElementValueAs<int>("i", 7) == xi, W("getValueAs<int> differs"));
        c.require("xml:getValueAs:bool", br.getRequiredElement("b").getValueAs<bool>() == xb, W("getValueAs<bool> differs"));
        c.require("xml:attributeValueAs", same(br.getRequiredAttributeValueAs<double>("ad"), xd) && br.getOptionalAttributeValueAs<bool>("ab", !xb) == xb && br.getOptionalAttributeValueAs<int>("missing", 42) == 42, W("attribute value accessors differ"));
        Vec3 v3b(0); Mat33 m33b(0); Vector_<double> vecb;
        Xml::Element e1 = br.getRequiredElement("v3"), e2 = br.getRequiredElement("m33"), e3 = br.getRequiredElement("vec"), e4 = br.getRequiredElement("v3fin");
        fromXmlElement(v3b, e1, "v3"); fromXmlElement(m33b, e2, "m33"); fromXmlElement(vecb, e3, "vec");
        c.require("xml:toXmlElement-fromXmlElement:Vec3", same(v3, v3b), W("Vec3 through toXmlElement/fromXmlElement differs"));
        c.require("xml:toXmlElement-fromXmlElement:Mat33", same(m33, m33b), W("Mat33 through toXmlElement/fromXmlElement differs"));
        c.require("xml:toXmlElement-fromXmlElement:Vector", same(vec, vecb), W("Vector through toXmlElement/fromXmlElement differs"));
        // getValueAs<Vec3> uses the stream extractor of Vec (a different parser): finite values only
        c.require("xml:getValueAs:Vec3:finite", same(e4.getValueAs<Vec3>(), v3fin), W("getValueAs<Vec3> differs for finite values"));
    } catch (const std::exception& e) {
        c.viol("xml:typed-values:unexpected-exception", Json::obj().set("what", vh::firstLine(e.what(), 400)));
    }
}

// ------------------------------------------------------------------------------------------------ mutated documents (memory safety)
inline std::string mutate(vh::Rng& r, const std::string& base, const std::string& other, std::string& how) {
    std::string s = base;
    if (s.empty()) s = "<a/>";
    auto pos = [&]() { return (size_t)(r.next() % (s.size() + 1)); };
    switch (r.integer(0, 9)) {
    case 0: how = "truncate"; s.resize(pos()); break;
    case 1: { how = "byte-flip"; int k = r.integer(1, 3); for (int i = 0; i < k && !s.empty(); ++i) s[r.next() % s.size()] = (char)(r.next() & 0xFF); } break;
    case 2: { how = "delete-range"; size_t a = pos(), b = pos(); if (a > b) std::swap(a, b); s.erase(a, std::min<size_t>(b - a, 40)); } break;
    case 3: { how = "duplicate-range"; size_t a = pos(), b = pos(); if (a > b) std::swap(a, b); s.insert(pos(), s.substr(a, std::min<size_t>(b - a, 40))); } break;
    case 4: { how = "insert-token"; static const char* tok[] = {"<", ">", "&", "&#", "&#x", "&#x;", "&#xFFFFFFFFFF;", "&#99999999999;", "<![CDATA[", "]]>", "<!--", "-->", "\"", "'", "=", "/>", "</", "<?xml ", "?>", "\xEF\xBB\xBF", "\xEF\xBB", "\xF0\x9F", "\xE2\x82", "<!", "< ", "<a b=", "<a b='", "&lt", "\xEF\xBF\xBE"};
              s.insert(pos(), tok[r.next() % (sizeof tok / sizeof tok[0])]); } break;
    case 5: { how = "truncate-after-token"; static const char* tok[] = {"<", "&", "&#", "&#x", "<![CDATA[", "<!--", "\"", "'", "=", "</", "<?xml version=\"", "\xEF\xBB", "\xF0\x9F\x98", "<a b=\"x", "<a b='x", "<a b=x", "<a ", "<a", "</a", "<!DOCTYPE", "<?xml encoding="};
              s.resize(pos()); s += tok[r.next() % (sizeof tok / sizeof tok[0])]; } break;
    case 6: { how = "splice"; size_t a = pos(); s = s.substr(0, a) + other.substr(std::min(other.size(), (size_t)(r.next() % (other.size() + 1)))); } break;
    case 7: { how = "bom-prefix+truncate"; s = "\xEF\xBB\xBF" + s; s.resize(pos()); } break;
    case 8: { how = "swap-brackets"; for (auto& ch : s) if ((ch == '<' || ch == '>' || ch == '"' || ch == '\'') && r.coin(0.08)) ch = "<>\"'&/"[r.next() % 6]; } break;
    default: { how = "high-bytes"; int k = r.integer(1, 4); for (int i = 0; i < k && !s.empty(); ++i) s[r.next() % s.size()] = (char)(0x80 | (r.next() & 0x7F)); if (r.coin()) s.resize(pos()); } break;
    }
    size_t z = s.find('\0'); if (z != std::string::npos) { how += "+NUL"; }
    return s;
}
// Runs in the forked child: parse (string or file route), and if the parser accepts, walk and re-serialize the document.
inline int exerciseMutant(const std::string& m, bool fileRoute, bool preserve, const std::string& path) {
    Xml::Document::setXmlCondenseWhiteSpace(!preserve);
    try {
        Xml::Document doc;
        if (fileRoute) { FILE* f = fopen(path.c_str(), "wb"); if (!f) return 3; fwrite(m.data(), 1, m.size(), f); fclose(f); doc.readFromFile(path); }
        else {   // exactly sized heap buffer: any read past the terminating NUL is out of bounds
            size_t n = std::strlen(m.c_str());
            char* buf = new char[n + 1]; std::memcpy(buf, m.c_str(), n + 1);
            struct Del { char* p; ~Del() { delete[] p; } } del{buf};
            doc.readFromString(buf);
        }
        // accepted: traverse everything and write it out again
        size_t count = 0;
        std::function<void(Xml::Element)> walk = [&](Xml::Element e) {
            count += e.getElementTag().size();
            for (Xml::attribute_iterator a = e.attribute_begin(); a != e.attribute_end(); ++a) count += a->getName().size() + a->getValue().size();
            if (e.isValueElement()) count += e.getValue().size();
            for (Xml::node_iterator n = e.node_begin(); n != e.node_end(); ++n) { count += n->getNodeText().size(); if (n->getNodeType() == Xml::ElementNode) walk(Xml::Element::getAs(*n)); }
        };
        for (Xml::node_iterator n = doc.node_begin(); n != doc.node_end(); ++n) count += n->getNodeText().size();
        walk(doc.getRootElement());
        String out; doc.writeToString(out, (count & 1) != 0);
        (void)doc.getXmlVersion(); (void)doc.getXmlEncoding(); (void)doc.getXmlIsStandalone();
        return 0;   // parsed
    } catch (const std::exception&) { return 1; }   // rejected with an exception: the documented outcome
}
// Every sanitizer abort costs seconds (symbolisation); once the parser has been shown to crash a few times in this worker the
// remaining mutant cases add nothing and are skipped (counted as inconclusive, never as passes).
static int g_crashBudget = 3;
// Runs the documents in forked children (a child handles documents until it dies; the parent then attributes the death to the
// document that was in progress and starts a new child for the rest). Returns false when the crash budget ran out.
inline bool runHostileDocs(vh::Ctx& c, const std::vector<std::string>& muts, const std::vector<std::string>& hows, const std::vector<char>& viaFile,
                           bool preserve, int* budget, const char* keyPrefix) {
    const int NM = (int)muts.size();
    const std::string path = tmpPath(c, "mut");
    const bool noFork = c.args.getInt("nofork", 0) != 0;
    int next = 0; bool withinBudget = true;
    while (next < NM) {
        c.setPhase("xml hostile documents (" + hows[next] + (viaFile[next] ? ", file route)" : ", string route)"));
        fflush(stdout); fflush(stderr);
        int fds[2]; if (pipe(fds) != 0) { c.skip("pipe-failed"); return true; }
        pid_t pid = noFork ? -2 : fork();
        if (pid == -1) { close(fds[0]); close(fds[1]); c.skip("fork-failed"); return true; }
        if (pid == 0 || noFork) {
            if (!noFork) close(fds[0]);
            for (int i = next; i < NM; ++i) {
                unsigned char msg[1] = {(unsigned char)i};
                if (write(fds[1], msg, 1) != 1) {}
                if (!noFork) c.setPhase("xml hostile documents (" + hows[i] + (viaFile[i] ? ", file route)" : ", string route)"));
                int rc = exerciseMutant(muts[i], viaFile[i] != 0, preserve, path);
                msg[0] = (unsigned char)(0x80 | rc); if (write(fds[1], msg, 1) != 1) {}
            }
            if (!noFork) _exit(0);
        }
        close(fds[1]);
        int current = -1; std::vector<int> outcome(NM, -1);
        unsigned char b;
        // parent-side watchdog: no progress for 15 s and no sanitizer report being written by the child => the parser hangs
        bool hung = false; int quietSeconds = 0;
        for (;;) {
            struct pollfd pf = {fds[0], POLLIN, 0};
            int pr = poll(&pf, 1, 1000);
            if (pr > 0) { if (read(fds[0], &b, 1) != 1) break; quietSeconds = 0; if (b & 0x80) { if (current >= 0) outcome[current] = b & 0x7F; } else current = b; continue; }
            if (pr < 0 && errno != EINTR) break;
            if (++quietSeconds < 15 || noFork) continue;
            bool reporting = false;   // an ASan report (symbolisation can take long on a loaded machine) is not a hang
            // (ASan and UBSan share one runtime: the report goes to whichever log_path was parsed last, so look at both)
            for (const char* var : {"ASAN_OPTIONS", "UBSAN_OPTIONS"})
                if (const char* ao = getenv(var)) { std::string o = ao; size_t k = o.find("log_path="); if (k != std::string::npos) { std::string lp = o.substr(k + 9); lp = lp.substr(0, lp.find(':')); struct stat st;
                    if (stat((lp + "." + std::to_string((long)pid)).c_str(), &st) == 0) reporting = true; } }
            if (reporting && quietSeconds < 300) continue;
            hung = true; kill(pid, SIGKILL); break;
        }
        close(fds[0]);
        int status = 0; if (!noFork) waitpid(pid, &status, 0);
        for (int i = next; i < NM; ++i) if (outcome[i] >= 0) {
            c.cover(std::string(keyPrefix) + ":" + hows[i] + (viaFile[i] ? ":file" : ":string") + (outcome[i] == 0 ? ":parsed" : ":rejected"));
            c.obs(outcome[i] == 0 ? "hostile-document-parsed" : "hostile-document-rejected-with-exception");
            // an outcome (parse or exception) without a sanitizer report is what the property asks for
            c.require(std::string(keyPrefix) + ":outcome", outcome[i] == 0 || outcome[i] == 1, [&] { return Json::obj().set("what", "harness could not run the document").set("rc", outcome[i]); });
        }
        if (noFork) break;
        if (WIFEXITED(status) && WEXITSTATUS(status) == 0) break;     // child finished all remaining documents
        int crashed = current < next ? next : current;                  // the child died while working on 'current'
        std::string shown; Json::esc(muts[crashed].substr(0, 1200), shown);
        const bool hang = hung;
        c.viol(std::string(keyPrefix) + (hang ? ":parser-hang(15s)" : ":parser-crashed"),
               Json::obj().set("what", hang ? "the parser did not return within 15 s on a hostile document" : "the parser process died (sanitizer abort or signal) on a hostile document; see the sanitizer report of this case")
                   .set("mutation", hows[crashed]).set("route", viaFile[crashed] ? "file" : "string").set("white_space_mode", preserve ? "preserve" : "condense").set("wait_status", status)
                   .set("signal", WIFSIGNALED(status) ? WTERMSIG(status) : 0).set("document_json", shown).set("document_length", (long)muts[crashed].size()));
        next = crashed + 1;
        if (budget && --*budget <= 0) { c.obs("hostile-documents-not-run-after-crash-budget", NM - next); withinBudget = false; break; }
    }
    unlink(path.c_str());
    return withinBudget;
}
// Pinned hostile documents (found by earlier exploration): run once, by worker 0, outside the crash budget.
inline void xmlPinnedHostile(vh::Ctx& c) {
    std::vector<std::string> docs = {
        "<a b=\"x",                                   // attribute value never closed
        "<?xml version=\"1.0",                        // declaration attribute never closed
        "<a><![CDATA[x",                              // CDATA never closed
        "\xEF\xBB\xBF<a><!--x\xEF",                   // UTF-8 mode, error position bookkeeping meets a lone 0xEF at the end
        "\xEF\xBB\xBF<a>\xE2\x82",                    // UTF-8 mode, truncated multi-byte character at the end
        "<a>&#x;&#xFFFFFFFFFFFFFFFFF;&#;</a>",         // degenerate character references
    };
    std::vector<std::string> hows = {"pinned:unclosed-attribute", "pinned:unclosed-declaration", "pinned:unclosed-cdata", "pinned:bom-lone-0xEF-at-end", "pinned:bom-truncated-multibyte", "pinned:degenerate-charrefs"};
    std::vector<char> viaFile(docs.size(), 0);
    runHostileDocs(c, docs, hows, viaFile, false, nullptr, "xml-pinned");
}
inline void xmlMutants(vh::Ctx& c, long idx, vh::Rng& r) {
    { static bool init = false; if (!init) { init = true; g_crashBudget = (int)c.args.getInt("crashbudget", g_crashBudget); } }
    if (idx == 0 && c.args.worker == 0) { xmlPinnedHostile(c); return; }
    if (g_crashBudget <= 0) { c.skip("crash-budget-exhausted:parser-already-shown-to-crash"); return; }
    const bool preserve = r.coin(0.25);
    GenOpt go{preserve, r.coin(0.1), true, true};
    MDoc d = randDoc(r, go), d2 = randDoc(r, go);
    SerOpt so{r.coin(), r.coin(0.15), preserve};
    bool dummy = false;
    const std::string base = serialize(d, r, so, dummy), other = serialize(d2, r, so, dummy);
    const int NM = 24;
    std::vector<std::string> muts(NM), hows(NM); std::vector<char> viaFile(NM);
    for (int i = 0; i < NM; ++i) { muts[i] = mutate(r, base, other, hows[i]); viaFile[i] = r.coin(0.2); }
    runHostileDocs(c, muts, hows, viaFile, preserve, &g_crashBudget, "xml-mutant");
}

} // namespace tx
