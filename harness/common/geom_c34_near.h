// geom_c34_near.h — C34: query generation, nearest-point oracles, support points, bounding spheres.
#pragma once
#include "geom_c34_shapes.h"

namespace c34 {

enum Outcome { OK, UNIMPL, EXC };
// run a library call; documented "unimplemented" exceptions are counted as unobservable, anything else is a violation
template <class F> inline Outcome guarded(vh::Ctx& c, const Shape& s, const std::string& what, F f) {
    try { f(); return OK; }
    catch (const std::exception& e) {
        std::string m = e.what();
        if (m.find("mplement") != std::string::npos) { c.obs(std::string("unobservable:") + s.name() + ":" + what); return UNIMPL; }
        c.viol(std::string("exception@") + s.name() + ":" + what + ":" + vh::normMsg(m).substr(0, 80),
               Json::obj().set("shape", s.json()).set("what", vh::firstLine(m, 500)));
        return EXC;
    }
}

struct Query { Vec3 x; std::string region; };
static const char* REGION[6] = {"outside", "inside", "on", "far", "degenerate", "near"};

// random surface point of the shape in a neighbourhood (focus,L) for unbounded shapes
inline SurfPt randSurf(const Shape& s, vh::Rng& r, const Vec3& focus, double L) { return surfPoint(s, r.uni(), r.uni(), focus, L); }

// a point strictly inside, obtained by pulling a surface point towards the shape's core
inline Vec3 pullInside(const Shape& s, const SurfPt& sp, double frac) {
    switch (s.kind) {
    case HALFSPACE: return sp.p + Vec3(frac * s.size * 3, 0, 0);
    case SPHERE: case ELLIPSOID: case BRICK: return sp.p * (1 - frac);
    case CYLINDER: return Vec3(sp.p[0] * (1 - frac), sp.p[1] * (1 - frac), sp.p[2]);
    case TORUS: return sp.p - sp.n * (frac * s.r);
    case HEIGHTMAP: return sp.p - Vec3(0, 0, frac * s.size);
    case MESH: return sp.p + (s.mesh.center - sp.p) * frac;    // star-shaped classes only approximately; judged by parity
    default: return sp.p;
    }
}

inline Query genQuery(const Shape& s, int region, int sub, vh::Rng& r, const Vec3& focus, double L) {
    Query q; q.region = REGION[region];
    SurfPt sp = randSurf(s, r, focus, L);
    switch (region) {
    case 0: q.x = sp.p + sp.n * (s.size * r.logUni(1e-3, 3)); break;
    case 1: q.x = pullInside(s, sp, r.logUni(1e-3, 0.97)); break;
    case 2: q.x = sp.p; break;
    case 3: q.x = sp.p + sp.n * (s.size * r.logUni(30, 300)) + randBox(r, 10 * s.size); break;
    case 5: q.x = sp.p + sp.n * (s.size * (r.coin() ? 1 : -1) * r.logUni(1e-9, 1e-5)); break;
    case 4:
        switch (s.kind) {
        case SPHERE: q.x = Vec3(0); q.region = "degenerate-center"; break;
        case ELLIPSOID: {
            int k = sub % 5, ax = r.integer(0, 2);
            static const char* DN[5] = {"degenerate-center", "degenerate-axis-inside", "degenerate-axis-outside", "degenerate-plane-inside", "degenerate-plane"};
            q.region = DN[k];
            if (k == 0) q.x = Vec3(0);
            else if (k == 1) { q.x = Vec3(0); q.x[ax] = s.abc[ax] * r.uni(-0.95, 0.95); }                  // on an axis, inside
            else if (k == 2) { q.x = Vec3(0); q.x[ax] = s.abc[ax] * r.uni(1.05, 4) * (r.coin() ? 1 : -1); }   // on an axis, outside
            else if (k == 3) { q.x = pullInside(s, sp, r.uni(0.05, 0.9)); q.x[ax] = 0; }                    // symmetry plane, inside
            else { q.x = sp.p + sp.n * (s.size * r.uni(0.1, 2)); q.x[ax] = 0; }                              // symmetry plane (mostly outside)
        } break;
        case CYLINDER: q.x = Vec3(0, 0, focus[2] + r.sym(L)); q.region = "degenerate-axis"; break;
        case TORUS: {
            int k = sub % 3; double a = r.uni(0, 2 * PI);
            static const char* DN[3] = {"degenerate-axis", "degenerate-center-circle", "degenerate-origin"};
            q.region = DN[k];
            if (k == 0) q.x = Vec3(0, 0, r.sym(2 * s.size));
            else if (k == 1) q.x = Vec3(s.R * std::cos(a), s.R * std::sin(a), 0);       // on the centre circle
            else q.x = Vec3(0);
        } break;
        case HALFSPACE: q.x = Vec3(0, focus[1] + r.sym(L), focus[2] + r.sym(L)); break;
        case BRICK: {
            int k = sub % 3;
            static const char* DN[3] = {"degenerate-center", "degenerate-equidistant", "degenerate-vertex-edge"};
            q.region = DN[k];
            if (k == 0) q.x = Vec3(0);
            else if (k == 1) { double m = std::min(s.abc[0], std::min(s.abc[1], s.abc[2])) * r.uni(0.1, 0.9);    // equidistant to three faces
                               q.x = Vec3(s.abc[0] - m, s.abc[1] - m, s.abc[2] - m); }
            else { q.x = Vec3(s.abc[0], s.abc[1], s.abc[2]); if (r.coin()) q.x[r.integer(0, 2)] *= r.uni(-1, 1); }   // vertex / edge
        } break;
        case MESH: {
            int k = sub % 3, f = r.integer(0, s.mesh.nf() - 1);
            static const char* DN[3] = {"degenerate-center", "degenerate-vertex", "degenerate-edge"};
            q.region = DN[k];
            if (k == 0) q.x = s.mesh.center;
            else if (k == 1) q.x = s.mesh.v[s.mesh.f[3 * f]];
            else q.x = 0.5 * (s.mesh.v[s.mesh.f[3 * f]] + s.mesh.v[s.mesh.f[3 * f + 1]]);
        } break;
        default: q.x = sp.p; break;
        }
        break;
    }
    return q;
}

inline double nearTol(const Shape& s) {
    // relative tolerance of on-surface / optimality checks, from the error model of the shipped algorithm
    return s.kind == ELLIPSOID ? 1e-8 : 1e-11;
}

// ------------------------------------------------------------------ findNearestPoint
inline void nearestChecks(vh::Ctx& c, const Shape& s, vh::Rng& r, long idx, int nq) {
    const std::string sh = s.keyName;
    Vec3 focus = randBox(r, 3 * s.size); double L = 4 * s.size;
    for (int q = 0; q < nq; ++q) {
        int region = (int)((idx / NKIND + q) % 6);
        if (s.kind == HEIGHTMAP && region == 4) region = 0;
        Query Q = genQuery(s, region, (int)(idx / NKIND / 6 + q), r, focus, L);
        const std::string cell = sh + ":" + Q.region;
        // ellipsoids with repeated radii: one root cause (multiple roots of the distance polynomial) whatever the region
        if (s.kind == ELLIPSOID && sh != "ellipsoid") Q.region = Q.region.compare(0, 10, "degenerate") == 0 ? "degenerate" : "regular";
        c.setPhase("findNearestPoint " + cell);
        const double sc = s.size + Q.x.norm();
        auto W = [&](const Vec3& p, const std::string& note) {
            return [=, &s]() { return Json::obj().set("shape", s.json()).set("query", jv(Q.x)).set("region", Q.region).set("returned", jv(p)).set("note", note); };
        };
        if (s.kind == BRICK) {
            // ContactGeometry::Brick::findNearestPoint is unimplemented (documented exception); the brick's
            // closest-point service is its Geo::Box
            bool in0 = false; UnitVec3 nn(1, 0, 0);
            guarded(c, s, "findNearestPoint", [&] { s.g->findNearestPoint(Q.x, in0, nn); });
            const Geo::Box& box = s.brick->getGeoBox();
            bool inA = false, inB = true, inC = false;
            Vec3 p = box.findClosestPointOnSurface(Q.x, inA); box.findClosestPointOnSurface(Q.x, inB);
            Vec3 ps = box.findClosestPointOfSolidBox(Q.x, inC);
            LD iv = insideValue(s, V3(Q.x));
            c.cover("box-closest:" + cell);
            if (!c.require("nan@brick:box-closest:" + Q.region, finite3(p) && finite3(ps), W(p, "NaN from Geo::Box closest point"))) continue;
            c.check("onsurface@brick:box-closest:" + Q.region, (double)std::fabs(insideValue(s, V3(p))), 1e-12 * sc, W(p, "closest point not on box surface"));
            c.check("optimal@brick:box-closest:" + Q.region, (p - Q.x).norm() - (double)std::fabs(iv), 1e-12 * sc, W(p, "closest surface point farther than exact distance"));
            c.check("optimal@brick:box-solid:" + Q.region, (ps - Q.x).norm() - (double)std::max<LD>(-iv, 0), 1e-12 * sc, W(ps, "closest solid point farther than exact distance"));
            c.check("value@brick:box-distsqr:" + Q.region, std::fabs(box.findDistanceSqrToPoint(Q.x) - (double)(iv < 0 ? iv * iv : 0)), 1e-12 * sc * sc, W(p, "findDistanceSqrToPoint"));
            if (std::fabs((double)iv) > 1e-9 * sc) {
                bool truth = iv > 0;
                c.require("inside@brick:box-closest:" + Q.region, inA == truth && inB == truth && inC == truth, W(p, "ptWasInside flag wrong"));
                c.require("inside@brick:box-contains:" + Q.region, box.containsPoint(Q.x) == truth, W(p, "containsPoint wrong"));
            }
            continue;
        }
        // two calls with different sentinels detect outputs that are never written
        bool inA = false, inB = true;
        UnitVec3 nA(1, 0, 0), nB(0, 1, 0);
        Vec3 p(NaN), p2(NaN);
        Outcome o = guarded(c, s, "findNearestPoint", [&] { p = s.g->findNearestPoint(Q.x, inA, nA); p2 = s.g->findNearestPoint(Q.x, inB, nB); });
        if (o != OK) continue;
        c.cover("nearest:" + cell);
        if (s.kind == HEIGHTMAP) {
            // SmoothHeightMap::findNearestPoint is "assert(false); return NaN" - silent in release builds
            if (!finite3(p)) { c.viol("unimplemented-silent@heightmap:findNearestPoint", W(p, "returns NaN without raising the documented exception")()); }
            else c.obs("heightmap-nearest-finite");
            continue;
        }
        if (!c.require("nan@" + sh + ":nearest-point:" + Q.region, finite3(p), W(p, "nearest point has NaN/Inf"))) continue;
        c.require("deterministic@" + sh + ":nearest-point", (p - p2).norm() == 0, W(p2, "two identical calls differ"));
        bool insideSet = !(inA == false && inB == true), normalSet = !((Vec3(nA) - Vec3(1, 0, 0)).norm() == 0 && (Vec3(nB) - Vec3(0, 1, 0)).norm() == 0);
        c.require("notset@" + sh + ":inside-flag", insideSet, W(p, "inside output never written (caller's value survives)"));
        c.require("notset@" + sh + ":normal", normalSet, W(p, "normal output never written (caller's value survives)"));
        const double tol = nearTol(s) * sc;
        // (i) on the surface
        LD dsurf = 0; exactDistance(s, V3(p), dsurf);
        c.check("onsurface@" + sh + ":nearest:" + Q.region, (double)dsurf, tol, W(p, "returned point is not on the surface"));
        if (s.kind == MESH) {
            int face = -1; Vec2 uv(NaN); bool in2 = false;
            Vec3 pf = s.tm->findNearestPoint(Q.x, in2, face, uv);
            bool okf = face >= 0 && face < s.mesh.nf() && uv[0] >= -1e-12 && uv[1] >= -1e-12 && uv[0] + uv[1] <= 1 + 1e-12;
            if (c.require("faceuv@mesh:nearest-range", okf, W(pf, "face/uv out of range")))
                c.check("faceuv@mesh:nearest-reproduce", (s.tm->findPoint(face, uv) - pf).norm(), 1e-12 * sc, W(pf, "findPoint(face,uv) != returned point"));
        }
        // (ii) optimality: exact distance where known, plus search over the surface
        LD dex = 0; bool haveExact = exactDistance(s, V3(Q.x), dex);
        double dlib = (p - Q.x).norm();
        double dbest = haveExact ? (double)dex : Infinity;
        if (s.kind != MESH) {
            Vec3 fq = s.finite() ? focus : Q.x;
            double ds = sampledBestDistance(s, Q.x, fq, s.finite() ? L : std::max(L, 2 * dlib), r);
            if (haveExact && ds < (double)dex * (1 - 1e-6) - 1e-7 * sc)
                c.viol("harness:closed-form-beaten-by-sampling:" + sh, W(p, "harness oracle inconsistency")());
            dbest = std::min(dbest, ds);
        }
        c.check("optimal@" + sh + ":nearest:" + Q.region, dlib - dbest * (1 + 1e-9), tol, W(p, "a closer surface point exists"));
        // (iii) inside flag
        if (insideSet) {
            bool judged = false, truth = false;
            if (s.kind == MESH) {
                if ((double)dex > 1e-9 * sc) {
                    BfInside bi = bfInside(s.mesh, V3(Q.x), r); LD wn = windingNumber(s.mesh, V3(Q.x));
                    bool wnIn = wn > 0.5L;
                    if (bi.ok && std::fabs(wn - (wnIn ? 1 : 0)) < 1e-6L && wnIn == bi.inside) { judged = true; truth = bi.inside; } else c.skip("inside-oracles-not-clean");
                }
            } else {
                LD iv = insideValue(s, V3(Q.x));
                LD band = (s.kind == ELLIPSOID ? 1e-9L : 1e-9L * sc);
                if (std::fabs(iv) > band) { judged = true; truth = iv > 0; }
            }
            std::string ikey = Q.region;
            if (s.kind == MESH) { BfNearest bn = bfNearest(s.mesh, V3(Q.x)); ikey = triFeature(bn.p, s.mesh.vert(bn.face, 0), s.mesh.vert(bn.face, 1), s.mesh.vert(bn.face, 2)); }
            if (judged) c.require("inside@" + sh + ":nearest:" + ikey, inA == truth && inB == truth, W(p, truth ? "query is inside, flag says outside" : "query is outside, flag says inside"));
            else c.obs("inside-flag-on-boundary-not-judged");
        }
        // normal: unit, outward normal of the surface at p
        if (normalSet) {
            Vec3 n(nA);
            if (c.require("nan@" + sh + ":nearest-normal:" + Q.region, finite3(n), W(p, "normal has NaN"))) {
                c.check("unit@" + sh + ":nearest-normal", std::fabs(n.norm() - 1), 1e-12, W(p, "normal not unit"));
                if (s.kind == MESH) {
                    int face = -1; Vec2 uv; bool in2;
                    s.tm->findNearestPoint(Q.x, in2, face, uv);
                    V3 A = s.mesh.vert(face, 0), B = s.mesh.vert(face, 1), C = s.mesh.vert(face, 2);
                    V3 fn = cross(B - A, C - A); fn = (1 / norm(fn)) * fn;
                    c.check("normal@mesh:nearest-face-normal", (n - toVec3(fn)).norm(), 1e-9, W(p, "normal is not the outward normal of the reported face"));
                } else if ((double)dsurf <= tol) {
                    // analytic outward normal at the returned point (skip singular spots of the parameterisation)
                    Vec3 an(NaN);
                    switch (s.kind) {
                    case HALFSPACE: an = Vec3(-1, 0, 0); break;
                    case SPHERE: an = p / p.norm(); break;
                    case ELLIPSOID: { Vec3 g(p[0] / (s.abc[0] * s.abc[0]), p[1] / (s.abc[1] * s.abc[1]), p[2] / (s.abc[2] * s.abc[2])); an = g / g.norm(); } break;
                    case CYLINDER: { Vec3 g(p[0], p[1], 0); an = g / g.norm(); } break;
                    case TORUS: { double rho = std::sqrt(p[0] * p[0] + p[1] * p[1]); Vec3 cc(p[0] / rho * s.R, p[1] / rho * s.R, 0); an = (p - cc) / (p - cc).norm(); } break;
                    default: break;
                    }
                    if (finite3(an)) c.check("normal@" + sh + ":nearest:" + Q.region, (n - an).norm(), s.kind == ELLIPSOID ? 1e-6 : 1e-9, W(p, "normal is not the outward surface normal at the returned point"));
                }
            }
        }
        if (c.wantSample() && q == 0) c.sample(Json::obj().set("shape", s.json()).set("query", jv(Q.x)).set("region", Q.region).set("nearest", jv(p)).set("inside", inA));
    }
}

// ------------------------------------------------------------------ calcSupportPoint
inline void supportChecks(vh::Ctx& c, const Shape& s, vh::Rng& r, long idx, int nq) {
    const std::string sh = s.keyName;
    bool convex = s.g->isConvex();
    for (int q = 0; q < nq; ++q) {
        int cls = (int)((idx / NKIND + q) % 3);
        Vec3 d = randUnit(r);
        const char* dc = "generic";
        if (cls == 1) { d = Vec3(0); d[r.integer(0, 2)] = r.coin() ? 1 : -1; dc = "axis"; }
        else if (cls == 2) { int k = r.integer(0, 2); d[k] = 0; if (d.norm() < 1e-3) d[(k + 1) % 3] = 1; d /= d.norm(); dc = "in-plane"; }
        if (s.kind == CYLINDER && cls != 1) { d[2] = 0; if (d.norm() < 1e-3) d = Vec3(1, 0, 0); d /= d.norm(); dc = "radial"; }   // finite support only ⊥ axis
        c.setPhase("calcSupportPoint " + sh);
        Vec3 sp(NaN);
        Outcome o = guarded(c, s, "calcSupportPoint", [&] { sp = s.g->calcSupportPoint(UnitVec3(d)); });
        if (o != OK) continue;
        if (!convex) { c.obs(std::string("support-of-nonconvex-not-judged@") + sh); continue; }
        auto W = [&, sp, d]() { return Json::obj().set("shape", s.json()).set("direction", jv(d)).set("returned", jv(sp)); };
        c.cover("support@" + sh + ":" + dc);
        if (s.kind == CYLINDER) {
            if (!finite3(sp)) { if (!(d[2] != 0)) c.viol("unimplemented-silent@cylinder:calcSupportPoint", W()); else c.obs("cylinder-support-along-axis-unbounded"); continue; }
        }
        if (!c.require("nan@" + sh + ":support", finite3(sp), W)) continue;
        const double sc = s.size;
        c.check("onsurface@" + sh + ":support", (double)std::fabs(insideValue(s, V3(sp))) * (s.kind == ELLIPSOID ? s.size : 1), 1e-11 * sc, W);
        double h = NaN;
        if (s.kind == SPHERE) h = s.R;
        else if (s.kind == ELLIPSOID) h = Vec3(s.abc[0] * d[0], s.abc[1] * d[1], s.abc[2] * d[2]).norm();
        else if (s.kind == BRICK) h = s.abc[0] * std::fabs(d[0]) + s.abc[1] * std::fabs(d[1]) + s.abc[2] * std::fabs(d[2]);
        else if (s.kind == CYLINDER) h = s.R;
        double got = SimTK::dot(d, sp);
        if (std::isfinite(h)) c.check("maximal@" + sh + ":support-closed-form", h - got, 1e-12 * sc, W);
        double mx = -Infinity;
        for (int i = 0; i < 600; ++i) mx = std::max(mx, SimTK::dot(d, surfPoint(s, r.uni(), r.uni(), sp, s.size).p));
        c.check("maximal@" + sh + ":support-samples", mx - got, 1e-12 * sc, W);
    }
}

// ------------------------------------------------------------------ getBoundingSphere
inline void boundingChecks(vh::Ctx& c, const Shape& s, vh::Rng& r) {
    const std::string sh = s.keyName;
    c.setPhase("getBoundingSphere " + sh);
    Vec3 ctr(NaN); Real rad = NaN;
    if (guarded(c, s, "getBoundingSphere", [&] { s.g->getBoundingSphere(ctr, rad); }) != OK) return;
    auto W = [&, ctr, rad]() { return Json::obj().set("shape", s.json()).set("center", jv(ctr)).set("radius", rad); };
    c.cover("bsphere:" + sh);
    if (!s.finite()) { c.require("bsphere@" + sh + ":infinite-shape-needs-infinite-radius", rad == Infinity, W); return; }
    if (!c.require("nan@" + sh + ":bsphere", finite3(ctr) && std::isfinite(rad) && rad >= 0, W)) return;
    double worst = 0;
    int n = s.kind == HEIGHTMAP ? 40 : 30;
    for (int i = 0; i <= n; ++i) for (int j = 0; j <= n; ++j) {
        double u = std::min((double)i / n, 1 - 1e-12), v = std::min((double)j / n, 1 - 1e-12);
        worst = std::max(worst, (surfPoint(s, u, v, ctr, s.size).p - ctr).norm() - rad);
    }
    for (int i = 0; i < 300; ++i) worst = std::max(worst, (surfPoint(s, r.uni(), r.uni(), ctr, s.size).p - ctr).norm() - rad);
    if (s.kind == MESH) for (auto& v : s.mesh.v) worst = std::max(worst, (v - ctr).norm() - rad);
    c.check("contains@" + sh + ":bsphere", worst, 1e-12 * (s.size + ctr.norm()), W);
    c.require("tight@" + sh + ":bsphere-not-absurd", rad <= 3 * s.size + 1e-9, W);
}

}  // namespace c34
