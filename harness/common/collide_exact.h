// collide_exact.h — harness-side exact geometry for mon_collide (C35). Nothing here calls the library's
// collision code: closed forms and brute force in long double.
//   * convex quadric pairs (sphere = ellipsoid with equal radii): the directional overlap
//         g(n) = h_A(n) + h_B(-n) - n.(cB - cA),  h(n) = sqrt(n' R D^2 R' n)
//     is the distance surface B must be translated along n to just touch A. Its minimum over unit n is the
//     penetration depth (>0) or minus the separation distance (<0); the minimiser is the contact normal A->B and
//     the two support points are the contact points. Minimised by dense sampling + Newton on the sphere.
//   * half-space against convex shapes: support function.
//   * triangle meshes: brute-force triangle/triangle, point/triangle and plane tests with a three-valued answer
//     (definitely in / definitely out / inside the tolerance band).
#pragma once
#include "geom_util.h"

namespace cx {
using gm::LD; using gm::V3; using gm::dot; using gm::cross; using gm::norm;
using SimTK::Vec3; using SimTK::Transform; using SimTK::Rotation;

struct Quad {                      // symmetric 3x3 in long double
    LD m[3][3];
    V3 mul(const V3& v) const {
        return V3(m[0][0] * v.x + m[0][1] * v.y + m[0][2] * v.z, m[1][0] * v.x + m[1][1] * v.y + m[1][2] * v.z,
                  m[2][0] * v.x + m[2][1] * v.y + m[2][2] * v.z);
    }
};
// R diag(w) R'
inline Quad quadOf(const Rotation& R, const Vec3& w) {
    Quad q;
    for (int i = 0; i < 3; ++i) for (int j = 0; j < 3; ++j) {
        LD s = 0;
        for (int k = 0; k < 3; ++k) s += (LD)R.asMat33()(i, k) * (LD)w[k] * (LD)R.asMat33()(j, k);
        q.m[i][j] = s;
    }
    return q;
}
inline V3 unit(const V3& v) { LD n = norm(v); return (1 / n) * v; }
inline void tangentBasis(const V3& n, V3& t1, V3& t2) {
    V3 a = std::fabs((double)n.x) < 0.6 ? V3(1, 0, 0) : V3(0, 1, 0);
    t1 = unit(a - dot(a, n) * n);
    t2 = cross(n, t1);
}

struct Ellip {                     // an ellipsoid placed in the world
    V3 c; Quad M, Minv;            // M = R D^2 R', Minv = R D^-2 R'
    Ellip() {}
    Ellip(const Transform& X, const Vec3& radii) {
        c = V3(X.p());
        M = quadOf(X.R(), Vec3(radii[0] * radii[0], radii[1] * radii[1], radii[2] * radii[2]));
        Minv = quadOf(X.R(), Vec3(1 / (radii[0] * radii[0]), 1 / (radii[1] * radii[1]), 1 / (radii[2] * radii[2])));
    }
    LD h(const V3& n) const { return std::sqrt(dot(n, M.mul(n))); }      // support height about the centre
    V3 support(const V3& n) const { V3 m = M.mul(n); return c + (1 / std::sqrt(dot(n, m))) * m; }
    // second fundamental form (outward normal, convex => positive) at surface point p, in tangent basis (t1,t2)
    void curvForm(const V3& p, const V3& t1, const V3& t2, LD& a, LD& b, LD& cc) const {
        V3 g = Minv.mul(p - c); LD gn = norm(g);
        a = dot(t1, Minv.mul(t1)) / gn; b = dot(t1, Minv.mul(t2)) / gn; cc = dot(t2, Minv.mul(t2)) / gn;
    }
};

struct PairExact {
    LD g = 0;                // min_n g(n): depth if > 0, -distance if < 0
    V3 n;                    // minimiser: contact normal pointing from A to B
    V3 P, Q;                 // extreme point of A (deepest into B), of B (deepest into A)
    int numMinima = 1;       // distinct local minima of g found by the multi-start
    LD lambdaMin = 0;        // smallest eigenvalue of the tangent Hessian at the minimiser (normal conditioning)
    LD kmax = 0, kmin = 0;   // relative principal curvatures at the contact
};

struct GEval { LD g; V3 grad; V3 ma, mb; LD sa, sb; };
inline GEval evalG(const Ellip& A, const Ellip& B, const V3& d, const V3& n) {
    GEval e;
    e.ma = A.M.mul(n); e.mb = B.M.mul(n);
    e.sa = std::sqrt(dot(n, e.ma)); e.sb = std::sqrt(dot(n, e.mb));
    e.g = e.sa + e.sb - dot(n, d);
    e.grad = (1 / e.sa) * e.ma + (1 / e.sb) * e.mb - d;
    return e;
}
// tangent (Riemannian) Hessian of g on the unit sphere at n
inline void tangentHess(const Ellip& A, const Ellip& B, const GEval& e, const V3& t1, const V3& t2, LD& a, LD& b, LD& c) {
    auto form = [&](const V3& u, const V3& v) {
        LD ha = dot(u, A.M.mul(v)) / e.sa - dot(u, e.ma) * dot(v, e.ma) / (e.sa * e.sa * e.sa);
        LD hb = dot(u, B.M.mul(v)) / e.sb - dot(u, e.mb) * dot(v, e.mb) / (e.sb * e.sb * e.sb);
        return ha + hb;
    };
    a = form(t1, t1) - e.g; b = form(t1, t2); c = form(t2, t2) - e.g;
}
// local minimisation of g from n0; returns false when it ends at a point that is not a strict local minimum
inline bool refineMin(const Ellip& A, const Ellip& B, const V3& d, V3& n, GEval& e, LD& lamMin) {
    e = evalG(A, B, d, n);
    LD scale = e.sa + e.sb + norm(d);
    for (int it = 0; it < 60; ++it) {
        V3 t1, t2; tangentBasis(n, t1, t2);
        LD g1 = dot(t1, e.grad), g2 = dot(t2, e.grad);
        LD gn = std::sqrt(g1 * g1 + g2 * g2);
        if (gn < 1e-17L * scale) break;
        LD a, b, c; tangentHess(A, B, e, t1, t2, a, b, c);
        LD det = a * c - b * b, d1, d2;
        if (a > 0 && det > 1e-12L * (a * a + c * c)) { d1 = -(c * g1 - b * g2) / det; d2 = -(-b * g1 + a * g2) / det; }
        else { LD s = 0.2L / gn; d1 = -s * g1; d2 = -s * g2; }   // not convex here: a 0.2 rad step downhill
        LD len = std::sqrt(d1 * d1 + d2 * d2);
        if (len > 0.5L) { d1 *= 0.5L / len; d2 *= 0.5L / len; }
        bool moved = false;
        for (int bt = 0; bt < 40; ++bt) {
            V3 nn = unit(n + d1 * t1 + d2 * t2);
            GEval en = evalG(A, B, d, nn);
            if (en.g < e.g) { n = nn; e = en; moved = true; break; }
            d1 *= 0.5L; d2 *= 0.5L;
        }
        if (!moved) break;
    }
    V3 t1, t2; tangentBasis(n, t1, t2);
    LD a, b, c; tangentHess(A, B, e, t1, t2, a, b, c);
    gm::Eig2 eg = gm::symEig2((double)a, (double)b, (double)c);
    lamMin = eg.kmin;
    return eg.kmin > 0;
}
inline const std::vector<V3>& fibonacci(int N) {
    static std::map<int, std::vector<V3>> cache;
    auto it = cache.find(N);
    if (it != cache.end()) return it->second;
    std::vector<V3> v(N);
    const LD ga = 2.399963229728653322L;
    for (int i = 0; i < N; ++i) {
        LD z = 1 - (2 * (LD)i + 1) / N, rr = std::sqrt(1 - z * z), ph = ga * i;
        v[i] = V3(rr * std::cos(ph), rr * std::sin(ph), z);
    }
    return cache[N] = v;
}
// fast: global minimum only (used by the placement bisection). full: also counts distinct local minima.
inline PairExact ellipPair(const Ellip& A, const Ellip& B, bool full) {
    PairExact out;
    V3 d = B.c - A.c;
    const int N = full ? 500 : 120;
    const std::vector<V3>& S = fibonacci(N);
    std::vector<LD> val(N);
    for (int i = 0; i < N; ++i) val[i] = A.h(S[i]) + B.h(S[i]) - dot(S[i], d);
    std::vector<int> starts;
    {
        std::vector<int> idx(N);
        for (int i = 0; i < N; ++i) idx[i] = i;
        int keep = full ? 10 : 2;
        std::partial_sort(idx.begin(), idx.begin() + keep, idx.end(), [&](int a, int b) { return val[a] < val[b]; });
        for (int k = 0; k < keep; ++k) starts.push_back(idx[k]);
        if (full) {
            // discrete local minima (angular radius ~ 3 sample spacings) so that secondary basins are not missed
            const LD cosR = std::cos(3.5L * std::sqrt(4 * 3.14159265358979L / N));
            for (int i = 0; i < N; ++i) {
                bool isMin = true;
                for (int j = 0; j < N && isMin; ++j) if (j != i && dot(S[i], S[j]) > cosR && val[j] < val[i]) isMin = false;
                if (isMin && std::find(starts.begin(), starts.end(), i) == starts.end()) starts.push_back(i);
            }
        }
    }
    std::vector<std::pair<LD, V3>> minima;
    bool first = true;
    for (int s : starts) {
        V3 n = S[s]; GEval e; LD lam;
        bool strict = refineMin(A, B, d, n, e, lam);
        if (first || e.g < out.g) {
            out.g = e.g; out.n = n; out.lambdaMin = lam; first = false;
            out.P = A.c + (1 / e.sa) * e.ma; out.Q = B.c - (1 / e.sb) * e.mb;
        }
        if (strict) {
            bool dup = false;
            for (auto& m : minima) if (dot(m.second, n) > 1 - 1e-8L) dup = true;
            if (!dup) minima.push_back(std::make_pair(e.g, n));
        }
    }
    out.numMinima = std::max<int>(1, (int)minima.size());
    // relative curvature in the common tangent plane
    V3 t1, t2; tangentBasis(out.n, t1, t2);
    LD a1, b1, c1, a2, b2, c2;
    A.curvForm(out.P, t1, t2, a1, b1, c1); B.curvForm(out.Q, t1, t2, a2, b2, c2);
    gm::Eig2 eg = gm::symEig2((double)(a1 + a2), (double)(b1 + b2), (double)(c1 + c2));
    out.kmax = eg.kmax; out.kmin = eg.kmin;
    return out;
}

// half-space (frame H: material x>0, outward normal -x) against an ellipsoid
struct HsExact { LD depth; V3 normal, point, deepest; LD kmax = 0, kmin = 0; };
inline HsExact hsEllip(const Transform& X_GH, const Ellip& E) {
    HsExact o;
    V3 x(X_GH.R().x().asVec3()), o_H(X_GH.p());
    V3 p = E.support(x);
    o.depth = dot(x, p - o_H);
    o.normal = V3(0, 0, 0) - x;
    o.deepest = p;
    o.point = p - (o.depth / 2) * x;
    V3 t1, t2; tangentBasis(x, t1, t2);
    LD a, b, c; E.curvForm(p, t1, t2, a, b, c);
    gm::Eig2 eg = gm::symEig2((double)a, (double)b, (double)c);
    o.kmax = eg.kmax; o.kmin = eg.kmin;
    return o;
}

// ------------------------------------------------------------------------------------------------ meshes
struct Tri { V3 a, b, c, cen; LD rad; };
struct WMesh {                                  // a mesh placed in the world
    std::vector<Tri> t; V3 cen; LD rad = 0;
    const gm::MeshData* src = nullptr;
};
inline WMesh placeMesh(const gm::MeshData& m, const Transform& X) {
    WMesh w; w.src = &m; w.t.resize(m.nf());
    std::vector<V3> v(m.nv());
    for (int i = 0; i < m.nv(); ++i) v[i] = V3(X * m.v[i]);
    w.cen = V3(X * m.center); w.rad = m.scale;
    for (int i = 0; i < m.nf(); ++i) {
        Tri& q = w.t[i];
        q.a = v[m.f[3 * i]]; q.b = v[m.f[3 * i + 1]]; q.c = v[m.f[3 * i + 2]];
        q.cen = (1.0L / 3) * (q.a + q.b + q.c);
        q.rad = std::max(norm(q.a - q.cen), std::max(norm(q.b - q.cen), norm(q.c - q.cen)));
    }
    return w;
}
inline LD segSegDist(const V3& p1, const V3& q1, const V3& p2, const V3& q2) {
    V3 d1 = q1 - p1, d2 = q2 - p2, r = p1 - p2;
    LD a = dot(d1, d1), e = dot(d2, d2), f = dot(d2, r), s, t;
    const LD EPS = 1e-30L;
    if (a <= EPS && e <= EPS) return norm(r);
    if (a <= EPS) { s = 0; t = std::min<LD>(1, std::max<LD>(0, f / e)); }
    else {
        LD c = dot(d1, r);
        if (e <= EPS) { t = 0; s = std::min<LD>(1, std::max<LD>(0, -c / a)); }
        else {
            LD b = dot(d1, d2), den = a * e - b * b;
            s = den > EPS * a * e ? std::min<LD>(1, std::max<LD>(0, (b * f - c * e) / den)) : 0;
            t = (b * s + f) / e;
            if (t < 0) { t = 0; s = std::min<LD>(1, std::max<LD>(0, -c / a)); }
            else if (t > 1) { t = 1; s = std::min<LD>(1, std::max<LD>(0, (b - c) / a)); }
        }
    }
    return norm((p1 + s * d1) - (p2 + t * d2));
}
// does segment pq strictly cross triangle T?  0 no, 1 marginally, 2 with margin > band everywhere
inline int pierce(const V3& p, const V3& q, const Tri& T, LD band) {
    V3 n = cross(T.b - T.a, T.c - T.a); LD nn = norm(n);
    if (!(nn > 0)) return 0;
    LD sp = dot(n, p - T.a) / nn, sq = dot(n, q - T.a) / nn;
    if (!(sp * sq < 0)) return 0;
    V3 x = p + (sp / (sp - sq)) * (q - p);
    LD inv = 1 / (nn * nn);
    LD v = dot(cross(x - T.a, T.c - T.a), n) * inv, w = dot(cross(T.b - T.a, x - T.a), n) * inv, u = 1 - v - w;
    if (u < 0 || v < 0 || w < 0) return 0;
    // distance of x to the triangle's boundary
    auto segd = [&](const V3& s, const V3& e) { V3 dd = e - s; LD t = dot(x - s, dd) / dot(dd, dd); t = t < 0 ? 0 : (t > 1 ? 1 : t); return norm(x - (s + t * dd)); };
    LD bd = std::min(segd(T.a, T.b), std::min(segd(T.b, T.c), segd(T.c, T.a)));
    if (std::fabs((double)sp) > band && std::fabs((double)sq) > band && bd > band) return 2;
    return 1;
}
// 2 = definitely intersecting, 0 = definitely disjoint (distance > band), 1 = inside the band. dist = lower bound used for culling
inline int triPair(const Tri& A, const Tri& B, LD band, LD* distOut = nullptr) {
    const V3* pa[3] = {&A.a, &A.b, &A.c}; const V3* pb[3] = {&B.a, &B.b, &B.c};
    int best = 0;
    for (int i = 0; i < 3; ++i) {
        best = std::max(best, pierce(*pa[i], *pa[(i + 1) % 3], B, band));
        best = std::max(best, pierce(*pb[i], *pb[(i + 1) % 3], A, band));
    }
    if (best > 0) { if (distOut) *distOut = 0; return best; }
    LD d = std::numeric_limits<LD>::infinity();
    for (int i = 0; i < 3; ++i) {
        d = std::min(d, gm::distToTriangle(*pa[i], B.a, B.b, B.c));
        d = std::min(d, gm::distToTriangle(*pb[i], A.a, A.b, A.c));
        for (int j = 0; j < 3; ++j) d = std::min(d, segSegDist(*pa[i], *pa[(i + 1) % 3], *pb[j], *pb[(j + 1) % 3]));
    }
    if (distOut) *distOut = d;
    return d > band ? 0 : 1;
}
// minimum distance between two meshes' surfaces (0 when they cross); culled by bounding spheres
inline LD meshMeshDist(const WMesh& A, const WMesh& B) {
    LD best = std::numeric_limits<LD>::infinity();
    for (const Tri& a : A.t) {
        if (norm(a.cen - B.cen) - a.rad - B.rad >= best) continue;
        for (const Tri& b : B.t) {
            if (norm(a.cen - b.cen) - a.rad - b.rad >= best) continue;
            LD d; triPair(a, b, 0, &d);
            if (d < best) best = d;
            if (best == 0) return 0;
        }
    }
    return best;
}
// is any pair of triangles closer than eps (or crossing)?
inline bool meshesWithin(const WMesh& A, const WMesh& B, LD eps) {
    if (norm(A.cen - B.cen) - A.rad - B.rad > eps) return false;
    for (const Tri& a : A.t) {
        if (norm(a.cen - B.cen) - a.rad - B.rad > eps) continue;
        for (const Tri& b : B.t) {
            if (norm(a.cen - b.cen) - a.rad - b.rad > eps) continue;
            if (triPair(a, b, eps) != 0) return true;
        }
    }
    return false;
}
inline LD winding(const WMesh& M, const V3& x) {
    LD tot = 0;
    for (const Tri& q : M.t) {
        V3 a = q.a - x, b = q.b - x, c = q.c - x;
        LD la = norm(a), lb = norm(b), lc = norm(c);
        LD num = dot(a, cross(b, c));
        LD den = la * lb * lc + dot(a, b) * lc + dot(b, c) * la + dot(c, a) * lb;
        tot += 2 * std::atan2(num, den);
    }
    return tot / (4 * 3.14159265358979323846264338327950288L);
}
inline LD pointMeshDist(const WMesh& M, const V3& x) {
    LD best = std::numeric_limits<LD>::infinity();
    for (const Tri& q : M.t) {
        if (norm(q.cen - x) - q.rad >= best) continue;
        best = std::min(best, gm::distToTriangle(x, q.a, q.b, q.c));
    }
    return best;
}

enum FaceCls { F_OUT = 0, F_BAND = 1, F_IN = 2 };
struct MeshExact {
    std::vector<char> clsA, clsB;   // per face of A / B (empty when that object is not a mesh)
    bool anyIn = false, anyBand = false;   // some face definitely / possibly (partly) inside the other object
    bool crossing = false;                 // the two surfaces definitely cross somewhere
    bool crossingBand = false;             // ... or possibly
    bool engulfed = false;                 // volumes overlap but surfaces do not cross
    int nIn = 0;
};
inline void finishMeshExact(MeshExact& e) {
    e.nIn = 0; e.anyIn = e.anyBand = false;
    for (auto* v : {&e.clsA, &e.clsB}) for (char c : *v) { if (c == F_IN) { e.anyIn = true; ++e.nIn; } else if (c == F_BAND) e.anyBand = true; }
}
// faces of 'M' partly or completely inside 'O'
inline void classifyMeshFaces(const WMesh& M, const WMesh& O, LD band, std::vector<char>& cls, bool& crossing, bool& crossingBand) {
    cls.assign(M.t.size(), F_OUT);
    for (size_t i = 0; i < M.t.size(); ++i) {
        const Tri& f = M.t[i];
        int worst = 0;
        if (norm(f.cen - O.cen) - f.rad - O.rad <= band)
            for (const Tri& g : O.t) {
                if (norm(f.cen - g.cen) - f.rad - g.rad > band) continue;
                int k = triPair(f, g, band);
                if (k > worst) worst = k;
                if (worst == 2) break;
            }
        if (worst == 2) { cls[i] = F_IN; crossing = true; continue; }
        if (worst == 1) { cls[i] = F_BAND; crossingBand = true; continue; }
        LD w = winding(O, f.cen);
        cls[i] = w > 0.5L ? F_IN : F_OUT;
    }
}
inline MeshExact meshMesh(const WMesh& A, const WMesh& B, LD band) {
    MeshExact e;
    classifyMeshFaces(A, B, band, e.clsA, e.crossing, e.crossingBand);
    classifyMeshFaces(B, A, band, e.clsB, e.crossing, e.crossingBand);
    finishMeshExact(e);
    e.engulfed = e.anyIn && !e.crossing && !e.crossingBand;
    return e;
}
// sphere (centre c, radius r) is object A; mesh is object B
inline MeshExact sphereMesh(const V3& c, LD r, const WMesh& M, LD band, LD* sdOut = nullptr) {
    MeshExact e; e.clsB.assign(M.t.size(), F_OUT);
    LD dmin = std::numeric_limits<LD>::infinity();
    for (size_t i = 0; i < M.t.size(); ++i) {
        const Tri& q = M.t[i];
        LD d = gm::distToTriangle(c, q.a, q.b, q.c);
        dmin = std::min(dmin, d);
        e.clsB[i] = d < r - band ? F_IN : (d > r + band ? F_OUT : F_BAND);
    }
    finishMeshExact(e);
    e.crossing = e.anyIn; e.crossingBand = e.anyBand;
    bool inside = winding(M, c) > 0.5L;
    if (!e.anyIn && !e.anyBand && inside) e.engulfed = true;
    if (sdOut) *sdOut = inside ? -(dmin + r) : dmin - r;
    return e;
}
// half-space H is object A; mesh is object B
inline MeshExact hsMesh(const Transform& X_GH, const WMesh& M, LD band, LD* sdOut = nullptr) {
    MeshExact e; e.clsB.assign(M.t.size(), F_OUT);
    V3 x(X_GH.R().x().asVec3()), o(X_GH.p());
    LD dmax = -std::numeric_limits<LD>::infinity();
    for (size_t i = 0; i < M.t.size(); ++i) {
        const Tri& q = M.t[i];
        LD d = std::max(dot(x, q.a - o), std::max(dot(x, q.b - o), dot(x, q.c - o)));
        dmax = std::max(dmax, d);
        e.clsB[i] = d > band ? F_IN : (d < -band ? F_OUT : F_BAND);
    }
    finishMeshExact(e);
    e.crossing = e.anyIn; e.crossingBand = e.anyBand;
    if (sdOut) *sdOut = -dmax;
    return e;
}

}  // namespace cx
