// matrix_tri.h — triangular/symmetric/hermitian-committed Matrix_ (C25)
#pragma once
#include "matrix_ref.h"
namespace mx {
inline void runTriCase(vh::Ctx& c, vh::Rng& r, long idx, bool withCopies) { c.skip("tri-part-not-built"); }
}
