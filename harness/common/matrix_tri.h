// matrix_tri.h — Matrix_ handles committed to Triangular / Symmetric / Hermitian / SkewSymmetric /
// SkewHermitian structure (MatrixCommitment, MatrixHelperRep_Tri.h): stored elements are written with
// updElt(i,j), every logical element is read back with the documented getAnyElt(i,j) and compared
// with a dense reference; resize/resizeKeep/setToZero/diag() are exercised. "withCopies" additionally
// deep-copies such matrices (copy constructor), which clones the helper.
#pragma once
#include "matrix_ref.h"

namespace mx {
using namespace SimTK;

template <class E> struct TriCase {
    typedef typename ET<E>::P P; typedef std::complex<P> C; enum { K = ET<E>::K, Cplx = ET<E>::Cplx };
    vh::Ctx& c; vh::Rng& r; int structure; bool withCopies;
    std::vector<std::string> hist;
    static const char* sname(int s) { static const char* n[] = {"Triangular", "Symmetric", "Hermitian", "SkewSymmetric", "SkewHermitian"}; return n[s]; }
    MatrixCommitment commitment() const {
        switch (structure) { case 0: return MatrixCommitment::Triangular(); case 1: return MatrixCommitment::Symmetric(); case 2: return MatrixCommitment::Hermitian();
                             case 3: return MatrixCommitment::SkewSymmetric(); default: return MatrixCommitment::SkewHermitian(); }
    }
    // model: stored upper triangle (i<=j) as logical element values; ref(i,j) gives any element
    int nr = 0, nc = 0; std::vector<C> up;     // (i + j*n)*K + k for i<=j<n, n=min(nr,nc)
    int n() const { return std::min(nr, nc); }
    C refElt(int i, int j, int k) const {
        const int q = n();
        if (i <= j && j < q) return up[(size_t)(i + j * q) * K + k];
        if (structure == 0 || i >= q || j >= q) return C(0, 0);
        C x = up[(size_t)(j + i * q) * K + k];
        if (structure == 2 || structure == 4) x = std::conj(x);      // elementwise hermitian transpose (scalar/vector elements: conjugate each scalar)
        if (structure >= 3) x = -x;
        return x;
    }
    C randS(bool diag) {
        P re = (P)r.sym(5.0), im = Cplx ? (P)r.sym(5.0) : P(0);
        if (diag) { if (structure == 2) im = 0; if (structure == 3) { re = 0; im = 0; } if (structure == 4) re = 0; }   // diagonal invariants
        return C(re, im);
    }
    // keys name the operation class and scalar/composite elements (structure and element type are in the witness)
    static std::string opClass(const std::string& op) { size_t d = op.find("-grow"); if (d == std::string::npos) d = op.find("-shrink"); if (d == std::string::npos) d = op.find("-same"); return d == std::string::npos ? op : op.substr(0, d); }
    bool taintedByResizeKeep = false;   // composite elements: a size-changing resizeKeep leaves a wrong leading dimension behind (finding); later mismatches are its consequences
    std::string key(const std::string& op) const { return "tri:" + (taintedByResizeKeep ? std::string("resizeKeep") : opClass(op)) + (K == 1 ? ":scalar-elt" : ":composite-elt"); }
    bool compare(Matrix_<E>& m, const std::string& op) {
        c.cover(op + "|" + sname(structure) + "|" + ET<E>::name());
        if (m.nrow() != nr || m.ncol() != nc) { c.viol("tri-shape:" + op + ":" + sname(structure) + ":" + ET<E>::name(), vh::Json::obj().set("lib_nrow", m.nrow()).set("lib_ncol", m.ncol()).set("nrow", nr).set("ncol", nc).set("history", hj())); return false; }
        for (int j = 0; j < nc; ++j) for (int i = 0; i < nr; ++i) {
            E e = m.getAnyElt(i, j); C got[K]; ET<E>::get(e, got);
            for (int k = 0; k < K; ++k) if (!sameC(got[k], refElt(i, j, k))) {
                c.viol(key(op), vh::Json::obj().set("structure", sname(structure)).set("elt", ET<E>::name()).set("op", op).set("i", i).set("j", j).set("scalar", k).set("expected", jC(refElt(i, j, k))).set("got", jC(got[k])).set("nrow", nr).set("ncol", nc).set("history", hj()));
                return false;
            }
        }
        c.check("tri-exact:" + op + ":" + sname(structure) + ":" + ET<E>::name(), 0, 0, nullptr);
        return true;
    }
    vh::Json hj() const { vh::Json h = vh::Json::arr(); for (auto& s : hist) h.push(vh::Json(s)); return h; }
    void fillStored(Matrix_<E>& m, int fromRowCol) {   // write stored elements with index >= fromRowCol in either dimension
        const int q = n();
        for (int j = 0; j < q; ++j) for (int i = 0; i <= j; ++i) {
            if (i < fromRowCol && j < fromRowCol) continue;
            C v[K]; for (int k = 0; k < K; ++k) v[k] = randS(i == j);
            m.updElt(i, j) = ET<E>::make(v);
            for (int k = 0; k < K; ++k) up[(size_t)(i + j * q) * K + k] = v[k];
        }
    }
    void log(const std::string& s) { hist.push_back(s); c.setPhase(std::string("tri ") + sname(structure) + " " + ET<E>::name() + ": " + s); }
    void run() {
        Matrix_<E> m{commitment()};
        nr = nc = r.integer(1, 6); if (structure == 0 && r.coin(0.3)) nc = nr + r.integer(1, 2);
        log("Matrix_<" + ET<E>::name() + ">(MatrixCommitment::" + sname(structure) + "()); resize(" + std::to_string(nr) + "," + std::to_string(nc) + "); write stored elements");
        m.resize(nr, nc);
        up.assign((size_t)n() * n() * K, C(0, 0));
        fillStored(m, 0);
        if (!compare(m, "resize+write-stored")) return;
        int steps = r.integer(3, 8);
        for (int s = 0; s < steps; ++s) {
            int op = r.integer(0, withCopies ? 5 : 4);
            if (op == 0) {   // overwrite a stored element
                int j = r.integer(0, n() - 1), i = r.integer(0, j); C v[K]; for (int k = 0; k < K; ++k) v[k] = randS(i == j);
                log("updElt(" + std::to_string(i) + "," + std::to_string(j) + ") = value");
                m.updElt(i, j) = ET<E>::make(v); for (int k = 0; k < K; ++k) up[(size_t)(i + j * n()) * K + k] = v[k];
                if (!compare(m, "updElt")) return;
            } else if (op == 1) {   // resizeKeep (square)
                int q0 = n(), q1 = r.integer(1, 7); std::vector<C> old = up;
                log("resizeKeep(" + std::to_string(q1) + "," + std::to_string(q1) + ")");
                if (K > 1 && q1 != q0) taintedByResizeKeep = true;
                m.resizeKeep(q1, q1); nr = nc = q1; up.assign((size_t)q1 * q1 * K, C(0, 0));
                for (int j = 0; j < std::min(q0, q1); ++j) for (int i = 0; i <= j; ++i) for (int k = 0; k < K; ++k) up[(size_t)(i + j * q1) * K + k] = old[(size_t)(i + j * q0) * K + k];
                fillStored(m, std::min(q0, q1));
                if (!compare(m, q1 > q0 ? "resizeKeep-grow" : q1 < q0 ? "resizeKeep-shrink" : "resizeKeep-same")) return;
            } else if (op == 2) {   // resize: contents redefined by the client
                int q1 = r.integer(1, 7); log("resize(" + std::to_string(q1) + "," + std::to_string(q1) + ") + write stored");
                m.resize(q1, q1); nr = nc = q1; up.assign((size_t)q1 * q1 * K, C(0, 0)); fillStored(m, 0);
                if (!compare(m, "resize")) return;
            } else if (op == 3) {   // setToZero
                log("setToZero()"); m.setToZero(); for (auto& x : up) x = C(0, 0);
                if (!compare(m, "setToZero")) return;
            } else if (op == 4) {   // diagonal view read and write-through
                const int q = n();
                log("diag() view: read, then write through updDiag()");
                VectorView_<E> d = m.updDiag();
                bool ok = d.size() == q;
                for (int i = 0; ok && i < q; ++i) { C got[K]; ET<E>::get(d[i], got); for (int k = 0; k < K; ++k) if (!sameC(got[k], refElt(i, i, k))) ok = false; }
                c.cover(std::string("diag-view|") + sname(structure) + "|" + ET<E>::name());
                if (!c.require(key("diag-view-read"), ok, [&] { return vh::Json::obj().set("history", hj()); })) return;
                for (int i = 0; i < q; ++i) { C v[K]; for (int k = 0; k < K; ++k) v[k] = randS(true); d[i] = ET<E>::make(v); for (int k = 0; k < K; ++k) up[(size_t)(i + i * q) * K + k] = v[k]; }
                if (!compare(m, "diag-view-write")) return;
            } else {   // deep copy (copy constructor); both objects are destroyed at the end of the scope
                log("Matrix_ copy(m): deep copy, compare, destroy copy");
                Matrix_<E> cp(m);
                if (!compare(cp, "deep-copy")) return;
                if (!compare(m, "source-after-deep-copy")) return;
            }
        }
        log("destroy");
    }
};

inline void runTriCase(vh::Ctx& c, vh::Rng& r, long idx, bool withCopies) {
    int structure = (int)(idx % 5), et = (int)((idx / 5) % 4);
    try {
        switch (et) {
        case 0: { TriCase<Real> t{c, r, structure, withCopies}; t.run(); break; }
        case 1: { TriCase<Complex> t{c, r, structure, withCopies}; t.run(); break; }
        case 2: { TriCase<Vec3> t{c, r, structure, withCopies}; t.run(); break; }
        default: { TriCase<float> t{c, r, structure, withCopies}; t.run(); break; }
        }
    } catch (const std::exception& ex) {
        c.viol("tri-exception:" + vh::normMsg(ex.what()).substr(0, 100), vh::Json::obj().set("what", vh::firstLine(ex.what(), 400)).set("phase", c.phase));
    }
}

} // namespace mx
