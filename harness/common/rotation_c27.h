// rotation_c27.h — C27: rotations/transforms are proper, conversions round-trip,
// composition/inversion/re-expression agree with the matrix definitions (float, double).
//
// Legal-client preconditions honoured by the generators (outside them nothing is judged):
//  * angle round trips only inside the documented angle ranges and away from the
//    coordinate singularity of the sequence (guard 0.1 on |cos q2| resp. |sin q2|);
//    the *rotation* round trip is required everywhere (DESIGN C27).
//  * two-axis constructor: second vector not (nearly) parallel to the first for the
//    direction oracle (sin >= 0.05); degenerate inputs only have to give a proper
//    rotation with the given first axis.
//  * closest-rotation fitting: input within 1e-3 of a rotation.
//  * unit vectors handed to "UnitVec" parameters are normalised by the library's own
//    normalising constructor; "trust me" constructors only get P-rounded rotations.
#pragma once
#include "rotation_glue.h"

namespace c27 {
using namespace glue;
using namespace SimTK;

static const char AXN[4] = "XYZ";
inline const CoordinateAxis& AX(int i) { return CoordinateAxis::getCoordinateAxis(i); }

// reference for an n-angle sequence (body: R1*R2*R3, space: R3*R2*R1)
inline M3 refSeq(bool space, int n, const int* ax, const LD* th) {
    M3 R = rr::ident();
    for (int k = 0; k < n; ++k) {
        M3 Rk = rr::axisRot(ax[k], th[k]);
        R = space ? rr::mul(Rk, R) : rr::mul(R, Rk);
    }
    return R;
}

// ------------------------------------------------------------------ base rotations by region
enum Region { HAAR = 0, NEAR_I, NEAR_PI, QBRANCH, GIMBAL, NREGION };
static const char* REGION_NAME[NREGION] = {"haar", "near-identity", "near-pi", "quat-branch", "gimbal"};

// the 24 proper three-angle sequences (12 axis triples x body/space), cycled for GIMBAL
inline void properSeq(int idx, bool& space, int ax[3]) {
    space = (idx % 2) == 1; idx /= 2;               // 0..11
    int i = idx % 3, rest = idx / 3;                // rest 0..3
    int j = (i + 1 + (rest % 2)) % 3;               // j != i
    int k = (rest / 2) ? i : 3 - i - j;             // iji or ijk
    ax[0] = i; ax[1] = j; ax[2] = k;
}

inline M3 baseRotation(Region reg, long idx, vh::Rng& r, std::string& note) {
    switch (reg) {
    case HAAR: note = "haar"; return rr::haar(r);
    case NEAR_I: {
        LD ang = r.coin(0.1) ? 0.0L : (LD)r.logUni(1e-12, 1e-3);
        V3 ax = r.coin(0.2) ? rr::mk(idx % 3 == 0, idx % 3 == 1, idx % 3 == 2) : rr::randUnit(r);
        note = "angle~1e-12..1e-3";
        return rr::expSO3(ang * ax);
    }
    case NEAR_PI: {
        LD d = r.coin(0.15) ? 0.0L : (LD)r.logUni(1e-16, 1e-3);
        V3 ax = r.coin(0.3) ? rr::mk(idx % 3 == 0, idx % 3 == 1, idx % 3 == 2) : rr::randUnit(r);
        if (r.coin(0.15)) { ax = rr::unit(rr::mk(r.coin() ? 1 : -1, r.coin() ? 1 : -1, r.coin(0.5) ? 0 : 1)); }
        note = "angle=pi-d";
        return rr::expSO3((rr::PI - d) * ax);
    }
    case QBRANCH: {
        // unit quaternion with |q_a| ~ |q_b| (the branch boundaries of the extraction), incl. ties
        LD q[4]; rr::randUnitQuat(r, q);
        static const int PAIRS[6][2] = {{0, 1}, {0, 2}, {0, 3}, {1, 2}, {1, 3}, {2, 3}};
        int p = (int)((idx / 2) % 8);
        LD d = r.coin(0.3) ? 0.0L : (LD)r.logUni(1e-17, 1e-6) * (r.coin() ? 1 : -1);
        if (p < 6) { int a = PAIRS[p][0], b = PAIRS[p][1]; q[b] = (q[b] < 0 ? -1 : 1) * (fabsl(q[a]) + d); }
        else if (p == 6) { LD m = fabsl(q[0]); for (int i = 1; i < 4; ++i) q[i] = (q[i] < 0 ? -1 : 1) * (m + (i == 1 ? d : 0)); }
        else { int a = (int)(idx % 4); for (int i = 0; i < 4; ++i) q[i] = (q[i] < 0 ? -1 : 1) * 0.5L; q[a] += d; }
        note = "quaternion components tied";
        return rr::fromQuat(q);
    }
    case GIMBAL: default: {
        bool space; int ax[3]; properSeq((int)((idx / 10) % 24), space, ax);
        LD d = (LD)r.logUni(1e-12, 1e-2) * (r.coin() ? 1 : -1);
        LD th[3] = {(LD)r.sym(3.1), 0, (LD)r.sym(3.1)};
        if (ax[0] == ax[2]) th[1] = (r.coin() ? 0 : rr::PI) + d;          // iji: sin(th2)=0
        else th[1] = (r.coin() ? 1 : -1) * rr::PI / 2 + d;                 // ijk: cos(th2)=0
        note = std::string("singular for ") + (space ? "space-" : "body-") + AXN[ax[0]] + AXN[ax[1]] + AXN[ax[2]];
        return refSeq(space, 3, ax, th);
    }
    }
}

// ------------------------------------------------------------------ the per-precision battery
template <class P> struct Battery {
    typedef Rotation_<P> Rot; typedef InverseRotation_<P> IRot;
    typedef Vec<3, P> Vec3P; typedef Vec<4, P> Vec4P; typedef Vec<2, P> Vec2P; typedef Mat<3, 3, P> Mat33P;
    typedef UnitVec<P, 1> UVec; typedef Quaternion_<P> Quat;
    typedef Transform_<P> Xf; typedef InverseTransform_<P> IXf;

    vh::Ctx& c; vh::Rng& r; Chk k; Region region; long idx;
    Battery(vh::Ctx& c, vh::Rng& r, Region reg, long idx)
        : c(c), r(r), k(c, REGION_NAME[reg], PT<P>::name(), std::numeric_limits<P>::epsilon()), region(reg), idx(idx) {}

    static LD piP() { return (LD)NTraits<P>::getPi(); }
    P randAngle() { return (P)r.uni(-3.14159, 3.14159); }
    // angle drawn according to the region (small / near pi / anything)
    P regionAngle() {
        if (region == NEAR_I && r.coin(0.7)) return (P)(r.logUni(1e-12, 1e-3) * (r.coin() ? 1 : -1));
        if (region == NEAR_PI && r.coin(0.7)) return (P)((3.141592653589793 - r.logUni(1e-16, 1e-3)) * (r.coin() ? 1 : -1));
        return randAngle();
    }

    // ---------------------------------------------------------------- A. angle-axis
    // rotation-vector comparison with the documented sign ambiguity at |angle| = pi
    LD rotVecResid(const V3& got, const V3& want) {
        LD a = rr::maxAbsDiff(got, want);
        LD nw = rr::norm(want);
        if (rr::PI - nw < 64 * k.tol) a = std::min(a, rr::maxAbsDiff(got, -want) );
        return a;
    }
    void angleAxis(const M3& R0) {
        c.setPhase("C27 angle-axis");
        V3 rv = rr::logSO3(R0);
        LD ang = rr::norm(rv);
        V3 ax = ang > 1e-25L ? rr::unit(rv) : rr::randUnit(r);
        if (r.coin()) { ang = -ang; ax = -ax; }
        const P a = (P)ang;
        const Vec3P vP = toVecP<P>(ax);
        const UVec u(vP);                                   // library normalisation
        const V3 uL = rr::unit(toV(u.asVec3()));
        const M3 Rref = rr::expSO3((LD)a * uL);
        k.inputs("angle,ax,ay,az", {(double)a, (double)vP[0], (double)vP[1], (double)vP[2]});
        k.cover("angleAxis");
        k.num(k.key("unitvec", "UnitVec(Vec3).norm"), fabsl(rr::norm(toV(u.asVec3())) - 1), k.tol, [&] { return k.wit(); });

        Rot R1(a, u);
        k.proper("angleAxis.unitVec", toM(R1)); k.sameM("fwd", "angleAxis.unitVec", toM(R1), Rref, k.tol);
        const P s = (P)r.logUni(1e-3, 1e3);
        const Vec3P vs = s * vP;
        const M3 RrefS = rr::expSO3((LD)a * rr::unit(toV(vs)));
        Rot R2(a, vs);
        k.proper("angleAxis.nonUnitVec", toM(R2)); k.sameM("fwd", "angleAxis.nonUnitVec", toM(R2), RrefS, k.tol);
        Rot R3; R3.setRotationToNaN(); R3.setRotationFromAngleAboutUnitVector(a, u);
        k.sameM("fwd", "angleAxis.setUnitVec", toM(R3), Rref, k.tol);
        Rot R4; R4.setRotationToNaN(); R4.setRotationFromAngleAboutNonUnitVector(a, vs);
        k.sameM("fwd", "angleAxis.setNonUnitVec", toM(R4), RrefS, k.tol);

        // quaternion from angle-axis: canonical and equivalent
        Quat q1; q1.setQuaternionFromAngleAxis(a, u);
        Quat q2; q2.setQuaternionFromAngleAxis(Vec4P(a, vs[0], vs[1], vs[2]));
        for (int w = 0; w < 2; ++w) {
            const Quat& q = w ? q2 : q1;
            const char* api = w ? "quatFromAngleAxis.vec4" : "quatFromAngleAxis.unitVec";
            LD ql[4] = {(LD)q[0], (LD)q[1], (LD)q[2], (LD)q[3]};
            LD n = sqrtl(ql[0] * ql[0] + ql[1] * ql[1] + ql[2] * ql[2] + ql[3] * ql[3]);
            k.num(k.key("quat", std::string(api) + ".norm"), fabsl(n - 1), k.tol, [&] { return k.wit().set("norm", (double)n); });
            k.req(k.key("quat", std::string(api) + ".canonical"), q[0] >= 0, [&] { return k.wit().set("q0", (double)q[0]); });
            // |a| < eps is documented to give the identity quaternion: error <= eps, inside tol
            if (n == n) k.sameM("fwd", api, rr::fromQuat(ql), w ? RrefS : Rref, k.tol);
        }

        // back conversion
        const Vec4P av = R1.convertRotationToAngleAxis();
        const V3 axb = rr::mk(av[1], av[2], av[3]);
        k.num(k.key("rt-angle", "angleAxis.axisNorm"), fabsl(rr::norm(axb) - 1), k.tol, [&] { return k.wit().set("axis", rr::jV(axb)); });
        k.req(k.key("rt-angle", "angleAxis.range"), av[0] > -NTraits<P>::getPi() && av[0] <= NTraits<P>::getPi(),
              [&] { return k.wit().set("angle", (double)av[0]); });
        const V3 got = (LD)av[0] * axb;
        const V3 wantM = rr::logSO3(toM(R1));              // what the matrix says
        k.num(k.key("rt-angle", "angleAxis.fromMatrix"), rotVecResid(got, wantM), 4 * k.tol, [&] { return k.witV(got, wantM); });
        // (a,v) -> R -> (a',v'): same rotation vector (a folded into (-pi,pi])
        LD af = rr::angDiff((LD)a, 0);
        const V3 wantIn = af * uL;
        k.num(k.key("rt-angle", "angleAxis.inputs"), rotVecResid(got, wantIn), 4 * k.tol, [&] { return k.witV(got, wantIn); });
        Rot R5(av[0], UVec(Vec3P(av[1], av[2], av[3])));
        k.proper("angleAxis.roundTrip", toM(R5)); k.sameM("rt-rot", "angleAxis", toM(R5), toM(R1), 2 * k.tol);
    }

    // ---------------------------------------------------------------- B. quaternions
    void quaternions(const M3& R0, const M3& Raux) {
        c.setPhase("C27 quaternion");
        LD qL[4]; rr::toQuat(R0, qL);
        if (r.coin()) for (int i = 0; i < 4; ++i) qL[i] = -qL[i];          // non-canonical inputs are legal
        const P s = r.coin(0.3) ? P(1) : (P)r.uni(0.3, 3.0);
        const Vec4P qv((P)(s * qL[0]), (P)(s * qL[1]), (P)(s * qL[2]), (P)(s * qL[3]));
        LD qr[4] = {(LD)qv[0], (LD)qv[1], (LD)qv[2], (LD)qv[3]};
        LD nr = sqrtl(qr[0] * qr[0] + qr[1] * qr[1] + qr[2] * qr[2] + qr[3] * qr[3]);
        for (int i = 0; i < 4; ++i) qr[i] /= nr;                            // exact normalisation of the P inputs
        const M3 Rref = rr::fromQuat(qr);
        k.inputs("q0,q1,q2,q3", {(double)qv[0], (double)qv[1], (double)qv[2], (double)qv[3]});
        k.cover("quaternion");

        auto normalised = [&](const char* api, const Quat& q) {
            LD e = 0; for (int i = 0; i < 4; ++i) { LD d = fabsl((LD)q[i] - qr[i]); if (!(d <= e)) e = d; }
            k.num(k.key("quat", std::string(api) + ".normalised"), e, k.tol, [&] { return k.wit().set("got", vh::jvec(q, 4)); });
        };
        Quat q1(qv); normalised("Quaternion(Vec4)", q1);
        Quat q2(qv[0], qv[1], qv[2], qv[3]); normalised("Quaternion(4 scalars)", q2);
        Quat q3 = Quat(qv, true).normalize(); normalised("Quaternion.normalize", q3);
        Quat q4(qv, true); q4.normalizeThis(); normalised("Quaternion.normalizeThis", q4);

        Rot R(q1);
        k.proper("fromQuaternion", toM(R)); k.sameM("fwd", "fromQuaternion", toM(R), Rref, k.tol);
        Rot Rb; Rb.setRotationToNaN(); Rb.setRotationFromQuaternion(q1);
        k.sameM("fwd", "setRotationFromQuaternion", toM(Rb), Rref, k.tol);

        // quaternion -> angle-axis describes the same rotation, also for non-canonical (q0 < 0) quaternions
        {
            const Vec4P aq = q1.convertQuaternionToAngleAxis();
            const V3 axq = rr::mk(aq[1], aq[2], aq[3]);
            k.num(k.key("rt-angle", "quatToAngleAxis.axisNorm"), fabsl(rr::norm(axq) - 1), k.tol, [&] { return k.wit().set("axis", rr::jV(axq)); });
            k.req(k.key("rt-angle", "quatToAngleAxis.range"), aq[0] > -NTraits<P>::getPi() && aq[0] <= NTraits<P>::getPi(),
                  [&] { return k.wit().set("angle", (double)aq[0]); });
            const V3 gotq = (LD)aq[0] * axq, wantq = rr::logSO3(Rref);
            k.num(k.key("rt-angle", qv[0] < 0 ? "quatToAngleAxis.negativeScalarPart" : "quatToAngleAxis"), rotVecResid(gotq, wantq), 4 * k.tol, [&] { return k.witV(gotq, wantq); });
        }

        // extraction: canonical, unit, equal up to the documented sign convention
        auto extracted = [&](const char* api, const Quat& q, const M3& of) {
            LD want[4]; rr::toQuat(of, want);
            LD n = 0, e1 = 0, e2 = 0;
            for (int i = 0; i < 4; ++i) { n += (LD)q[i] * q[i]; LD a = fabsl((LD)q[i] - want[i]), b = fabsl((LD)q[i] + want[i]); if (!(a <= e1)) e1 = a; if (!(b <= e2)) e2 = b; }
            k.num(k.key("quat", std::string(api) + ".norm"), fabsl(sqrtl(n) - 1), k.tol, [&] { return k.wit().set("got", vh::jvec(q, 4)); });
            k.req(k.key("quat", std::string(api) + ".canonical"), q[0] >= 0, [&] { return k.wit().set("got", vh::jvec(q, 4)); });
            LD e = (fabsl(want[0]) < 4 * k.tol) ? std::min(e1, e2) : e1;   // at q0 = 0 both signs are canonical
            if (!(e1 == e1)) e = e1;
            k.num(k.key("rt-quat", api), e, 2 * k.tol, [&] { return k.wit().set("got", vh::jvec(q, 4)).set("want", Json::arr().push((double)want[0]).push((double)want[1]).push((double)want[2]).push((double)want[3])); });
        };
        const Quat qe = R.convertRotationToQuaternion();
        extracted("convertRotationToQuaternion", qe, toM(R));
        extracted("Quaternion(Rotation)", Quat(R), toM(R));
        // the same extraction on the P-rounded reference rotation of the region (hits the branch ties)
        const Rot Rr = rotP<P>(R0);
        const Quat qf = Rr.convertRotationToQuaternion();
        extracted("convertRotationToQuaternion.rounded", qf, toM(Rr));
        Rot Rq(qf);
        k.proper("quaternion.roundTrip", toM(Rq)); k.sameM("rt-rot", "quaternion", toM(Rq), toM(Rr), 2 * k.tol);

        // Hamilton product is composition
        LD q2L[4]; rr::toQuat(Raux, q2L);
        const Quat qa(Vec4P((P)q2L[0], (P)q2L[1], (P)q2L[2], (P)q2L[3]));
        const Quat qp = q1 * qa, qm = q1.multiply(qa);
        LD al[4] = {(LD)q1[0], (LD)q1[1], (LD)q1[2], (LD)q1[3]}, bl[4] = {(LD)qa[0], (LD)qa[1], (LD)qa[2], (LD)qa[3]}, pl[4];
        rr::qmul(al, bl, pl);
        LD np = sqrtl(pl[0] * pl[0] + pl[1] * pl[1] + pl[2] * pl[2] + pl[3] * pl[3]);
        LD e = 0, em = 0;
        for (int i = 0; i < 4; ++i) { LD d = fabsl((LD)qp[i] - pl[i] / np); if (!(d <= e)) e = d; LD d2 = fabsl((LD)qm[i] - pl[i] / np); if (!(d2 <= em)) em = d2; }
        k.num(k.key("compose", "Quaternion.operator*"), e, k.tol, [&] { return k.wit().set("got", vh::jvec(qp, 4)); });
        k.num(k.key("compose", "Quaternion.multiply"), em, k.tol, [&] { return k.wit().set("got", vh::jvec(qm, 4)); });
        k.sameM("compose", "Rotation(q1*q2)", toM(Rot(qp)), rr::mul(rr::fromQuat(al), rr::fromQuat(bl)), 2 * k.tol);

        // documented special cases of normalisation
        Quat qz(Vec4P(0));
        k.req(k.key("quat", "normalise.zero->identity"), qz[0] == 1 && qz[1] == 0 && qz[2] == 0 && qz[3] == 0, [&] { return Json::obj().set("got", vh::jvec(qz, 4)); });
        const P tiny = std::numeric_limits<P>::epsilon() * P(1e-3);
        Quat qt(Vec4P(tiny, 0, tiny / 2, 0));
        k.req(k.key("quat", "normalise.tiny->NaN"), isNaN(qt[0]) && isNaN(qt[1]) && isNaN(qt[2]) && isNaN(qt[3]), [&] { return Json::obj().set("got", vh::jvec(qt, 4)); });
        Quat qd; k.req(k.key("quat", "default->identity"), qd[0] == 1 && qd[1] == 0 && qd[2] == 0 && qd[3] == 0, [&] { return Json::obj(); });
    }

#include "rotation_c27_angles.h"
#include "rotation_c27_algebra.h"
};

template <class P> inline void runBattery(vh::Ctx& c, long i, vh::Rng& r, Region reg) {
    std::string note;
    const M3 R0 = baseRotation(reg, i, r, note);
    const M3 Raux = rr::haar(r);
    Battery<P> b(c, r, reg, i);
    const Rotation_<P> Rany = rotP<P>(R0), R2 = rotP<P>(Raux);
    b.angleAxis(R0);
    b.quaternions(R0, Raux);
    // the same rotation as the library itself delivers it from a quaternion (entries carry
    // absolute rounding errors of order eps, unlike the entrywise-rounded reference)
    const Rotation_<P> Rquat(Rany.convertRotationToQuaternion());
    // ... and as a composition of rotations (what every multibody computation produces)
    const Rotation_<P> Rprod = (Rany * ~R2) * R2;
    b.threeAngles(Rany, Rquat, Rprod);
    b.twoAngles();
    b.oneAngle();
    b.twoAxes(Rany);
    b.approximate(R0);
    b.rotationAlgebra(Rany, R2);
    b.transforms(Rany, R2);
    b.unitVectors();
    if (i % 16 < 2) b.coordinateAxes();
    if (c.wantSample())
        c.sample(Json::obj().set("case", i).set("region", REGION_NAME[reg]).set("precision", PT<P>::name()).set("note", note).set("R0", rr::jM(R0)));
}
inline void caseC27(vh::Ctx& c, long i, vh::Rng& r) {
    const Region reg = Region((i / 2) % NREGION);
    if (i % 2) runBattery<float>(c, i, r, reg); else runBattery<double>(c, i, r, reg);
}

} // namespace c27
