// project_c10.h — C10 monitor (included at the end of mon_project.cpp).
#pragma once

namespace {

enum EffKind { EF_Free = 0, EF_Lock, EF_Motion };
struct Eff {                         // what governs a mobilizer in a given State
    int eff = EF_Free; Motion::Level level = Motion::NoLevel;
    const double* lockVal = nullptr; // lock value (q for Position, u for Velocity, udot for Acceleration)
    std::string tag;
};

struct C10Case {
    Built* P = nullptr; const ModelDesc* d = nullptr;
    std::vector<std::vector<double>> dynVal, defVal;   // recorded lock values per node
    Vector qDefault;
};

// who governs node k in State s (dynamic lock state is read back from the State itself)
static Eff effective(const C10Case& K, const State& s, int k) {
    const Built& P = *K.P; const MotSpec& sp = P.mots[k]; const MobilizedBody& mb = P.m.bodies[k];
    Eff e;
    Motion::Level ll = mb.getLockLevel(s);
    if (ll != Motion::NoLevel) {
        e.eff = EF_Lock; e.level = ll;
        // the lock in force is the dynamic one if there is one, else the default one
        if (sp.lockKind != LK_None) { e.lockVal = K.dynVal[k].data(); e.tag = lkName(sp.lockKind); }
        else { e.lockVal = K.defVal[k].data(); e.tag = "lockByDefault"; }
        return e;
    }
    if (sp.kind != MK_None && !P.motions[k].isDisabled(s)) { e.eff = EF_Motion; e.level = sp.level; e.tag = mkName(sp.kind); return e; }
    e.tag = "free"; return e;
}

struct Expect { bool hasQ = false, hasU = false, hasUD = false; bool exactQ = false, exactU = false, exactUD = false; Vector q, u, ud; bool uDiscrete = false, qDiscrete = false; };

// Expected prescribed values for node k from the analytic definitions. 'wantUD' needs s realized to Velocity.
static Expect expected(const C10Case& K, const State& s, int k, const Eff& e, bool wantUD) {
    const Built& P = *K.P; const MotSpec& sp = P.mots[k]; const MobilizedBody& mb = P.m.bodies[k];
    const SimbodyMatterSubsystem& matter = P.m.matter;
    int nq = mb.getNumQ(s), nu = mb.getNumU(s); double t = s.getTime();
    Expect x; x.q.resize(nq); x.u.resize(nu); x.ud.resize(nu); x.q = 0; x.u = 0; x.ud = 0;
    if (e.eff == EF_Free) return x;
    if (e.eff == EF_Lock) {
        if (e.level == Motion::Position) { x.hasQ = x.hasU = x.hasUD = true; x.exactQ = x.exactU = x.exactUD = true; for (int i = 0; i < nq; ++i) x.q[i] = e.lockVal[i]; }
        else if (e.level == Motion::Velocity) { x.hasU = x.hasUD = true; x.exactU = x.exactUD = true; for (int i = 0; i < nu; ++i) x.u[i] = e.lockVal[i]; }
        else { x.hasUD = true; x.exactUD = true; for (int i = 0; i < nu; ++i) x.ud[i] = e.lockVal[i]; }
        return x;
    }
    // Motion
    const int kind = sp.kind;
    if (kind == MK_SteadyScalar || kind == MK_SteadyVec) {
        x.hasU = x.hasUD = true; x.exactU = x.exactUD = true;
        for (int i = 0; i < nu; ++i) x.u[i] = kind == MK_SteadyScalar ? sp.a[0] : (i < 6 ? sp.a[i] : 0.0);
        return x;
    }
    if (kind == MK_CustomZero) {
        // table in Motion.h: Zero at velocity level leaves q "discrete", at acceleration level u "discrete"
        if (sp.level == Motion::Position) { x.hasQ = x.hasU = x.hasUD = true; x.exactQ = x.exactU = x.exactUD = true; }
        else if (sp.level == Motion::Velocity) { x.qDiscrete = true; x.hasU = x.hasUD = true; x.exactU = x.exactUD = true; }
        else { x.uDiscrete = true; x.hasUD = true; x.exactUD = true; }
        return x;
    }
    if (kind == MK_CustomDiscrete) {
        if (sp.level == Motion::Position) { x.qDiscrete = true; x.hasU = x.hasUD = true; x.exactU = x.exactUD = true; }
        else { x.uDiscrete = true; x.hasUD = true; x.exactUD = true; }
        return x;
    }
    Vector qv = mb.getQAsVector(s), uv = mb.getUAsVector(s);
    if (sp.level == Motion::Position) {
        x.hasQ = x.hasU = x.hasUD = true;
        Vector qd(nq), qdd(nq);
        for (int i = 0; i < nq; ++i) {
            if (kind == MK_Sinusoid) { double ph = sp.rate * t + sp.phase; x.q[i] = sp.amp * std::sin(ph); qd[i] = sp.amp * sp.rate * std::cos(ph); qdd[i] = -sp.amp * sp.rate * sp.rate * std::sin(ph); }
            else { x.q[i] = cPos(sp, i, t); qd[i] = cPosD(sp, i, t); qdd[i] = cPosDD(sp, i, t); }
        }
        if (mobNIsIdentity(K.d->nodes[k].type)) { x.u = qd; x.ud = qdd; }
        else {
            // u = N^-1 qdot ; udot = N^-1 (qdotdot - NDot u)  (block of this mobilizer only)
            int q0 = mb.getFirstQIndex(s), u0 = mb.getFirstUIndex(s);
            Vector qdF(s.getNQ(), 0.0), uF; for (int i = 0; i < nq; ++i) qdF[q0 + i] = qd[i];
            matter.multiplyByNInv(s, false, qdF, uF); for (int i = 0; i < nu; ++i) x.u[i] = uF[u0 + i];
            if (wantUD) {
                Vector uOnly(s.getNU(), 0.0), NDu; for (int i = 0; i < nu; ++i) uOnly[u0 + i] = uv[i];
                matter.multiplyByNDot(s, false, uOnly, NDu);
                Vector rhs(s.getNQ(), 0.0), udF; for (int i = 0; i < nq; ++i) rhs[q0 + i] = qdd[i] - NDu[q0 + i];
                matter.multiplyByNInv(s, false, rhs, udF); for (int i = 0; i < nu; ++i) x.ud[i] = udF[u0 + i];
            }
        }
        return x;
    }
    if (sp.level == Motion::Velocity) {
        x.hasU = x.hasUD = true;
        for (int i = 0; i < nu; ++i) {
            if (kind == MK_Sinusoid) { double ph = sp.rate * t + sp.phase; x.u[i] = sp.amp * std::sin(ph); x.ud[i] = sp.amp * sp.rate * std::cos(ph); }
            else { double qi = (sp.qDep && i < nq) ? qv[i] : 0.0; x.u[i] = cVel(sp, i, t, qi); x.ud[i] = cVelD(sp, i, t, qi, sp.qDep ? uv[i] : 0.0); }
        }
        return x;
    }
    x.hasUD = true;
    for (int i = 0; i < nu; ++i) {
        if (kind == MK_Sinusoid) x.ud[i] = sp.amp * std::sin(sp.rate * t + sp.phase);
        else { double qi = (sp.qDep && i < nq) ? qv[i] : 0.0; x.ud[i] = cAcc(sp, i, t, qi, uv[i]); }
    }
    return x;
}

static double vecDiff(const Vector& a, const Vector& b) { double m = 0; for (int i = 0; i < a.size(); ++i) { double d = std::fabs(a[i] - b[i]); if (!(d == d)) return d; m = std::max(m, d); } return m; }

// random Motion spec of a given kind class for a node
static void fillMotion(Rng& r, MotSpec& sp, int kind, Motion::Level level, int type, bool euler) {
    sp.kind = kind; sp.level = level;
    if (kind == MK_SteadyScalar || kind == MK_SteadyVec) sp.level = Motion::Velocity;
    if (sp.level == Motion::Position && !mobPosMotionOK(type, euler)) sp.level = Motion::Velocity;
    if (kind == MK_CustomDiscrete && sp.level == Motion::Acceleration) sp.level = Motion::Velocity;
    if (kind == MK_CustomZero && sp.level == Motion::Position && !(mobNIsIdentity(type))) sp.level = Motion::Velocity;
    sp.amp = r.uni(0.2, 1.1); sp.rate = r.uni(0.3, 2.5); sp.phase = r.sym(3); sp.w = r.uni(0.3, 2.5);
    bool posLevel = sp.level == Motion::Position;
    for (int i = 0; i < 7; ++i) {
        sp.a[i] = r.sym(posLevel ? 0.4 : 1.5); sp.b[i] = posLevel ? r.sym(0.1) : 0.0; sp.c[i] = r.sym(posLevel ? 0.4 : 1.0);
        sp.ph[i] = r.sym(3); sp.d[i] = r.sym(0.8); sp.e[i] = r.sym(0.8);
    }
    sp.qDep = (kind == MK_Custom) && !posLevel && mobNIsIdentity(type) && r.coin(0.5);
}

} // namespace

static void checkC10(Ctx& c, long idx, Rng& r) {
    c.setPhase("generate");
    GenOpts go; go.maxBodies = 5; go.pLoneParticle = 0.02;
    if (idx % 3 != 0) { go.minBodies = 2; go.pLoneParticle = 0; }   // constrained cases need a free mobilizer besides the prescribed one
    ModelDesc d = randomDesc(r, go, idx);
    const int nn = (int)d.nodes.size();
    const double t0 = r.uni(0, 3);
    // primary node gets a deterministic class; the others random
    static const int NCLS = 17;
    const int cls = (int)((idx / 3) % NCLS);
    const int consClass = (int)(idx % 3);           // 0 none, 1-2 with constraints
    int prim = r.integer(0, nn - 1); for (int t = 0; t < 5 && d.nodes[prim].type == MT_Weld; ++t) prim = r.integer(0, nn - 1);
    std::vector<MotSpec> mots(nn);
    auto assign = [&](int k, int cl) {
        if (d.nodes[k].type == MT_Weld) return;   // nothing to prescribe (and lockAt(Vector) on a 0-dof mobilizer takes &value[0] of an empty Vector: UB in MobilizedBody.cpp:81)
        MotSpec& sp = mots[k]; int ty = d.nodes[k].type; Motion::Level L3[3] = {Motion::Position, Motion::Velocity, Motion::Acceleration};
        Motion::Level rl = L3[r.integer(0, 2)];
        switch (cl) {
        case 0: fillMotion(r, sp, MK_SteadyScalar, Motion::Velocity, ty, d.euler); break;
        case 1: fillMotion(r, sp, MK_SteadyVec, Motion::Velocity, ty, d.euler); break;
        case 2: fillMotion(r, sp, MK_Sinusoid, Motion::Position, ty, d.euler); break;
        case 3: fillMotion(r, sp, MK_Sinusoid, Motion::Velocity, ty, d.euler); break;
        case 4: fillMotion(r, sp, MK_Sinusoid, Motion::Acceleration, ty, d.euler); break;
        case 5: fillMotion(r, sp, MK_Custom, Motion::Position, ty, d.euler); break;
        case 6: fillMotion(r, sp, MK_Custom, Motion::Velocity, ty, d.euler); break;
        case 7: fillMotion(r, sp, MK_Custom, Motion::Acceleration, ty, d.euler); break;
        case 8: fillMotion(r, sp, MK_CustomZero, rl, ty, d.euler); break;
        case 9: fillMotion(r, sp, MK_CustomDiscrete, r.coin() ? Motion::Position : Motion::Velocity, ty, d.euler); break;
        case 10: sp.lockKind = LK_Lock; sp.lockLevel = rl; break;
        case 11: sp.lockKind = LK_LockAtScalar; sp.lockLevel = rl; break;
        case 12: sp.lockKind = LK_LockAtVector; sp.lockLevel = rl; break;
        case 13: sp.lockKind = LK_LockAtVec; sp.lockLevel = rl; break;
        case 14: sp.lockDefault = rl; if (rl == Motion::Position && !mobDefaultConfigOK(ty)) sp.lockDefault = Motion::Velocity; break;
        case 15: // Motion overridden by a dynamic lock
            fillMotion(r, sp, r.coin() ? MK_Sinusoid : MK_Custom, rl, ty, d.euler); sp.lockKind = r.coin() ? LK_Lock : LK_LockAtVector; sp.lockLevel = L3[r.integer(0, 2)]; break;
        case 16: // default lock overridden by a dynamic lock, possibly with a Motion underneath
            sp.lockDefault = (rl == Motion::Position && !mobDefaultConfigOK(ty)) ? Motion::Velocity : rl; sp.lockKind = r.coin() ? LK_Lock : LK_LockAtVec; sp.lockLevel = L3[r.integer(0, 2)];
            if (r.coin(0.4)) fillMotion(r, sp, MK_SteadyVec, Motion::Velocity, ty, d.euler); break;
        }
    };
    assign(prim, cls);
    { int movable = 0; for (int k = 0; k < nn; ++k) if (k != prim && d.nodes[k].type != MT_Weld) ++movable;
      for (int k = 0; k < nn; ++k) if (k != prim && d.nodes[k].type != MT_Weld && r.coin(0.3) && (consClass == 0 || movable > 1)) { assign(k, r.integer(0, NCLS - 1)); --movable; } }
    const Vec3 grav = r.coin(0.7) ? randVec3(r, 9.8) : Vec3(0);

    // constraints are parameterised from an unprescribed reference model at a random configuration
    std::vector<ConSpec> cons; std::string ckey = "nocons";
    if (consClass > 0) {
        c.setPhase("reference model");
        Built A; buildSys(A, d, nullptr, {}, Vec3(0)); State a = A.m.init(); a.setTime(t0); randomQU(A.m, a, r); A.m.sys.realize(a, Stage::Velocity);
        ConGenOpts co; co.t0 = t0; co.nodeBlocked.assign(nn, 0);
        for (int k = 0; k < nn; ++k) if (mots[k].any()) co.nodeBlocked[k] = 1;
        for (int t = 0; t < CT_Count; ++t) co.types.push_back(t);
        int nc = r.integer(1, 3); for (int i = 0; i < nc; ++i) { ConSpec cs; if (genConstraint(r, A, a, co, cs)) cons.push_back(cs); }
        std::set<std::string> ts; for (auto& cs : cons) ts.insert(ctName(cs.type)); ckey.clear(); for (auto& t : ts) ckey += (ckey.empty() ? "" : "+") + t;
        if (cons.empty()) ckey = "nocons";
    }

    c.setPhase("build prescribed model");
    Built P; buildSys(P, d, &mots, cons, grav);
    const MultibodySystem& sys = P.m.sys; const SimbodyMatterSubsystem& matter = P.m.matter;
    State s = P.m.init(); s.setTime(t0);
    C10Case K; K.P = &P; K.d = &d; K.dynVal.assign(nn, std::vector<double>(7, 0.0)); K.defVal.assign(nn, std::vector<double>(7, 0.0)); K.qDefault = s.getQ();
    // default lock values: q,u of the default state (Acceleration: zero)
    for (int k = 0; k < nn; ++k) if (mots[k].lockDefault != Motion::NoLevel) {
        const MobilizedBody& mb = P.m.bodies[k];
        if (mots[k].lockDefault == Motion::Position) { Vector q = mb.getQAsVector(s); for (int i = 0; i < q.size(); ++i) K.defVal[k][i] = q[i]; }
        else if (mots[k].lockDefault == Motion::Velocity) { Vector u = mb.getUAsVector(s); for (int i = 0; i < u.size(); ++i) K.defVal[k][i] = u[i]; }
    }
    // lockAt values from a first random (guarded, valid) state
    randomQU(P.m, s, r);
    for (int k = 0; k < nn; ++k) {
        MotSpec& sp = P.mots[k]; if (sp.lockKind == LK_None || sp.lockKind == LK_Lock) continue;
        const MobilizedBody& mb = P.m.bodies[k];
        int n = sp.lockLevel == Motion::Position ? mb.getNumQ(s) : mb.getNumU(s);
        if (sp.lockKind == LK_LockAtScalar && n != 1) sp.lockKind = LK_LockAtVector;
        if (sp.lockLevel == Motion::Position) { Vector q = mb.getQAsVector(s); for (int i = 0; i < n; ++i) sp.lockVal[i] = q[i]; }
        else for (int i = 0; i < n; ++i) sp.lockVal[i] = r.coin(0.15) ? 0.0 : r.sym(2.0);
        for (int i = 0; i < 7; ++i) K.dynVal[k][i] = sp.lockVal[i];
        mots[k] = sp;
    }
    // the state actually used
    const bool zeroU = (idx % 11 == 10);
    randomQU(P.m, s, r, zeroU);
    for (int k = 0; k < nn; ++k) if (P.mots[k].lockKind == LK_Lock) {
        const MobilizedBody& mb = P.m.bodies[k]; Motion::Level L = P.mots[k].lockLevel;
        if (L == Motion::Position) { Vector q = mb.getQAsVector(s); for (int i = 0; i < q.size(); ++i) K.dynVal[k][i] = q[i]; }
        else if (L == Motion::Velocity) { Vector u = mb.getUAsVector(s); for (int i = 0; i < u.size(); ++i) K.dynVal[k][i] = u[i]; }
    }
    c.setPhase("lock");
    applyDynamicLocks(P, s);
    const int nu = s.getNU(), nq = s.getNQ(), nb = matter.getNumBodies();
    int nqInUse = 0; for (int k = 0; k < nn; ++k) nqInUse += P.m.bodies[k].getNumQ(s);   // Euler mode leaves the 4th quaternion slot unused
    if (nu == 0) { c.skip("no-mobilities"); return; }
    Vector fmob = randVector(r, nu, 4); Vector_<SpatialVec> Fbody(nb); for (int b = 0; b < nb; ++b) Fbody[b] = SpatialVec(randVec3(r, 4), randVec3(r, 4));
    P.disc->setAllMobilityForces(s, fmob); P.disc->setAllBodyForces(s, Fbody);

    Json wit = Json::obj(); wit.set("model", d.toJson()).set("t", t0).set("primary", prim).set("class", cls);
    { Json mj = Json::arr(); for (int k = 0; k < nn; ++k) mj.push(Json::obj().set("kind", mkName(mots[k].kind)).set("level", levelName(mots[k].level)).set("qDep", mots[k].qDep).set("lockDefault", levelName(mots[k].lockDefault)).set("lock", lkName(mots[k].lockKind)).set("lockLevel", levelName(mots[k].lockLevel))); wit.set("motions", mj);
      Json cj = Json::arr(); for (auto& cs : cons) cj.push(cs.toJson()); wit.set("constraints", cj); }
    auto W = [&](const char* what, int node = -1) { Json w = wit; return [w, what, node]() { Json x = w; x.set("what", what).set("node", node); return x; }; };

    // ---------------------------------------------------------------- prescribe
    c.setPhase("prescribe");
    sys.realize(s, Stage::Time);
    const Vector qBefore = s.getQ(), uBefore = s.getU();
    sys.prescribe(s);
    sys.realize(s, Stage::Position);
    std::vector<Eff> eff(nn); std::vector<std::string> nodeKey(nn);
    for (int k = 0; k < nn; ++k) {
        eff[k] = effective(K, s, k);
        nodeKey[k] = std::string(mobName(d.nodes[k].type)) + "/" + eff[k].tag + "/" + levelName(eff[k].level);
    }
    std::vector<char> freeQ(nq, 0), freeU(nu, 0);
    for (QIndex qx : matter.getFreeQIndex(s)) freeQ[qx] = 1;
    for (UIndex ux : matter.getFreeUIndex(s)) freeU[ux] = 1;
    for (int k = 0; k < nn; ++k) {
        const MobilizedBody& mb = P.m.bodies[k]; if (mb.getNumU(s) == 0) continue;
        Expect x = expected(K, s, k, eff[k], false);
        int q0 = mb.getFirstQIndex(s), u0 = mb.getFirstUIndex(s), nqb = mb.getNumQ(s), nub = mb.getNumU(s);
        Vector q = mb.getQAsVector(s), u = mb.getUAsVector(s);
        const std::string& nk = nodeKey[k];
        if (x.hasQ) {
            double sc = 1 + vmaxabs(x.q);
            c.check("prescribed-q:" + nk, vecDiff(q, x.q), x.exactQ ? 0.0 : 8e-16 * sc, W("prescribed q != analytic/lock value after prescribe()", k));
            bool fr = false; for (int i = 0; i < nqb; ++i) fr |= (bool)freeQ[q0 + i];
            c.require("prescribed-q-not-free:" + nk, !fr, W("prescribed q is listed in getFreeQIndex()", k));
        } else {
            bool same = true; for (int i = 0; i < nqb; ++i) same &= q[i] == qBefore[q0 + i];
            c.require("free-q-untouched-by-prescribe:" + nk, same, W("prescribe() modified a q that is not prescribed", k));
            if (!x.qDiscrete) { bool fr = true; for (int i = 0; i < nqb; ++i) fr &= (bool)freeQ[q0 + i]; c.require("free-q-is-free:" + nk, fr, W("non-prescribed q missing from getFreeQIndex()", k)); }
        }
        if (x.hasU) {
            double sc = 1 + vmaxabs(x.u);
            bool Nid = mobNIsIdentity(d.nodes[k].type) || eff[k].level != Motion::Position;
            c.check("prescribed-u:" + nk, vecDiff(u, x.u), x.exactU ? 0.0 : (Nid ? 8e-16 : 1e-12) * sc, W("prescribed u != analytic/lock value after prescribe()", k));
            bool fr = false; for (int i = 0; i < nub; ++i) fr |= (bool)freeU[u0 + i];
            c.require("prescribed-u-not-free:" + nk, !fr, W("prescribed u is listed in getFreeUIndex()", k));
        } else {
            bool same = true; for (int i = 0; i < nub; ++i) same &= u[i] == uBefore[u0 + i];
            c.require("free-u-untouched-by-prescribe:" + nk, same, W("prescribe() modified a u that is not prescribed", k));
        }
    }
    { Vector ep = matter.calcMotionErrors(s, Stage::Position), ev = matter.calcMotionErrors(s, Stage::Velocity);
      c.check("motion-errors:position", ep.size() ? vmaxabs(ep) : 0.0, 0.0, W("calcMotionErrors(Position) != 0 after prescribe()"));
      c.check("motion-errors:velocity", ev.size() ? vmaxabs(ev) : 0.0, 0.0, W("calcMotionErrors(Velocity) != 0 after prescribe()")); }
    // prescribe is idempotent
    { State s2 = s; sys.realize(s2, Stage::Time); sys.prescribe(s2);
      c.require("prescribe-idempotent", bitEqual(s2.getQ(), s.getQ()) && bitEqual(s2.getU(), s.getU()), W("second prescribe() changes the state")); }

    // ---------------------------------------------------------------- accelerations
    c.setPhase("realize velocity");
    sys.realize(s, Stage::Velocity);
    if (!sphericalOK(P.m, s)) { c.skip("spherical-singularity"); return; }
    Matrix M; matter.calcM(s, M);
    double cond; { double maxd = 0; for (int i = 0; i < nu; ++i) maxd = std::max(maxd, std::fabs(M(i, i))); double mp = cholMinPivot(M); cond = mp > 0 ? maxd / mp : std::numeric_limits<double>::infinity(); }
    if (!(cond <= 1e7)) { c.skip("ill-conditioned-M"); return; }
    const double nM = mmaxabs(M);
    c.setPhase("realize acceleration");
    try { sys.realize(s, Stage::Acceleration); }
    catch (const std::exception& e) { c.obs("realize-acceleration-exception"); c.skip("realize-acceleration-threw"); return; }
    const Vector udot = s.getUDot();
    if (!allFinite(udot)) {
        // NaN with singular constraint set is outside the statement; without constraints it is not
        if (cons.empty()) c.viol("udot:nonfinite", wit); else c.skip("nonfinite-udot-with-constraints");
        return;
    }
    const double tol = 1e-12 * cond * nu + 1e-10;
    const double ascale = 1 + vmaxabs(udot);
    std::vector<char> freeUD(nu, 0); for (UIndex ux : matter.getFreeUDotIndex(s)) freeUD[ux] = 1;
    Vector tauFull; matter.findMotionForces(s, tauFull);
    const Vector& tauPacked = matter.getMotionMultipliers(s);
    c.require("tau:finite", allFinite(tauFull), W("motion forces contain NaN/Inf"));
    { int nKnown = (int)matter.getKnownUDotIndex(s).size();
      c.require("tau:packed-size", tauPacked.size() == nKnown, W("getMotionMultipliers size != number of known udots")); }
    double tauScale = 1 + vmaxabs(tauFull);
    for (int k = 0; k < nn; ++k) {
        const MobilizedBody& mb = P.m.bodies[k]; int nub = mb.getNumU(s); if (nub == 0) continue;
        Expect x = expected(K, s, k, eff[k], true);
        int u0 = mb.getFirstUIndex(s); Vector ud = mb.getUDotAsVector(s); const std::string& nk = nodeKey[k];
        Vector tk = mb.getTauAsVector(s); Vector tslice(nub); for (int i = 0; i < nub; ++i) tslice[i] = tauFull[u0 + i];
        c.check("tau:per-mobod-slice:" + nk, vecDiff(tk, tslice), 0.0, W("MobilizedBody::getTauAsVector != slice of findMotionForces", k));
        if (x.hasUD) {
            bool Nid = mobNIsIdentity(d.nodes[k].type) || eff[k].level != Motion::Position;
            double sc = 1 + vmaxabs(x.ud) + vmaxabs(mb.getUAsVector(s)) * vmaxabs(mb.getUAsVector(s));
            c.check("prescribed-udot:" + nk, vecDiff(ud, x.ud), x.exactUD ? 0.0 : (Nid ? 1e-14 : 1e-11) * sc, W("prescribed udot != analytic/lock value after realize(Acceleration)", k));
            bool fr = false; for (int i = 0; i < nub; ++i) fr |= (bool)freeUD[u0 + i];
            c.require("prescribed-udot-not-free:" + nk, !fr, W("prescribed udot listed in getFreeUDotIndex()", k));
        } else {
            c.check("tau:zero-on-free:" + nk, vmaxabs(tslice), 0.0, W("non-zero motion force reported on a free mobilizer", k));
            bool fr = true; for (int i = 0; i < nub; ++i) fr &= (bool)freeUD[u0 + i];
            c.require("free-udot-is-free:" + nk, fr, W("free udot missing from getFreeUDotIndex()", k));
        }
    }
    { Vector ea = matter.calcMotionErrors(s, Stage::Acceleration);
      c.check("motion-errors:acceleration", ea.size() ? vmaxabs(ea) : 0.0, 1e-13 * ascale, W("calcMotionErrors(Acceleration) != 0 after realize(Acceleration)")); }
    { double pw = 0; for (int i = 0; i < nu; ++i) pw -= tauFull[i] * s.getU()[i];
      c.check("motion-power", std::fabs(matter.calcMotionPower(s) - pw), 1e-12 * (tauScale * (1 + vmaxabs(s.getU())) * nu), W("calcMotionPower != -tau.u")); }

    // constraint consistency guard: rows of G restricted to the free udots must have full rank
    const int m = s.getNUDotErr(); bool consOK = true; double rowMinRatio = 1;
    if (m > 0) {
        Matrix G; matter.calcG(s, G); std::vector<int> F; for (int i = 0; i < nu; ++i) if (freeUD[i]) F.push_back(i);
        std::vector<std::vector<double>> rows; for (int j = 0; j < m; ++j) { std::vector<double> row; for (int i : F) row.push_back(G(j, i)); rows.push_back(row); }
        double gfull = 0; for (int j = 0; j < m; ++j) { double sq = 0; for (int i = 0; i < nu; ++i) sq += G(j, i) * G(j, i); gfull = std::max(gfull, std::sqrt(sq)); }
        int rank = 0; double minr = 0; if (!F.empty()) rangeResidual(rows, std::vector<double>(F.size(), 0.0), &rank, &minr, std::max(gfull, 1e-3));   // absolute floor: an all-zero row (constraint between welded bodies) is rank deficient
        rowMinRatio = minr;
        if (rank < m || minr < 1e-3) { consOK = false; c.skip("constraints-rank-deficient-on-free-mobilities"); c.obs("rank-deficient:" + ckey); }
        else {
            double gs = mmaxabs(G) * ascale + 1;
            c.check("constraints-with-prescription:udoterr", vmaxabs(s.getUDotErr()), 1e-8 * gs * (1 + 1e-5 * cond), W("acceleration constraints not satisfied although consistent with the prescribed accelerations"));
        }
    }
    const Vector& fTot = sys.getMobilityForces(s, Stage::Dynamics); const Vector_<SpatialVec>& FTot = sys.getRigidBodyForces(s, Stage::Dynamics);
    const double fscale = 1 + vmaxabs(fTot) + nM * vmaxabs(udot) + tauScale;
    // (E3) inverse dynamics: M udot + G^T lambda + f_inertial - f_applied = -tau
    if (consOK) {
        Vector res; matter.calcResidualForce(s, fTot, FTot, udot, s.getMultipliers(), res);
        double lamScale = m ? vmaxabs(s.getMultipliers()) : 0;
        c.check("equivalence:inverse-dynamics-residual=-tau", vmaxabs(res + tauFull), tol * (fscale + lamScale * 10) * 10, W("calcResidualForce(udot, lambda) + tau != 0"));
        // operator form agrees with the realized result
        Vector ud2; Vector_<SpatialVec> A2; matter.calcAcceleration(s, fTot, FTot, ud2, A2);
        c.check("operator-vs-realize:udot", vecDiff(ud2, udot), tol * ascale * (m ? 100 : 1), W("calcAcceleration() != realize(Acceleration) with prescribed motion"));
        if (m == 0) { Vector ud3; Vector_<SpatialVec> A3; matter.calcAccelerationIgnoringConstraints(s, fTot, FTot, ud3, A3);
            c.check("operator-ignoring-vs-realize:udot", vecDiff(ud3, udot), tol * ascale, W("calcAccelerationIgnoringConstraints() != realize(Acceleration) with prescribed motion")); }
    }

    // ---------------------------------------------------------------- free twin
    if (consOK) {
        c.setPhase("free twin");
        Built T; buildSys(T, d, nullptr, cons, grav);
        State t = T.m.init(); t.setTime(t0); t.updQ() = Vector(s.getQ()); t.updU() = Vector(s.getU());
        // (E1) same model without prescription, driven by f - tau
        T.disc->setAllMobilityForces(t, fmob - tauFull); T.disc->setAllBodyForces(t, Fbody);
        bool ok = true;
        try { T.m.sys.realize(t, Stage::Acceleration); } catch (const std::exception& e) { ok = false; c.obs("twin-realize-exception"); }
        if (ok && allFinite(t.getUDot())) {
            double condC = m ? 100 * std::max(1.0, 1e-2 / rowMinRatio) : 1;   // error amplification of the multiplier solve grows with 1/sigma_min(G_f)
            double tolE = tol * ascale * condC * (1 + tauScale / fscale), resE = vecDiff(t.getUDot(), udot);
            if (c.args.verbose && resE > 1e-3 * tolE) fprintf(stderr, "case %ld equivalence ratio %.3g cond %.3g m %d minr %.3g cons %s ascale %.3g tauScale %.3g\n", c.curCase, resE / tolE, cond, m, rowMinRatio, ckey.c_str(), ascale, tauScale);
            c.check("equivalence:twin-with-minus-tau:udot", resE, tolE, W("free model driven by (f - tau) does not reproduce the prescribed model's udot"));
        } else c.skip("twin-not-realizable");
        // (E2) disable/unlock restores the never-prescribed behaviour
        c.setPhase("restore");
        State s2 = s;
        for (int k = 0; k < nn; ++k) { if (P.mots[k].kind != MK_None) P.motions[k].disable(s2); P.m.bodies[k].unlock(s2); }
        State t2 = T.m.init(); t2.setTime(t0); t2.updQ() = Vector(s.getQ()); t2.updU() = Vector(s.getU());
        T.disc->setAllMobilityForces(t2, fmob); T.disc->setAllBodyForces(t2, Fbody);
        ok = true;
        try { sys.realize(s2, Stage::Acceleration); T.m.sys.realize(t2, Stage::Acceleration); } catch (const std::exception& e) { ok = false; c.obs("restore-realize-exception"); }
        if (ok && allFinite(t2.getUDot()) && allFinite(s2.getUDot())) {
            c.require("restore:q-u-kept", bitEqual(s2.getQ(), s.getQ()) && bitEqual(s2.getU(), s.getU()), W("disable/unlock changed q or u"));
            c.check("restore:udot-equals-never-prescribed", vecDiff(s2.getUDot(), t2.getUDot()), tol * (1 + vmaxabs(t2.getUDot())) * (m ? 100 : 1), W("after disable()/unlock() udot differs from the never-prescribed model"));
            Vector tau2; matter.findMotionForces(s2, tau2);
            c.check("restore:tau-zero", vmaxabs(tau2), 0.0, W("motion forces non-zero after disable()/unlock()"));
            c.require("restore:all-free", (int)matter.getFreeUDotIndex(s2).size() == nu && (int)matter.getFreeQIndex(s2).size() == nqInUse && (int)matter.getFreeUIndex(s2).size() == nu && matter.getMotionMultipliers(s2).size() == 0, W("after disable()/unlock() some q/u/udot is still not free"));
            // prescribe must now be a no-op
            State s4 = s2; sys.realize(s4, Stage::Time); sys.prescribe(s4);
            c.require("restore:prescribe-noop", bitEqual(s4.getQ(), s2.getQ()) && bitEqual(s4.getU(), s2.getU()), W("prescribe() changes the state after disable()/unlock()"));
        }
    }
    // ---------------------------------------------------------------- unlock hands control back to the Motion
    for (int k = 0; k < nn; ++k) {
        if (eff[k].eff != EF_Lock || P.mots[k].kind == MK_None) continue;
        c.setPhase("unlock resumes motion");
        State s3 = s; P.m.bodies[k].unlock(s3);
        sys.realize(s3, Stage::Time); sys.prescribe(s3); sys.realize(s3, Stage::Velocity);
        Eff e3 = effective(K, s3, k);
        c.require("unlock:motion-resumes:" + std::string(mkName(P.mots[k].kind)), e3.eff == EF_Motion, W("after unlock() the Motion is not in control", k));
        Expect x = expected(K, s3, k, e3, false); const MobilizedBody& mb = P.m.bodies[k];
        std::string nk = std::string(mobName(d.nodes[k].type)) + "/" + e3.tag + "/" + levelName(e3.level) + "/after-unlock";
        if (x.hasQ) c.check("prescribed-q:" + nk, vecDiff(mb.getQAsVector(s3), x.q), x.exactQ ? 0.0 : 8e-16 * (1 + vmaxabs(x.q)), W("prescribed q wrong after unlock()", k));
        if (x.hasU) { bool Nid = mobNIsIdentity(d.nodes[k].type) || e3.level != Motion::Position;
            c.check("prescribed-u:" + nk, vecDiff(mb.getUAsVector(s3), x.u), x.exactU ? 0.0 : (Nid ? 8e-16 : 1e-12) * (1 + vmaxabs(x.u)), W("prescribed u wrong after unlock()", k)); }
        c.cover(nk);
    }
    // ---------------------------------------------------------------- lock histories on one mobilizer of the same State
    // 2-5 steps of lock / lockAt (each level, zero and non-zero values) / unlock in random order; after every step the
    // prescribed q/u/udot must be the documented value of the LAST lock (lock(level): current q or u, 0 for Acceleration;
    // lockAt(value): value), getLockValueAsVector must report it, and unlock must restore the un-locked behaviour.
    {
        std::vector<int> cand; for (int k = 0; k < nn; ++k) if (d.nodes[k].type != MT_Weld && P.mots[k].lockKind == LK_None && P.mots[k].lockDefault == Motion::NoLevel) cand.push_back(k);
        if (cand.empty()) c.obs("history-no-candidate");
        else {
            const int h = cand[r.next() % cand.size()]; const MobilizedBody& mb = P.m.bodies[h];
            const Motion::Level L3[3] = {Motion::Position, Motion::Velocity, Motion::Acceleration};
            State sh = s; const State sBase = s;
            const int nqb = mb.getNumQ(sh), nub = mb.getNumU(sh); const bool quat = matter.isUsingQuaternion(sh, mb.getMobilizedBodyIndex());
            const int nsteps = r.integer(2, 5); std::string prevOp = "start", histStr; double hv[7] = {0};
            for (int step = 0; step < nsteps; ++step) {
                c.setPhase("lock history step");
                if (r.coin(0.7)) { Vector u(nub); for (int i = 0; i < nub; ++i) u[i] = r.sym(2.0); mb.setUFromVector(sh, u); }   // the client spins the mobilizer
                int op = r.integer(0, 6); if (step == 0 && op == 6) op = r.integer(0, 5);
                const bool isLock = op <= 2, isLockAt = op >= 3 && op <= 5; const Motion::Level L = op <= 5 ? L3[op % 3] : Motion::NoLevel;
                std::string opName = op == 6 ? std::string("unlock") : std::string(isLock ? "lock/" : "lockAt/") + levelName(L);
                for (double& x : hv) x = 0;
                const int n = (L == Motion::Position) ? nqb : nub;
                const Vector qNow = mb.getQAsVector(sh), uNow = mb.getUAsVector(sh);
                if (isLock) { if (L == Motion::Position) for (int i = 0; i < nqb; ++i) hv[i] = qNow[i]; else if (L == Motion::Velocity) for (int i = 0; i < nub; ++i) hv[i] = uNow[i]; }
                if (isLockAt) {
                    if (L == Motion::Position) for (int i = 0; i < nqb; ++i) hv[i] = qNow[i] + ((quat && i < 4) ? 0.0 : r.sym(0.1));
                    else { bool zero = r.coin(0.25); for (int i = 0; i < nub; ++i) hv[i] = zero ? 0.0 : r.sym(2.0); }
                }
                try {
                    if (isLock) mb.lock(sh, L);
                    else if (isLockAt) {
                        int form = r.integer(0, 2);
                        if (form == 0 && n == 1) mb.lockAt(sh, hv[0], L);
                        else if (form == 1) { Vector v(n); for (int i = 0; i < n; ++i) v[i] = hv[i]; mb.lockAt(sh, v, L); }
                        else switch (n) { case 1: mb.lockAt(sh, toVec<1>(hv), L); break; case 2: mb.lockAt(sh, toVec<2>(hv), L); break; case 3: mb.lockAt(sh, toVec<3>(hv), L); break;
                                          case 4: mb.lockAt(sh, toVec<4>(hv), L); break; case 5: mb.lockAt(sh, toVec<5>(hv), L); break; case 6: mb.lockAt(sh, toVec<6>(hv), L); break; default: mb.lockAt(sh, toVec<7>(hv), L); }
                    } else mb.unlock(sh);
                } catch (const std::exception& e) { c.viol("history:lock-call-threw:" + opName, Json(wit).set("what", firstLine(e.what(), 300)).set("history", histStr)); break; }
                histStr += (histStr.empty() ? "" : " > ") + opName;
                const std::string hk = opName + ":after:" + prevOp;
                Json wh = wit; wh.set("historyNode", h).set("history", histStr).set("lockValue", jvec(std::vector<double>(hv, hv + 7)));
                auto WH = [&](const char* what) { Json w = wh; return [w, what]() { Json x = w; x.set("what", what); return x; }; };
                // what the State reports about the lock
                c.require("history:lock-level:" + hk, mb.getLockLevel(sh) == L, WH("getLockLevel() does not report the last lock request"));
                { Vector lv = mb.getLockValueAsVector(sh); Vector ex(op == 6 ? 0 : n); for (int i = 0; i < ex.size(); ++i) ex[i] = hv[i];
                  c.require("history:lock-value:" + hk, lv.size() == ex.size() && (ex.size() == 0 || vecDiff(lv, ex) == 0), WH("getLockValueAsVector() != documented value of the last lock (lock(Acceleration) prescribes 0)")); }
                if (op != 6 && L == Motion::Position) {
                    c.check("history:position-lock-zeroes-u:" + hk, vmaxabs(mb.getUAsVector(sh)), 0.0, WH("position-level lock did not set this mobilizer's u to zero in the state"));
                    if (isLockAt) { Vector ex(nqb); for (int i = 0; i < nqb; ++i) ex[i] = hv[i]; c.check("history:lockAt-sets-q:" + hk, vecDiff(mb.getQAsVector(sh), ex), 0.0, WH("lockAt(Position) did not set q in the state")); }
                }
                // prescribe + realize, compare with the documented values
                bool ok = true;
                try { sys.realize(sh, Stage::Time); sys.prescribe(sh); sys.realize(sh, Stage::Acceleration); } catch (const std::exception& e) { ok = false; c.obs("history-realize-exception"); }
                if (!ok || !allFinite(sh.getUDot())) { c.skip("history-not-realizable"); break; }
                Eff e; if (op == 6) e = effective(K, sh, h); else { e.eff = EF_Lock; e.level = L; e.lockVal = hv; e.tag = opName; }
                Expect x = expected(K, sh, h, e, true);
                if (x.hasQ) c.check("history:prescribed-q:" + hk, vecDiff(mb.getQAsVector(sh), x.q), x.exactQ ? 0.0 : 8e-16 * (1 + vmaxabs(x.q)), WH("prescribed q != documented value of the last lock"));
                if (x.hasU) { bool Nid = mobNIsIdentity(d.nodes[h].type) || e.level != Motion::Position;
                    c.check("history:prescribed-u:" + hk, vecDiff(mb.getUAsVector(sh), x.u), x.exactU ? 0.0 : (Nid ? 8e-16 : 1e-12) * (1 + vmaxabs(x.u)), WH("prescribed u != documented value of the last lock")); }
                if (x.hasUD) { bool Nid = mobNIsIdentity(d.nodes[h].type) || e.level != Motion::Position; double uu = vmaxabs(mb.getUAsVector(sh));
                    c.check("history:prescribed-udot:" + hk, vecDiff(mb.getUDotAsVector(sh), x.ud), x.exactUD ? 0.0 : (Nid ? 1e-14 : 1e-11) * (1 + vmaxabs(x.ud) + uu * uu), WH("prescribed udot != documented value of the last lock")); }
                { Vector ep = matter.calcMotionErrors(sh, Stage::Position), ev = matter.calcMotionErrors(sh, Stage::Velocity), ea = matter.calcMotionErrors(sh, Stage::Acceleration);
                  double me = std::max(ep.size() ? vmaxabs(ep) : 0.0, ev.size() ? vmaxabs(ev) : 0.0);
                  c.check("history:motion-errors", std::max(me, ea.size() ? vmaxabs(ea) : 0.0), 1e-13 * (1 + vmaxabs(sh.getUDot())), WH("calcMotionErrors != 0 after prescribe/realize in a lock history")); }
                if (op == 6) {
                    // unlock: the State must behave exactly like one whose mobilizer was never locked
                    State sRef = sBase; sRef.updQ() = Vector(sh.getQ()); sRef.updU() = Vector(sh.getU());
                    bool ok2 = true; try { sys.realize(sRef, Stage::Time); sys.prescribe(sRef); sys.realize(sRef, Stage::Acceleration); } catch (const std::exception&) { ok2 = false; }
                    if (ok2 && allFinite(sRef.getUDot())) {
                        c.check("history:unlock-restores:udot:after:" + prevOp, vecDiff(sh.getUDot(), sRef.getUDot()), 1e-12 * (1 + vmaxabs(sRef.getUDot())), WH("after unlock() udot differs from a State in which the mobilizer was never locked"));
                        Vector t1, t2; matter.findMotionForces(sh, t1); matter.findMotionForces(sRef, t2);
                        c.check("history:unlock-restores:tau:after:" + prevOp, vecDiff(t1, t2), 1e-12 * (1 + vmaxabs(t2)), WH("after unlock() motion forces differ from a State in which the mobilizer was never locked"));
                    }
                }
                c.cover("history/" + hk);
                prevOp = opName;
            }
        }
    }
    for (int k = 0; k < nn; ++k) if (eff[k].eff != EF_Free) c.cover(nodeKey[k] + "/" + (cons.empty() ? "nocons" : "cons"));
    c.cover("constraints/" + ckey);
    if (c.wantSample()) c.sample(Json::obj().set("model", d.shortStr()).set("primary", nodeKey[prim]).set("constraints", ckey).set("tau", jV(tauFull)).set("udot", jV(udot)));
}
