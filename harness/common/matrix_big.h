// matrix_big.h — lock-step dense reference model for Matrix_/Vector_/RowVector_ and views (C25).
// Part 1: core (type family, shadow model, dispatch, compare). Ops are in matrix_big_ops.h.
#pragma once
#include "matrix_ref.h"

namespace mx {
using namespace SimTK;

enum Kind { MO = 0, MV = 1, VO = 2, VV = 3, RO = 4, RV = 5 };
static const char* const kKindName[] = {"Matrix", "MatrixView", "Vector", "VectorView", "RowVector", "RowVectorView"};
inline int shapeOf(int kind) { return kind / 2; }   // 0 matrix, 1 column, 2 row

// type family of a base element type B: B, neg(B), herm(B), neg(herm(B))
template <class B, int T> struct Mem;
template <class B> struct Mem<B, 0> { typedef B E; };
template <class B> struct Mem<B, 1> { typedef typename CNT<B>::TNeg E; };
template <class B> struct Mem<B, 2> { typedef typename CNT<B>::THerm E; };
template <class B> struct Mem<B, 3> { typedef typename CNT<typename CNT<B>::THerm>::TNeg E; };
template <int I> using IC = std::integral_constant<int, I>;

struct SeqAbort {};   // thrown to leave a sequence after its first violation

template <class B> class Engine {
public:
    typedef typename ET<B>::P P;
    typedef std::complex<P> C;
    typedef typename CNT<B>::StdNumber SN;
    enum { K = ET<B>::K, Cplx = ET<B>::Cplx, NT = std::is_same<B, typename CNT<B>::THerm>::value ? 2 : 4, IsScalar = (K == 1) };
    template <int T> using EltT = typename Mem<B, T>::E;

    static_assert(std::is_same<typename CNT<EltT<1>>::TNeg, B>::value, "neg(neg(B))==B");
    static_assert(NT == 2 || std::is_same<typename CNT<EltT<2>>::THerm, B>::value, "herm(herm(B))==B");
    static_assert(NT == 2 || std::is_same<typename CNT<EltT<1>>::THerm, EltT<3>>::value, "herm(neg(B))==neg(herm(B))");
    static_assert(NT == 2 || std::is_same<typename CNT<EltT<3>>::TNeg, EltT<2>>::value, "neg(neg(herm(B)))==herm(B)");
    static_assert(NT == 2 || std::is_same<typename CNT<EltT<3>>::THerm, EltT<1>>::value, "herm(neg(herm(B)))==neg(B)");
    static_assert(ET<EltT<1>>::K == K && ET<EltT<NT - 1>>::K == K, "same scalar count in family");

    static int hermOf(int t) { return NT == 2 ? t : (t ^ 2); }
    static C toLog(int t, C x) { if (t & 2) x = std::conj(x); if (t & 1) x = -x; return x; }
    static std::string famName() { return ET<B>::name(); }
    static std::string typeName(int t) {
        switch (t) { case 0: return ET<EltT<0>>::name(); case 1: return ET<EltT<1>>::name();
                     case 2: return ET<EltT<(NT == 4 ? 2 : 0)>>::name(); default: return ET<EltT<(NT == 4 ? 3 : 1)>>::name(); }
    }

    struct Owner {
        int nr = 0, nc = 0;          // element dimensions of the modelled memory (column major)
        std::vector<C> b;            // base-frame values: memory reinterpreted as B; (e*K + k)
        std::vector<P> raw;          // harness-owned buffer for external-data objects
        bool external = false;
        int ownerT = 0;
    };
    struct Obj {
        int id = 0, kind = 0, t = 0;
        void* p = nullptr;
        std::shared_ptr<Owner> own;
        int nr = 0, nc = 0;
        std::vector<int> map;        // (i + j*nr) -> owner element index
        bool writable = true, isOwner = false, trans = false;
        int depth = 0;
        int fixR = -1, fixC = -1;    // handle commitment (-1 free)
        bool canClear = true;        // false: real handle commitment not modelled (results of expressions)
    };

    vh::Ctx& c;
    vh::Rng& r;
    std::vector<std::unique_ptr<Obj>> pool;
    std::vector<std::string> hist;
    int nextId = 0;
    long nOps = 0;
    int maxDim = 12;
    bool allowNullOffsetViews = false;
    bool allowReshape1d = false;     // input class 'Matrix_ handle on 1-d storage reshaped to a non 1-d size' (finding; can crash)

    Engine(vh::Ctx& c_, vh::Rng& r_) : c(c_), r(r_) {}
    ~Engine() { destroyAll(); }

    // ------------------------------------------------------------ dispatch
    template <class F> void withT(int t, F&& f) {
        switch (t) {
        case 0: f(IC<0>()); break;
        case 1: f(IC<1>()); break;
        case 2: if constexpr (NT == 4) f(IC<2>()); break;
        case 3: if constexpr (NT == 4) f(IC<3>()); break;
        }
    }
    template <int T> static MatrixBase<EltT<T>>& asBase(Obj& o) { return *static_cast<MatrixBase<EltT<T>>*>(o.p); }
    template <int T> static VectorBase<EltT<T>>& asVec(Obj& o) { return static_cast<VectorBase<EltT<T>>&>(asBase<T>(o)); }
    template <int T> static RowVectorBase<EltT<T>>& asRow(Obj& o) { return static_cast<RowVectorBase<EltT<T>>&>(asBase<T>(o)); }
    template <int T, class F> static void withObj(Obj& o, F&& f) {
        typedef EltT<T> E; MatrixBase<E>& m = asBase<T>(o);
        switch (o.kind) {
        case MO: f(static_cast<Matrix_<E>&>(m)); break;
        case MV: f(static_cast<MatrixView_<E>&>(m)); break;
        case VO: f(static_cast<Vector_<E>&>(static_cast<VectorBase<E>&>(m))); break;
        case VV: f(static_cast<VectorView_<E>&>(static_cast<VectorBase<E>&>(m))); break;
        case RO: f(static_cast<RowVector_<E>&>(static_cast<RowVectorBase<E>&>(m))); break;
        case RV: f(static_cast<RowVectorView_<E>&>(static_cast<RowVectorBase<E>&>(m))); break;
        }
    }
    template <int T, class F> static void withShape(Obj& o, F&& f) {
        switch (shapeOf(o.kind)) {
        case 0: f(asBase<T>(o)); break;
        case 1: f(asVec<T>(o)); break;
        case 2: f(asRow<T>(o)); break;
        }
    }
    template <class X> static constexpr int indexOfType() {
        if (std::is_same<X, EltT<0>>::value) return 0;
        if (std::is_same<X, EltT<1>>::value) return 1;
        if (NT == 4 && std::is_same<X, EltT<2>>::value) return 2;
        if (NT == 4 && std::is_same<X, EltT<3>>::value) return 3;
        return -1;
    }
    template <class E> static E mkElt(const C* logicalVals) { return ET<E>::make(logicalVals); }
    static SN mkSN(C x) { if constexpr (Cplx) return SN(x); else return SN(x.real()); }

    // ------------------------------------------------------------ pool
    Obj* add(int kind, int t, void* p, std::shared_ptr<Owner> own, int nr, int nc, std::vector<int> map,
             bool writable, bool isOwner, int depth, bool trans, int fixR, int fixC) {
        std::unique_ptr<Obj> o(new Obj);
        o->id = nextId++; o->kind = kind; o->t = t; o->p = p; o->own = own; o->nr = nr; o->nc = nc; o->map = std::move(map);
        o->writable = writable; o->isOwner = isOwner; o->depth = depth; o->trans = trans; o->fixR = fixR; o->fixC = fixC;
        pool.push_back(std::move(o));
        return pool.back().get();
    }
    std::shared_ptr<Owner> newOwnerModel(int nr, int nc, int t) {
        auto ow = std::make_shared<Owner>(); ow->nr = nr; ow->nc = nc; ow->ownerT = t; ow->b.assign((size_t)nr * nc * K, C(0, 0));
        return ow;
    }
    static std::vector<int> identityMap(int n) { std::vector<int> m(n); for (int i = 0; i < n; ++i) m[i] = i; return m; }
    void deleteLib(Obj& o) {
        withT(o.t, [&](auto tt) { constexpr int T = decltype(tt)::value; withObj<T>(o, [&](auto& m) { delete &m; }); });
        o.p = nullptr;
    }
    void removeAt(size_t idx) { deleteLib(*pool[idx]); pool.erase(pool.begin() + idx); }
    void destroyDependents(Obj& owner) {   // all other objects looking at the owner's memory
        for (size_t k = pool.size(); k-- > 0;)
            if (pool[k].get() != &owner && pool[k]->own == owner.own) removeAt(k);
    }
    void destroyObj(Obj* o) {
        if (o->isOwner) destroyDependents(*o);
        for (size_t k = 0; k < pool.size(); ++k) if (pool[k].get() == o) { removeAt(k); return; }
    }
    void destroyAll() {
        for (size_t k = pool.size(); k-- > 0;) if (!pool[k]->isOwner) removeAt(k);   // views first
        while (!pool.empty()) removeAt(pool.size() - 1);
    }
    template <class Pred> Obj* pick(Pred pred) {
        std::vector<Obj*> v; for (auto& o : pool) if (pred(*o)) v.push_back(o.get());
        return v.empty() ? nullptr : v[r.next() % v.size()];
    }
    Obj* pickAny() { return pick([](const Obj&) { return true; }); }
    bool sharesMemory(const Obj& a, const Obj& b) const {
        if (a.own != b.own) return false;
        std::vector<char> seen(a.own->b.size() / K + 1, 0);
        for (int e : a.map) seen[e] = 1;
        for (int e : b.map) if (seen[e]) return true;
        return false;
    }
    std::string tag(const Obj& o) const {
        return "#" + std::to_string(o.id) + ":" + kKindName[o.kind] + "<" + typeName(o.t) + ">(" + std::to_string(o.nr) + "x" + std::to_string(o.nc) + ")";
    }
    void log(const std::string& s) { hist.push_back(s); c.setPhase(famName() + " op " + std::to_string(nOps) + ": " + s); }

    // ------------------------------------------------------------ model values
    C lget(const Obj& o, int e, int k) const { return toLog(o.t, o.own->b[(size_t)o.map[e] * K + k]); }
    void lset(Obj& o, int e, int k, C x) { o.own->b[(size_t)o.map[e] * K + k] = toLog(o.t, x); }
    std::vector<C> logicalC(const Obj& o) const {
        std::vector<C> v((size_t)o.nr * o.nc * K);
        for (int e = 0; e < o.nr * o.nc; ++e) for (int k = 0; k < K; ++k) v[(size_t)e * K + k] = lget(o, e, k);
        return v;
    }
    std::vector<LC> logical(const Obj& o) const {
        std::vector<LC> v((size_t)o.nr * o.nc * K);
        for (int e = 0; e < o.nr * o.nc; ++e) for (int k = 0; k < K; ++k) v[(size_t)e * K + k] = toLC(lget(o, e, k));
        return v;
    }
    bool hasNaN(const Obj& o) const {
        for (int e = 0; e < o.nr * o.nc; ++e) for (int k = 0; k < K; ++k) { C x = lget(o, e, k); if (std::isnan(x.real()) || std::isnan(x.imag())) return true; }
        return false;
    }
    C randScalar() {
        double u = r.uni();
        auto one = [&]() -> P {
            if (u < 0.15) return (P)r.integer(-3, 3);
            if (u < 0.5) return (P)(r.integer(-64, 64) / 8.0);
            return (P)r.sym(10.0);
        };
        P re = one(); P im = Cplx ? one() : P(0);
        return C(re, im);
    }
    C randNonzeroScalar() { for (;;) { C x = randScalar(); if (std::abs(x) > 0.05) return x; } }
    void randEltVals(C* out) { for (int k = 0; k < K; ++k) out[k] = randScalar(); }

    // ------------------------------------------------------------ reading the library objects
    bool libDims(Obj& o, int& nr, int& nc) {
        withT(o.t, [&](auto tt) { constexpr int T = decltype(tt)::value; nr = asBase<T>(o).nrow(); nc = asBase<T>(o).ncol(); });
        return nr == o.nr && nc == o.nc;
    }
    void readLib(Obj& o, std::vector<C>& out) {     // logical values, same layout as logicalC()
        out.assign((size_t)o.nr * o.nc * K, C(0, 0));
        withT(o.t, [&](auto tt) {
            constexpr int T = decltype(tt)::value; typedef EltT<T> E;
            const MatrixBase<E>& m = asBase<T>(o);
            for (int j = 0; j < o.nc; ++j) for (int i = 0; i < o.nr; ++i) ET<E>::get(m.getElt(i, j), &out[(size_t)(i + j * o.nr) * K]);
        });
    }
    template <class RE> static void readAny(const MatrixBase<RE>& m, int& nr, int& nc, std::vector<std::complex<typename ET<RE>::P>>& out) {
        nr = m.nrow(); nc = m.ncol(); const int KK = ET<RE>::K;
        out.assign((size_t)nr * nc * KK, std::complex<typename ET<RE>::P>(0, 0));
        for (int j = 0; j < nc; ++j) for (int i = 0; i < nr; ++i) ET<RE>::get(m.getElt(i, j), &out[(size_t)(i + j * nr) * KK]);
    }

    vh::Json histJson() const {
        vh::Json h = vh::Json::arr();
        size_t b = hist.size() > 60 ? hist.size() - 60 : 0;
        if (b) h.push(vh::Json("... " + std::to_string(b) + " earlier ops omitted (replay with --verbose)"));
        for (size_t k = b; k < hist.size(); ++k) h.push(vh::Json(hist[k]));
        return h;
    }
    [[noreturn]] void fail(const std::string& key, vh::Json w) {
        w.set("family", famName()).set("history", histJson());
        c.viol(key, w);
        throw SeqAbort();
    }

    // Compare every live object (and every harness-owned raw buffer) with the model, exactly.
    // key: violation key used when the mismatch is in 'target' (or there is no target);
    // a mismatch in another object is an unintended write: key prefix "alias".
    void compareAll(const std::string& opKey, Obj* target = nullptr) {
        std::vector<C> got;
        for (auto& up : pool) {
            Obj& o = *up;
            int nr, nc;
            if (!libDims(o, nr, nc))
                fail("shape:" + opKey, vh::Json::obj().set("object", tag(o)).set("lib_nrow", nr).set("lib_ncol", nc));
            readLib(o, got);
            for (int e = 0; e < o.nr * o.nc; ++e) for (int k = 0; k < K; ++k) {
                C want = lget(o, e, k), g = got[(size_t)e * K + k];
                if (!sameC(want, g)) {
                    bool isT = (target == nullptr) || (&o == target) || (o.own == target->own && sharesMemory(o, *target));
                    fail((isT ? "value:" : "alias:") + opKey,
                         vh::Json::obj().set("object", tag(o)).set("i", e % o.nr).set("j", e / o.nr).set("scalar", k)
                             .set("expected", jC(want)).set("got", jC(g)).set("what", isT ? "element differs from dense reference" : "object not involved in the operation changed / differs"));
                }
            }
            checkContiguityClaim(o);
            // element addresses: a view must alias exactly the owner's elements its map names
            // (finds wrong element maps even when the values involved happen to be equal)
            if (!o.isOwner && o.nr * o.nc > 0) {
                Obj* ownerObj = nullptr; for (auto& q : pool) if (q->isOwner && q->own == o.own) ownerObj = q.get();
                const int cp2 = Cplx ? 2 : 1;
                for (int e = 0; e < o.nr * o.nc; ++e) {
                    const void* mine = nullptr; const void* want = nullptr;
                    withT(o.t, [&](auto tt) { constexpr int T = decltype(tt)::value; mine = (const void*)&asBase<T>(o).getElt(e % o.nr, e / o.nr); });
                    const int oe = o.map[e];
                    if (o.own->external) want = (const void*)(o.own->raw.data() + (size_t)oe * K * cp2);
                    else if (ownerObj) withT(ownerObj->t, [&](auto tt) { constexpr int T = decltype(tt)::value; want = (const void*)&asBase<T>(*ownerObj).getElt(oe % ownerObj->nr, oe / ownerObj->nr); });
                    if (want && mine != want) {
                        bool isT = (target == nullptr) || (&o == target);
                        fail((isT ? "value:" : "alias:") + opKey, vh::Json::obj().set("object", tag(o)).set("i", e % o.nr).set("j", e / o.nr)
                                 .set("what", "view element does not alias the owner element its definition names (address mismatch)").set("owner_element", oe));
                    }
                }
            }
            if (o.own->external) {
                Owner& ow = *o.own; const int cp = Cplx ? 2 : 1;
                for (size_t s = 0; s < ow.b.size(); ++s) {
                    C g(ow.raw[s * cp], Cplx ? ow.raw[s * cp + 1] : P(0));
                    if (!sameC(g, ow.b[s]))
                        fail("rawmem:" + opKey, vh::Json::obj().set("object", tag(o)).set("scalar_index", (long)s).set("expected", jC(ow.b[s])).set("got", jC(g))
                                 .set("what", "harness-owned external buffer differs from model (write outside the viewed elements?)"));
                }
            }
        }
        c.check("exact:" + opKey, 0, 0, nullptr);
    }

    // Compare values with tolerances (tol==0: exact). Returns worst ratio; reports through c.check.
    template <class PP> void checkVals(const std::string& key, const std::vector<std::complex<PP>>& got, const std::vector<LC>& ref,
                                       const std::vector<LD>& tol, const std::string& what) {
        if (got.size() != ref.size()) fail("shape:" + key, vh::Json::obj().set("what", what).set("got_scalars", (long)got.size()).set("expected_scalars", (long)ref.size()));
        double worst = 0; size_t wi = 0;
        for (size_t s = 0; s < got.size(); ++s) {
            LC g = toLC(got[s]); double ratio;
            bool refNaN = std::isnan(ref[s].real()) || std::isnan(ref[s].imag());
            bool gotNaN = std::isnan(g.real()) || std::isnan(g.imag());
            if (refNaN) ratio = gotNaN ? 0 : std::numeric_limits<double>::infinity();
            else if (gotNaN) ratio = std::numeric_limits<double>::infinity();
            else if (tol[s] == 0) ratio = sameC(got[s], fromLC<PP>(ref[s])) ? 0 : std::numeric_limits<double>::infinity();
            else ratio = (double)(absLC(g - ref[s]) / tol[s]);
            if (ratio > worst) { worst = ratio; wi = s; }
        }
        bool ok = c.check(key, worst, 1.0, [&] {
            return vh::Json::obj().set("what", what).set("scalar_index", (long)wi).set("expected", jLC(ref[wi])).set("got", jC(got[wi]))
                .set("tolerance", (double)tol[wi]).set("family", famName()).set("history", histJson());
        });
        if (!ok) throw SeqAbort();
    }
    // Check the target object of an arithmetic in-place operation, then adopt the library's values.
    void checkTarget(const std::string& key, Obj& o, const std::vector<LC>& ref, const std::vector<LD>& tol) {
        int nr, nc;
        if (!libDims(o, nr, nc)) fail("shape:" + key, vh::Json::obj().set("object", tag(o)).set("lib_nrow", nr).set("lib_ncol", nc));
        std::vector<C> got; readLib(o, got);
        checkVals(key, got, ref, tol, "target " + tag(o));
        for (int e = 0; e < o.nr * o.nc; ++e) for (int k = 0; k < K; ++k) lset(o, e, k, got[(size_t)e * K + k]);
    }
    LD eps() const { return (LD)std::numeric_limits<P>::epsilon(); }
    LD tolOf(LD mag, int nTerms) const { return 64 * (nTerms + 2) * eps() * mag + std::numeric_limits<P>::min() * 64; }

    std::string covKey(const std::string& op, Obj& o) {
        bool contig = false;
        withT(o.t, [&](auto tt) { constexpr int T = decltype(tt)::value; contig = asBase<T>(o).hasContiguousData(); });
        return op + "|" + kKindName[o.kind] + (o.own->external ? "(ext)" : "") + (contig ? "|contig" : "|strided") + "|d" + std::to_string(std::min(o.depth, 3)) +
               ((o.t ^ o.own->ownerT) & 1 ? "|neg" : "|pos") + (o.trans ? "|T" : "|N") + "|" + typeName(o.t);
    }
    // hasContiguousData() == true is a promise that the elements occupy one gap-free run of memory (callers then
    // use getContiguousScalarData() as a flat array). Judged on the element addresses the library itself hands out
    // (getElt), not on the harness' memory model: the library is free to choose row or column order for an owner.
    // (false for a packed object is only a lost fast path and is not judged.)
    void checkContiguityClaim(Obj& o) {
        const int n = o.nr * o.nc;
        if (n <= 1) return;
        bool contig = false; long span = 0; int lr = 0, lc = 0;
        withT(o.t, [&](auto tt) { constexpr int T = decltype(tt)::value;
            const auto& b = asBase<T>(o); contig = b.hasContiguousData(); lr = b.nrow(); lc = b.ncol();
            if (!contig || lr * lc != n) return;
            const char *lo = nullptr, *hi = nullptr;
            for (int jj = 0; jj < lc; ++jj) for (int ii = 0; ii < lr; ++ii) { const char* a = (const char*)&b.getElt(ii, jj); if (!lo || a < lo) lo = a; if (!hi || a > hi) hi = a; }
            span = (long)((hi - lo) / (long)sizeof(EltT<T>)) + 1; });
        if (!contig || lr * lc != n) return;
        c.check("query:hasContiguousData-claimed-for-strided-elements", span == n ? 0.0 : 1.0, 0.5, [&] {
            return vh::Json::obj().set("object", tag(o)).set("nrow", o.nr).set("ncol", o.nc).set("elements", n).set("address_span_in_elements", (double)span).set("family", famName()).set("history", histJson()); });
        if (span != n) throw SeqAbort();
    }
    void cover(const std::string& op, Obj& o) { c.cover(covKey(op, o)); checkContiguityClaim(o); }
    bool libColumnOrder(Obj& o) {
        bool v = false;
        withT(o.t, [&](auto tt) { constexpr int T = decltype(tt)::value;
            v = asBase<T>(o).getMatrixCharacter().getStorage().getOrder() == MatrixStorage::ColumnOrder; });
        return v;
    }
    // does the library store this object as a 1-d (vector) structure?
    bool lib1d(Obj& o) {
        bool v = false;
        withT(o.t, [&](auto tt) { constexpr int T = decltype(tt)::value;
            v = asBase<T>(o).getMatrixCharacter().getStructure().getStructure() == MatrixStructure::Matrix1d; });
        return v;
    }

#include "matrix_big_ops.h"
};

} // namespace mx
