// geom_c36_bounds.h — C36: OrientedBoundingBox(points), Geo bounding spheres and boxes.
#pragma once
#include "geom_util.h"

namespace c36 {
using namespace SimTK;
using namespace gm;

static const char* CLOUD[] = {"generic", "planar", "collinear", "single", "duplicates", "far-from-origin", "cospherical", "tiny", "anisotropic", "lattice"};
enum { NCLOUD = 10 };

inline std::vector<Vec3> genCloud(int cls, vh::Rng& r, int n, double& extent) {
    std::vector<Vec3> p;
    double sz = r.coin(0.3) ? 1.0 : r.logUni(1e-2, 1e2);
    Rotation R = randRotation(r);
    Vec3 off = randBox(r, sz);
    switch (cls) {
    case 0: for (int i = 0; i < n; ++i) p.push_back(off + randBox(r, sz)); break;
    case 1: for (int i = 0; i < n; ++i) p.push_back(off + R * Vec3(r.sym(sz), r.sym(sz), 0)); break;
    case 2: for (int i = 0; i < n; ++i) p.push_back(off + R * Vec3(r.sym(sz), 0, 0)); break;
    case 3: p.push_back(off); break;
    case 4: { int k = std::max(1, n / 3); for (int i = 0; i < k; ++i) p.push_back(off + randBox(r, sz)); while ((int)p.size() < n) p.push_back(p[r.integer(0, k - 1)]); } break;
    case 5: { Vec3 far = randUnit(r) * (sz * r.logUni(1e2, 1e5)); for (int i = 0; i < n; ++i) p.push_back(far + randBox(r, sz)); } break;
    case 6: for (int i = 0; i < n; ++i) p.push_back(off + sz * randUnit(r)); break;
    case 7: for (int i = 0; i < n; ++i) p.push_back(off + randBox(r, sz * 1e-9)); break;
    case 8: for (int i = 0; i < n; ++i) p.push_back(off + R * Vec3(r.sym(sz), r.sym(sz * 0.05), r.sym(sz * 1e-3))); break;
    default: { int k = 2 + (int)std::cbrt((double)n); for (int i = 0; i < n; ++i) p.push_back(off + R * (Vec3(r.integer(0, k), r.integer(0, k), r.integer(0, k)) * (sz / k))); } break;
    }
    Vec3 lo(Infinity), hi(-Infinity);
    for (auto& q : p) for (int i = 0; i < 3; ++i) { lo[i] = std::min(lo[i], q[i]); hi[i] = std::max(hi[i], q[i]); }
    extent = (hi - lo).norm();
    return p;
}
inline Json cloudJson(int cls, const std::vector<Vec3>& p) {
    Json j = Json::obj(); j.set("class", CLOUD[cls]).set("n", (int)p.size());
    Json a = Json::arr(); for (size_t i = 0; i < p.size() && i < 6; ++i) a.push(jv(p[i]));
    return j.set("first_points", a);
}

// exact minimal enclosing sphere of up to 4 points by enumeration of support sets (LD)
struct SphereLD { V3 c; LD r; };
inline bool circum(const std::vector<V3>& s, SphereLD& o) {
    if (s.size() == 1) { o.c = s[0]; o.r = 0; return true; }
    if (s.size() == 2) { o.c = 0.5L * (s[0] + s[1]); o.r = norm(s[0] - o.c); return true; }
    if (s.size() == 3) {
        V3 a = s[1] - s[0], b = s[2] - s[0], ab = cross(a, b); LD d = 2 * dot(ab, ab);
        if (d < 1e-30L * dot(a, a) * dot(b, b)) return false;
        V3 cc = (1 / d) * (dot(b, b) * cross(ab, a) + dot(a, a) * cross(b, ab));
        o.c = s[0] + cc; o.r = norm(cc); return true;
    }
    V3 a = s[1] - s[0], b = s[2] - s[0], cx = s[3] - s[0];
    LD det = dot(a, cross(b, cx));
    if (std::fabs(det) < 1e-24L * norm(a) * norm(b) * norm(cx)) return false;
    V3 cc = (1 / (2 * det)) * (dot(a, a) * cross(b, cx) + dot(b, b) * cross(cx, a) + dot(cx, cx) * cross(a, b));
    o.c = s[0] + cc; o.r = norm(cc); return true;
}
inline LD minSphereSmall(const std::vector<V3>& p) {
    LD best = std::numeric_limits<LD>::infinity();
    int n = (int)p.size();
    for (int mask = 1; mask < (1 << n); ++mask) {
        std::vector<V3> s; for (int i = 0; i < n; ++i) if (mask & (1 << i)) s.push_back(p[i]);
        SphereLD o; if (!circum(s, o)) continue;
        bool all = true; for (auto& q : p) if (norm(q - o.c) > o.r * (1 + 1e-15L) + 1e-300L) all = false;
        if (all && o.r < best) best = o.r;
    }
    return best;
}
inline LD ritterRadius(const std::vector<Vec3>& p) {
    V3 a(p[0]), b = a; LD d = -1;
    for (auto& q : p) if (norm(V3(q) - a) > d) { d = norm(V3(q) - a); b = V3(q); }
    V3 c2 = b; d = -1;
    for (auto& q : p) if (norm(V3(q) - b) > d) { d = norm(V3(q) - b); c2 = V3(q); }
    V3 ctr = 0.5L * (b + c2); LD rad = norm(b - ctr);
    for (auto& q : p) { LD dd = norm(V3(q) - ctr); if (dd > rad) { LD nr = (rad + dd) / 2; ctr = ctr + ((dd - nr) / dd) * (V3(q) - ctr); rad = nr; } }
    return rad;
}

inline void obbPointsChecks(vh::Ctx& c, vh::Rng& r, long idx) {
    int cls = (int)(idx % NCLOUD);
    int n = (cls == 3) ? 1 : r.integer(2, r.coin(0.2) ? 400 : 40);
    double extent; std::vector<Vec3> pts = genCloud(cls, r, n, extent);
    const std::string cn = CLOUD[cls];
    c.setPhase("OrientedBoundingBox(points) " + cn);
    Vector_<Vec3> pv((int)pts.size()); for (int i = 0; i < (int)pts.size(); ++i) pv[i] = pts[i];
    OrientedBoundingBox box(pv);
    c.cover("obb-points:" + cn + (pts.size() > 40 ? ":large" : ":small"));
    auto W = [&]() { return cloudJson(cls, pts).set("size", jv(box.getSize())).set("origin", jv(box.getTransform().p())); };
    const Mat33 Rm = box.getTransform().R().asMat33();
    bool fin = finite3(box.getSize()) && finite3(box.getTransform().p()); for (int i = 0; i < 3; ++i) fin = fin && finite3(Rm(i));
    if (!c.require("nan:obb-points:" + cn, fin, W)) return;
    c.check("rotation:obb-points-orthonormal", (~Rm * Rm - Mat33(1)).norm() + std::fabs(det(Rm) - 1), 1e-10, W);
    int notContained = 0; double worst = -Infinity; double mag = 0;
    for (auto& p : pts) {
        if (!box.containsPoint(p)) ++notContained;
        Vec3 q = ~box.getTransform() * p;
        for (int i = 0; i < 3; ++i) worst = std::max(worst, std::max(-q[i], q[i] - box.getSize()[i]));
        mag = std::max(mag, p.norm());
    }
    c.check("contains:obb-points:" + cn, worst, 1e-12 * (extent + 1e-3 * mag), W);
    c.require("contains-own-predicate:obb-points:" + cn, notContained == 0, [&]() { return W().set("points_reported_outside", notContained); });
    // not absurdly large: each dimension bounded by the cloud's diameter (plus the documented padding)
    c.require("tight:obb-points", max(box.getSize()) <= extent * (1 + 1e-4) + 1e-9 + 1e-12 * mag, W);
    // services of the box used by tree pruning
    Vec3 corners[8]; box.getCorners(corners);
    int cOut = 0; for (int k = 0; k < 8; ++k) { Vec3 q = ~box.getTransform() * corners[k]; for (int i = 0; i < 3; ++i) if (std::min(std::fabs(q[i]), std::fabs(q[i] - box.getSize()[i])) > 1e-12 * (extent + mag + 1e-9)) ++cOut; }
    c.require("obb:corners-are-corners", cOut == 0, W);
    for (int k = 0; k < 6; ++k) {
        Vec3 x = box.getTransform() * (Vec3(r.uni(-1, 2) * box.getSize()[0], r.uni(-1, 2) * box.getSize()[1], r.uni(-1, 2) * box.getSize()[2]));
        Vec3 np = box.findNearestPoint(x);
        Vec3 q = ~box.getTransform() * x, e;
        for (int i = 0; i < 3; ++i) e[i] = std::min(std::max(q[i], 0.0), box.getSize()[i]);
        c.check("obb:findNearestPoint", (np - box.getTransform() * e).norm(), 1e-12 * (extent + mag + 1e-9), [&]() { return W().set("query", jv(x)); });
        // ray against the box: slab method in LD
        Vec3 d = randUnit(r); if (k % 2) { d = (box.getTransform() * (0.5 * box.getSize()) + randBox(r, 0.3 * extent)) - x; if (d.norm() < 1e-12) d = Vec3(1, 0, 0); d /= d.norm(); }
        UnitVec3 ud(d);
        Real dist = -7.25; bool hit = box.intersectsRay(x, ud, dist);
        Vec3 dl = ~box.getTransform().R() * Vec3(ud);
        LD tmin = -std::numeric_limits<LD>::infinity(), tmax = std::numeric_limits<LD>::infinity(); bool miss = false, graze = false;
        for (int i = 0; i < 3; ++i) {
            LD o = q[i], dd = dl[i], sz = box.getSize()[i];
            if (std::fabs(dd) < 1e-12L) { if (o < 0 || o > sz) miss = true; if (std::min(std::fabs(o), std::fabs(o - sz)) < 1e-9L * (sz + 1e-9L)) graze = true; continue; }
            LD t1 = -o / dd, t2 = (sz - o) / dd; if (t1 > t2) std::swap(t1, t2);
            tmin = std::max(tmin, t1); tmax = std::min(tmax, t2);
        }
        if (!miss && (tmin > tmax || tmax < 0)) miss = true;
        if (std::fabs(tmax - tmin) < 1e-9L * (extent + 1e-9L) || std::fabs(tmax) < 1e-9L * (extent + 1e-9)) graze = true;
        if (graze) { c.skip("obb-ray-grazing"); continue; }
        if (c.require("obb:intersectsRay-hit-or-miss", hit == !miss, [&]() { return W().set("origin", jv(x)).set("direction", jv(d)).set("hit", hit); }) && hit)
            c.check("obb:intersectsRay-distance", std::fabs(dist - (double)std::max<LD>(tmin, 0)), 1e-10 * (extent + mag + (x - box.getTransform().p()).norm()), [&]() { return W().set("origin", jv(x)).set("direction", jv(d)).set("distance", dist); });
    }
    if (c.wantSample()) c.sample(W());
}

inline void geoBoundsChecks(vh::Ctx& c, vh::Rng& r, long idx) {
    int cls = (int)(idx % NCLOUD);
    int nsel = (int)((idx / NCLOUD) % 5);      // 2,3,4 point builders, n-point, n-point indirect
    int n = nsel < 3 ? nsel + 2 : (cls == 3 ? 1 : r.integer(1, r.coin(0.2) ? 300 : 30));
    double extent; std::vector<Vec3> pts = genCloud(cls == 3 && nsel < 3 ? 4 : cls, r, n, extent);
    if (nsel < 3 && cls == 3) { for (auto& p : pts) p = pts[0]; extent = 0; }   // all coincident
    while ((int)pts.size() < n) pts.push_back(pts.back());
    const std::string cn = CLOUD[cls];
    double mag = 0; for (auto& p : pts) mag = std::max(mag, p.norm());
    Array_<Vec3> pa(pts.begin(), pts.end());
    Array_<const Vec3*> pi; for (auto& p : pa) pi.push_back(&p);
    static const char* BN[5] = {"2-point", "3-point", "4-point", "n-point", "n-point-indirect"};
    c.setPhase(std::string("Geo bounding sphere ") + BN[nsel] + " " + cn);
    Geo::Sphere sph; Array_<int> which;
    switch (nsel) {
    case 0: sph = Geo::Point::calcBoundingSphere(pts[0], pts[1], which); break;
    case 1: sph = Geo::Point::calcBoundingSphere(pts[0], pts[1], pts[2], false, which); break;
    case 2: sph = Geo::Point::calcBoundingSphere(pts[0], pts[1], pts[2], pts[3], false, which); break;
    case 3: sph = Geo::Point::calcBoundingSphere(pa, which); break;
    default: sph = Geo::Point::calcBoundingSphereIndirect(pi, which); break;
    }
    c.cover(std::string("geo-sphere:") + BN[nsel] + ":" + cn);
    auto W = [&]() { return cloudJson(cls, pts).set("builder", BN[nsel]).set("center", jv(sph.getCenter())).set("radius", sph.getRadius()); };
    if (!c.require(std::string("nan:geo-sphere:") + BN[nsel], finite3(sph.getCenter()) && std::isfinite(sph.getRadius()) && sph.getRadius() >= 0, W)) return;
    int out = 0; LD worst = -1;
    for (auto& p : pts) { if (sph.isPointOutside(p)) ++out; worst = std::max(worst, norm(V3(p) - V3(sph.getCenter())) - (LD)sph.getRadius()); }
    c.check(std::string("contains:geo-sphere:") + BN[nsel] + ":" + cn, (double)worst, 16 * 2.3e-16 * (mag + extent), [&]() { return W().set("points_outside", out).set("worst_excess", (double)worst); });
    if (out) c.obs("geo-sphere-own-predicate-says-outside-within-rounding");
    // minimality: exact for <=4 points; Ritter upper bound otherwise
    LD bound;
    if (pts.size() <= 4) { std::vector<V3> q; for (auto& p : pts) q.push_back(V3(p)); bound = minSphereSmall(q); }
    else bound = ritterRadius(pts);
    // The statement claims containment, not minimality: only "not absurdly large" is judged (radius <= 2 x bound plus the
    // documented stretch); the excess over the bound is what the margin reports.
    double slack = (double)bound + 100 * std::max(mag * 2.3e-16, 1e-13) + 1e-9 * extent;
    c.check(std::string("tight:geo-sphere:") + BN[nsel] + (pts.size() <= 4 ? ":vs-exact" : ":vs-ritter"), sph.getRadius() - (double)bound, slack, [&]() { return W().set("bound", (double)bound); });
    bool wOK = which.size() >= 1 && which.size() <= 4; for (int w : which) wOK = wOK && w >= 0 && w < (int)pts.size();
    c.require("support:geo-sphere-indices", wOK, W);
    // approximate (Ritter) sphere must contain as well
    Geo::Sphere ap = (nsel == 4) ? Geo::Point::calcApproxBoundingSphereIndirect(pi) : Geo::Point::calcApproxBoundingSphere(pa);
    int out2 = 0; for (auto& p : pts) if (ap.isPointOutside(p)) ++out2;
    double w2 = -Infinity; for (auto& p : pts) w2 = std::max(w2, (double)(norm(V3(p) - V3(ap.getCenter())) - (LD)ap.getRadius()));
    c.check("contains:geo-approx-sphere:" + cn, w2, 16 * 2.3e-16 * (mag + extent), [&]() { return W().set("approx_radius", ap.getRadius()).set("points_outside", out2); });
    // axis-aligned and oriented boxes
    c.setPhase("Geo bounding boxes " + cn);
    Array_<int> sup;
    Geo::AlignedBox ab = (nsel == 4) ? Geo::Point::calcAxisAlignedBoundingBoxIndirect(pi, sup) : Geo::Point::calcAxisAlignedBoundingBox(pa, sup);
    int out3 = 0; Vec3 lo(Infinity), hi(-Infinity);
    for (auto& p : pts) { if (!ab.containsPoint(p)) ++out3; for (int i = 0; i < 3; ++i) { lo[i] = std::min(lo[i], p[i]); hi[i] = std::max(hi[i], p[i]); } }
    c.cover("geo-aabb:" + cn);
    double w3 = -Infinity; for (auto& p : pts) for (int i = 0; i < 3; ++i) w3 = std::max(w3, std::fabs(p[i] - ab.getCenter()[i]) - ab.getHalfLengths()[i]);
    c.check("contains:geo-aabb:" + cn, w3, 16 * 2.3e-16 * (mag + extent), [&]() { return W().set("aabb_center", jv(ab.getCenter())).set("aabb_half", jv(ab.getHalfLengths())).set("points_outside", out3); });
    double pad = 100 * std::max(mag * 2.3e-16, 1e-13);
    c.check("tight:geo-aabb", (ab.getHalfLengths() - 0.5 * (hi - lo)).norm() + (ab.getCenter() - 0.5 * (hi + lo)).norm(), pad + 1e-12 * extent, W);
    for (int opt = 0; opt < 2; ++opt) {
        Geo::OrientedBox ob = (nsel == 4) ? Geo::Point::calcOrientedBoundingBoxIndirect(pi, sup, opt == 1) : Geo::Point::calcOrientedBoundingBox(pa, sup, opt == 1);
        int out4 = 0; double w4 = -Infinity;
        for (auto& p : pts) { if (!ob.containsPoint(p)) ++out4; Vec3 q = ~ob.getTransform() * p; for (int i = 0; i < 3; ++i) w4 = std::max(w4, std::fabs(q[i]) - ob.getHalfLengths()[i]); }
        c.cover(std::string("geo-obb:") + cn + (opt ? ":optimized" : ":pca"));
        auto WO = [&]() { return W().set("obb_center", jv(ob.getCenter())).set("obb_half", jv(ob.getHalfLengths())).set("points_outside", out4).set("worst_excess", w4); };
        bool fin = finite3(ob.getCenter()) && finite3(ob.getHalfLengths());
        if (!c.require("nan:geo-obb:" + cn, fin, WO)) continue;
        // judged in the harness with a tolerance of a few ulps of the coordinates (the predicate itself rounds at that level)
        c.check("contains:geo-obb:" + cn, w4, 16 * 2.3e-16 * (mag + extent), WO);
        if (out4) c.obs("geo-obb-own-predicate-says-outside-within-rounding");
        c.require("tight:geo-obb", max(ob.getHalfLengths()) <= 0.5 * extent * (1 + 1e-6) + pad + 1e-12, WO);
    }
    if (c.wantSample()) c.sample(W());
}

}  // namespace c36
