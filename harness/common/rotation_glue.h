// rotation_glue.h — conversions SimTK <-> rr (long double reference) and the small
// checking context shared by mon_rotation (C27, C28) and mon_massprops (C29).
#pragma once
#include "vh.h"
#include "rot_ref.h"
#include "SimTKcommon.h"
#include <type_traits>
#include <initializer_list>

namespace glue {
using rr::LD; using rr::M3; using rr::V3;
using vh::Json;

template <class P> struct PT;
template <> struct PT<float>  { static const char* name() { return "float"; } };
template <> struct PT<double> { static const char* name() { return "double"; } };

template <class P, int CS, int RS> inline M3 toM(const SimTK::Mat<3, 3, P, CS, RS>& A) {
    M3 r; for (int i = 0; i < 3; ++i) for (int j = 0; j < 3; ++j) r.m[i][j] = (LD)A(i, j); return r;
}
template <class P> inline M3 toM(const SimTK::Rotation_<P>& R) { return toM(R.asMat33()); }
template <class P> inline M3 toM(const SimTK::InverseRotation_<P>& R) { return toM(R.asMat33()); }
template <class P> inline M3 toM(const SimTK::SymMat<3, P>& S) {
    M3 r; for (int i = 0; i < 3; ++i) for (int j = 0; j < 3; ++j) r.m[i][j] = (LD)(i >= j ? S(i, j) : S(j, i)); return r;   // SymMat::operator() needs i>=j
}
template <class P, int S> inline V3 toV(const SimTK::Vec<3, P, S>& v) { return rr::mk((LD)v[0], (LD)v[1], (LD)v[2]); }
template <class P, int S> inline V3 toV(const SimTK::Row<3, P, S>& v) { return rr::mk((LD)v[0], (LD)v[1], (LD)v[2]); }
template <class P> inline SimTK::Mat<3, 3, P> toMatP(const M3& A) {
    SimTK::Mat<3, 3, P> r; for (int i = 0; i < 3; ++i) for (int j = 0; j < 3; ++j) r(i, j) = (P)A.m[i][j]; return r;
}
template <class P> inline SimTK::Vec<3, P> toVecP(const V3& v) { return SimTK::Vec<3, P>((P)v[0], (P)v[1], (P)v[2]); }
// a Rotation_<P> holding the P-rounded entries of a reference rotation (orthonormal to eps_P)
template <class P> inline SimTK::Rotation_<P> rotP(const M3& R) { return SimTK::Rotation_<P>(toMatP<P>(R), true); }

// Checking context: key = "<class>:<api>/<input class>/<precision>"
struct Chk {
    vh::Ctx& c;
    std::string reg, prec;
    double eps, tol;                         // eps of P, base tolerance 1024*eps
    std::string wNames; std::vector<double> wIn;   // inputs of the current sub-test (witness)
    Chk(vh::Ctx& c, const std::string& reg, const std::string& prec, double eps)
        : c(c), reg(reg), prec(prec), eps(eps), tol(1024 * eps) {}
    void inputs(const char* names, std::initializer_list<double> v) { wNames = names; wIn.assign(v.begin(), v.end()); }
    void cover(const std::string& api) { c.cover(api + "/" + reg + "/" + prec); }
    std::string key(const char* cls, const std::string& api) const { return std::string(cls) + ":" + api + "/" + reg + "/" + prec; }
    std::string keyR(const char* cls, const std::string& api, const std::string& cond) const { return std::string(cls) + ":" + api + "/" + cond + "/" + prec; }
    Json wit() const { return Json::obj().set("inputs", wNames).set("values", vh::jvec(wIn)); }
    Json witM(const M3& got, const M3* want) const { Json j = wit(); j.set("got", rr::jM(got)); if (want) j.set("want", rr::jM(*want)); return j; }
    Json witV(const V3& got, const V3& want) const { return wit().set("got", rr::jV(got)).set("want", rr::jV(want)); }

    // numeric check on a pre-built key; witness lambda only runs on failure
    template <class W> bool num(const std::string& k, LD resid, LD t, W w) {
        double r = (double)resid, tt = (double)t;
        if (r <= tt) return c.check(k, r, tt, nullptr);
        return c.check(k, r, tt, std::function<Json()>(w));
    }
    template <class W> bool req(const std::string& k, bool ok, W w) {
        if (ok) return c.require(k, true, nullptr);
        return c.require(k, false, std::function<Json()>(w));
    }
    // proper rotation: orthonormal to tolerance and det>0
    bool proper(const std::string& api, const M3& R, double mult = 1) {
        bool a = num(key("ortho", api), rr::orthoErr(R), mult * tol, [&] { return witM(R, nullptr); });
        LD d = rr::det(R);
        bool b = req(key("det", api), d > 0.5L, [&] { return witM(R, nullptr).set("det", (double)d); });
        return a && b;
    }
    bool sameM(const char* cls, const std::string& api, const M3& got, const M3& want, LD t) {
        return num(key(cls, api), rr::maxAbsDiff(got, want), t, [&] { return witM(got, &want); });
    }
    bool sameV(const char* cls, const std::string& api, const V3& got, const V3& want, LD t) {
        return num(key(cls, api), rr::maxAbsDiff(got, want), t, [&] { return witV(got, want); });
    }
    bool sameS(const char* cls, const std::string& api, LD got, LD want, LD t) {
        return num(key(cls, api), fabsl(got - want), t, [&] { return wit().set("got", (double)got).set("want", (double)want); });
    }
};
} // namespace glue
