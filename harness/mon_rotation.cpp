// mon_rotation — SimTKcommon orientation monitors: C27 (rotations/transforms proper,
// conversions round-trip) and C28 (angular-velocity rate helpers are exact derivatives).
// DESIGN §5 C27, C28. The oracles and their legal-client preconditions are documented at
// the top of common/rotation_c27.h and common/rotation_c28.h; the independent reference
// arithmetic (long double) is common/rot_ref.h.
#include "rotation_c27.h"
#include "rotation_c28.h"

int main(int argc, char** argv) {
    vh::Args a = vh::parseArgs(argc, argv);
    vh::Ctx c(a);
    if (a.prop == "C27") return vh::runCases(c, [&](long i, vh::Rng& r) { c27::caseC27(c, i, r); });
    if (a.prop == "C28") return vh::runCases(c, [&](long i, vh::Rng& r) { c28::caseC28(c, i, r); });
    fprintf(stderr, "mon_rotation: unknown property %s\n", a.prop.c_str());
    return 2;
}
