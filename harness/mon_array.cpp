// mon_array — C26: Array_/ArrayView_ behave like std::vector (lock-step, exactly-once element
// construction/destruction) and the pointer/copy wrappers follow their documented copy semantics.
//
// Legal-client preconditions honoured by the generator (DESIGN §1.5a); nothing is judged outside them:
//  * iterators/indices passed to insert/erase/operator()/at lie inside the array; pop_back, erase,
//    eraseFast, front/back only on non-empty arrays (skips are counted as obs "precondition-skip:*").
//  * source *ranges* of assign(first,last), insert(p,first,last), ArrayView_::operator= never
//    overlap the destination (documented @pre); only the single *value* argument of push_back,
//    emplace_back, insert, emplace, resize may refer to an element (std::vector requires that to work and
//    Array_ documents no restriction) — ops "…(alias)", keys array:alias-value:<op>, switch --alias 0.
//  * non-owner arrays/views are only assigned same-size sources and never resized/grown; they never
//    outlive the storage they reference (all are local to one operation).
//  * sizes never exceed max_size(), neither requested directly nor through push/insert growth (the library
//    checks that in Debug builds only); growth that stays within max_size() must not throw.
//  * adoptData() is given storage obtained with new unsigned char[] (what Array_ itself allocates).
//  * CloneOnWritePtr/ClonePtr are only handed raw pointers they may own (fresh objects or their own).
#include "array_seq.h"
#include "array_ptrs.h"
using namespace SimTK;
using namespace vh;

SimTK_DEFINE_UNIQUE_INDEX_TYPE(TestIx);

// index type with a tiny max_size (exercises the max_size branches of the growth policy)
class SmallIx {
public:
    SmallIx() : ix(0xff) {}
    explicit SmallIx(unsigned char i) : ix(i) {}
    operator unsigned char() const { return ix; }
    typedef unsigned char size_type;
    typedef signed char difference_type;
    static size_type max_size() { return 7; }
private:
    unsigned char ix;
};

template <class E, class X> static void arraySeq(Ctx& c, Rng& r, const char* xn, bool alias) {
    c26::ArraySeq<E, X> s(c, r, xn, alias);
    s.run();
}

int main(int argc, char** argv) {
    Args a = parseArgs(argc, argv);
    Ctx c(a);
    if (a.prop != "C26") { fprintf(stderr, "mon_array: unknown property %s\n", a.prop.c_str()); return 2; }
    const bool alias = a.getInt("alias", 1) != 0;
    using c26::Counted; using c26::MoveOnly;
    return runCases(c, [&](long i, Rng& r) {
        // the <element type, index type> cell and the wrapper families are cycled deterministically
        switch (i % 20) {
        case 0:  arraySeq<Counted, unsigned>(c, r, "unsigned", alias); break;
        case 1:  arraySeq<int, unsigned>(c, r, "unsigned", alias); break;
        case 2:  arraySeq<MoveOnly, unsigned>(c, r, "unsigned", alias); break;
        case 3:  { c26::ClonePtrSeq<SimTK::ClonePtr, false> s(c, r); s.run(); break; }
        case 4:  arraySeq<Counted, unsigned char>(c, r, "unsigned char", alias); break;
        case 5:  arraySeq<Counted, int>(c, r, "int", alias); break;
        case 6:  arraySeq<int, unsigned char>(c, r, "unsigned char", alias); break;
        case 7:  { c26::ClonePtrSeq<SimTK::CloneOnWritePtr, true> s(c, r); s.run(); break; }
        case 8:  arraySeq<Counted, SmallIx>(c, r, "SmallIx(max 7)", alias); break;
        case 9:  arraySeq<Counted, TestIx>(c, r, "TestIx", alias); break;
        case 10: arraySeq<int, TestIx>(c, r, "TestIx", alias); break;
        case 11: { c26::CopyWrapSeq s(c, r); s.run(); break; }
        case 12: arraySeq<Counted, long long>(c, r, "long long", alias); break;
        case 13: arraySeq<MoveOnly, SmallIx>(c, r, "SmallIx(max 7)", alias); break;
        case 14: arraySeq<Counted, short>(c, r, "short", alias); break;
        case 15: { c26::ClonePtrSeq<SimTK::CloneOnWritePtr, true> s(c, r); s.run(); break; }
        case 16: arraySeq<int, SmallIx>(c, r, "SmallIx(max 7)", alias); break;
        case 17: arraySeq<Counted, signed char>(c, r, "signed char", alias); break;
        case 18: arraySeq<Counted, unsigned>(c, r, "unsigned", alias); break;
        default: { if (r.coin()) { c26::ClonePtrSeq<SimTK::ClonePtr, false> s(c, r); s.run(); } else { c26::CopyWrapSeq s(c, r); s.run(); } break; }
        }
    });
}
