// mon_project — C09 (projection) and C10 (prescribed motion and locks), DESIGN §5.
//
// Legal-client preconditions (cases violating them are skipped with a reason, never judged):
//  C09 * the constraint set is consistent: every constraint is parameterised from a reference
//        configuration in which it holds exactly; velocities are assembled and the assembled
//        state is validated by harness-side recomputation before it is perturbed.
//        (deliberately unsatisfiable sets are a separate scenario: only "success implies the
//        oracles" is judged there)
//      * states away from coordinate singularities (model.h guards); prescribed quaternions
//        are never produced (position-level Motions only on non-quaternion coordinates,
//        position locks only on normalised quaternions).
//      * advanced projectQ/projectU are called as documented: prescribed q/u already set,
//        state realized to Position/Velocity.
//  C10 * position-level Motions only on mobilizers whose bounded q is regular; lockByDefault at
//        position level only where the reference configuration is regular.
//      * equivalence with the free twin is judged only if cond(M)<=1e7 and the acceleration
//        constraint rows restricted to the free mobilities have full, well conditioned row
//        rank (otherwise prescription + constraints may be inconsistent: outside the statement).
#include "project_gen.h"
using namespace SimTK;
using namespace vh;

static Vector randVector(Rng& r, int n, double s = 1) { Vector v(n); for (int i = 0; i < n; ++i) v[i] = r.sym(s); return v; }
static bool bitEqual(const Vector& a, const Vector& b) {
    if (a.size() != b.size()) return false;
    for (int i = 0; i < a.size(); ++i) if (std::memcmp(&a[i], &b[i], sizeof(Real)) != 0 && !(a[i] == b[i])) return false;
    return true;
}
static double normOf(const std::vector<double>& e, bool inf) {
    if (e.empty()) return 0; double s = 0, m = 0;
    for (double x : e) { s += x * x; m = std::max(m, std::fabs(x)); if (x != x) return x; }
    return inf ? m : std::sqrt(s / e.size());
}
static std::string modelTypes(const ModelDesc& d) { return d.shortStr(); }

// ======================================================================== C09
struct Norms { double perr = 0, quat = 0, pverr = 0; double rawPerr = 0, rawPverr = 0; int mHolo = 0, mQuat = 0, mPV = 0; bool finite = true; };

// Recompute the documented norms from a *fresh copy* of the state (all cache invalidated).
static Norms recomputeNorms(const Built& B, const State& s, bool inf, bool wantVel) {
    State f = s;
    f.updQ() = Vector(s.getQ()); f.updU() = Vector(s.getU());   // invalidates Position and above
    B.m.sys.realize(f, wantVel ? Stage::Velocity : Stage::Position);
    Norms n; const SimbodyMatterSubsystem& matter = B.m.matter;
    n.mQuat = matter.getNumQuaternionsInUse(f); n.mHolo = f.getNQErr() - n.mQuat;
    const Vector& qe = f.getQErr(); const Vector& qw = f.getQErrWeights();
    std::vector<double> e; for (int i = 0; i < n.mHolo; ++i) e.push_back(qe[i] * qw[i]);
    n.perr = normOf(e, inf);
    e.clear(); for (int i = 0; i < n.mHolo; ++i) e.push_back(qe[i]); n.rawPerr = normOf(e, inf);   // unweighted (only used to place window cases)
    // quaternion lengths straight from q
    e.clear();
    for (size_t k = 0; k < B.m.bodies.size(); ++k) {
        if (!matter.isUsingQuaternion(f, B.m.bodies[k].getMobilizedBodyIndex())) continue;
        Vector q = B.m.bodies[k].getQAsVector(f);
        e.push_back(std::sqrt(q[0] * q[0] + q[1] * q[1] + q[2] * q[2] + q[3] * q[3]) - 1.0);
    }
    n.quat = normOf(e, inf);
    if (wantVel) {
        const Vector& ue = f.getUErr(); const Vector& uw = f.getUErrWeights(); n.mPV = ue.size();
        e.clear(); for (int i = 0; i < ue.size(); ++i) e.push_back(ue[i] * uw[i]);
        n.pverr = normOf(e, inf);
        e.clear(); for (int i = 0; i < ue.size(); ++i) e.push_back(ue[i]); n.rawPverr = normOf(e, inf);
    }
    n.finite = allFinite(f.getQ()) && allFinite(f.getU()) && std::isfinite(n.perr) && std::isfinite(n.quat) && std::isfinite(n.pverr);
    return n;
}

static const char* apiName(int api) { static const char* n[] = {"projectQ-adv", "projectU-adv", "project-simple", "projectQ-simple", "projectU-simple"}; return n[api]; }

static void checkC09(Ctx& c, long idx, Rng& r) {
    const int api = (int)(idx % 5);
    const bool adv = api <= 1, doQ = (api == 0 || api == 2 || api == 3), doU = (api == 1 || api == 2 || api == 4);
    const unsigned optMask = adv ? (unsigned)((idx / 5) % 32) : 0u;
    const bool linearOnly = (idx % 7 == 3);
    // scenario: 0 already satisfied, 1 tiny, 2 small, 3 medium, 4 unsatisfiable,
    // 5 "window": entry error placed between the raw and the documented weighted norm around the accuracy
    int scen; { double x = r.uni(); const double pw = (adv && !(optMask & ProjectOptions::ForceProjection)) ? 0.45 : 0.25;   // window share
                if (x >= 1 - pw) scen = 5; else { double y = x / (1 - pw); scen = y < 0.17 ? 0 : y < 0.38 ? 1 : y < 0.66 ? 2 : y < 0.88 ? 3 : 4; } }
    if (c.args.getInt("scen", -1) >= 0) scen = (int)c.args.getInt("scen", -1);      // exploration aid: --scen 4 --unsat 2
    bool hasPres = r.coin(0.4);
    bool unnormQuat = doQ && r.coin(0.5);

    c.setPhase("generate");
    GenOpts go; go.maxBodies = 5; go.pLoneParticle = 0.02;
    if (linearOnly) go.types = {MT_Pin, MT_Slider, MT_Cylinder, MT_Translation, MT_Planar, MT_Screw, MT_Universal};
    ModelDesc d = randomDesc(r, go, idx);
    // forced cell (DESIGN 1.5a "force the rare specialisations"): a consistent, redundant constraint between two
    // rigidly connected bodies (Weld mobilizer) as the only constraint: its Jacobian is structurally zero
    const bool zeroJac = adv && (idx % 40 == 5 || idx % 40 == 26) && d.nodes[0].type != MT_Weld;
    if (zeroJac) { NodeDesc w; w.type = MT_Weld; w.parent = r.integer(0, (int)d.nodes.size() - 1); w.fF = r.integer(0, 2); w.fM = r.integer(0, 2); w.sub = r.next(); d.nodes.push_back(w); }
    int nn = (int)d.nodes.size();
    const double t0 = r.uni(0, 3);

    // prescribed mobilizers (locks / Motions); at least one body must stay free
    std::vector<MotSpec> mots(nn); std::vector<char> blocked(nn, 0); int nPres = 0;
    if (hasPres && nn >= 2) {
        int want = r.integer(1, std::max(1, nn / 2));
        for (int tries = 0; tries < 3 * nn && nPres < want; ++tries) {
            int k = r.integer(0, nn - 1); if (mots[k].any() || d.nodes[k].type == MT_Weld) continue;
            MotSpec& sp = mots[k]; int ty = d.nodes[k].type; int pick = r.integer(0, 5);
            if (pick == 0 && mobDefaultConfigOK(ty)) sp.lockDefault = r.coin(0.6) ? Motion::Position : Motion::Velocity;
            else if (pick == 1) { sp.lockKind = LK_Lock; sp.lockLevel = r.coin(0.6) ? Motion::Position : Motion::Velocity; }
            else if (pick == 2 && mobPosMotionOK(ty, d.euler)) { sp.kind = MK_Sinusoid; sp.level = Motion::Position; sp.amp = r.uni(0.2, 1.1); sp.rate = r.uni(0.3, 2); sp.phase = r.sym(3); }
            else if (pick == 3 && mobPosMotionOK(ty, d.euler)) { sp.kind = MK_Custom; sp.level = Motion::Position; sp.w = r.uni(0.3, 2); for (int i = 0; i < 7; ++i) { sp.a[i] = r.sym(0.4); sp.b[i] = r.sym(0.1); sp.c[i] = r.sym(0.4); sp.ph[i] = r.sym(3); } }
            else if (pick == 4) { sp.kind = MK_SteadyScalar; sp.level = Motion::Velocity; sp.a[0] = r.sym(1.5); }
            else { sp.kind = MK_Sinusoid; sp.level = Motion::Velocity; sp.amp = r.uni(0.2, 1.5); sp.rate = r.uni(0.3, 2); sp.phase = r.sym(3); }
            blocked[k] = 1; ++nPres;
        }
    }
    // pass 1: reference configuration (motions, no constraints)
    c.setPhase("reference model");
    Built A; buildSys(A, d, &mots, {}, Vec3(0));
    State a = A.m.init(); a.setTime(t0);
    randomQU(A.m, a, r);
    applyDynamicLocks(A, a);
    A.m.sys.realize(a, Stage::Time); A.m.sys.prescribe(a); A.m.sys.realize(a, Stage::Velocity);
    if (!sphericalOK(A.m, a)) { c.skip("spherical-singularity"); return; }
    if (a.getNU() == 0) { c.skip("no-mobilities"); return; }
    if ((int)A.m.matter.getFreeQIndex(a).size() == 0) { c.skip("no-free-q"); return; }

    // constraints satisfied at the reference configuration
    ConGenOpts co; co.nodeBlocked = blocked; co.t0 = t0;
    if (linearOnly) co.types = {CT_ConstantCoordinate, CT_CouplerLinear, CT_PrescribedMotionC, CT_ConstantSpeed, CT_SpeedCouplerLinear};
    int nc = r.integer(1, 4); std::vector<ConSpec> cons;
    if (zeroJac) {
        ConSpec cs; cs.b1 = d.nodes[nn - 1].parent; cs.b2 = nn - 1; Transform X1 = poseOf(A, a, cs.b1), X2 = poseOf(A, a, cs.b2);
        int k3 = r.integer(0, 2); cs.type = k3 == 0 ? CT_Rod : k3 == 1 ? CT_Ball : CT_PointInPlane;
        cs.p1 = randVec3(r, 0.8); cs.p2 = randVec3(r, 0.8);
        if (cs.type == CT_Rod) { cs.val = (X1 * cs.p1 - X2 * cs.p2).norm(); if (cs.val < 0.25) { cs.p1 += Vec3(1, 0, 0); cs.val = (X1 * cs.p1 - X2 * cs.p2).norm(); } }
        else if (cs.type == CT_Ball) cs.p2 = ~X2 * (X1 * cs.p1);
        else { cs.n1 = Vec3(randUnit(r)); cs.val = dot(cs.n1, ~X1 * (X2 * cs.p2)); }
        cons.push_back(cs); if (scen >= 4) scen = 2;
    } else
    for (int i = 0; i < nc; ++i) { ConSpec cs; if (genConstraint(r, A, a, co, cs)) cons.push_back(cs); }
    if (cons.empty()) { c.skip("no-constraint-placed"); return; }
    std::string unsatKind;
    if (scen == 4) {   // add a contradictory constraint
        int kind = r.integer(0, 3); ConSpec x; bool ok = false;
        if (c.args.getInt("unsat", -1) >= 0) kind = (int)c.args.getInt("unsat", -1);
        if (kind == 0) { ConGenOpts o2 = co; o2.types = {CT_ConstantCoordinate}; if (genConstraint(r, A, a, o2, x)) { ConSpec y = x; y.val += (r.coin() ? 1 : -1) * r.uni(0.2, 1.0); cons.push_back(x); cons.push_back(y); ok = true; unsatKind = "two-ConstantCoordinate"; } }
        if (kind == 1) { ConGenOpts o2 = co; o2.types = {CT_Rod}; if (genConstraint(r, A, a, o2, x)) { ConSpec y = x; y.val *= r.uni(1.3, 2.0); cons.push_back(x); cons.push_back(y); ok = true; unsatKind = "two-Rod-lengths"; } }
        if (kind == 2 || (!ok && kind != 3)) {   // orientation across a translation-only mobilizer
            for (int k = 0; k < nn && !ok; ++k) if ((d.nodes[k].type == MT_Slider || d.nodes[k].type == MT_Translation) && !blocked[k]) {
                x = ConSpec(); x.type = CT_ConstantOrientation; x.b1 = d.nodes[k].parent; x.b2 = k; x.R1 = randRotation(r);
                Transform X1 = poseOf(A, a, x.b1), X2 = poseOf(A, a, x.b2);
                x.R2 = ~X2.R() * (X1.R() * x.R1) * Rotation(r.uni(0.3, 1.2), randUnit(r)); cons.push_back(x); ok = true; unsatKind = "orientation-across-translation";
            }
        }
        if (kind == 3 || !ok) { ConGenOpts o2 = co; o2.types = {CT_Ball}; if (genConstraint(r, A, a, o2, x)) { ConSpec y = x; y.p2 += randVec3(r, 0.5) + Vec3(0.3, 0, 0); cons.push_back(x); cons.push_back(y); ok = true; unsatKind = "two-Ball-points"; } }
        if (!ok) { c.skip("unsat-not-constructible"); return; }
    }
    bool allLinear = true, anyNonholo = false; std::string ckey;
    { std::set<std::string> ts; for (auto& cs : cons) { ts.insert(ctName(cs.type)); if (ctHolonomic(cs.type) && !ctLinearInQ(cs.type)) allLinear = false; if (ctNonholonomic(cs.type)) anyNonholo = true; } for (auto& t : ts) ckey += (ckey.empty() ? "" : "+") + t; }

    // pass 2: constrained model
    c.setPhase("constrained model");
    Built B; buildSys(B, d, &mots, cons, Vec3(0));
    const MultibodySystem& sys = B.m.sys; const SimbodyMatterSubsystem& matter = B.m.matter;
    State s0 = B.m.init(); s0.setTime(t0);
    s0.updQ() = Vector(a.getQ()); s0.updU() = Vector(a.getU());
    // replay dynamic locks on the reference values (lock() records the current q/u)
    applyDynamicLocks(B, s0);
    sys.realize(s0, Stage::Time); sys.prescribe(s0);
    Json wit = Json::obj(); wit.set("model", d.toJson()).set("api", apiName(api)).set("optMask", (int)optMask).set("scenario", scen).set("t", t0).set("nPrescribed", nPres);
    { Json cj = Json::arr(); for (auto& cs : cons) cj.push(cs.toJson()); wit.set("constraints", cj); }
    if (scen != 4) {
        // assemble velocities (setup only; validated below by harness-side recomputation)
        c.setPhase("assemble");
        try { sys.realize(s0, Stage::Velocity); sys.projectU(s0, 1e-11); }
        catch (const std::exception& e) { c.skip("assembly-failed"); c.obs("assembly-exception"); if (c.args.verbose) fprintf(stderr, "assembly failed [%s]: %s\n", ckey.c_str(), firstLine(e.what(), 400).c_str()); return; }
        Norms n0 = recomputeNorms(B, s0, true, true);
        if (!(n0.perr <= 1e-9 && n0.quat <= 1e-9 && n0.pverr <= 1e-9)) { c.skip("assembly-not-on-manifold"); return; }
    }
    // random weights (after the last Instance-stage change), accuracy, options
    sys.realize(s0, Stage::Instance);
    const bool inf = (optMask & ProjectOptions::UseInfinityNorm) != 0;
    const bool force = (optMask & ProjectOptions::ForceProjection) != 0;
    const bool dontThrow = (optMask & ProjectOptions::DontThrow) != 0;
    // weights: non-unit in 85% of the cases, very different per constraint equation (documented norm is the weighted one)
    if (r.coin(0.85) || scen == 5) {
        Vector& uw = s0.updUWeights(); for (int i = 0; i < uw.size(); ++i) uw[i] = r.logUni(0.1, 10);
        Vector& qw = s0.updQErrWeights(); for (int i = 0; i < qw.size(); ++i) qw[i] = r.logUni(0.02, 50);
        Vector& ew = s0.updUErrWeights(); for (int i = 0; i < ew.size(); ++i) ew[i] = r.logUni(0.02, 50);
    }
    const double acc = scen == 5 ? r.logUni(1e-8, 1e-4) : r.logUni(1e-10, 1e-3);
    ProjectOptions opts(acc);
    for (unsigned b = 1; b <= 0x10; b <<= 1) if (optMask & b) opts.setOption((ProjectOptions::Option)b);
    int overshootClass = r.integer(0, 2); if (adv && overshootClass) opts.setOvershootFactor(overshootClass == 1 ? 1.0 : 0.01);
    bool useLimit = adv && scen != 5 && r.coin(0.1); double limit = r.logUni(1e-6, 1e-1); if (useLimit) opts.setProjectionLimit(limit);
    bool withErrEst = adv && r.coin(0.3);
    wit.set("accuracy", acc).set("useLimit", useLimit).set("unsat", unsatKind);

    // perturb
    c.setPhase("perturb");
    State s = s0;
    double delta = scen == 0 ? 0.0 : scen == 1 ? r.logUni(1e-8, 1e-6) : scen == 2 ? r.logUni(1e-6, 1e-3) : scen == 3 ? r.logUni(1e-3, 1e-1) : (r.coin() ? r.logUni(1e-6, 1e-2) : r.logUni(0.1, 3.0));   // unsatisfiable sets are also started far away (Newton may thrash)
    sys.realize(s, Stage::Instance);
    std::vector<char> freeQ(s.getNQ(), 0), freeU(s.getNU(), 0);
    for (QIndex qx : matter.getFreeQIndex(s)) freeQ[qx] = 1;
    for (UIndex ux : matter.getFreeUIndex(s)) freeU[ux] = 1;
    std::vector<char> inUseQ(s.getNQ(), 0);   // Euler mode leaves the 4th quaternion slot allocated but unused
    for (size_t k = 0; k < B.m.bodies.size(); ++k) { int q0 = B.m.bodies[k].getFirstQIndex(s), n = B.m.bodies[k].getNumQ(s); for (int i = 0; i < n; ++i) inUseQ[q0 + i] = 1; }
    // window class: a direction on the free variables is scaled so that the *weighted* entry norm is acc*f with f chosen
    // relative to rho = weighted/raw: inside the window (raw and weighted norm on different sides of the accuracy),
    // or just inside / just outside the accuracy. Error is linear in the (tiny) step, so one trial step calibrates it.
    std::string windowCls; const bool winQ = doQ;   // project-simple: place the position error
    if (scen == 5) {
        c.setPhase("place window case");
        Vector dirQ(s.getNQ(), 0.0), dirU(s.getNU(), 0.0);
        if (winQ) {
            for (int i = 0; i < dirQ.size(); ++i) if (inUseQ[i] && freeQ[i]) dirQ[i] = r.normal();
            for (size_t k = 0; k < B.m.bodies.size(); ++k) {     // stay tangent to the quaternion spheres
                const MobilizedBody& mb = B.m.bodies[k]; if (!matter.isUsingQuaternion(s, mb.getMobilizedBodyIndex())) continue;
                int q0 = mb.getFirstQIndex(s); double dd = 0, nn2 = 0; for (int i = 0; i < 4; ++i) { dd += dirQ[q0 + i] * s.getQ()[q0 + i]; nn2 += s.getQ()[q0 + i] * s.getQ()[q0 + i]; }
                for (int i = 0; i < 4; ++i) dirQ[q0 + i] -= dd / nn2 * s.getQ()[q0 + i];
            }
        } else for (int i = 0; i < dirU.size(); ++i) if (freeU[i]) dirU[i] = r.normal();
        const double d0 = 1e-6; double r0 = 0, w0 = 0;
        try { State tr = s0; if (winQ) tr.updQ() += d0 * dirQ; else tr.updU() += d0 * dirU; Norms nt = recomputeNorms(B, tr, inf, true); r0 = winQ ? nt.rawPerr : nt.rawPverr; w0 = winQ ? nt.perr : nt.pverr; }
        catch (const std::exception&) { r0 = w0 = 0; }
        if (!(r0 > 1e-10 && w0 > 1e-10) || !(std::fabs(std::log(w0 / r0)) > 0.1)) { c.obs("window-not-constructible"); scen = 2; }
        else {
            const double rho = w0 / r0; double f; int pick = r.integer(0, 9);
            if (pick <= 6) f = std::pow(rho, r.uni(0.15, 0.85));        // raw and weighted norm on different sides of acc
            else if (pick == 7) f = r.uni(0.80, 0.97);                  // just inside the accuracy (weighted)
            else if (pick == 8) f = r.uni(1.03, 1.25);                  // just outside
            else f = std::pow(rho, -r.uni(0.15, 0.85));                 // beyond the window on the other side
            delta = d0 * acc * f / w0; unnormQuat = false;
            if (winQ) s.updQ() += delta * dirQ; else s.updU() += delta * dirU;
        }
    }
    if (scen != 5) {
    if (doQ) {
        Vector& q = s.updQ();
        for (int i = 0; i < q.size(); ++i) if (inUseQ[i] && (freeQ[i] || !adv)) q[i] += delta * r.normal();
        if (unnormQuat) for (size_t k = 0; k < B.m.bodies.size(); ++k) {
            const MobilizedBody& mb = B.m.bodies[k];
            if (!matter.isUsingQuaternion(s, mb.getMobilizedBodyIndex()) || !freeQ[mb.getFirstQIndex(s)]) continue;
            double sc = r.uni(0.5, 2.0); int q0 = mb.getFirstQIndex(s); for (int i = 0; i < 4; ++i) q[q0 + i] *= sc;
        }
    }
    if (doU) { Vector& u = s.updU(); for (int i = 0; i < u.size(); ++i) if (freeU[i] || !adv) u[i] += delta * r.normal(); }
    }
    if (adv) sys.realize(s, api == 0 ? Stage::Position : Stage::Velocity);
    const Vector qIn = s.getQ(), uIn = s.getU();
    Norms nIn; Matrix PqIn, GIn; bool NisI = true; double jacMax = -1;   // max |entry| of the constraint Jacobian on the free variables
    try {
        nIn = recomputeNorms(B, s, inf, true);
        if (api == 0 && nIn.mHolo > 0) { State f = s; sys.realize(f, Stage::Position); Matrix Pq; matter.calcPq(f, Pq); jacMax = 0; for (int j = 0; j < Pq.nrow(); ++j) for (int i = 0; i < Pq.ncol(); ++i) if (freeQ[i]) jacMax = std::max(jacMax, std::fabs(Pq(j, i))); }
        if (doQ && linearOnly && allLinear) {
            State f = s; sys.realize(f, Stage::Position); matter.calcPq(f, PqIn);
            int nq = f.getNQ(), nu = f.getNU(); if (nq != nu) NisI = false;
            for (int j = 0; j < nu && NisI; ++j) { Vector e(nu, 0.0), Ne; e[j] = 1; matter.multiplyByN(f, false, e, Ne); for (int i = 0; i < nq; ++i) if (Ne[i] != (i == j ? 1.0 : 0.0)) NisI = false; }
        }
        if (api == 1) { matter.calcG(s, GIn); if (nIn.mPV > 0) { jacMax = 0; for (int j = 0; j < nIn.mPV; ++j) for (int i = 0; i < GIn.ncol(); ++i) if (freeU[i]) jacMax = std::max(jacMax, std::fabs(GIn(j, i))); } }
    } catch (const std::exception& e) { c.skip("input-state-not-realizable"); return; }
    if (!nIn.finite) { c.skip("nonfinite-input"); return; }
    if (scen == 5) {   // classify from the norms actually realised
        double raw = winQ ? nIn.rawPerr : nIn.rawPverr, wtd = winQ ? nIn.perr : nIn.pverr;
        bool rawIn = raw <= acc, wIn = wtd <= acc;
        windowCls = (rawIn && !wIn) ? "raw-in_weighted-out" : (!rawIn && wIn) ? "raw-out_weighted-in" : (rawIn && wIn) ? "both-in" : "both-out";
        wit.set("window", windowCls).set("rawNormIn", raw).set("weightedNormIn", wtd);
    }
    const bool degenerate = adv && jacMax >= 0 && jacMax < 1e-9;   // structurally zero Jacobian (only rounding noise)
    wit.set("jacobianMaxAbs", jacMax).set("delta", delta).set("normIn_perr", nIn.perr).set("normIn_quat", nIn.quat).set("normIn_pverr", nIn.pverr).set("qIn", jV(qIn)).set("uIn", jV(uIn));
    auto W = [&](const char* what) { Json w = wit; return [w, what]() { Json x = w; x.set("what", what); return x; }; };

    // ------------------------------------------------------------------ the call
    c.setPhase(std::string("call ") + apiName(api));
    ProjectResults res; Vector errEst; bool threw = false; std::string excText;
    if (withErrEst) errEst = randVector(r, api == 0 ? s.getNQ() : s.getNU(), 1e-3);
    try {
        switch (api) {
        case 0: sys.projectQ(s, errEst, opts, res); break;
        case 1: sys.projectU(s, errEst, opts, res); break;
        case 2: sys.project(s, acc); break;
        case 3: sys.projectQ(s, acc); break;
        case 4: sys.projectU(s, acc); break;
        }
    } catch (const std::exception& e) { threw = true; excText = firstLine(e.what(), 300); }
    c.setPhase(std::string("judge ") + apiName(api));
    const std::string A_ = apiName(api);
    std::string outcome;
    if (threw) {
        c.obs("exception:" + A_);
        bool documentedFailure = excText.find("project") != std::string::npos || excText.find("Project") != std::string::npos;
        if (adv && dontThrow && documentedFailure)
            c.viol("dontthrow:threw:" + A_, Json(wit).set("what", "projection failure thrown although DontThrow was set").set("exception", excText));
        else c.require("failure-reported:" + A_, true, nullptr);    // "reports failure => fine"
        if (!documentedFailure) c.obs("exception-other:" + normMsg(excText).substr(0, 80));
        outcome = "threw";
        // state must still be usable after a reported failure: counted, not judged (outside the statement)
        if (!allFinite(s.getQ()) || !allFinite(s.getU())) c.obs("nonfinite-state-after-exception:" + A_);
    } else {
        bool success = adv ? res.getExitStatus() == ProjectResults::Succeeded : true;
        if (adv && !success) {
            outcome = res.getProjectionLimitExceeded() ? "limit" : res.getExitStatus() == ProjectResults::FailedToConverge ? "failed-converge" : "failed-accuracy";
            c.obs("status-failure:" + A_);
            if (!dontThrow && !res.getProjectionLimitExceeded()) c.obs("failure-status-without-throw:" + A_);
            if (res.getProjectionLimitExceeded())
                c.require("limit:state-unchanged:" + A_, bitEqual(s.getQ(), qIn) && bitEqual(s.getU(), uIn), W("projection limit exceeded but state modified"));
            else c.require("failure-reported:" + A_, true, nullptr);
            if (!allFinite(s.getQ()) || !allFinite(s.getU())) c.obs("nonfinite-state-after-failure-status:" + A_);
        }
        if (success) {
            const Vector qOut = s.getQ(), uOut = s.getU();
            Json w2 = wit; w2.set("qOut", jV(qOut)).set("uOut", jV(uOut));
            if (adv) w2.set("status", (int)res.getExitStatus()).set("anyChange", res.getAnyChangeMade()).set("its", res.getNumIterations()).set("normOnEntrance", res.getNormOnEntrance()).set("normOnExit", res.getNormOnExit());
            auto W2 = [&](const char* what) { Json w = w2; return [w, what]() { Json x = w; x.set("what", what); return x; }; };
            bool fin = allFinite(qOut) && allFinite(uOut);
            c.require("finite:nonfinite-state-after-success:" + A_, fin, W2("NaN/Inf in q or u after a return that reports success"));
            Norms nOut; bool realizable = true;
            try { nOut = recomputeNorms(B, s, inf, true); } catch (const std::exception& e) { realizable = false; }
            c.require("rerealize:" + A_, realizable || !fin, W2("state returned by a successful projection cannot be re-realized"));
            if (fin && realizable) {
                const std::string nk = inf ? ":inf" : ":rms";
                const double tolN = acc * (1 + 1e-6) + 1e-14;
                if (doQ) {
                    c.check("norm:perr:" + A_ + nk, nOut.perr, tolN, W2("recomputed weighted position-error norm exceeds requested accuracy after success"));
                    c.check("quat:unit-length:" + A_ + nk, nOut.quat, tolN, W2("quaternion length error exceeds requested accuracy after success"));
                }
                if (doU) c.check("norm:pverr:" + A_ + nk, nOut.pverr, tolN, W2("recomputed weighted velocity-error norm exceeds requested accuracy after success"));
                // prescribed / non-free variables
                bool presQsame = true, presUsame = true, freeQsame = true, freeUsame = true;
                for (int i = 0; i < qOut.size(); ++i) { bool same = qOut[i] == qIn[i]; if (freeQ[i]) freeQsame &= same; else presQsame &= same; }
                for (int i = 0; i < uOut.size(); ++i) { bool same = uOut[i] == uIn[i]; if (freeU[i]) freeUsame &= same; else presUsame &= same; }
                if (adv) {
                    c.require("prescribed-q-unchanged:" + A_, presQsame, W2("a prescribed/locked q was modified by projection"));
                    c.require("prescribed-u-unchanged:" + A_, presUsame, W2("a prescribed/locked u was modified by projection"));
                    if (api == 0) c.require("u-untouched-by-projectQ", freeUsame, W2("projectQ modified u"));
                    if (api == 1) c.require("q-untouched-by-projectU", freeQsame && presQsame, W2("projectU modified q"));
                    // anyChangeMade truthful
                    bool changed = api == 0 ? !(freeQsame && presQsame) : !(freeUsame && presUsame);
                    if (!res.getAnyChangeMade()) c.require("anychange:false-means-unchanged:" + A_, !changed, W2("anyChangeMade()==false but the state differs from the input"));
                    else if (!changed) c.obs("anychange-true-but-bitwise-unchanged:" + A_);
                    // already satisfied => untouched unless forced
                    double nrel = api == 0 ? std::max(nIn.perr, nIn.quat) : nIn.pverr;
                    if (!force && nrel <= acc * (1 - 1e-6)) {
                        c.require("noop:satisfied-state-unchanged:" + A_, !changed && !res.getAnyChangeMade(), W2("state already within accuracy was modified without ForceProjection"));
                        outcome = "noop";
                    } else if (!force && api == 0 && nIn.perr <= acc * (1 - 1e-6)) {
                        // only quaternion normalisation is needed: all non-quaternion coordinates stay
                        bool others = true;
                        for (size_t k = 0; k < B.m.bodies.size(); ++k) {
                            const MobilizedBody& mb = B.m.bodies[k]; bool qt = matter.isUsingQuaternion(s, mb.getMobilizedBodyIndex());
                            int q0 = mb.getFirstQIndex(s), nq = mb.getNumQ(s); for (int i = qt ? 4 : 0; i < nq; ++i) others &= qOut[q0 + i] == qIn[q0 + i];
                        }
                        c.require("noop:only-quaternions-normalized", others, W2("position errors were within accuracy but non-quaternion coordinates changed"));
                        outcome = "quat-only";
                    } else outcome = res.getNumIterations() > 0 ? "projected" : "noiter";
                    if (force) {
                        double pn = api == 0 ? nIn.perr : nIn.pverr;
                        if (pn > 1e-12) c.require("force:iterated:" + A_, res.getNumIterations() >= 1, W2("ForceProjection set, error norm non-zero, but no iteration was made"));
                    }
                    if (std::fabs(res.getNormOnExit() - (api == 0 ? std::max(nOut.perr, nOut.quat) : nOut.pverr)) > 1e-6 * acc + 1e-3 * std::max(nOut.perr, nOut.pverr)) c.obs("normOnExit-differs-from-recomputed:" + A_);
                    if (withErrEst && !allFinite(errEst)) c.viol("finite:errEst:" + A_, w2);
                } else {
                    // simple interface: prescribed values are (re)applied; must equal what prescribe() alone gives
                    State p = s0; p.updQ() = qIn; p.updU() = uIn; sys.realize(p, Stage::Time); sys.prescribeQ(p);
                    bool okq = true; for (int i = 0; i < qOut.size(); ++i) if (!freeQ[i] && doQ) okq &= (qOut[i] == p.getQ()[i]);
                    if (doQ) c.require("prescribed-q-value:" + A_, okq, W2("prescribed q does not have its prescribed value after project"));
                    if (api == 4) c.require("q-untouched-by-projectU", freeQsame && presQsame, W2("projectU(state,accuracy) modified q"));
                    if (doU) {
                        State p2 = s; sys.realize(p2, Stage::Position); sys.prescribeU(p2);
                        bool oku = true; for (int i = 0; i < uOut.size(); ++i) if (!freeU[i]) oku &= (uOut[i] == p2.getU()[i]);
                        c.require("prescribed-u-value:" + A_, oku, W2("prescribed u does not have its prescribed value after project"));
                    }
                    bool sat = (!doQ || std::max(nIn.perr, nIn.quat) <= acc * (1 - 1e-6)) && (!doU || nIn.pverr <= acc * (1 - 1e-6));
                    if (sat && nPres == 0) { c.require("noop:satisfied-state-unchanged:" + A_, freeQsame && freeUsame, W2("state already within accuracy was modified by project(state,accuracy)")); outcome = "noop"; }
                    else outcome = "projected";
                }
                // A constraint set whose Jacobian is structurally zero cannot be improved by moving: the minimal correction
                // is none (apart from quaternion normalisation). Attributed separately from the generic min-norm test.
                if (degenerate) {
                    double ch = 0;
                    if (api == 0) for (size_t k = 0; k < B.m.bodies.size(); ++k) {
                        const MobilizedBody& mb = B.m.bodies[k]; bool qt = matter.isUsingQuaternion(s, mb.getMobilizedBodyIndex());
                        int q0 = mb.getFirstQIndex(s), nq = mb.getNumQ(s); double ql = 1;
                        if (qt) { ql = 0; for (int i = 0; i < 4; ++i) ql += qIn[q0 + i] * qIn[q0 + i]; ql = std::sqrt(ql); if (std::fabs(ql - 1) <= acc) ql = 1; }
                        for (int i = 0; i < nq; ++i) ch = std::max(ch, std::fabs(qOut[q0 + i] - qIn[q0 + i] / ((qt && i < 4) ? ql : 1.0)));
                    } else ch = vmaxabs(uOut - uIn);
                    c.check(std::string("zero-jacobian:") + (force ? "forced-" : "") + "projection-changes-state:" + A_, ch, 1e-6 + 10 * acc, W2("all constraint Jacobian entries are rounding noise and errors were within accuracy, yet a 'successful' projection moved the state"));
                    c.cover(std::string("zero-jacobian/") + A_ + (force ? "/forced" : "/unforced"));
                }
                // weighted minimum-norm correction
                if (doQ && linearOnly && allLinear && NisI && PqIn.nrow() > 0 && !(freeQsame) && !degenerate) {
                    const Vector& uw = s.getUWeights(); std::vector<int> F; for (int i = 0; i < qOut.size(); ++i) if (freeQ[i]) F.push_back(i);
                    std::vector<std::vector<double>> cols; for (int j = 0; j < PqIn.nrow(); ++j) { std::vector<double> col; for (int i : F) col.push_back(PqIn(j, i) / uw[i]); cols.push_back(col); }
                    std::vector<double> y; double qs = 1; for (int i : F) { y.push_back(uw[i] * (qOut[i] - qIn[i])); qs = std::max(qs, std::fabs(uw[i] * qIn[i])); }
                    double rr = rangeResidual(cols, y);
                    c.check("minnorm:q-linear:" + A_, rr, 1e-6 * vnorm2(y) + 1e-13 * qs, W2("correction dq of a linear constraint set is not Wq-orthogonal to null(Pq)"));
                    c.cover("minnorm-q/" + ckey);
                }
                if (api == 1 && GIn.nrow() >= nOut.mPV && nOut.mPV > 0 && !freeUsame && !degenerate) {
                    const Vector& uw = s.getUWeights(); std::vector<int> F; for (int i = 0; i < uOut.size(); ++i) if (freeU[i]) F.push_back(i);
                    std::vector<double> Einv(uOut.size()); for (int i = 0; i < uOut.size(); ++i) Einv[i] = std::max(1.0 / uw[i], std::fabs(uIn[i]));
                    std::vector<std::vector<double>> cols; for (int j = 0; j < nOut.mPV; ++j) { std::vector<double> col; for (int i : F) col.push_back(GIn(j, i) * Einv[i]); cols.push_back(col); }
                    std::vector<double> y; double us = 1; for (int i : F) { y.push_back((uOut[i] - uIn[i]) / Einv[i]); us = std::max(us, std::fabs(uIn[i] / Einv[i])); }
                    double rr = rangeResidual(cols, y);
                    c.check("minnorm:u:" + A_, rr, 1e-6 * vnorm2(y) + 1e-13 * us, W2("correction du is not Eu-orthogonal to null([P;V])"));
                }
            }
            if (outcome.empty()) outcome = "success";
            if (scen == 4) c.obs("unsat-reported-success:" + unsatKind);
        }
    }
    if (scen == 4) c.obs("unsat:" + unsatKind + ":" + outcome);
    c.obs("outcome:" + A_ + ":" + outcome);
    char ck[256]; snprintf(ck, sizeof ck, "%s/opt%02x/%s/%s/%s/scen%d", apiName(api), optMask, outcome.c_str(), matter.getNumQuaternionsInUse(s) ? "quat" : "noquat", nPres ? "pres" : "nopres", scen);
    c.cover(ck);
    c.cover("constraints/" + ckey + (anyNonholo ? "" : ""));
    if (scen == 5) c.cover(std::string("window/") + apiName(api) + (inf ? "/inf/" : "/rms/") + (winQ ? "perr/" : "pverr/") + windowCls + (force ? "/forced/" : "/unforced/") + outcome);
    if (c.wantSample()) c.sample(Json::obj().set("model", modelTypes(d)).set("constraints", ckey).set("api", apiName(api)).set("optMask", (int)optMask).set("accuracy", acc).set("delta", delta).set("outcome", outcome).set("normIn", std::max(nIn.perr, nIn.pverr)));
}

static void checkC10(Ctx& c, long idx, Rng& r);

int main(int argc, char** argv) {
    Args a = parseArgs(argc, argv);
    Ctx c(a);
    const std::string p = a.prop;
    return runCases(c, [&](long i, Rng& r) {
        if (p == "C09") checkC09(c, i, r);
        else if (p == "C10") checkC10(c, i, r);
        else { fprintf(stderr, "mon_project: unknown property %s\n", p.c_str()); exit(2); }
    });
}
#include "project_c10.h"   // checkC10 (kept in a separate file only for size)
