// mon_diff — C40 "Numerical differentiation meets its error bounds".
//
// Drives SimTK::Differentiator (ScalarFunction, GradientFunction, JacobianFunction; forward and central
// differences; explicit, default and unspecified method; the "fast" entry points that take f(y0) and the
// "slow" ones that evaluate it) over generated smooth functions whose derivatives of every order are
// known to the harness in closed form.
//
// Function model: F_j(y) = c0 + sum_t c_t * prod_{f in t} phi_f(a_f.y + b_f), phi in {s^p (p=1..4), exp, sin, cos},
// one or two factors per term. Evaluated in long double and rounded; when an accuracy `acc` is modelled the
// returned value is F*(1+acc*xi(y)) with xi a deterministic hash of the argument bits in [-1,1], and that acc
// is what the harness reports to the Differentiator (constructor argument or setEstimatedAccuracy()).
//
// Oracles
//   err     |estimate - dF_j/dy_i| <= 1.02*(truncation + noise) + rounding, with the step h documented in
//           Differentiator.h (h = clean(acc^(1/2 | 1/3) * max(|y_i|,0.1))):
//              forward:  truncation = h/2 * sup_[y,y+h] |d2F/dy_i^2|,   noise = (e(y+h)+e(y))/h
//              central:  truncation = h^2/6 * sup_[y-h,y+h] |d3F/dy_i^3|, noise = (e(y+h)+e(y-h))/(2h)
//           e(y) = (acc + 2^-53)|F(y)| the evaluation error actually injected; the sup is a rigorous bound computed
//           from the closed form (Leibniz over the factors). This *is* the acc^(1/2) resp. acc^(2/3) bound of the
//           documentation with its constants; for affine F (both methods) and quadratic F (central) the truncation
//           term is exactly zero, i.e. "exact up to rounding".
//   step    every function evaluation requested by the Differentiator is at y0 +/- h*e_i with the documented h
//           (other coordinates bitwise y0), one (forward) or two (central) per parameter;
//   consist fast and slow entry points, explicit/default/unspecified method, and the scalar/gradient/Jacobian entry
//           points that the FunctionRep classes allow for compatible shapes return bitwise identical numbers.
// Legal-client preconditions: 0<acc<1; y0 finite; functions return status 0 and finite values; entry points are
// used only for the shapes the implementation documents (scalar: 1x1; gradient: 1xn; Jacobian: mxn, calcGradient
// only for m==1, calcDerivative only for 1x1). Documented exceptions are counted, not judged.
#include "SimTKmath.h"
#include "vh.h"

using namespace SimTK;
using vh::Json;
typedef long double LD;
static const double U = 1.1102230246251565e-16;   // unit roundoff

struct Fac { int kind; int p; std::vector<double> a; double b; };      // kind 0 pow, 1 exp, 2 sin, 3 cos
struct Term { double c; std::vector<Fac> f; };
struct Fn { double c0 = 0; std::vector<Term> terms; };

static LD dotS(const Fac& f, const std::vector<double>& y) { LD s = f.b; for (size_t i = 0; i < y.size(); ++i) s += (LD)f.a[i] * (LD)y[i]; return s; }
static LD phi(const Fac& f, LD s, int der) {     // der-th derivative of phi at s
    switch (f.kind) {
    case 0: { if (der > f.p) return 0; LD c = 1; for (int j = 0; j < der; ++j) c *= (f.p - j); return c * powl(s, f.p - der); }
    case 1: return expl(s);
    case 2: switch (der & 3) { case 0: return sinl(s); case 1: return cosl(s); case 2: return -sinl(s); default: return -cosl(s); }
    default: switch (der & 3) { case 0: return cosl(s); case 1: return -sinl(s); case 2: return -cosl(s); default: return sinl(s); }
    }
}
static LD evalF(const Fn& F, const std::vector<double>& y) {
    LD v = F.c0;
    for (auto& t : F.terms) { LD p = t.c; for (auto& f : t.f) p *= phi(f, dotS(f, y), 0); v += p; }
    return v;
}
static LD evalDF(const Fn& F, const std::vector<double>& y, int i) {
    LD v = 0;
    for (auto& t : F.terms) {
        for (size_t k = 0; k < t.f.size(); ++k) {
            if (t.f[k].a[i] == 0) continue;
            LD p = (LD)t.c * (LD)t.f[k].a[i] * phi(t.f[k], dotS(t.f[k], y), 1);
            for (size_t g = 0; g < t.f.size(); ++g) if (g != k) p *= phi(t.f[g], dotS(t.f[g], y), 0);
            v += p;
        }
    }
    return v;
}
// sup over t in [tlo,thi] of |d^j/dt^j phi(s0 + a_i t)|  (rigorous upper bound)
static LD supFactor(const Fac& f, LD s0, LD ai, int j, LD tlo, LD thi) {
    LD sa = s0 + ai * tlo, sb = s0 + ai * thi;
    LD aj = powl(fabsl(ai), j);
    switch (f.kind) {
    case 0: { if (j > f.p) return 0; LD c = 1; for (int q = 0; q < j; ++q) c *= (f.p - q);
              LD sm = std::max(fabsl(sa), fabsl(sb)); return aj * c * (f.p - j == 0 ? 1.0L : powl(sm, f.p - j)); }
    case 1: return aj * expl(std::max(sa, sb));
    default: return aj;
    }
}
static LD binom(int n, int k) { LD r = 1; for (int q = 1; q <= k; ++q) r = r * (n - k + q) / q; return r; }
static LD supDeriv(const Fn& F, const std::vector<double>& y, int i, int k, LD tlo, LD thi) {
    LD tot = 0;
    for (auto& t : F.terms) {
        if (t.f.size() == 1) tot += fabsl((LD)t.c) * supFactor(t.f[0], dotS(t.f[0], y), t.f[0].a[i], k, tlo, thi);
        else {
            LD s = 0;
            for (int j = 0; j <= k; ++j)
                s += binom(k, j) * supFactor(t.f[0], dotS(t.f[0], y), t.f[0].a[i], j, tlo, thi) * supFactor(t.f[1], dotS(t.f[1], y), t.f[1].a[i], k - j, tlo, thi);
            tot += fabsl((LD)t.c) * s;
        }
    }
    return tot * (1 + 1e-15L);
}

struct Model {
    int ny = 1, nf = 1;
    std::vector<Fn> F;
    double acc = 0;                        // 0: exact evaluation (rounded), default accuracy reported
    mutable std::vector<std::vector<double>> log;
    double noisy(int j, const std::vector<double>& y) const {
        LD v = evalF(F[j], y);
        if (acc > 0) {
            uint64_t h = 0x1234567ULL + (uint64_t)j;
            for (double yi : y) { uint64_t b; memcpy(&b, &yi, 8); h = vh::mix(h, b); }
            double xi = 2.0 * ((h >> 11) * (1.0 / 9007199254740992.0)) - 1.0;
            v *= (1 + (LD)acc * xi);
        }
        return (double)v;
    }
    // |value handed to the Differentiator - F(y)|: injected noise + rounding to double + long-double accumulation
    LD evalErr(int j, const std::vector<double>& y) const {
        const LD EL = 64 * 5.5e-20L;                     // a generous multiple of the long-double epsilon
        LD S = fabsl((LD)F[j].c0), A = 0;
        for (auto& t : F[j].terms) {
            LD p = fabsl((LD)t.c);
            for (auto& f : t.f) p *= fabsl(phi(f, dotS(f, y), 0));
            S += p;
            // rounding of the factor arguments (cancellation inside a.y+b) propagated through phi'
            for (size_t k = 0; k < t.f.size(); ++k) {
                LD ds = fabsl((LD)t.f[k].b); for (size_t i = 0; i < y.size(); ++i) ds += fabsl((LD)t.f[k].a[i] * (LD)y[i]);
                LD q = fabsl((LD)t.c) * fabsl(phi(t.f[k], dotS(t.f[k], y), 1)) * ds * EL;
                for (size_t g = 0; g < t.f.size(); ++g) if (g != k) q *= fabsl(phi(t.f[g], dotS(t.f[g], y), 0));
                A += q;
            }
        }
        return ((LD)acc + (LD)U * 1.0000001L) * fabsl(evalF(F[j], y)) * (1 + (LD)acc) + EL * S + A;
    }
};
static std::vector<double> toStd(const Vector& v) { std::vector<double> r(v.size()); for (int i = 0; i < v.size(); ++i) r[i] = v[i]; return r; }

class MyScalar : public Differentiator::ScalarFunction {
public:
    MyScalar(const Model& m, Real acc) : Differentiator::ScalarFunction(acc), m(m) {}
    int f(Real x, Real& fx) const override { std::vector<double> y(1, x); m.log.push_back(y); fx = m.noisy(0, y); return 0; }
    const Model& m;
};
class MyGrad : public Differentiator::GradientFunction {
public:
    MyGrad(const Model& m, Real acc) : Differentiator::GradientFunction(m.ny, acc), m(m) {}
    int f(const Vector& y, Real& fy) const override { std::vector<double> yy = toStd(y); m.log.push_back(yy); fy = m.noisy(0, yy); return 0; }
    const Model& m;
};
class MyJac : public Differentiator::JacobianFunction {
public:
    MyJac(const Model& m, Real acc) : Differentiator::JacobianFunction(m.nf, m.ny, acc), m(m) {}
    int f(const Vector& y, Vector& fy) const override {
        std::vector<double> yy = toStd(y); m.log.push_back(yy);
        for (int j = 0; j < m.nf; ++j) fy[j] = m.noisy(j, yy);
        return 0;
    }
    const Model& m;
};

static const char* FCLS[4] = {"affine", "quadratic", "poly", "exptrig"};
static const char* YCLS[5] = {"zero", "small", "unit", "large", "mixed"};

static Fac genFactor(vh::Rng& r, const std::vector<double>& y0, int kind, int p) {
    const int n = (int)y0.size();
    Fac f; f.kind = kind; f.p = p; f.a.assign(n, 0.0);
    bool any = false;
    for (int i = 0; i < n; ++i) if (n == 1 || r.coin(0.6)) { f.a[i] = (r.coin() ? 1 : -1) * r.logUni(0.2, 2.0) / std::max(1.0, std::fabs(y0[i])); any = true; }
    if (!any) { int i = r.integer(0, n - 1); f.a[i] = r.logUni(0.2, 2.0) / std::max(1.0, std::fabs(y0[i])); }
    LD s = 0; for (int i = 0; i < n; ++i) s += (LD)f.a[i] * y0[i];
    f.b = (double)((LD)r.sym(2.0) - s);       // argument is O(1) at y0
    if (kind == 0 && r.coin(0.15)) f.b = (double)(-s);   // s(y0) ~ 0
    return f;
}
static Fn genFn(vh::Rng& r, const std::vector<double>& y0, int fcls) {
    Fn F; F.c0 = r.coin(0.3) ? 0.0 : r.sym(r.logUni(1e-2, 1e2));
    const int nt = r.integer(1, 4);
    const double amp = r.logUni(1e-2, 1e2);
    for (int t = 0; t < nt; ++t) {
        Term T; T.c = r.sym(amp); if (T.c == 0) T.c = amp;
        switch (fcls) {
        case 0: T.f.push_back(genFactor(r, y0, 0, 1)); break;
        case 1: if (r.coin()) T.f.push_back(genFactor(r, y0, 0, r.integer(1, 2))); else { T.f.push_back(genFactor(r, y0, 0, 1)); T.f.push_back(genFactor(r, y0, 0, 1)); } break;
        case 2: T.f.push_back(genFactor(r, y0, 0, r.integer(1, 4))); if (r.coin(0.4)) T.f.push_back(genFactor(r, y0, 0, r.integer(1, 3))); break;
        default: T.f.push_back(genFactor(r, y0, r.integer(1, 3), 0)); if (r.coin(0.4)) { int k = r.integer(0, 3); T.f.push_back(genFactor(r, y0, k, k == 0 ? r.integer(1, 3) : 0)); } break;
        }
        F.terms.push_back(T);
    }
    return F;
}
static Json jfn(const Fn& F) {
    Json j = Json::obj(); j.set("c0", F.c0); Json ts = Json::arr();
    for (auto& t : F.terms) { Json jt = Json::obj(); jt.set("c", t.c); Json fs = Json::arr();
        for (auto& f : t.f) fs.push(Json::obj().set("kind", f.kind).set("p", f.p).set("a", vh::jvec(f.a)).set("b", f.b));
        jt.set("f", fs); ts.push(jt); }
    j.set("terms", ts); return j;
}

static double docStep(double y, double accReported, int order) {
    const double fac = order == 1 ? std::sqrt(accReported) : std::pow(accReported, 1.0 / 3.0);
    volatile double t = y + fac * std::max(std::fabs(y), 0.1);
    return t - y;
}

struct Judge {
    vh::Ctx& c; const Model& M; std::vector<double> y0; double accReported; std::string cell, fcls;

    // est(j,i) estimated dF_j/dy_i by method `order`
    void errors(const std::string& entry, int order, const std::function<double(int, int)>& est) {
        for (int i = 0; i < M.ny; ++i) {
            const double h = docStep(y0[i], accReported, order);
            std::vector<double> yp = y0, ym = y0; yp[i] = y0[i] + h; ym[i] = y0[i] - h;
            for (int j = 0; j < M.nf; ++j) {
                const LD tru = evalDF(M.F[j], y0, i);
                LD trunc, noise;
                if (order == 1) { trunc = (LD)h / 2 * supDeriv(M.F[j], y0, i, 2, 0, h); noise = (M.evalErr(j, yp) + M.evalErr(j, y0)) / h; }
                else { trunc = (LD)h * h / 6 * supDeriv(M.F[j], y0, i, 3, -(LD)h, h); noise = (M.evalErr(j, yp) + M.evalErr(j, ym)) / (2 * (LD)h); }
                const double e = est(j, i);
                // the evaluation points y0[i]+-h are themselves rounded to double (<= U*(|y0|+h) each); that moves F by up to
                // sup|dF/dy_i| over the stencil, which matters when dF/dy_i(y0) ~ 0 but is not ~ 0 at y0+-h (false alarm 14)
                const LD absc = supDeriv(M.F[j], y0, i, 1, order == 1 ? 0 : -(LD)h, h) * 2 * U * (std::fabs(y0[i]) + (LD)h) / (LD)h;
                const double tol = (double)(1.02L * (trunc + noise) + absc + 8 * U * fabsl((LD)e) + fabsl(tru) * 4 * U * std::fabs(y0[i]) / h) + 1e-300;
                const double resid = (double)fabsl((LD)e - tru);
                const std::string tc = trunc == 0 ? "exact-to-rounding" : "truncation-bound";
                c.check("err:" + entry + ":" + (order == 1 ? "forward" : "central") + ":" + fcls + ":" + tc, resid, tol, [&] {
                    return Json::obj().set("y0", vh::jvec(y0)).set("i", i).set("j", j).set("estimate", e).set("true", (double)tru).set("h", h)
                        .set("truncation_bound", (double)trunc).set("noise_bound", (double)noise).set("acc", M.acc).set("acc_reported", accReported).set("F", jfn(M.F[j])); });
            }
        }
    }
    // the evaluation points logged during one differentiation
    void steps(const std::string& entry, int order, bool slow) {
        const auto& L = M.log;
        size_t expect = (size_t)M.ny * (order == 1 ? 1 : 2) + (slow ? 1 : 0);
        c.require("step:" + entry + ":" + (order == 1 ? "forward" : "central") + ":number-of-evaluations", L.size() == expect, [&] {
            return Json::obj().set("logged", (long)L.size()).set("expected", (long)expect).set("ny", M.ny); });
        size_t k = 0;
        if (slow) {
            if (L.empty()) return;
            c.require("step:" + entry + ":unperturbed-call-at-y0", L[0] == y0, [&] { return Json::obj().set("y0", vh::jvec(y0)).set("called", vh::jvec(L[0])); });
            k = 1;
        }
        for (; k < L.size(); ++k) {
            int diffIdx = -1, ndiff = 0;
            if ((int)L[k].size() != M.ny) { c.viol("step:" + entry + ":argument-size", Json::obj().set("size", (long)L[k].size())); continue; }
            for (int i = 0; i < M.ny; ++i) if (L[k][i] != y0[i]) { diffIdx = i; ++ndiff; }
            if (ndiff != 1) { c.viol("step:" + entry + ":not-a-single-coordinate-perturbation", Json::obj().set("y0", vh::jvec(y0)).set("called", vh::jvec(L[k])).set("ndiff", ndiff)); continue; }
            const double h = docStep(y0[diffIdx], accReported, order);
            const double got = std::fabs(L[k][diffIdx] - y0[diffIdx]);
            if (order == 1 && L[k][diffIdx] < y0[diffIdx]) { c.viol("step:" + entry + ":forward-difference-evaluated-behind-y0", Json::obj().set("y0", y0[diffIdx]).set("called", L[k][diffIdx])); continue; }
            c.check("step:" + entry + ":" + (order == 1 ? "forward" : "central") + ":documented-step", std::fabs(got - h), 1e-9 * h + 4 * U * std::fabs(y0[diffIdx]), [&] {
                return Json::obj().set("y0_i", y0[diffIdx]).set("called_i", L[k][diffIdx]).set("documented_h", h).set("used_h", got).set("acc_reported", accReported); });
        }
    }
};

static int g_threw = 0;
template <class F> static bool guarded(vh::Ctx& c, const std::string& what, F f) {
    try { f(); return true; }
    catch (const std::exception& e) {
        ++g_threw;
        // stable short class of the message: text after the "file:line:" prefix up to the first comma
        std::string m = vh::normMsg(e.what());
        size_t p = m.find("#:"); if (p != std::string::npos) m = m.substr(p + 2);
        while (!m.empty() && m[0] == ' ') m.erase(0, 1);
        m = m.substr(0, std::min(m.find(','), (size_t)60));
        c.viol("exception:" + what + ":" + m, Json::obj().set("what", vh::firstLine(e.what(), 500)));
        return false;
    }
}

static void runCase(vh::Ctx& c, long idx, vh::Rng& r) {
    // deterministic cycling through the cells
    const int kind = (int)(idx % 3);                    // 0 scalar, 1 gradient, 2 Jacobian
    const int fcls = (int)((idx / 3) % 4);
    const int ycls = (int)((idx / 12) % 5);
    static const double ACC[5] = {0, 1e-12, 1e-8, 1e-5, 1e-3};
    const int acls = (int)((idx / 60) % 5);
    Model M;
    M.acc = ACC[acls];
    M.ny = kind == 0 ? 1 : r.integer(1, 20);
    M.nf = kind == 2 ? r.integer(1, 10) : 1;
    const int shapeSel = (int)((idx / 7) % 4);                 // stride co-prime with the cell cycle
    if (kind == 2 && shapeSel == 1) M.nf = 1;                  // Jacobian function used as a gradient (1xn)
    if (kind != 0 && shapeSel == 2) M.ny = 1;                  // 1-parameter gradient / Jacobian functions
    if (kind == 2 && shapeSel == 3 && idx % 2) { M.nf = 1; M.ny = 1; }   // 1x1 Jacobian function
    std::vector<double> y0(M.ny);
    for (int i = 0; i < M.ny; ++i) {
        int cls = ycls == 4 ? r.integer(0, 3) : ycls;
        switch (cls) {
        case 0: y0[i] = (M.ny > 1 && r.coin(0.3)) ? r.sym(1.0) : 0.0; break;
        case 1: y0[i] = r.sym(1.0) * r.logUni(1e-8, 1e-4); break;
        case 2: y0[i] = r.sym(3.0); break;
        default: y0[i] = (r.coin() ? 1 : -1) * r.logUni(1e5, 1e7); break;
        }
    }
    if (ycls == 0) y0[r.integer(0, M.ny - 1)] = 0.0;
    for (int j = 0; j < M.nf; ++j) M.F.push_back(genFn(r, y0, fcls));
    // how the accuracy is reported
    const bool viaSetter = r.coin(0.4);
    const double accArg = M.acc > 0 ? M.acc : -1;
    const double accReported = M.acc > 0 ? M.acc : (double)SignificantReal;
    const std::string accName = M.acc > 0 ? ("acc1e" + std::to_string((int)std::lround(std::log10(M.acc)))) : "acc-default";
    const char* KN[3] = {"ScalarFunction", "GradientFunction", "JacobianFunction"};
    const std::string shape = kind == 0 ? "1x1" : (kind == 1 ? (M.ny == 1 ? "1x1" : "1xn") : (M.nf == 1 ? (M.ny == 1 ? "1x1" : "1xn") : (M.ny == 1 ? "mx1" : "mxn")));
    Judge J{c, M, y0, accReported, "", FCLS[fcls]};
    Vector Y0(M.ny); for (int i = 0; i < M.ny; ++i) Y0[i] = y0[i];

    std::unique_ptr<MyScalar> fs; std::unique_ptr<MyGrad> fg; std::unique_ptr<MyJac> fj;
    Differentiator::Function* fn = nullptr;
    if (kind == 0) { fs.reset(new MyScalar(M, viaSetter ? -1 : accArg)); fn = fs.get(); }
    else if (kind == 1) { fg.reset(new MyGrad(M, viaSetter ? -1 : accArg)); fn = fg.get(); }
    else { fj.reset(new MyJac(M, viaSetter ? -1 : accArg)); fn = fj.get(); }
    if (viaSetter && M.acc > 0) fn->setEstimatedAccuracy(M.acc);
    c.require("consist:Function:reported-accuracy-and-shape", fn->getEstimatedAccuracy() == accReported && fn->getNumFunctions() == M.nf && fn->getNumParameters() == M.ny,
              [&] { return Json::obj().set("got", fn->getEstimatedAccuracy()).set("expected", accReported); });

    for (int order = 1; order <= 2; ++order) {
        const Differentiator::Method meth = order == 1 ? Differentiator::ForwardDifference : Differentiator::CentralDifference;
        const std::string mname = order == 1 ? "forward" : "central";
        const std::string cell = std::string(KN[kind]) + ":" + shape + ":" + mname + ":" + FCLS[fcls] + ":" + YCLS[ycls] + ":" + accName;
        c.setPhase("differentiate " + cell);
        const int threwBefore = g_threw;
        // three ways of selecting the method: explicit argument, constructor default, setDefaultMethod
        const int sel = (int)((idx + order) % 3);
        Differentiator D(*fn, sel == 1 ? meth : Differentiator::UnspecifiedMethod);
        if (sel == 2) D.setDefaultMethod(meth);
        const Differentiator::Method callM = sel == 0 ? meth : Differentiator::UnspecifiedMethod;
        if (sel != 0) c.require("consist:Differentiator:default-method", D.getDefaultMethod() == meth, nullptr);
        else c.require("consist:Differentiator:default-default-is-forward", D.getDefaultMethod() == Differentiator::ForwardDifference, nullptr);

        // unperturbed value (what a caller of the fast entry points has at hand)
        M.log.clear();
        Vector FY0(M.nf); { std::vector<double> fy(M.nf); for (int j = 0; j < M.nf; ++j) FY0[j] = M.noisy(j, y0); }

        if (kind == 0) {
            Real d1 = NaN, d2 = NaN;
            M.log.clear();
            if (!guarded(c, "ScalarFunction:calcDerivative", [&] { D.calcDerivative(y0[0], FY0[0], d1, callM); })) continue;
            J.steps("ScalarFunction:calcDerivative", order, false);
            J.errors("ScalarFunction:calcDerivative", order, [&](int, int) { return d1; });
            M.log.clear();
            if (guarded(c, "ScalarFunction:calcDerivative-slow", [&] { d2 = D.calcDerivative(y0[0], callM); })) {
                J.steps("ScalarFunction:calcDerivative-slow", order, true);
                c.require("consist:ScalarFunction:fast-vs-slow", d1 == d2, [&] { return Json::obj().set("fast", d1).set("slow", d2).set("y0", y0[0]); });
            }
            // a scalar function may also be differentiated through the gradient and Jacobian entry points
            Vector g; Matrix Jm;
            M.log.clear();
            if (guarded(c, "ScalarFunction:calcGradient", [&] { D.calcGradient(Y0, FY0[0], g, callM); }))
                c.require("consist:ScalarFunction:calcGradient-vs-calcDerivative", g.size() == 1 && g[0] == d1, [&] { return Json::obj().set("grad", g.size() ? g[0] : NaN).set("deriv", d1); });
            if (guarded(c, "ScalarFunction:calcJacobian", [&] { D.calcJacobian(Y0, FY0, Jm, callM); }))
                c.require("consist:ScalarFunction:calcJacobian-vs-calcDerivative", Jm.nrow() == 1 && Jm.ncol() == 1 && Jm(0, 0) == d1, [&] { return Json::obj().set("deriv", d1); });
            if (guarded(c, "ScalarFunction:calcJacobian-slow", [&] { Jm = D.calcJacobian(Y0, callM); }))
                c.require("consist:ScalarFunction:calcJacobian-slow-vs-calcDerivative", Jm.nrow() == 1 && Jm.ncol() == 1 && Jm(0, 0) == d1, [&] { return Json::obj().set("deriv", d1); });
            if (guarded(c, "ScalarFunction:calcGradient-slow", [&] { g = D.calcGradient(Y0, callM); }))
                c.require("consist:ScalarFunction:calcGradient-slow-vs-calcDerivative", g.size() == 1 && g[0] == d1, [&] { return Json::obj().set("deriv", d1); });
        } else if (kind == 1) {
            Vector g, g2; Matrix Jm;
            M.log.clear();
            if (!guarded(c, "GradientFunction:calcGradient", [&] { D.calcGradient(Y0, FY0[0], g, callM); })) continue;
            if (g.size() != M.ny) { c.viol("consist:GradientFunction:gradient-size", Json::obj().set("size", g.size()).set("ny", M.ny)); continue; }
            J.steps("GradientFunction:calcGradient", order, false);
            J.errors("GradientFunction:calcGradient", order, [&](int, int i) { return g[i]; });
            M.log.clear();
            if (guarded(c, "GradientFunction:calcGradient-slow", [&] { g2 = D.calcGradient(Y0, callM); })) {
                J.steps("GradientFunction:calcGradient-slow", order, true);
                bool same = g2.size() == M.ny; for (int i = 0; same && i < M.ny; ++i) same = g2[i] == g[i];
                c.require("consist:GradientFunction:fast-vs-slow", same, [&] { return Json::obj().set("y0", vh::jvec(y0)); });
            }
            if (guarded(c, "GradientFunction:calcJacobian", [&] { Jm.resize(1, M.ny); D.calcJacobian(Y0, FY0, Jm, callM); })) {
                bool same = Jm.nrow() == 1 && Jm.ncol() == M.ny; for (int i = 0; same && i < M.ny; ++i) same = Jm(0, i) == g[i];
                c.require("consist:GradientFunction:calcJacobian-vs-calcGradient", same, [&] { return Json::obj().set("y0", vh::jvec(y0)).set("nrow", Jm.nrow()).set("ncol", Jm.ncol()); });
            }
            if (guarded(c, "GradientFunction:calcJacobian-slow", [&] { Jm = D.calcJacobian(Y0, callM); })) {
                bool same = Jm.nrow() == 1 && Jm.ncol() == M.ny; for (int i = 0; same && i < M.ny; ++i) same = Jm(0, i) == g[i];
                c.require("consist:GradientFunction:calcJacobian-slow-vs-calcGradient", same, [&] { return Json::obj().set("y0", vh::jvec(y0)); });
            }
            if (M.ny == 1) {
                Real d = NaN;      // sentinel: a result that is never stored stays NaN
                if (guarded(c, "GradientFunction:calcDerivative", [&] { D.calcDerivative(y0[0], FY0[0], d, callM); })) {
                    if (d != d) c.viol("unset-result:GradientFunction(1 parameter):calcDerivative(y0,fy0,dfdy)", Json::obj().set("y0", y0[0]).set("dfdy_after_call", d).set("calcGradient", g[0]));
                    else c.require("consist:GradientFunction:calcDerivative-vs-calcGradient", d == g[0], [&] { return Json::obj().set("deriv", d).set("grad", g[0]); });
                }
                if (guarded(c, "GradientFunction:calcDerivative-slow", [&] { d = D.calcDerivative(y0[0], callM); }))
                    c.require("consist:GradientFunction:calcDerivative-slow-vs-calcGradient", d == g[0], [&] { return Json::obj().set("deriv", d).set("grad", g[0]); });
            }
        } else {
            Matrix Jm, J2;
            M.log.clear();
            if (!guarded(c, "JacobianFunction:calcJacobian", [&] { D.calcJacobian(Y0, FY0, Jm, callM); })) continue;
            if (Jm.nrow() != M.nf || Jm.ncol() != M.ny) { c.viol("consist:JacobianFunction:jacobian-shape", Json::obj().set("nrow", Jm.nrow()).set("ncol", Jm.ncol()).set("nf", M.nf).set("ny", M.ny)); continue; }
            J.steps("JacobianFunction:calcJacobian", order, false);
            J.errors("JacobianFunction:calcJacobian", order, [&](int j, int i) { return Jm(j, i); });
            M.log.clear();
            if (guarded(c, "JacobianFunction:calcJacobian-slow", [&] { J2 = D.calcJacobian(Y0, callM); })) {
                J.steps("JacobianFunction:calcJacobian-slow", order, true);
                bool same = J2.nrow() == M.nf && J2.ncol() == M.ny;
                for (int j = 0; same && j < M.nf; ++j) for (int i = 0; same && i < M.ny; ++i) same = J2(j, i) == Jm(j, i);
                c.require("consist:JacobianFunction:fast-vs-slow", same, [&] { return Json::obj().set("y0", vh::jvec(y0)); });
            }
            if (M.nf == 1) {
                Vector g;
                const std::string sh = M.ny == 1 ? "1x1" : "1xn";
                if (guarded(c, "JacobianFunction:" + sh + ":calcGradient", [&] { D.calcGradient(Y0, FY0[0], g, callM); })) {
                    bool same = g.size() == M.ny; for (int i = 0; same && i < M.ny; ++i) same = g[i] == Jm(0, i);
                    c.require("consist:JacobianFunction:" + sh + ":calcGradient-vs-calcJacobian", same, [&] { return Json::obj().set("y0", vh::jvec(y0)).set("gsize", g.size()); });
                }
                if (guarded(c, "JacobianFunction:" + sh + ":calcGradient-slow", [&] { g = D.calcGradient(Y0, callM); })) {
                    bool same = g.size() == M.ny; for (int i = 0; same && i < M.ny; ++i) same = g[i] == Jm(0, i);
                    c.require("consist:JacobianFunction:" + sh + ":calcGradient-slow-vs-calcJacobian", same, [&] { return Json::obj().set("y0", vh::jvec(y0)).set("gsize", g.size()); });
                }
                if (M.ny == 1) {
                    Real d = NaN;      // sentinel
                    if (guarded(c, "JacobianFunction:calcDerivative", [&] { D.calcDerivative(y0[0], FY0[0], d, callM); })) {
                        if (d != d) c.viol("unset-result:JacobianFunction(1x1):calcDerivative(y0,fy0,dfdy)", Json::obj().set("y0", y0[0]).set("dfdy_after_call", d).set("calcJacobian", Jm(0, 0)));
                        else c.require("consist:JacobianFunction:calcDerivative-vs-calcJacobian", d == Jm(0, 0), [&] { return Json::obj().set("deriv", d).set("jac", Jm(0, 0)); });
                    }
                    if (guarded(c, "JacobianFunction:calcDerivative-slow", [&] { d = D.calcDerivative(y0[0], callM); }))
                        c.require("consist:JacobianFunction:calcDerivative-slow-vs-calcJacobian", d == Jm(0, 0), [&] { return Json::obj().set("deriv", d).set("jac", Jm(0, 0)); });
                }
            }
        }
        if (threwBefore == g_threw)
          c.require("consist:Differentiator:no-failures-counted", D.getNumDifferentiationFailures() == 0 && fn->getNumFailures() == 0,
                  [&] { return Json::obj().set("diff_failures", D.getNumDifferentiationFailures()).set("fn_failures", fn->getNumFailures()); });
        c.cover(cell);
    }
    if (c.wantSample() && idx % 7 == 0)
        c.sample(Json::obj().set("kind", KN[kind]).set("ny", M.ny).set("nf", M.nf).set("class", FCLS[fcls]).set("y", YCLS[ycls]).set("acc", M.acc).set("y0", vh::jvec(y0)).set("F0", jfn(M.F[0])));
}

int main(int argc, char** argv) {
    vh::Args args = vh::parseArgs(argc, argv);
    vh::Ctx c(args);
    if (args.prop != "C40") { fprintf(stderr, "mon_diff handles C40 only\n"); return 2; }
    return vh::runCases(c, [&](long i, vh::Rng& r) { runCase(c, i, r); });
}
