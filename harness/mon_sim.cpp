// mon_sim — simulation-level monitors (DESIGN §5):
//   C11  simulations conserve energy / momentum when physics says so; dissipation never
//        increases energy; reported dissipated energy accounts for the loss
//   C21  every state an integrator returns for a constrained model is on the manifold
//        (weighted perr / quaternion / pverr norms <= constraint tolerance in use) and
//        honours prescribed motion
//
// One case = one generated model (model.h tree + force elements + constraints + Motions,
// all described by a Spec that is a pure function of <seed, case index>) simulated by one
// integrator through the real TimeStepper (reportAllSignificantStates) with an online
// monitor on every state returned by Integrator::getState().
//
// Legal-client preconditions (a case or a part of a run outside them is skipped / cut, with
// a counted reason, never judged):
//  * valid mass properties (point clouds), initial state away from coordinate singularities
//    (model.h guards); a run is judged only up to the first returned state that comes close
//    to a singularity of a parametrisation or of a force element (|cos q1| < 0.1 for
//    body-fixed-XYZ angles incl. Euler-mode quaternion mobilizers and LinearBushing frames,
//    two-point element end points closer than 0.05, Ellipsoid/Screw etc. have none);
//  * constraint sets are assembled at the initial configuration by construction
//    (parameters chosen so that perr = 0 there) and must have full row rank on the free
//    (non-prescribed) mobilities at that configuration (cholesky pivot guard on G G^T);
//    the initial velocities are random and are projected by Integrator::initialize();
//  * C11: only force elements that document a potential energy (or none and dissipate)
//    are used; MobilityLinearSpring/Stop only on coordinates with qdot == u (documented
//    limitation); constraints are workless ones (time-independent holonomic, NoSlip1D,
//    homogeneous linear SpeedCoupler); no Motions;
//  * C11(b): free-floating base (Free mobilizer), every force element / constraint acts
//    between two non-Ground bodies or on a non-base mobilizer, no gravity;
//  * integrator exceptions (StepFailed, InitializationFailed) are outcomes that are
//    counted, and so are stalls (10 consecutive "steps" advancing time by < 1e-7: CPodes
//    even continues with t + h == t); states returned before are still judged (C11: except those
//    in the last 20% of the simulated time before the failure / stall, i.e. the approach to
//    the point the integrator declared impassable);
//  * every run is bounded by counts of returned states and of internal steps (internal step
//    limit 500 per stepTo call; no wall clock anywhere).
//
// C11 judgement: drift / scale <= min(K acc^alpha, 5%) or else (two-sided) the drift of a rerun at
// acc/100 must have shrunk 3x; violations are attributed (reference integrator, leave-one-out).
// C21 judgement: norms recomputed from <t,q,u> on an invalidated copy vs getConstraintToleranceInUse().
// Findings on the unchanged tree (2026-09, reported to the lead; see checks.d/sim.json):
//   forced-step-size:AbstractIntegratorRep:{minstep,fixedstep,SemiExplicitEuler}  takeOneStep()/adjustStepSize() accept a
//       step that cannot be shrunk although attemptDAEStep() skipped the projection (errNorm > 2^p acc) or did not converge;
//   cpodes-internal-interpolant:CPodes{BDF,Adams}:{report,event-after,scheduled}  states interpolated by CPODES itself are
//       handed back as trajectory states without projection;
//   collapsing-step-size:CPodesAdams  Adams + any projection (quaternions suffice): step size collapses to 0, then StepFailed;
//   NoSlip1D breaks energy / momentum conservation (consequence of the C07 known finding) -> left out of C11 (--noslip 1).
// Debugging aids (never used by the registered runs): --trace 1, --integ k, --acc x, --dropF i, --dropC i, --direct 1, --noslip 1.
#include "model.h"
#include <array>
using namespace SimTK;
using namespace vh;

// ============================================================================ integrators
enum IK { IK_RK2, IK_RK3, IK_RKF, IK_RKM, IK_Verlet, IK_EE, IK_SEE2, IK_CPBDF, IK_CPAdams, IK_SEE, IK_Count };
static const char* ikName(int k) {
    static const char* n[] = {"RungeKutta2", "RungeKutta3", "RungeKuttaFeldberg", "RungeKuttaMerson", "Verlet", "ExplicitEuler",
                              "SemiExplicitEuler2", "CPodesBDF", "CPodesAdams", "SemiExplicitEuler"};
    return n[k];
}
// global-error exponent implied by local error control: global ~ acc^(p/pEst)
static double ikAlpha(int k) {
    switch (k) { case IK_RKF: case IK_RKM: return 0.8; case IK_Verlet: return 2.0 / 3.0; case IK_EE: case IK_SEE2: return 0.5; default: return 1.0; }
}
// tightest accuracy decade used (cost bound)
static int ikMaxDecade(int k, bool thorough) {
    int d;
    switch (k) { case IK_RK2: d = 5; break; case IK_RK3: d = 6; break; case IK_RKF: case IK_RKM: d = 8; break;
                 case IK_Verlet: case IK_EE: case IK_SEE2: d = 4; break; default: d = 7; }
    if (thorough && (k == IK_Verlet || k == IK_RK2 || k == IK_RK3)) d += 1;
    return d;
}
static bool ikIsCPodes(int k) { return k == IK_CPBDF || k == IK_CPAdams; }
static std::shared_ptr<Integrator> makeInteg(int kind, const System& sys, double seeStep) {
    switch (kind) {
    case IK_RK2: return std::shared_ptr<Integrator>(new RungeKutta2Integrator(sys));
    case IK_RK3: return std::shared_ptr<Integrator>(new RungeKutta3Integrator(sys));
    case IK_RKF: return std::shared_ptr<Integrator>(new RungeKuttaFeldbergIntegrator(sys));
    case IK_RKM: return std::shared_ptr<Integrator>(new RungeKuttaMersonIntegrator(sys));
    case IK_Verlet: return std::shared_ptr<Integrator>(new VerletIntegrator(sys));
    case IK_EE: return std::shared_ptr<Integrator>(new ExplicitEulerIntegrator(sys));
    case IK_SEE2: return std::shared_ptr<Integrator>(new SemiExplicitEuler2Integrator(sys));
    case IK_CPBDF: return std::shared_ptr<Integrator>(new CPodesIntegrator(sys, CPodes::BDF));
    case IK_CPAdams: return std::shared_ptr<Integrator>(new CPodesIntegrator(sys, CPodes::Adams));
    case IK_SEE: return std::shared_ptr<Integrator>(new SemiExplicitEulerIntegrator(sys, seeStep));
    }
    throw std::logic_error("bad integrator kind");
}

// ============================================================================ model spec
static bool simpleMob(int t) { return t == MT_Pin || t == MT_Slider || t == MT_Universal || t == MT_Cylinder || t == MT_Planar || t == MT_Translation || t == MT_Screw; }
static int simpleNQ(int t) { switch (t) { case MT_Pin: case MT_Slider: case MT_Screw: return 1; case MT_Universal: case MT_Cylinder: return 2; case MT_Planar: case MT_Translation: return 3; } return 0; }

enum FKind { F_UniformGravity, F_Gravity, F_TPSpring, F_MobSpring, F_Bushing, F_MobStop, F_TPDamper, F_MobDamper, F_GlobalDamper, F_Count };
static const char* fName(int k) {
    static const char* n[] = {"UniformGravity", "Gravity", "TwoPointLinearSpring", "MobilityLinearSpring", "LinearBushing", "MobilityLinearStop",
                              "TwoPointLinearDamper", "MobilityLinearDamper", "GlobalDamper"};
    return n[k];
}
struct FSpec {
    int kind = 0, a = -1, b = -1, coord = 0;
    Vec3 s1 = Vec3(0), s2 = Vec3(0), g = Vec3(0);
    double k = 0, c = 0, x0 = 0, qlo = 0, qhi = 0;
    Transform XF, XM; Vec6 k6 = Vec6(0), c6 = Vec6(0);
    bool dissipates() const {
        if (kind == F_TPDamper || kind == F_MobDamper || kind == F_GlobalDamper) return true;
        if (kind == F_Bushing) return c6.norm() > 0;
        if (kind == F_MobStop) return c > 0;
        return false;
    }
    std::string label() const { std::string s = fName(kind); if ((kind == F_Bushing || kind == F_MobStop) && dissipates()) s += "+c"; return s; }
};

enum CKind { C_Rod, C_Ball, C_Weld, C_ConstantAngle, C_ConstantOrientation, C_PointInPlane, C_PointOnLine, C_NoSlip1D, C_ConstantCoordinate,
             C_CoordinateCoupler, C_SpeedCoupler, C_NWorkless, C_ConstantSpeed = C_NWorkless, C_ConstantAcceleration, C_PrescribedMotion, C_Count };
static const char* cName(int k) {
    static const char* n[] = {"Rod", "Ball", "Weld", "ConstantAngle", "ConstantOrientation", "PointInPlane", "PointOnLine", "NoSlip1D", "ConstantCoordinate",
                              "CoordinateCoupler", "SpeedCoupler", "ConstantSpeed", "ConstantAcceleration", "PrescribedMotion"};
    return n[k];
}
static int cEqs(int k) { switch (k) { case C_Ball: case C_ConstantOrientation: return 3; case C_Weld: return 6; case C_PointOnLine: return 2; default: return 1; } }
struct CSpec {
    int kind = 0, a = -1, b = -1, cbody = -1, coord = 0, coord2 = 0;
    Vec3 p1 = Vec3(0), p2 = Vec3(0); UnitVec3 n1, n2; Transform X1, X2;
    double d = 0, a1 = 0, a2 = 0, c0 = 0;
};

enum MKind { M_SinPos, M_SinVel, M_SinAcc, M_Steady, M_PolyPos, M_PolyVel, M_Count };
static const char* mName(int k) { static const char* n[] = {"Sinusoid/Position", "Sinusoid/Velocity", "Sinusoid/Acceleration", "Steady", "Custom/Position", "Custom/Velocity"}; return n[k]; }
struct MSpec { int kind = 0, body = 0; double amp = 0, rate = 0, phase = 0, c0 = 0, c1 = 0, c2 = 0; };

// custom Motion: m(t) = c0 + c1 t + c2 t^2 at position or velocity level
class PolyMotion : public Motion::Custom::Implementation {
public:
    PolyMotion(bool pos, double c0, double c1, double c2) : pos(pos), c0(c0), c1(c1), c2(c2) {}
    Implementation* clone() const override { return new PolyMotion(*this); }
    Motion::Level getLevel(const State&) const override { return pos ? Motion::Position : Motion::Velocity; }
    void calcPrescribedPosition(const State& s, int nq, Real* q) const override { double t = s.getTime(); for (int i = 0; i < nq; ++i) q[i] = c0 + c1 * t + c2 * t * t; }
    void calcPrescribedPositionDot(const State& s, int nq, Real* qd) const override { double t = s.getTime(); for (int i = 0; i < nq; ++i) qd[i] = c1 + 2 * c2 * t; }
    void calcPrescribedPositionDotDot(const State&, int nq, Real* qdd) const override { for (int i = 0; i < nq; ++i) qdd[i] = 2 * c2; }
    void calcPrescribedVelocity(const State& s, int nu, Real* u) const override { double t = s.getTime(); for (int i = 0; i < nu; ++i) u[i] = c0 + c1 * t + c2 * t * t; }
    void calcPrescribedVelocityDot(const State& s, int nu, Real* ud) const override { double t = s.getTime(); for (int i = 0; i < nu; ++i) ud[i] = c1 + 2 * c2 * t; }
private:
    bool pos; double c0, c1, c2;
};

// event handlers that change nothing: they only make the integrator return
// ReachedEventTrigger (interpolated "before" state) / ReachedScheduledEvent states
class NullTimeTrigger : public TriggeredEventHandler {
public:
    NullTimeTrigger(double w, double ph) : TriggeredEventHandler(Stage::Time), w(w), ph(ph) {}
    Real getValue(const State& s) const override { return std::sin(w * s.getTime() + ph); }
    void handleEvent(State&, Real, bool&) const override {}
private: double w, ph;
};
class NullCoordTrigger : public TriggeredEventHandler {
public:
    NullCoordTrigger(int qix, double q0) : TriggeredEventHandler(Stage::Position), qix(qix), q0(q0) {}
    Real getValue(const State& s) const override { return s.getQ()[qix] - q0; }
    void handleEvent(State&, Real, bool&) const override {}
private: int qix; double q0;
};
// A reporter that does nothing: TimeStepper::stepTo(time) passes `time` to the integrator as report time *and* as
// scheduled-event time, so the integrator never steps past it; only reports scheduled by the System itself let the
// integrator advance beyond the report time and hand back *interpolated* report states.
class NullReporter : public PeriodicEventReporter {
public:
    explicit NullReporter(double dt) : PeriodicEventReporter(dt) {}
    void handleEvent(const State&) const override {}
};
class NullPeriodic : public PeriodicEventHandler {
public:
    explicit NullPeriodic(double dt) : PeriodicEventHandler(dt) {}
    void handleEvent(State&, Real, bool&) const override {}
};

struct Spec {
    ModelDesc desc;
    std::vector<FSpec> forces;
    std::vector<CSpec> cons;
    std::vector<MSpec> motions;
    Vector qref, u0;
    double reportDt = 0;        // interval of the System-scheduled (null) periodic reporter, 0 = none
    int eventKind = 0;          // 0 none, 1 time trigger, 2 coordinate trigger, 3 periodic
    double evW = 0, evPh = 0, evDt = 0; int evQ = 0; double evQ0 = 0;
    std::string forceSet() const { std::vector<std::string> v; for (auto& f : forces) v.push_back(f.label()); std::sort(v.begin(), v.end()); std::string s; for (auto& x : v) { if (!s.empty()) s += '+'; s += x; } return s.empty() ? "none" : s; }
    std::string consSet() const { std::vector<std::string> v; for (auto& f : cons) v.push_back(cName(f.kind)); std::sort(v.begin(), v.end()); std::string s; for (auto& x : v) { if (!s.empty()) s += '+'; s += x; } return s.empty() ? "none" : s; }
    std::string motionSet() const { std::vector<std::string> v; for (auto& f : motions) v.push_back(mName(f.kind)); std::sort(v.begin(), v.end()); std::string s; for (auto& x : v) { if (!s.empty()) s += '+'; s += x; } return s.empty() ? "none" : s; }
    Json toJson() const {
        return Json::obj().set("tree", desc.shortStr()).set("forces", forceSet()).set("constraints", consSet()).set("motions", motionSet()).set("event", eventKind);
    }
};

// A built model: vh::Model + handles needed by the monitors
struct Built {
    Model m;
    std::vector<Force::LinearBushing> bushings;
    struct TP { MobilizedBodyIndex a, b; Vec3 s1, s2; };
    std::vector<TP> twoPoints;
    MobilizedBody& B(int node) { return node < 0 ? (MobilizedBody&)m.matter.updGround() : m.bodies[node]; }

    void addForce(const FSpec& f) {
        switch (f.kind) {
        case F_UniformGravity: Force::UniformGravity(m.forces, m.matter, f.g); break;
        case F_Gravity: Force::Gravity(m.forces, m.matter, f.g); break;
        case F_TPSpring: Force::TwoPointLinearSpring(m.forces, B(f.a), f.s1, B(f.b), f.s2, f.k, f.x0); twoPoints.push_back({B(f.a).getMobilizedBodyIndex(), B(f.b).getMobilizedBodyIndex(), f.s1, f.s2}); break;
        case F_TPDamper: Force::TwoPointLinearDamper(m.forces, B(f.a), f.s1, B(f.b), f.s2, f.c); twoPoints.push_back({B(f.a).getMobilizedBodyIndex(), B(f.b).getMobilizedBodyIndex(), f.s1, f.s2}); break;
        case F_MobSpring: Force::MobilityLinearSpring(m.forces, B(f.a), MobilizerQIndex(f.coord), f.k, f.x0); break;
        case F_MobDamper: Force::MobilityLinearDamper(m.forces, B(f.a), MobilizerUIndex(f.coord), f.c); break;
        case F_MobStop: Force::MobilityLinearStop(m.forces, B(f.a), MobilizerQIndex(f.coord), f.k, f.c, f.qlo, f.qhi); break;
        case F_GlobalDamper: Force::GlobalDamper(m.forces, m.matter, f.c); break;
        case F_Bushing: bushings.push_back(Force::LinearBushing(m.forces, B(f.a), f.XF, B(f.b), f.XM, f.k6, f.c6)); break;
        default: throw std::logic_error("bad force kind");
        }
    }
    void addConstraint(const CSpec& c) {
        switch (c.kind) {
        case C_Rod: Constraint::Rod(B(c.a), c.p1, B(c.b), c.p2, c.d); break;
        case C_Ball: Constraint::Ball(B(c.a), c.p1, B(c.b), c.p2); break;
        case C_Weld: Constraint::Weld(B(c.a), c.X1, B(c.b), c.X2); break;
        case C_ConstantAngle: Constraint::ConstantAngle(B(c.a), c.n1, B(c.b), c.n2, c.d); break;
        case C_ConstantOrientation: Constraint::ConstantOrientation(B(c.a), c.X1.R(), B(c.b), c.X2.R()); break;
        case C_PointInPlane: Constraint::PointInPlane(B(c.a), c.n1, c.d, B(c.b), c.p2); break;
        case C_PointOnLine: Constraint::PointOnLine(B(c.a), c.n1, c.p1, B(c.b), c.p2); break;
        case C_NoSlip1D: Constraint::NoSlip1D(B(c.cbody), c.p1, c.n1, B(c.a), B(c.b)); break;
        case C_ConstantCoordinate: Constraint::ConstantCoordinate(B(c.a), MobilizerQIndex(c.coord), c.d); break;
        case C_ConstantSpeed: Constraint::ConstantSpeed(B(c.a), MobilizerUIndex(c.coord), c.d); break;
        case C_ConstantAcceleration: Constraint::ConstantAcceleration(B(c.a), MobilizerUIndex(c.coord), c.d); break;
        case C_CoordinateCoupler: {
            Vector co(3); co[0] = c.a1; co[1] = c.a2; co[2] = c.c0;
            std::vector<MobilizedBodyIndex> mb = {B(c.a).getMobilizedBodyIndex(), B(c.b).getMobilizedBodyIndex()};
            std::vector<MobilizerQIndex> qi = {MobilizerQIndex(c.coord), MobilizerQIndex(c.coord2)};
            Constraint::CoordinateCoupler(m.matter, new Function::Linear(co), mb, qi); break;
        }
        case C_SpeedCoupler: {
            Vector co(3); co[0] = c.a1; co[1] = c.a2; co[2] = 0;
            std::vector<MobilizedBodyIndex> mb = {B(c.a).getMobilizedBodyIndex(), B(c.b).getMobilizedBodyIndex()};
            std::vector<MobilizerUIndex> ui = {MobilizerUIndex(c.coord), MobilizerUIndex(c.coord2)};
            Constraint::SpeedCoupler(m.matter, new Function::Linear(co), mb, ui); break;
        }
        case C_PrescribedMotion: {
            Vector co(2); co[0] = c.a1; co[1] = c.c0;   // q = a1*t + c0
            Constraint::PrescribedMotion(m.matter, new Function::Linear(co), B(c.a).getMobilizedBodyIndex(), MobilizerQIndex(c.coord)); break;
        }
        default: throw std::logic_error("bad constraint kind");
        }
    }
    void addMotion(const MSpec& s) {
        MobilizedBody& mb = m.bodies[s.body];
        switch (s.kind) {
        case M_SinPos: Motion::Sinusoid(mb, Motion::Position, s.amp, s.rate, s.phase); break;
        case M_SinVel: Motion::Sinusoid(mb, Motion::Velocity, s.amp, s.rate, s.phase); break;
        case M_SinAcc: Motion::Sinusoid(mb, Motion::Acceleration, s.amp, s.rate, s.phase); break;
        case M_Steady: Motion::Steady(mb, s.amp); break;
        case M_PolyPos: Motion::Custom(mb, new PolyMotion(true, s.c0, s.c1, s.c2)); break;
        case M_PolyVel: Motion::Custom(mb, new PolyMotion(false, s.c0, s.c1, s.c2)); break;
        default: throw std::logic_error("bad motion kind");
        }
    }
    // dropF / dropC: index of one force element / constraint to leave out (attribution), -1 none
    void build(const Spec& sp, bool withForces, bool withCons, int dropF = -1, int dropC = -1) {
        m.build(sp.desc);
        for (auto& mo : sp.motions) addMotion(mo);
        if (withForces) for (size_t i = 0; i < sp.forces.size(); ++i) if ((int)i != dropF) addForce(sp.forces[i]);
        if (withCons) for (size_t i = 0; i < sp.cons.size(); ++i) if ((int)i != dropC) addConstraint(sp.cons[i]);
        if (sp.reportDt > 0) m.sys.addEventReporter(new NullReporter(sp.reportDt));
        if (sp.eventKind == 1) m.sys.addEventHandler(new NullTimeTrigger(sp.evW, sp.evPh));
        else if (sp.eventKind == 2) m.sys.addEventHandler(new NullCoordTrigger(sp.evQ, sp.evQ0));
        else if (sp.eventKind == 3) m.sys.addEventHandler(new NullPeriodic(sp.evDt));
    }
};

// ---------------------------------------------------------------------------- generators
static const std::vector<int>& simTypes() {
    static const std::vector<int> t = {MT_Pin, MT_Slider, MT_Screw, MT_Universal, MT_Cylinder, MT_Planar, MT_Gimbal, MT_Bushing, MT_Ball, MT_Free,
                                       MT_LineOrientation, MT_FreeLine, MT_Translation, MT_Ellipsoid, MT_SphericalCoords, MT_BendStretch};
    return t;
}
// tree with a free-floating base: node 0 = Free on Ground, every other body hangs on a body
static ModelDesc floatingDesc(Rng& r, long idx, int maxBodies) {
    ModelDesc d; d.euler = (idx / 2) % 3 == 1;
    const auto& types = simTypes();
    int nb = r.integer(1, maxBodies);
    for (int k = 0; k < nb; ++k) {
        NodeDesc n;
        if (k == 0) { n.type = MT_Free; n.reversed = (idx % 2 == 1); n.parent = -1; n.fF = r.integer(0, 2); n.fM = r.integer(0, 2); }
        else { n.type = (k == 1) ? types[(idx / 6) % types.size()] : types[r.next() % types.size()]; n.reversed = r.coin(0.3); n.parent = r.integer(0, k - 1); n.fF = r.integer(0, 2); n.fM = r.integer(0, 2); }
        n.sub = r.next(); n.comAtOrigin = r.coin(0.15);
        d.nodes.push_back(n);
    }
    return d;
}

struct RefCfg { std::vector<Transform> X; Vector q; std::vector<int> qStart, uStart, nq, nu; };   // X[node+1]
static const Transform& RX(const RefCfg& c, int node) { return c.X[node + 1]; }

// Build the tree (+ motions), draw a guarded configuration, apply prescribed q at t=0.
static bool makeRef(Ctx& c, Spec& sp, Rng& r, RefCfg& ref, double uScale) {
    Built b; b.build(sp, false, false);
    State s = b.m.init();
    randomQU(b.m, s, r, false, uScale);
    // keep simple coordinates moderate (springs / stops / couplers are centred on them)
    b.m.sys.realize(s, Stage::Time);
    b.m.sys.prescribeQ(s);
    b.m.sys.realize(s, Stage::Position);
    if (!sphericalOK(b.m, s)) { c.skip("spherical-singularity"); return false; }
    if (s.getNU() == 0) { c.skip("no-mobilities"); return false; }
    ref.q = s.getQ(); sp.qref = s.getQ(); sp.u0 = s.getU();
    ref.X.clear(); ref.X.push_back(Transform());
    ref.qStart.clear(); ref.uStart.clear(); ref.nq.clear(); ref.nu.clear();
    for (auto& mb : b.m.bodies) {
        ref.X.push_back(mb.getBodyTransform(s));
        ref.qStart.push_back(mb.getFirstQIndex(s)); ref.uStart.push_back(mb.getFirstUIndex(s)); ref.nq.push_back(mb.getNumQ(s)); ref.nu.push_back(mb.getNumU(s));
    }
    return true;
}

static bool hasMotion(const Spec& sp, int body) { for (auto& m : sp.motions) if (m.body == body) return true; return false; }
static std::vector<std::pair<int, int>> simpleCoords(const Spec& sp, int firstBody) {   // (body, coord) with qdot == u, no Motion
    std::vector<std::pair<int, int>> v;
    for (int k = firstBody; k < (int)sp.desc.nodes.size(); ++k) {
        if (!simpleMob(sp.desc.nodes[k].type) || hasMotion(sp, k)) continue;
        for (int i = 0; i < simpleNQ(sp.desc.nodes[k].type); ++i) v.push_back({k, i});
    }
    return v;
}
// pick two distinct bodies; lo = -1 allows Ground
static bool pickPair(Rng& r, int nb, int lo, int& a, int& b) {
    if (nb - lo < 2) return false;
    a = r.integer(lo, nb - 1); do { b = r.integer(lo, nb - 1); } while (b == a);
    return true;
}

// one force element of the given kind; internalOnly: no Ground, no base mobilizer
static bool genForce(Spec& sp, const RefCfg& ref, Rng& r, int kind, bool internalOnly, bool damped) {
    int nb = (int)sp.desc.nodes.size(); int lo = internalOnly ? 0 : -1;
    FSpec f; f.kind = kind;
    switch (kind) {
    case F_UniformGravity: case F_Gravity: {
        if (internalOnly) return false;
        f.g = r.uni(2, 10) * Vec3(randUnit(r)); break;
    }
    case F_TPSpring: case F_TPDamper: {
        if (!pickPair(r, nb, lo, f.a, f.b)) return false;
        for (int tries = 0;; ++tries) {
            f.s1 = randVec3(r, 0.7); f.s2 = randVec3(r, 0.7);
            double dist = (RX(ref, f.a) * f.s1 - RX(ref, f.b) * f.s2).norm();
            if (dist >= 0.4) { f.x0 = dist * r.uni(0.6, 1.4); break; }
            if (tries > 20) return false;
        }
        f.k = r.uni(5, 60); f.c = r.uni(0.5, 6); break;
    }
    case F_MobSpring: case F_MobStop: case F_MobDamper: {
        if (kind == F_MobDamper) {   // any mobility (u index)
            std::vector<std::pair<int, int>> cand;
            for (int k = internalOnly ? 1 : 0; k < nb; ++k) if (!hasMotion(sp, k)) for (int i = 0; i < ref.nu[k]; ++i) cand.push_back({k, i});
            if (cand.empty()) return false;
            auto pr = cand[r.next() % cand.size()]; f.a = pr.first; f.coord = pr.second; f.c = r.uni(0.3, 4); break;
        }
        auto cand = simpleCoords(sp, internalOnly ? 1 : 0);
        if (cand.empty()) return false;
        auto pr = cand[r.next() % cand.size()]; f.a = pr.first; f.coord = pr.second;
        double q = ref.q[ref.qStart[f.a] + f.coord];
        if (kind == F_MobSpring) { f.k = r.uni(5, 60); f.x0 = q + r.sym(0.5); }
        else { f.k = r.uni(50, 300); f.c = damped ? r.uni(0.1, 1.0) : 0.0; f.qlo = q - r.uni(0.15, 0.5); f.qhi = q + r.uni(0.15, 0.5); }
        break;
    }
    case F_GlobalDamper: if (internalOnly) return false; f.c = r.uni(0.2, 2); break;
    case F_Bushing: {
        if (!pickPair(r, nb, lo, f.a, f.b)) return false;
        f.XF = randFrame(r, 2);
        Transform off(Rotation(BodyRotationSequence, r.sym(0.3), XAxis, r.sym(0.3), YAxis, r.sym(0.3), ZAxis), randVec3(r, 0.25));
        f.XM = ~RX(ref, f.b) * RX(ref, f.a) * f.XF * off;
        for (int i = 0; i < 3; ++i) { f.k6[i] = r.uni(8, 40); f.k6[i + 3] = r.uni(15, 80); f.c6[i] = damped ? r.uni(0.3, 3) : 0.0; f.c6[i + 3] = damped ? r.uni(0.5, 5) : 0.0; }
        if (r.coin(0.2)) { int z = r.integer(0, 5); f.k6[z] = 0; }    // one compliant direction
        break;
    }
    default: return false;
    }
    sp.forces.push_back(f);
    return true;
}

// one constraint of the given kind assembled at the reference configuration
static int eqBudget(const Spec& sp, const RefCfg& ref) {   // constraint equations that still fit: leave >= 2 free mobilities
    int nuFree = 0; for (size_t k = 0; k < sp.desc.nodes.size(); ++k) if (!hasMotion(sp, (int)k)) nuFree += ref.nu[k];
    int used = 0; for (auto& c : sp.cons) used += cEqs(c.kind);
    return nuFree - 2 - used;
}
static bool genConstraint(Spec& sp, const RefCfg& ref, Rng& r, int kind, bool internalOnly) {
    int nb = (int)sp.desc.nodes.size(); int lo = internalOnly ? 0 : -1;
    if (cEqs(kind) > eqBudget(sp, ref)) { if (eqBudget(sp, ref) >= 1) kind = C_Rod; else return false; }
    CSpec c; c.kind = kind;
    auto coordCand = simpleCoords(sp, internalOnly ? 1 : 0);
    switch (kind) {
    case C_Rod: {
        if (!pickPair(r, nb, lo, c.a, c.b)) return false;
        for (int tries = 0;; ++tries) {
            c.p1 = randVec3(r, 0.7); c.p2 = randVec3(r, 0.7);
            c.d = (RX(ref, c.a) * c.p1 - RX(ref, c.b) * c.p2).norm();
            if (c.d >= 0.3) break;
            if (tries > 20) return false;
        }
        break;
    }
    case C_Ball: if (!pickPair(r, nb, lo, c.a, c.b)) return false; c.p1 = randVec3(r, 0.7); c.p2 = ~RX(ref, c.b) * (RX(ref, c.a) * c.p1); break;
    case C_Weld: if (!pickPair(r, nb, lo, c.a, c.b)) return false; c.X1 = randFrame(r, 2); c.X2 = ~RX(ref, c.b) * RX(ref, c.a) * c.X1; break;
    case C_ConstantOrientation: if (!pickPair(r, nb, lo, c.a, c.b)) return false; c.X1 = randFrame(r, 2); c.X2 = ~RX(ref, c.b) * RX(ref, c.a) * c.X1; break;
    case C_ConstantAngle: {
        if (!pickPair(r, nb, lo, c.a, c.b)) return false;
        for (int tries = 0;; ++tries) {
            c.n1 = randUnit(r); c.n2 = randUnit(r);
            double cs = dot(RX(ref, c.a).R() * Vec3(c.n1), RX(ref, c.b).R() * Vec3(c.n2));
            c.d = std::acos(std::max(-1.0, std::min(1.0, cs)));
            if (c.d >= 0.5 && c.d <= Pi - 0.5) break;
            if (tries > 20) return false;
        }
        break;
    }
    case C_PointInPlane: {
        if (!pickPair(r, nb, lo, c.a, c.b)) return false;
        c.n1 = randUnit(r); c.p2 = randVec3(r, 0.7);
        c.d = dot(Vec3(c.n1), ~RX(ref, c.a) * (RX(ref, c.b) * c.p2)); break;
    }
    case C_PointOnLine: {
        if (!pickPair(r, nb, lo, c.a, c.b)) return false;
        c.n1 = randUnit(r); c.p2 = randVec3(r, 0.7);
        c.p1 = ~RX(ref, c.a) * (RX(ref, c.b) * c.p2) + r.sym(0.5) * Vec3(c.n1); break;
    }
    case C_NoSlip1D: {
        if (!pickPair(r, nb, lo, c.a, c.b)) return false;
        c.cbody = r.coin(0.5) ? c.a : c.b; if (!internalOnly && r.coin(0.3)) c.cbody = -1;
        c.p1 = randVec3(r, 0.7); c.n1 = randUnit(r); break;
    }
    case C_ConstantCoordinate: case C_ConstantSpeed: case C_ConstantAcceleration: case C_PrescribedMotion: {
        if (coordCand.empty()) return false;
        auto pr = coordCand[r.next() % coordCand.size()]; c.a = pr.first; c.coord = pr.second;
        double q = ref.q[ref.qStart[c.a] + c.coord];
        if (kind == C_ConstantCoordinate) c.d = q;
        else if (kind == C_ConstantSpeed) c.d = r.sym(1.5);
        else if (kind == C_ConstantAcceleration) c.d = r.sym(2.0);
        else { c.a1 = r.sym(1.0); c.c0 = q; }
        break;
    }
    case C_CoordinateCoupler: case C_SpeedCoupler: {
        if (coordCand.size() < 2) return false;
        size_t i = r.next() % coordCand.size(), j; do { j = r.next() % coordCand.size(); } while (j == i);
        c.a = coordCand[i].first; c.coord = coordCand[i].second; c.b = coordCand[j].first; c.coord2 = coordCand[j].second;
        c.a1 = (r.coin() ? 1 : -1) * r.uni(0.5, 2); c.a2 = (r.coin() ? 1 : -1) * r.uni(0.5, 2);
        c.c0 = -(c.a1 * ref.q[ref.qStart[c.a] + c.coord] + c.a2 * ref.q[ref.qStart[c.b] + c.coord2]);
        break;
    }
    default: return false;
    }
    sp.cons.push_back(c);
    return true;
}

static bool genMotion(Spec& sp, Rng& r, int kind, int firstBody) {
    std::vector<int> cand;
    for (int k = firstBody; k < (int)sp.desc.nodes.size(); ++k) if (simpleMob(sp.desc.nodes[k].type) && !hasMotion(sp, k)) cand.push_back(k);
    if (cand.empty()) return false;
    MSpec m; m.kind = kind; m.body = cand[r.next() % cand.size()];
    m.amp = r.sym(1.0); m.rate = r.uni(0.5, 4); m.phase = r.sym(3.0);
    m.c0 = r.sym(0.8); m.c1 = r.sym(1.0); m.c2 = r.sym(0.5);
    sp.motions.push_back(m);
    return true;
}

// full row rank of G on the free mobilities at the initial configuration
static bool rankOK(Built& b, const Spec& sp, const State& s) {
    Matrix G; b.m.matter.calcG(s, G);
    int m = G.nrow(); if (m == 0) return true;
    std::vector<int> freeCols;
    for (size_t k = 0; k < b.m.bodies.size(); ++k) {
        if (hasMotion(sp, (int)k)) continue;
        int u0 = b.m.bodies[k].getFirstUIndex(s), nu = b.m.bodies[k].getNumU(s);
        for (int i = 0; i < nu; ++i) freeCols.push_back(u0 + i);
    }
    if ((int)freeCols.size() <= m) return false;          // leave at least one free dof
    Matrix W(m, m, 0.0); double maxd = 0;
    for (int i = 0; i < m; ++i) for (int j = 0; j < m; ++j) { double x = 0; for (int cix : freeCols) x += G(i, cix) * G(j, cix); W(i, j) = x; }
    // normalise rows so that the pivot test is scale free
    std::vector<double> d(m); for (int i = 0; i < m; ++i) { d[i] = std::sqrt(W(i, i)); if (!(d[i] > 1e-8)) return false; }
    for (int i = 0; i < m; ++i) for (int j = 0; j < m; ++j) W(i, j) /= d[i] * d[j];
    for (int i = 0; i < m; ++i) maxd = std::max(maxd, W(i, i));
    double minp = cholMinPivot(W);
    return minp > 1e-3 * maxd;
}

// ============================================================================ running
struct RunOpts {
    int integ = IK_RKM; double acc = 1e-3, consTol = -1, T = 1, hFixed = 0.01, hMin = 0;
    int projEvery = -1, projInterp = -1, infNorm = -1, allowInterp = -1, fullNewton = -1;
    bool returnEvery = true, finalTime = false; int stepMode = 0;   // 0 normal, 1 minimum step, 2 fixed step
    int nReports = 20, nTargets = 3; long maxStates = 30000;
    std::string optKey() const {
        std::string s;
        s += projEvery < 0 ? "pe-" : projEvery ? "pe1" : "pe0";
        s += projInterp < 0 ? "/pi-" : projInterp ? "/pi1" : "/pi0";
        s += infNorm == 1 ? "/inf" : "/rms";
        s += allowInterp == 0 ? "/ai0" : "/ai";
        s += stepMode == 1 ? "/minstep" : stepMode == 2 ? "/fixedstep" : "";
        s += consTol > 0 ? "/ct" : "";
        return s;
    }
    Json toJson() const {
        return Json::obj().set("integ", ikName(integ)).set("acc", acc).set("consTol", consTol).set("T", T).set("projEvery", projEvery).set("projInterp", projInterp)
            .set("infNorm", infNorm).set("allowInterp", allowInterp).set("fullNewton", fullNewton).set("returnEvery", returnEvery).set("finalTime", finalTime)
            .set("stepMode", stepMode).set("hFixed", hFixed).set("hMin", hMin).set("nReports", nReports).set("nTargets", nTargets);
    }
};
enum SKind { SK_Start, SK_Step, SK_Report, SK_ReportInterp, SK_EventBefore, SK_EventAfter, SK_Scheduled, SK_StepLimit, SK_End, SK_Count };
static const char* skName(int k) { static const char* n[] = {"start", "step", "report", "report-interp", "event-before", "event-after", "scheduled", "steplimit", "end"}; return n[k]; }

struct RunResult { std::string outcome = "completed"; std::string what; long nStates = 0; double tEnd = 0; };

// Simulate; onState(state, kind, interpolated, integ) is called for every returned state and
// returns false to stop the run (guard tripped).
template <class F> static RunResult simulate(Ctx& c, Built& b, const Spec& sp, const RunOpts& o, F onState) {
    RunResult R;
    State s = b.m.init();
    s.updQ() = sp.qref; s.updU() = sp.u0;
    std::shared_ptr<Integrator> integ = makeInteg(o.integ, b.m.sys, o.hFixed);
    integ->setAccuracy(o.acc);
    if (o.consTol > 0) integ->setConstraintTolerance(o.consTol);
    if (o.projEvery >= 0) integ->setProjectEveryStep(o.projEvery == 1);
    if (o.projInterp >= 0) integ->setProjectInterpolatedStates(o.projInterp == 1);
    if (o.infNorm >= 0) integ->setUseInfinityNorm(o.infNorm == 1);
    if (o.allowInterp >= 0) integ->setAllowInterpolation(o.allowInterp == 1);
    if (o.fullNewton >= 0) integ->setForceFullNewton(o.fullNewton == 1);
    integ->setReturnEveryInternalStep(o.returnEvery);
    integ->setInternalStepLimit(500);     // so that a single stepTo() cannot run unboundedly (counted budget below)
    if (o.finalTime) integ->setFinalTime(o.T);
    if (o.integ != IK_SEE) { if (o.stepMode == 1) integ->setMinimumStepSize(o.hMin); else if (o.stepMode == 2) integ->setFixedStepSize(o.hFixed); }
    TimeStepper ts(b.m.sys, *integ);
    ts.setReportAllSignificantStates(true);
    c.setPhase(std::string("initialize ") + ikName(o.integ));
    try { ts.initialize(s); }
    catch (const std::exception& e) { R.outcome = "InitializationFailed"; R.what = firstLine(e.what(), 300); return R; }
    // stepTo() targets: nTargets equally spaced times (the dense report grid comes from the System's periodic reporter)
    int rep = 1, stalled = 0, prevKind = -1; double tRep = o.T * rep / o.nTargets;
    for (;;) {
        Integrator::SuccessfulStepStatus st;
        c.setPhase(std::string("stepTo ") + ikName(o.integ));
        try { st = c.args.getInt("direct", 0) ? integ->stepTo(tRep) : ts.stepTo(tRep); }   // --direct: debugging aid (no TimeStepper)
        catch (const std::exception& e) { R.outcome = "StepFailed"; R.what = firstLine(e.what(), 300); break; }
        const State& rs = integ->getState();
        int kind;
        switch (st) {
        case Integrator::StartOfContinuousInterval: kind = SK_Start; break;
        case Integrator::TimeHasAdvanced: kind = (prevKind == SK_EventBefore) ? SK_EventAfter : SK_Step; break;   // event-after: the state at tHigh
        case Integrator::ReachedReportTime: kind = integ->isStateInterpolated() ? SK_ReportInterp : SK_Report; break;
        case Integrator::ReachedEventTrigger: kind = SK_EventBefore; break;
        case Integrator::ReachedScheduledEvent: kind = SK_Scheduled; break;
        case Integrator::ReachedStepLimit: kind = SK_StepLimit; break;
        case Integrator::EndOfSimulation: kind = SK_End; break;
        default: kind = SK_Step;
        }
        // a "step" that advances time by less than 1e-7 (step size collapsing; CPodes even continues with t + h == t):
        // after 10 in a row the run is stalled
        if (kind == SK_Step && rs.getTime() - R.tEnd <= 1e-7) { if (++stalled >= 10) { R.outcome = "stalled"; break; } } else stalled = 0;
        ++R.nStates; R.tEnd = rs.getTime(); prevKind = kind;
        c.setPhase(std::string("monitor ") + ikName(o.integ) + " " + skName(kind));
        if (!onState(rs, kind, integ->isStateInterpolated(), *integ)) { R.outcome = "guard"; break; }
        if (st == Integrator::EndOfSimulation || integ->isSimulationOver()) break;
        if (R.nStates >= o.maxStates || integ->getNumStepsTaken() >= 8 * o.maxStates) { R.outcome = "state-budget"; break; }
        if (st == Integrator::ReachedReportTime && rs.getTime() >= tRep) {
            if (rep >= o.nTargets) break;
            ++rep; tRep = (rep == o.nTargets) ? o.T : o.T * rep / o.nTargets;
        }
        if (rs.getTime() >= o.T && st != Integrator::ReachedReportTime && !o.finalTime) break;
    }
    return R;
}

// near a singularity of a parametrisation or of a force element?  (state realized to Position)
static const char* guardReason(Built& b, const State& s) {
    const ModelDesc& d = b.m.desc;
    for (size_t k = 0; k < d.nodes.size(); ++k) {
        int t = d.nodes[k].type;
        bool xyz = (t == MT_Gimbal || t == MT_Bushing) || (d.euler && mobHasQuat(t));
        if (xyz) { double q1 = b.m.bodies[k].getOneQ(s, 1); if (std::fabs(std::cos(q1)) < 0.1) return "near-euler-singularity"; }
    }
    // polar parametrisations: SphericalCoords near its zenith axis or origin, BendStretch near zero stretch
    if (!sphericalOK(b.m, s)) return "near-spherical-coords-singularity";
    for (size_t k = 0; k < d.nodes.size(); ++k)
        if (d.nodes[k].type == MT_BendStretch && std::fabs(b.m.bodies[k].getOneQ(s, 1)) < 0.25) return "near-bendstretch-singularity";
    for (auto& tp : b.twoPoints) {
        Vec3 p1 = b.m.matter.getMobilizedBody(tp.a).getBodyTransform(s) * tp.s1, p2 = b.m.matter.getMobilizedBody(tp.b).getBodyTransform(s) * tp.s2;
        if ((p1 - p2).norm() < 0.05) return "two-point-ends-coincide";
    }
    for (auto& bu : b.bushings) { if (std::fabs(std::cos(bu.getQ(s)[1])) < 0.1) return "near-bushing-singularity"; }
    return nullptr;
}

// ============================================================================ C11
struct Rec { double t, ke, pe, ediss; Vec3 P, L; double pS, lS; int kind; };
struct Trace {
    std::vector<Rec> rec; RunResult run; std::string guard; bool nonFinite = false;
    double Eunit = 0;
};

static Trace runEnergy(Ctx& c, const Spec& sp, const RunOpts& o, bool wantMomentum, int dropF = -1, int dropC = -1) {
    Trace T;
    Built b; b.build(sp, true, true, dropF, dropC);
    {   // energy of unit speeds at the initial configuration: the integrator's own unit for u
        State s0 = b.m.init(); s0.updQ() = sp.qref; b.m.sys.realize(s0, Stage::Position);
        Matrix M; b.m.matter.calcM(s0, M); double tr = 0; for (int i = 0; i < M.nrow(); ++i) tr += M(i, i); T.Eunit = 0.5 * tr;
    }
    T.run = simulate(c, b, sp, o, [&](const State& rs, int kind, bool, Integrator&) {
        State s(rs);
        b.m.sys.realize(s, Stage::Dynamics);
        if (const char* g = guardReason(b, s)) { T.guard = g; return false; }
        Rec r; r.t = s.getTime(); r.kind = kind;
        r.ke = b.m.sys.calcKineticEnergy(s); r.pe = b.m.sys.calcPotentialEnergy(s);
        r.ediss = 0; for (auto& bu : b.bushings) r.ediss += bu.getDissipatedEnergy(s);
        r.P = Vec3(0); r.L = Vec3(0); r.pS = r.lS = 0;
        if (wantMomentum) {
            SpatialVec mom = b.m.matter.calcSystemMomentumAboutGroundOrigin(s); r.L = mom[0]; r.P = mom[1];
            for (auto& mb : b.m.bodies) {
                const MassProperties& mp = mb.getBodyMassProperties(s);
                Vec3 pC = mb.findStationLocationInGround(s, mp.getMassCenter()), vC = mb.findStationVelocityInGround(s, mp.getMassCenter());
                double w = mb.getBodyAngularVelocity(s).norm();
                r.pS += mp.getMass() * vC.norm(); r.lS += mp.getMass() * pC.norm() * vC.norm() + mp.getInertia().trace() * w;
            }
        }
        if (!(std::isfinite(r.ke) && std::isfinite(r.pe) && std::isfinite(r.ediss) && allFinite(s.getY()))) { T.nonFinite = true; return false; }
        T.rec.push_back(r);
        if (c.args.verbose && c.args.getInt("trace", 0)) {
            for (auto& tp : b.twoPoints) fprintf(stderr, "   tpdist=%.4g", ((b.m.matter.getMobilizedBody(tp.a).getBodyTransform(s) * tp.s1) - (b.m.matter.getMobilizedBody(tp.b).getBodyTransform(s) * tp.s2)).norm());
            for (auto& bu : b.bushings) fprintf(stderr, "   bushq1=%.4g", bu.getQ(s)[1]);
            fprintf(stderr, " q=["); for (int i = 0; i < s.getNQ(); ++i) fprintf(stderr, "%.4g ", s.getQ()[i]); fprintf(stderr, "]\n");
        }
        if (c.args.verbose && c.args.getInt("trace", 0)) fprintf(stderr, "  t=%.6f %-13s E=%.9g KE=%.6g PE=%.6g Ediss=%.6g |P|=%.6g |L|=%.6g\n", r.t, skName(kind), r.ke + r.pe, r.ke, r.pe, r.ediss, r.P.norm(), r.L.norm());
        return true;
    });
    if (T.run.outcome == "StepFailed" || T.run.outcome == "stalled") {   // the integrator gave up at tEnd: the approach to that point (last 20% in time) is not judged
        size_t keep = 0; while (keep < T.rec.size() && T.rec[keep].t <= 0.8 * T.run.tEnd) ++keep;
        T.rec.resize(keep);
    }
    return T;
}

struct Drift { double a = 0, d = 0, P = 0, L = 0, cInc = 0, Escale = 0, EdScale = 0; double ta = 0, td = 0, tP = 0, tL = 0, tc = 0; };
static Drift measure(const Trace& T) {
    // Every state is judged against the energy / momentum scale of the states returned
    // *before* it (a runaway must not enlarge the scale it is judged by).
    Drift D; const auto& R = T.rec; if (R.empty()) return D;
    double pemin = R[0].pe, pemax = R[0].pe, kemax = R[0].ke, edmax = std::fabs(R[0].ediss), pS = R[0].pS, lS = R[0].lS;
    double E0 = R[0].ke + R[0].pe, Z0 = R[0].ediss;
    for (size_t k = 1; k < R.size(); ++k) {
        const Rec& r = R[k]; double E = r.ke + r.pe, tf = 1 + r.t;
        double Es = std::max(std::max(kemax, pemax - pemin), T.Eunit);
        double Eds = std::max(std::max(Es, edmax), 1.0);   // z (dissipated energy) is error controlled relative to max(|z|,1)
        double a = std::fabs(E - E0) / (Es * tf); if (a > D.a) { D.a = a; D.ta = r.t; }
        double d = std::fabs(E + r.ediss - E0 - Z0) / (Eds * tf); if (d > D.d) { D.d = d; D.td = r.t; }
        if (pS > 0) { double p = (r.P - R[0].P).norm() / (pS * tf); if (p > D.P) { D.P = p; D.tP = r.t; } }
        if (lS > 0) { double l = (r.L - R[0].L).norm() / (lS * tf); if (l > D.L) { D.L = l; D.tL = r.t; } }
        double inc = (E - (R[k - 1].ke + R[k - 1].pe)) / Es; if (inc > D.cInc) { D.cInc = inc; D.tc = r.t; }
        pemin = std::min(pemin, r.pe); pemax = std::max(pemax, r.pe); kemax = std::max(kemax, r.ke); edmax = std::max(edmax, std::fabs(r.ediss)); pS = std::max(pS, r.pS); lS = std::max(lS, r.lS);
        D.Escale = Es; D.EdScale = Eds;
    }
    return D;
}

static const double K_A = 100, K_B = 100, K_C = 100, K_D = 100;
static const double TOL_CAP = 0.05;   // a drift above 5% of the energy / momentum scale always triggers the tightened run

static void checkC11(Ctx& c, long idx, Rng& r) {
    const bool thorough = c.args.tier == "thorough";
    const bool noslip = c.args.getInt("noslip", 0) != 0;
    const int integ = (int)(idx % 9);                 // the nine error-controlled integrators
    const int family = (int)((idx / 9) % 4);          // 0 conservative, 1 free-floating internal, 2 dissipative, 3 bushing-only dissipation
    const int variant = (int)(idx / 36);
    Spec sp; RefCfg ref;
    bool internalOnly = (family == 1);
    if (internalOnly) sp.desc = floatingDesc(r, variant, 5);
    else { GenOpts o; o.minBodies = 1; o.maxBodies = 5; o.types = simTypes(); o.forceCycle = true; o.pLoneParticle = 0.03; o.allowWeld = false; sp.desc = randomDesc(r, o, variant); sp.desc.euler = r.coin(0.3); }
    if (!makeRef(c, sp, r, ref, 1.0)) return;
    int nb = (int)sp.desc.nodes.size();
    // ---- constraints (workless kinds only)
    bool wantCons = (variant % 3 == 1) || r.coin(0.15);
    if (wantCons) {
        int nc = r.integer(1, 2);
        for (int i = 0; i < nc; ++i) {
            int kind = (i == 0) ? (int)((variant / 3) % C_NWorkless) : r.integer(0, C_NWorkless - 1);
            // NoSlip1D is left out unless --noslip 1: its acceleration equation is not the derivative of its velocity
            // equation for general geometry (known finding C07 material-point-formulation:NoSlip1D:acceleration), so
            // the simulated motion leaves the velocity manifold and the projections that bring it back do work.
            if (kind == C_NoSlip1D && !noslip) kind = C_Rod;
            genConstraint(sp, ref, r, kind, internalOnly);
        }
    }
    // ---- forces
    bool dampedFamily = (family == 2) || (family == 3) || (family == 1 && variant % 2 == 1);
    if (!internalOnly && r.coin(0.85)) genForce(sp, ref, r, r.coin() ? F_UniformGravity : F_Gravity, false, false);
    {
        static const int consKinds[] = {F_TPSpring, F_MobSpring, F_Bushing, F_MobStop};
        int n = r.integer(1, 3);
        for (int i = 0; i < n; ++i) genForce(sp, ref, r, (i == 0) ? consKinds[variant % 4] : consKinds[r.integer(0, 3)], internalOnly, false);
    }
    if (family == 2 || (family == 1 && dampedFamily)) {
        static const int dKinds[] = {F_TPDamper, F_MobDamper, F_GlobalDamper, F_Bushing, F_MobStop};
        int n = r.integer(1, 2);
        for (int i = 0; i < n; ++i) genForce(sp, ref, r, (i == 0) ? dKinds[(variant / 2) % 5] : dKinds[r.integer(0, 4)], internalOnly, true);
    } else if (family == 3) {
        int n = r.integer(1, 2); for (int i = 0; i < n; ++i) genForce(sp, ref, r, F_Bushing, internalOnly, true);
    }
    if (sp.forces.empty() && !internalOnly) { c.skip("no-force-element-fits-model"); return; }
    bool anyDiss = false, nonBushingDiss = false, anyBushingDiss = false;
    for (auto& f : sp.forces) if (f.dissipates()) { anyDiss = true; if (f.kind == F_Bushing) anyBushingDiss = true; else nonBushingDiss = true; }
    if ((family == 2 || family == 3) && !anyDiss) { c.skip("no-dissipative-element-fits-model"); return; }
    // events: returned "before" states are part of the monitored trajectory
    int ev = (variant % 5 == 2) ? 1 + (int)((variant / 5) % 3) : 0;
    if (ev == 2) { auto cand = simpleCoords(sp, 0); if (cand.empty()) ev = 1; else { auto pr = cand[r.next() % cand.size()]; sp.evQ = ref.qStart[pr.first] + pr.second; sp.evQ0 = ref.q[sp.evQ] + r.sym(0.2); } }
    sp.eventKind = ev; sp.evW = r.uni(3, 9); sp.evPh = r.sym(3); sp.evDt = r.uni(0.15, 0.5);

    RunOpts o; o.integ = (int)c.args.getInt("integ", integ);   // --integ / --acc: debugging aids only
    int dec = 3 + (int)((variant / 2) % (ikMaxDecade(integ, thorough) - 2));
    static const double mant[] = {1.0, 0.5, 0.2};
    { double mm = mant[r.integer(0, 2)]; o.acc = std::pow(10.0, -dec) * (dec >= 8 ? 1.0 : mm); }
    o.T = r.uni(1.0, 2.5); o.nReports = r.integer(5, 40); o.nTargets = r.integer(1, 4); o.returnEvery = true;
    sp.reportDt = o.T / o.nReports;
    o.projEvery = r.coin(0.2) ? 1 : -1; o.finalTime = r.coin(0.3); o.maxStates = 4000;
    if (c.args.getNum("acc", 0) > 0) o.acc = c.args.getNum("acc", 0);
    (void)nb;

    // ---- rank guard for the constraint set
    if (!sp.cons.empty()) {
        Built b; b.build(sp, false, true);
        State s = b.m.init(); s.updQ() = sp.qref; b.m.sys.realize(s, Stage::Velocity);
        if (!rankOK(b, sp, s)) { c.skip("constraint-set-rank-deficient-or-no-free-dof"); return; }
    }
    const std::string in = ikName(o.integ);
    const double alpha = ikAlpha(integ);
    char accs[16]; snprintf(accs, sizeof accs, "1e-%d", dec);
    Json wit0 = Json::obj().set("model", sp.toJson()).set("opts", o.toJson());

    Trace T = runEnergy(c, sp, o, internalOnly, (int)c.args.getInt("dropF", -1), (int)c.args.getInt("dropC", -1));   // dropF/dropC: debugging aid only
    c.obs("outcome:" + T.run.outcome + ":" + in);
    if (T.nonFinite) { c.viol("nonfinite:" + in, Json(wit0).set("what", "NaN/Inf in a returned state or its energy").set("t", T.run.tEnd)); return; }
    if (!T.guard.empty()) c.obs("run-cut:" + T.guard);
    if (T.run.outcome == "StepFailed" || T.run.outcome == "stalled") c.obs("run-cut:last-20%-before-StepFailed-or-stall");
    if (T.rec.size() < 3) { c.skip(T.guard.empty() ? "too-few-states:" + T.run.outcome : "guard-at-start:" + T.guard); return; }
    Drift D = measure(T);
    if (c.wantSample()) c.sample(Json(wit0).set("states", (long)T.rec.size()).set("drift_a", D.a).set("drift_P", D.P).set("drift_L", D.L).set("Escale", D.Escale));
    if (c.args.verbose) fprintf(stderr, "case %ld %s fam %d acc %g states %zu outcome %s guard %s | a %.3g d %.3g P %.3g L %.3g c %.3g Es %.3g | %s | %s | %s\n", idx, in.c_str(), family, o.acc,
                                T.rec.size(), T.run.outcome.c_str(), T.guard.c_str(), D.a, D.d, D.P, D.L, D.cInc, D.Escale, sp.desc.shortStr().c_str(), sp.forceSet().c_str(), sp.consSet().c_str());
    std::set<int> kinds; for (auto& rc : T.rec) kinds.insert(rc.kind);
    const std::string cell = sp.forceSet() + "/" + sp.consSet() + "/" + accs;

    // two-sided judgement of a drift that should scale with accuracy
    auto twoSided = [&](const std::string& clause, double Dcase, double K, std::function<double(const Drift&)> pick) {
        double tol1 = std::min(K * std::pow(o.acc, alpha), TOL_CAP);
        for (int k : kinds) c.cover(in + "/" + clause + "/" + skName(k));
        c.cover(in + "/" + clause + "/" + cell);
        if (Dcase <= tol1) { c.check(clause + ":" + in, Dcase, tol1, nullptr); return; }
        // first bound exceeded: tighten accuracy 100x
        RunOpts o2 = o; o2.acc = o.acc / 100; o2.maxStates = 40 * o.maxStates;
        Trace T2 = runEnergy(c, sp, o2, internalOnly);
        if (T2.nonFinite || T2.rec.size() < 3 || T2.run.tEnd < 0.5 * T.run.tEnd) { c.obs("inconclusive:" + clause + ":tightened-run-unusable:" + in); return; }
        double D2 = pick(measure(T2));
        double tol2 = std::max(std::min(K * std::pow(o2.acc, alpha), TOL_CAP), Dcase / 3);
        c.obs("first-bound-exceeded:" + clause + ":" + in);
        if (D2 <= tol2) { c.obs("inconclusive:" + clause + ":drift-shrinks-when-tightened:" + in); c.check(clause + "2:" + in, D2, tol2, nullptr); return; }
        // both fail: attribute (reference integrator; leave-one-out over force elements and constraints)
        std::string who = in, culprit = "none-single";
        RunOpts oref = o; oref.integ = (integ == IK_RKM) ? IK_RKF : IK_RKM; oref.acc = 1e-7; oref.maxStates = 40 * o.maxStates;
        Trace Tr = runEnergy(c, sp, oref, internalOnly);
        double Dr = Tr.rec.size() >= 3 ? pick(measure(Tr)) : -1;
        if (Dr > K * std::pow(oref.acc, ikAlpha(oref.integ)) && Dr > Dcase / 10) who = "any-integrator";
        for (int i = 0; i < (int)sp.cons.size() && culprit == "none-single"; ++i) {
            Trace Tx = runEnergy(c, sp, o, internalOnly, -1, i);
            if (Tx.rec.size() >= 3 && pick(measure(Tx)) <= tol1) culprit = cName(sp.cons[i].kind);
        }
        for (int i = 0; i < (int)sp.forces.size() && culprit == "none-single"; ++i) {
            Trace Tx = runEnergy(c, sp, o, internalOnly, i, -1);
            if (Tx.rec.size() >= 3 && pick(measure(Tx)) <= tol1) culprit = sp.forces[i].label();
        }
        c.check(clause + ":" + who + ":" + culprit, Dcase, tol1, [&] {
            return Json(wit0).set("drift", Dcase).set("bound", tol1).set("drift_at_acc/100", D2).set("bound_at_acc/100", tol2).set("drift_reference_integrator", Dr)
                .set("Escale", D.Escale).set("t_end", T.run.tEnd).set("states", (long)T.rec.size());
        });
    };

    if (!anyDiss) twoSided("energy-conserved", D.a, K_A, [](const Drift& d) { return d.a; });
    if (internalOnly) {
        twoSided("linear-momentum", D.P, K_B, [](const Drift& d) { return d.P; });
        twoSided("angular-momentum", D.L, K_B, [](const Drift& d) { return d.L; });
    }
    if (anyDiss) {
        for (int k : kinds) c.cover(in + "/dissipation-monotone/" + skName(k));
        c.cover(in + "/dissipation-monotone/" + cell);
        // same accuracy law as every other clause (K acc^alpha, capped): the error actually delivered by local error
        // control scales with acc^alpha (0.8 for Feldberg/Merson ...), see level_note; a bound linear in acc was
        // tighter than the integrator's own accuracy for alpha < 1 (DESIGN section 8 no. 13)
        c.check("energy-never-increases:" + in, D.cInc, std::min(K_C * std::pow(o.acc, alpha), TOL_CAP), [&] { return Json(wit0).set("increase/Escale", D.cInc).set("t", D.tc).set("Escale", D.Escale); });
        if (anyBushingDiss && !nonBushingDiss) twoSided("dissipation-accounted", D.d, K_D, [](const Drift& d) { return d.d; });
    }
}

// ============================================================================ C21
struct MotionRef { int kind; int qStart, nq, uStart, nu; MSpec sp; };

static void checkC21(Ctx& c, long idx, Rng& r) {
    const int integ = (int)(idx % IK_Count);
    const int variant = (int)(idx / IK_Count);
    const int mclass = variant % 4;     // 0 constraints, 1 quaternion bodies (+constraints sometimes), 2 Motions (+constraints), 3 constraints + nonholonomic/driven ones
    Spec sp; RefCfg ref;
    {
        GenOpts o; o.minBodies = 2; o.maxBodies = 6; o.types = simTypes(); o.forceCycle = false; o.pLoneParticle = 0; o.allowWeld = false;
        if (mclass == 1) o.types = {MT_Ball, MT_Free, MT_LineOrientation, MT_FreeLine, MT_Ellipsoid, MT_Pin, MT_Universal};
        if (mclass == 2) o.types = {MT_Pin, MT_Slider, MT_Universal, MT_Cylinder, MT_Planar, MT_Translation, MT_Screw, MT_Ball, MT_Gimbal, MT_Free};
        sp.desc = randomDesc(r, o, variant); sp.desc.euler = (mclass == 1) ? false : r.coin(0.3);
        if (mclass == 1) { sp.desc.nodes[0].type = (variant / 4) % 2 ? MT_Free : MT_Ball; }
    }
    if (mclass == 2) { int nm = r.integer(1, 2); for (int i = 0; i < nm; ++i) genMotion(sp, r, (i == 0) ? (variant / 4) % M_Count : r.integer(0, M_Count - 1), 0); if (sp.motions.empty()) { c.skip("no-mobilizer-for-motion"); return; } }
    if (!makeRef(c, sp, r, ref, 1.0)) return;
    {
        int nc = (mclass == 1) ? r.integer(0, 1) : (mclass == 2) ? r.integer(0, 2) : r.integer(1, 3);
        for (int i = 0; i < nc; ++i) {
            int kind = (i == 0) ? (int)((variant / 4) % (mclass == 3 ? (int)C_Count : (int)C_NWorkless)) : r.integer(0, C_Count - 1);
            if (mclass == 3 && i == 0 && (variant / 4) % 2 == 0) kind = C_NWorkless + (int)((variant / 8) % (C_Count - C_NWorkless));
            genConstraint(sp, ref, r, kind, false);
        }
    }
    bool hasQuat = false; if (!sp.desc.euler) for (auto& n : sp.desc.nodes) if (mobHasQuat(n.type)) hasQuat = true;
    if (sp.cons.empty() && sp.motions.empty() && !hasQuat) { c.skip("nothing-to-monitor"); return; }
    // forces: gravity + a few elements to make the motion lively
    if (r.coin(0.9)) genForce(sp, ref, r, r.coin() ? F_UniformGravity : F_Gravity, false, false);
    { static const int fk[] = {F_TPSpring, F_MobSpring, F_MobDamper, F_GlobalDamper, F_Bushing}; int n = r.integer(0, 2); for (int i = 0; i < n; ++i) genForce(sp, ref, r, fk[r.integer(0, 4)], false, r.coin()); }
    int ev = (variant % 3 == 0) ? 1 + (int)((variant / 3) % 3) : 0;
    if (ev == 2) { auto cand = simpleCoords(sp, 0); if (cand.empty()) ev = 1; else { auto pr = cand[r.next() % cand.size()]; sp.evQ = ref.qStart[pr.first] + pr.second; sp.evQ0 = ref.q[sp.evQ] + r.sym(0.2); } }
    sp.eventKind = ev; sp.evW = r.uni(4, 12); sp.evPh = r.sym(3); sp.evDt = r.uni(0.1, 0.4);

    RunOpts o; o.integ = integ;
    int maxDec = std::min(7, ikMaxDecade(integ, c.args.tier == "thorough") + 1);
    int dec = 3 + (int)((variant / 2) % (maxDec - 2));
    o.acc = std::pow(10.0, -dec) * (r.coin() ? 1.0 : r.uni(0.2, 1.0));
    o.T = r.uni(0.5, 1.5); o.nReports = r.integer(30, 150); o.nTargets = r.integer(1, 5); o.returnEvery = r.coin(0.85);
    sp.reportDt = o.T / o.nReports;
    { int k = (variant / 4) % 3; o.projInterp = k == 0 ? -1 : k == 1 ? 1 : 0; }
    { int k = (variant / 12) % 3; o.projEvery = k == 0 ? -1 : k == 1 ? 1 : 0; }
    o.infNorm = r.coin(0.3) ? 1 : -1; o.allowInterp = r.coin(0.2) ? 0 : (r.coin(0.3) ? 1 : -1); o.fullNewton = r.coin(0.15) ? 1 : -1;
    o.finalTime = r.coin(0.35);
    { double x = r.uni(); if (x < 0.25) o.consTol = o.acc * 1e-2; else if (x < 0.4) o.consTol = std::min(0.05, o.acc * 5); else if (x < 0.5) o.consTol = 1e-9; }
    o.hFixed = r.logUni(0.003, 0.03); o.hMin = r.logUni(0.005, 0.05);
    { int k = (variant / 5) % 5; o.stepMode = (k == 3) ? 1 : (k == 4) ? 2 : 0; }
    if (integ == IK_SEE) o.stepMode = 2;
    o.maxStates = 3000;

    Built b; b.build(sp, true, true);
    {
        State s = b.m.init(); s.updQ() = sp.qref; b.m.sys.realize(s, Stage::Velocity);
        if (!rankOK(b, sp, s)) { c.skip("constraint-set-rank-deficient-or-no-free-dof"); return; }
    }
    std::vector<MotionRef> mrefs;
    for (auto& ms : sp.motions) { MotionRef mr; mr.kind = ms.kind; mr.sp = ms; mr.qStart = ref.qStart[ms.body]; mr.nq = ref.nq[ms.body]; mr.uStart = ref.uStart[ms.body]; mr.nu = ref.nu[ms.body]; mrefs.push_back(mr); }

    const std::string in = ikName(integ);
    const std::string modeTag = o.stepMode == 1 ? ":minstep" : (o.stepMode == 2 && integ != IK_SEE) ? ":fixedstep" : "";
    char accs[16]; snprintf(accs, sizeof accs, "1e-%d", dec);
    Json wit0 = Json::obj().set("model", sp.toJson()).set("opts", o.toJson());
    long judged = 0, unjudgedInterp = 0, offManifoldUnjudged = 0;
    std::set<int> kindsSeen;
    bool stop = false;

    RunResult R = simulate(c, b, sp, o, [&](const State& rs, int kind, bool interpolated, Integrator& ig) {
        kindsSeen.insert(kind);
        if (kind == SK_End) return true;               // same state object as the previous return
        if (!allFinite(rs.getY()) || !std::isfinite(rs.getTime())) {
            c.viol((o.stepMode != 0 || integ == IK_SEE) ? std::string("forced-step-size:") + (ikIsCPodes(integ) ? "CPodes" : "AbstractIntegratorRep") + (integ == IK_SEE ? ":SemiExplicitEuler" : modeTag) : "nonfinite:" + in + ":" + skName(kind), Json(wit0).set("t", rs.getTime())); stop = true; return false;
        }
        // independent re-evaluation of the constraint errors from <t,q,u> alone
        State s(rs);
        s.invalidateAllCacheAtOrAbove(Stage::Time);
        b.m.sys.realize(s, Stage::Velocity);
        if (const char* g = guardReason(b, s)) { c.obs(std::string("run-cut:") + g); return false; }   // step sizes collapse there: cost only
        const double tol = ig.getConstraintToleranceInUse() * (1 + 1e-6);
        const bool inf = ig.isInfinityNormInUse();
        const int nQuat = b.m.matter.getNumQuaternionsInUse(s), nQErr = s.getNQErr(), mHolo = nQErr - nQuat, nUErr = s.getNUErr();
        const Vector& qerr = s.getQErr(); const Vector& uerr = s.getUErr(); const Vector& qw = s.getQErrWeights(); const Vector& uw = s.getUErrWeights();
        auto nrm = [&](const Vector& e, const Vector* w, int off, int n) {
            if (n == 0) return 0.0; double acc2 = 0, mx = 0;
            for (int i = 0; i < n; ++i) { double x = e[off + i] * (w ? (*w)[off + i] : 1.0); acc2 += x * x; mx = std::max(mx, std::fabs(x)); }
            return inf ? mx : std::sqrt(acc2 / n);
        };
        double pn = nrm(qerr, &qw, 0, mHolo), qn = nrm(qerr, nullptr, mHolo, nQuat), vn = nrm(uerr, &uw, 0, nUErr);
        // harness-side quaternion norms straight from q
        double qn2 = 0; { double a2 = 0, mx = 0; int n = 0;
            for (size_t k = 0; k < b.m.bodies.size(); ++k) if (!sp.desc.euler && mobHasQuat(sp.desc.nodes[k].type)) {
                int q0 = b.m.bodies[k].getFirstQIndex(s); double l = 0; for (int i = 0; i < 4; ++i) l += rs.getQ()[q0 + i] * rs.getQ()[q0 + i];
                double e = std::sqrt(l) - 1; a2 += e * e; mx = std::max(mx, std::fabs(e)); ++n; }
            qn2 = n ? (inf ? mx : std::sqrt(a2 / n)) : 0; }
        bool judge = !(interpolated && o.projInterp == 0);
        if (c.args.verbose) fprintf(stderr, "  t=%.6f %-13s interp=%d perr=%.3g quat=%.3g/%.3g verr=%.3g tol=%.3g%s\n", rs.getTime(), skName(kind), (int)interpolated, pn, qn, qn2, vn, tol, judge ? "" : " (not judged)");
        if (!judge) { ++unjudgedInterp; if (pn > tol || qn > tol || vn > tol) ++offManifoldUnjudged; return true; }
        ++judged;
        // Violation keys: <class>:<integrator>:<kind of returned state> in the configurations the statement quantifies over.
        // Three situations get a key of their own (one root cause each, whatever error norm shows it first):
        //  * a minimum / fixed step size is forced on an error-controlled integrator (configuration outside the quantifier)
        //    or the integrator is the fixed-step SemiExplicitEuler: AbstractIntegratorRep accepts a step it could not
        //    shrink, converged / projected or not;
        //  * CPodes hands back a state that CPODES itself interpolated (report time in normal mode, tHigh after a root
        //    return, scheduled-event time) and that is returned as a non-interpolated trajectory state;
        //  * CPodes/Adams step sizes collapsing (< 1e-4) on a model that needs projection.
        const bool cpInterp = ikIsCPodes(integ) && !interpolated && (kind == SK_Report || kind == SK_EventAfter || kind == SK_Scheduled);
        const bool collapsing = integ == IK_CPAdams && ig.getPreviousStepSizeTaken() < 1e-4;   // healthy steps here are 1e-3..1e-1
        auto keyOf = [&](const char* cls) {
            if (integ == IK_SEE) return std::string("forced-step-size:AbstractIntegratorRep:SemiExplicitEuler");
            if (cpInterp) return std::string("cpodes-internal-interpolant:") + in + ":" + skName(kind);
            if (o.stepMode != 0) return std::string("forced-step-size:") + (ikIsCPodes(integ) ? "CPodes" : "AbstractIntegratorRep") + modeTag;
            if (collapsing) return std::string("collapsing-step-size:CPodesAdams");
            return std::string(cls) + ":" + in + ":" + skName(kind);
        };
        auto W = [&](const char* what, double v) { return [&, what, v] { return Json(wit0).set("what", what).set("norm", v).set("consTolInUse", ig.getConstraintToleranceInUse()).set("t", rs.getTime()).set("interpolated", interpolated)
            .set("kind", skName(kind)).set("previousStepSize", ig.getPreviousStepSizeTaken()).set("convergenceTestFailures", ig.getNumConvergenceTestFailures()).set("projectionFailures", ig.getNumProjectionFailures()); }; };
        bool ok = true;
        if (mHolo) ok &= c.check(keyOf("perr"), pn, tol, W("weighted position-constraint error norm of a returned state exceeds the constraint tolerance in use", pn));
        if (nQuat) { ok &= c.check(keyOf("quat"), qn, tol, W("quaternion normalisation error norm of a returned state exceeds the constraint tolerance in use", qn));
                     ok &= c.check(keyOf("quat"), qn2, tol, W("| |q|-1 | (harness-side) of a returned state exceeds the constraint tolerance in use", qn2)); }
        if (nUErr) ok &= c.check(keyOf("verr"), vn, tol, W("weighted velocity-constraint error norm of a returned state exceeds the constraint tolerance in use", vn));
        // prescribed motion
        bool needAcc = false; for (auto& mr : mrefs) if (mr.kind == M_SinAcc) needAcc = true;
        if (needAcc) { try { b.m.sys.realize(s, Stage::Acceleration); } catch (const std::exception&) { needAcc = false; c.obs("acceleration-realize-failed-on-returned-state"); } }
        const double t = rs.getTime();
        for (auto& mr : mrefs) {
            const MSpec& m = mr.sp; double qv = 0, uv = 0, av = 0; bool hq = false, hu = false, ha = false;
            switch (mr.kind) {
            case M_SinPos: qv = m.amp * std::sin(m.rate * t + m.phase); uv = m.amp * m.rate * std::cos(m.rate * t + m.phase); hq = hu = true; break;
            case M_SinVel: uv = m.amp * std::sin(m.rate * t + m.phase); hu = true; break;
            case M_SinAcc: av = m.amp * std::sin(m.rate * t + m.phase); ha = needAcc; break;
            case M_Steady: uv = m.amp; hu = true; break;
            case M_PolyPos: qv = m.c0 + m.c1 * t + m.c2 * t * t; uv = m.c1 + 2 * m.c2 * t; hq = hu = true; break;
            case M_PolyVel: uv = m.c0 + m.c1 * t + m.c2 * t * t; hu = true; break;
            }
            double eq = 0, eu = 0, ea = 0;
            if (hq) for (int i = 0; i < mr.nq; ++i) eq = std::max(eq, std::fabs(rs.getQ()[mr.qStart + i] - qv));
            if (hu) for (int i = 0; i < mr.nu; ++i) eu = std::max(eu, std::fabs(rs.getU()[mr.uStart + i] - uv));
            if (ha) for (int i = 0; i < mr.nu; ++i) ea = std::max(ea, std::fabs(s.getUDot()[mr.uStart + i] - av));
            const std::string mk = (o.stepMode != 0 || integ == IK_SEE || cpInterp || collapsing) ? keyOf("motion") : std::string("motion:") + mName(mr.kind) + ":" + in + ":" + skName(kind);
            double sc = 1e-12 * (1 + std::fabs(m.amp) * (1 + m.rate) + std::fabs(m.c0) + std::fabs(m.c1) * (1 + t) + std::fabs(m.c2) * (1 + t) * (1 + t));
            if (hq) ok &= c.check(mk, eq, sc, W("prescribed q of a returned state differs from the Motion's analytic value", eq));
            if (hu) ok &= c.check(mk, eu, sc, W("prescribed u of a returned state differs from the Motion's analytic value", eu));
            if (ha) ok &= c.check(mk, ea, sc * 100, W("prescribed udot at a returned state differs from the Motion's analytic value", ea));
        }
        if (!ok) { stop = true; return false; }      // one witness per run; later states are consequences
        return true;
    });
    c.obs("outcome:" + (stop ? std::string("violation") : R.outcome) + ":" + in);
    if (R.outcome == "InitializationFailed" || R.outcome == "StepFailed") { if (c.args.verbose) fprintf(stderr, "  %s: %s\n", R.outcome.c_str(), R.what.c_str()); }
    c.obs("states-judged", judged); c.obs("interpolated-states-not-judged(projection off)", unjudgedInterp);
    if (offManifoldUnjudged) c.obs("interpolated-states-off-manifold-with-projection-off", offManifoldUnjudged);
    if (judged == 0) { c.skip("no-state-judged:" + R.outcome); return; }
    for (int k : kindsSeen) {
        c.cover(in + "/" + skName(k) + "/" + o.optKey());
        c.cover(in + "/" + skName(k) + "/" + sp.consSet() + "/" + sp.motionSet() + (hasQuat ? "/quat" : "") + "/" + accs);
    }
    if (c.wantSample()) c.sample(Json(wit0).set("states_judged", judged).set("outcome", R.outcome).set("t_end", R.tEnd));
    if (c.args.verbose) fprintf(stderr, "case %ld %s acc %g outcome %s judged %ld | %s | %s | %s | %s\n", idx, in.c_str(), o.acc, R.outcome.c_str(), judged, sp.desc.shortStr().c_str(), sp.consSet().c_str(), sp.motionSet().c_str(), o.optKey().c_str());
}

int main(int argc, char** argv) {
    Args a = parseArgs(argc, argv);
    Ctx c(a);
    // --stride S: the index that drives the deterministic cycling (integrator, family, option cells) is i*S + worker
    // instead of i, so that a run of very few cases (the ASan slice) still spreads over the cells.
    const long stride = a.getInt("stride", 1), off = stride > 1 ? a.worker : 0;
    if (a.prop == "C11") return runCases(c, [&](long i, Rng& r) { checkC11(c, i * stride + off, r); });
    if (a.prop == "C21") return runCases(c, [&](long i, Rng& r) { checkC21(c, i * stride + off, r); });
    fprintf(stderr, "mon_sim: unknown --prop %s\n", a.prop.c_str());
    return 2;
}
