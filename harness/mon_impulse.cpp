// mon_impulse.cpp — C44 "Impulse solvers return impulses satisfying contact conditions"
//
// Drives PLUSImpulseSolver / PGSImpulseSolver (::solve and ::solveBilateral) of the real library
// on seeded, generated impulse subproblems
//        [A+D] (piExpand + pi) = verrStart + verrApplied      (+ inequalities per row kind)
// and checks the *returned* pi / verrStart / per-element conditions against the documented
// conditions with harness-side long-double arithmetic (no library code in the oracles).
//
// Legal-client preconditions kept by the generator (ImpulseSolver.h, SemiExplicitEulerTimeStepper.cpp):
//  * A = G*~G (+ row scaling) is symmetric PSD, packed column-major; D has length m (or 0 for
//    solveBilateral) with entries >= 0; diag(A)>0 on every participating row.
//  * every multiplier belongs to at most one element; `participating` lists exactly the rows of
//    the unconditional elements, the normals of Participating contacts, the 2 friction rows of
//    Participating and Known contacts, and the rows of speed/bounded/limited-friction elements
//    (this is the equation count the solvers assert in debug builds).
//  * Known (expanding) contacts have sign*piExpand[Nk] < 0 and are listed in `expanding`;
//    piExpand is 0 everywhere else; Observing contacts contribute no rows.
//  * contact friction has exactly 2 rows; consLtd normals are rows of unconditional elements.
//  * well-posed: for rank-deficient A the right-hand side is built from a designed feasible
//    solution (pi*, v*) that satisfies the solver's own contact model, so a solution exists; for
//    full-rank A the right-hand side is random (existence for PD A).
//  * scale: A entries O(1..10), impulses/velocities O(1) (the solvers' tolerances are absolute).
//
// Judging rules
//  * PGS: judged only when it returns true (non-convergence is counted, not judged), except the
//    strongly diagonally dominant "easy" problems where Gauss-Seidel must converge.
//  * PLUS::solve() never returns true for p>0 (finding); its results are judged regardless and the
//    return value has its own key.
//  * PLUS sliding intervals: total impulses over several intervals only obey the inequalities;
//    equalities tied to the reported (last-interval) condition are judged only when the harness
//    can prove there was a single interval (every initially-sliding contact still reports the
//    input slip velocity bit-for-bit).
//  * PLUS + bounded rows can crash/hang the solver: those calls run in a forked child with a
//    CPU-time limit (RLIMIT_CPU, not wall clock).
//
// Key format: <condition>:<solver>:<operation or row kind>[:<detail>]; sizes, ranks, values go to
// the witness.
#include "Simbody.h"
#include "vh.h"
#include <sys/wait.h>
#include <sys/resource.h>

using namespace SimTK;
using vh::Json; using vh::Ctx; using vh::Rng; using vh::Args;
typedef long double LD;
typedef std::vector<double> VD;
typedef std::vector<int> VI;
typedef ImpulseSolver IS;

static const double EPS = 2.220446049250313e-16;
enum SolverKind { S_PLUS = 0, S_PGS = 1 };
static const char* SN[2] = {"PLUS", "PGS"};

enum Klass { K_BILATERAL = 0, K_UNCOND, K_FRICTIONLESS, K_FRICTION_DESIGNED, K_FRICTION_GENERIC, K_EXPANSION,
             K_BOUNDED, K_LTDFRICTION, K_UNISPEED, K_MIXED, K_EASY, K_STICKSLIP, K_COUNT };
static const char* KN[K_COUNT] = {"bilateral", "uncond", "frictionless", "friction-designed", "friction-generic", "expansion",
                                  "bounded", "ltd-friction", "unispeed", "mixed", "easy", "stick-slip"};

// ------------------------------------------------------------------ problem description
struct Con { int Nk = -1, sign = 1; VI Fk; int type = IS::Participating; double mu = 0; };
struct Spd { int ix, sign; };
struct Bnd { int ix; double lb, ub; };
struct Clf { VI Fk, Nk; double mu; };
struct Slf { VI Fk; double knownN, mu; };

struct Prob {
    int m = 0, ncolG = 0;
    VD A, D;                 // A column-major m*m (symmetric), D length m
    bool passD = true;       // solveBilateral may get a zero-length D
    VD verrStart, verrApplied, piExpand;   // verrApplied empty or m
    std::vector<VI> unc; std::vector<Con> con; std::vector<Spd> spd; std::vector<Bnd> bnd;
    std::vector<Clf> clf; std::vector<Slf> slf;
    VI part, expanding;
    std::string rankClass, dClass;
    bool designed = false, shuffled = false;
    double maxRoll = 1e-2, ctol = 0; int maxIters = 0;   // 0 = solver default
    double a(int i, int j) const { return A[(size_t)j * m + i]; }
    bool dpos() const { return dClass != "D0"; }
};

struct Out {
    bool called = false, ret = false; int died = 0;   // died: signal number of the child (forked runs)
    std::string exc;
    VD pi, verrStart, verrApplied, piExpand;
    struct C { int cond, fcond; double sv[2], smag, imp[3]; }; std::vector<C> con;
    VI spdCond, bndCond, clfCond, slfCond;
    long uncImpulseSet = 0;
};

// ------------------------------------------------------------------ generator
static void genMatrix(Rng& r, Prob& P, int rankMode /*0 full,1 deficient,2 duplicate rows,3 easy*/) {
    const int m = P.m;
    int n;
    if (rankMode == 1) n = std::max(1, m - r.integer(1, std::max(1, m / 2)));
    else n = m + r.integer(1, 6);
    P.ncolG = n;
    std::vector<VD> G(m, VD(n));
    for (int i = 0; i < m; ++i) {
        double s = r.logUni(0.5, 3.0);
        for (int j = 0; j < n; ++j) G[i][j] = s * r.normal() / std::sqrt((double)n) * 1.5;
    }
    if (rankMode == 2 && m >= 2) {           // redundant constraints: some rows are copies / combinations of others
        int nd = r.integer(1, std::max(1, m / 3));
        for (int k = 0; k < nd; ++k) {
            int dst = r.integer(0, m - 1), src = r.integer(0, m - 1);
            if (dst == src) continue;
            double f = r.coin(0.5) ? 1.0 : r.uni(0.5, 2.0);
            for (int j = 0; j < n; ++j) G[dst][j] = f * G[src][j];
        }
    }
    P.A.assign((size_t)m * m, 0.0);
    for (int i = 0; i < m; ++i) for (int j = i; j < m; ++j) {
        LD s = 0; for (int k = 0; k < n; ++k) s += (LD)G[i][k] * G[j][k];
        double v = (double)s;
        if (rankMode == 3 && i != j) v *= 0.15 / std::max(1, m - 1) * 4;   // strongly diagonally dominant
        P.A[(size_t)j * m + i] = v; P.A[(size_t)i * m + j] = v;
    }
    if (rankMode == 3) for (int i = 0; i < m; ++i) P.A[(size_t)i * m + i] += 1.0;
    P.rankClass = rankMode == 0 ? "full" : rankMode == 1 ? "deficient" : rankMode == 2 ? "duprows" : "easy";
}

static VI pickRows(VI& freeRows, int n) { VI v; for (int k = 0; k < n && !freeRows.empty(); ++k) { v.push_back(freeRows.back()); freeRows.pop_back(); } return v; }

// y = (A+D) x  in long double
static std::vector<LD> mulAD(const Prob& P, const std::vector<LD>& x, bool withD = true) {
    const int m = P.m; std::vector<LD> y(m, 0);
    for (int j = 0; j < m; ++j) { if (x[j] == 0) continue; for (int i = 0; i < m; ++i) y[i] += (LD)P.a(i, j) * x[j]; }
    if (withD) for (int i = 0; i < m; ++i) y[i] += (LD)P.D[i] * x[i];
    return y;
}

static void unitDir(Rng& r, double d[2]) { double t = r.uni(0, 6.283185307179586); d[0] = std::cos(t); d[1] = std::sin(t); }

static Prob generate(Rng& r, int klass, int solver, long ci) {
    Prob P;
    // ---- element counts per class
    int nUnc = 0, nCon = 0, nSpd = 0, nBnd = 0, nClf = 0, nSlf = 0, nIdle = r.integer(0, 2);
    double pFric = 0, pKnown = 0, pObs = 0.1;
    switch (klass) {
    case K_BILATERAL: case K_UNCOND: case K_EASY: nUnc = r.integer(1, 6); nIdle = r.integer(0, 4); break;
    case K_FRICTIONLESS: nUnc = r.integer(0, 2); nCon = r.integer(1, 8); break;
    case K_FRICTION_DESIGNED: case K_FRICTION_GENERIC: nUnc = r.integer(0, 2); nCon = r.integer(1, 6); pFric = 0.8; break;
    case K_STICKSLIP: nUnc = r.integer(0, 1); nCon = r.integer(1, 4); pFric = 1.0; pObs = 0; pKnown = r.coin(0.3) ? 0.4 : 0; break;
    case K_EXPANSION: nUnc = r.integer(0, 1); nCon = r.integer(1, 6); pFric = 0.6; pKnown = 0.5; break;
    case K_BOUNDED: nUnc = r.integer(0, 3); nBnd = r.integer(1, 4); break;
    case K_LTDFRICTION: nUnc = r.integer(1, 3); nClf = r.integer(0, 2); nSlf = r.integer(0, 2); if (nClf + nSlf == 0) nSlf = 1; break;
    case K_UNISPEED: nUnc = r.integer(0, 2); nSpd = r.integer(1, 3); break;
    case K_MIXED: nUnc = r.integer(1, 3); nCon = r.integer(1, 4); pFric = 0.6; pKnown = 0.2; nBnd = r.integer(0, 2); nSlf = r.integer(0, 1); nClf = r.integer(0, 1); break;
    }
    // ---- rows
    std::vector<int> uncSizes;
    int m = nIdle;
    for (int k = 0; k < nUnc; ++k) { int s = (klass == K_BILATERAL) ? 1 : r.integer(1, r.coin(0.2) ? 6 : 3); uncSizes.push_back(s); m += s; }
    std::vector<Con> cons(nCon);
    const bool plusPositive = solver == S_PLUS && r.coin(0.7);   // PLUS: most problems keep frictional contacts at sign +1 (see class negative-sign-friction)
    for (auto& c : cons) {
        c.sign = r.coin(0.5) ? 1 : -1; c.mu = r.coin(0.1) ? 0.0 : r.uni(0.05, 1.2);
        bool fr = r.coin(pFric);
        double u = r.uni();
        c.type = u < pKnown ? IS::Known : (u < pKnown + pObs ? IS::Observing : IS::Participating);
        if (fr && plusPositive) c.sign = 1;
        m += 1 + (fr ? 2 : 0); if (fr) c.Fk.assign(2, -1);
    }
    std::vector<int> clfF(nClf), slfF(nSlf);
    for (auto& f : clfF) { f = r.integer(1, 3); m += f; }
    for (auto& f : slfF) { f = r.integer(1, 3); m += f; }
    m += nSpd + nBnd;
    if (m > 30) { // trim idle rows first; the element counts above keep m <= ~45 worst case, so resample smaller
        return generate(r, klass, solver, ci);
    }
    P.m = m;
    VI freeRows(m); for (int i = 0; i < m; ++i) freeRows[i] = i;
    P.shuffled = r.coin(0.7);
    if (P.shuffled) for (int i = m - 1; i > 0; --i) std::swap(freeRows[i], freeRows[r.integer(0, i)]);
    else std::reverse(freeRows.begin(), freeRows.end());
    for (int s : uncSizes) P.unc.push_back(pickRows(freeRows, s));
    for (auto& c : cons) { c.Nk = pickRows(freeRows, 1)[0]; if (!c.Fk.empty()) c.Fk = pickRows(freeRows, 2); P.con.push_back(c); }
    for (int k = 0; k < nSpd; ++k) P.spd.push_back(Spd{pickRows(freeRows, 1)[0], r.coin(0.5) ? 1 : -1});
    for (int k = 0; k < nBnd; ++k) { double a = r.sym(1.5), b = r.sym(1.5); if (a > b) std::swap(a, b); if (r.coin(0.1)) b = a; P.bnd.push_back(Bnd{pickRows(freeRows, 1)[0], a, b}); }
    VI uncRows; for (auto& u : P.unc) for (int x : u) uncRows.push_back(x);
    for (int k = 0; k < nClf; ++k) {
        Clf f; f.Fk = pickRows(freeRows, clfF[k]); f.mu = r.uni(0.05, 1.0);
        int nn = std::min((int)uncRows.size(), r.integer(1, 3));
        VI tmp = uncRows; for (int q = 0; q < nn; ++q) { int j = r.integer(0, (int)tmp.size() - 1); f.Nk.push_back(tmp[j]); tmp.erase(tmp.begin() + j); }
        P.clf.push_back(f);
    }
    for (int k = 0; k < nSlf; ++k) { Slf f; f.Fk = pickRows(freeRows, slfF[k]); f.mu = r.uni(0.05, 1.0); f.knownN = r.coin(0.1) ? 0.0 : r.uni(0.1, 2.0); P.slf.push_back(f); }

    // ---- participating / expanding
    for (auto& u : P.unc) for (int x : u) P.part.push_back(x);
    for (auto& c : P.con) {
        if (c.type == IS::Observing) continue;
        if (c.type == IS::Participating) P.part.push_back(c.Nk);
        for (int x : c.Fk) P.part.push_back(x);
        if (c.type == IS::Known) P.expanding.push_back(c.Nk);
    }
    for (auto& s : P.spd) P.part.push_back(s.ix);
    for (auto& b : P.bnd) P.part.push_back(b.ix);
    for (auto& f : P.slf) for (int x : f.Fk) P.part.push_back(x);
    for (auto& f : P.clf) for (int x : f.Fk) P.part.push_back(x);
    if (klass == K_BILATERAL && r.coin(0.5)) {   // participation subset of the bilateral rows
        VI keep; for (int x : P.part) if (r.coin(0.7)) keep.push_back(x);
        P.part = keep; P.unc.clear(); for (int x : keep) P.unc.push_back(VI(1, x));
    }
    if (r.coin(0.5)) for (int i = (int)P.part.size() - 1; i > 0; --i) std::swap(P.part[i], P.part[r.integer(0, i)]);

    // ---- matrix, D
    int rankMode = klass == K_EASY ? 3 : ((klass == K_FRICTION_GENERIC || klass == K_STICKSLIP) ? 0 : (int)((ci / (2 * K_COUNT)) % 3));
    genMatrix(r, P, rankMode);
    P.D.assign(m, 0.0);
    int dMode = (int)((ci / (2 * K_COUNT * 3)) % 3);      // 0: D=0, 1: some rows, 2: all rows
    if (klass == K_FRICTION_GENERIC || klass == K_STICKSLIP) dMode = (solver == S_PGS && r.coin(0.3)) ? 1 : 0;
    if (dMode) for (int i = 0; i < m; ++i) if (dMode == 2 || r.coin(0.4)) P.D[i] = r.logUni(1e-3, 2.0);
    bool anyD = false; for (double d : P.D) anyD |= d > 0;
    P.dClass = anyD ? "Dpos" : "D0";
    if (klass == K_BILATERAL && !anyD) P.passD = r.coin(0.5);

    // ---- solver parameters
    static const double rolls[3] = {1e-3, 1e-2, 1e-1};
    P.maxRoll = rolls[r.integer(0, 2)];
    if (solver == S_PGS && r.coin(0.4)) { P.ctol = 1e-9; P.maxIters = 3000; }
    else if (solver == S_PGS && r.coin(0.3)) P.maxIters = 1000;

    // ---- right-hand side
    const bool applied = (klass != K_BILATERAL) && (r.coin(0.5) || klass == K_STICKSLIP);
    P.piExpand.assign(m, 0.0);
    for (auto& c : P.con) if (c.type == IS::Known) P.piExpand[c.Nk] = -c.sign * r.uni(0.2, 2.0);
    P.designed = !(rankMode == 0 || rankMode == 3) || klass == K_FRICTION_DESIGNED || r.coin(0.3);
    if (klass == K_FRICTION_GENERIC || klass == K_STICKSLIP) P.designed = false;
    VD tot(m, 0.0), start(m, 0.0); std::vector<char> startFixed(m, 0);
    if (!P.designed) {
        for (int i = 0; i < m; ++i) tot[i] = r.normal() * 1.5;
        // contacts mostly approaching so that something happens
        for (auto& c : P.con) if (r.coin(0.8)) tot[c.Nk] = -c.sign * std::fabs(tot[c.Nk]);
    } else {
        std::vector<LD> pis(m, 0), vs(m, 0);
        std::map<int, std::pair<double, double>> slideDir;      // PLUS-model sliding contacts: first friction row -> direction
        for (int x : uncRows) pis[x] = r.normal();
        for (auto& c : P.con) {
            if (c.type == IS::Observing) continue;
            bool active = c.type == IS::Participating && r.coin(0.7);
            if (c.type == IS::Participating) { if (active) pis[c.Nk] = -c.sign * r.uni(0.2, 2.0); else vs[c.Nk] = c.sign * r.uni(0.1, 1.0); }
            const double N = std::fabs((double)pis[c.Nk] + P.piExpand[c.Nk]);
            if (c.Fk.empty()) continue;
            double d[2]; unitDir(r, d);
            const bool sliding = r.coin(0.5) || (solver == S_PLUS && !applied);
            if (N == 0) { for (int q = 0; q < 2; ++q) vs[c.Fk[q]] = r.sym(1.0); continue; }   // contact off: free slip
            if (!sliding) {
                double rho = r.uni(0, 0.8);
                for (int q = 0; q < 2; ++q) { pis[c.Fk[q]] = rho * c.mu * N * d[q]; vs[c.Fk[q]] = 0; }
                if (solver == S_PLUS) for (int q = 0; q < 2; ++q) { start[c.Fk[q]] = r.sym(0.3) * P.maxRoll; startFixed[c.Fk[q]] = 1; }
            } else {
                for (int q = 0; q < 2; ++q) pis[c.Fk[q]] = c.mu * N * d[q];
                if (solver == S_PGS) { double al = r.uni(0.1, 1.5); for (int q = 0; q < 2; ++q) vs[c.Fk[q]] = al * d[q]; }
                else { for (int q = 0; q < 2; ++q) vs[c.Fk[q]] = 1e300; slideDir[c.Fk[0]] = std::make_pair(d[0], d[1]); }   // fixed below (PLUS model: initial slip along d)
            }
        }
        for (auto& s : P.spd) { if (r.coin(0.6)) pis[s.ix] = -s.sign * r.uni(0.2, 2.0); else vs[s.ix] = s.sign * r.uni(0.1, 1.0); }
        for (auto& b : P.bnd) {
            int w = r.integer(0, 2);
            if (w == 0 || b.lb == b.ub) { pis[b.ix] = b.lb + (b.ub - b.lb) * r.uni(0.1, 0.9); }
            else if (w == 1) { pis[b.ix] = b.ub; vs[b.ix] = r.uni(0.1, 1.0); }
            else { pis[b.ix] = b.lb; vs[b.ix] = -r.uni(0.1, 1.0); }
        }
        auto ltd = [&](const VI& Fk, double lim) {
            VD d(Fk.size()); double nn = 0; for (auto& x : d) { x = r.normal(); nn += x * x; } nn = std::sqrt(nn); if (nn == 0) { d[0] = 1; nn = 1; }
            for (auto& x : d) x /= nn;
            if (lim == 0) { for (size_t q = 0; q < Fk.size(); ++q) vs[Fk[q]] = r.sym(1.0); return; }
            if (r.coin(0.5)) { double rho = r.uni(0, 0.8); for (size_t q = 0; q < Fk.size(); ++q) pis[Fk[q]] = rho * lim * d[q]; }
            else { double al = r.uni(0.1, 1.5); for (size_t q = 0; q < Fk.size(); ++q) { pis[Fk[q]] = lim * d[q]; vs[Fk[q]] = al * d[q]; } }
        };
        for (auto& f : P.slf) ltd(f.Fk, f.mu * f.knownN);
        for (auto& f : P.clf) { LD n2 = 0; for (int x : f.Nk) n2 += pis[x] * pis[x]; ltd(f.Fk, f.mu * (double)std::sqrt((double)n2)); }
        std::vector<LD> pe(m); for (int i = 0; i < m; ++i) pe[i] = pis[i] + (LD)P.piExpand[i];
        // PLUS ignores D in solve() (finding); the designed solution uses the documented (A+D).
        std::vector<LD> y = mulAD(P, pe, true);
        std::vector<char> isPart(m, 0); for (int x : P.part) isPart[x] = 1;
        for (int i = 0; i < m; ++i) {
            if (vs[i] == 1e300) continue;
            tot[i] = (double)(vs[i] + y[i]);
            if (!isPart[i]) tot[i] += r.normal();
        }
        // PLUS sliding rows: initial slip beta*d with beta large enough that the direction change stays < 30 deg
        for (auto& c : P.con) if (!c.Fk.empty() && vs[c.Fk[0]] == 1e300) {
            double yn = std::hypot((double)y[c.Fk[0]], (double)y[c.Fk[1]]);
            const double dd[2] = {slideDir[c.Fk[0]].first, slideDir[c.Fk[0]].second};
            double beta = 3 * yn + 3 * P.maxRoll + r.uni(0.5, 2.0);
            for (int q = 0; q < 2; ++q) { double dq = dd[q]; tot[c.Fk[q]] = beta * dq; start[c.Fk[q]] = beta * dq; startFixed[c.Fk[q]] = 1; }
        }
    }
    if (klass == K_STICKSLIP) for (auto& c : P.con) for (int q = 0; q < 2; ++q) {   // sticking initially; applied push of random size
        start[c.Fk[q]] = r.sym(0.5) * P.maxRoll; startFixed[c.Fk[q]] = 1; tot[c.Fk[q]] = r.normal() * (r.coin(0.5) ? 0.3 : 3.0);
    }
    // split the total into verrStart (+ verrApplied)
    P.verrStart.assign(m, 0.0);
    if (applied) {
        P.verrApplied.assign(m, 0.0);
        for (int i = 0; i < m; ++i) {
            double s = startFixed[i] ? start[i] : (r.coin(0.3) ? tot[i] : tot[i] * r.uni(0, 1) + r.sym(0.5));
            P.verrStart[i] = s; P.verrApplied[i] = tot[i] - s;
        }
    } else P.verrStart = tot;
    return P;
}

// ------------------------------------------------------------------ running the library
static void callSolver(const Prob& P, int solver, bool bilateral, Out& O) {
    const int m = P.m;
    std::unique_ptr<IS> S;
    if (solver == S_PLUS) S.reset(new PLUSImpulseSolver(P.maxRoll)); else S.reset(new PGSImpulseSolver(P.maxRoll));
    if (P.ctol > 0) S->setConvergenceTol(P.ctol);
    if (P.maxIters > 0) S->setMaxIterations(P.maxIters);
    Matrix A(m, m); for (int j = 0; j < m; ++j) for (int i = 0; i < m; ++i) A(i, j) = P.a(i, j);
    Vector D(P.passD ? m : 0); for (int i = 0; i < D.size(); ++i) D[i] = P.D[i];
    Array_<MultiplierIndex> part, expanding;
    for (int x : P.part) part.push_back(MultiplierIndex(x));
    for (int x : P.expanding) expanding.push_back(MultiplierIndex(x));
    Vector pi;
    O.called = true;
    if (bilateral) {
        Vector rhs(m); for (int i = 0; i < m; ++i) rhs[i] = P.verrStart[i];
        O.ret = S->solveBilateral(part, A, D, rhs, pi);
        O.pi.assign(pi.size(), 0); for (int i = 0; i < pi.size(); ++i) O.pi[i] = pi[i];
        O.verrStart.assign(m, 0); for (int i = 0; i < m; ++i) O.verrStart[i] = rhs[i];
        return;
    }
    Vector piE(m), vs(m), va((int)P.verrApplied.size());
    for (int i = 0; i < m; ++i) { piE[i] = P.piExpand[i]; vs[i] = P.verrStart[i]; }
    for (int i = 0; i < va.size(); ++i) va[i] = P.verrApplied[i];
    Array_<IS::UncondRT> unc; Array_<IS::UniContactRT> uni; Array_<IS::UniSpeedRT> spd; Array_<IS::BoundedRT> bnd;
    Array_<IS::ConstraintLtdFrictionRT> clf; Array_<IS::StateLtdFrictionRT> slf;
    for (auto& u : P.unc) { IS::UncondRT rt; for (int x : u) rt.m_mults.push_back(MultiplierIndex(x)); unc.push_back(rt); }
    for (auto& c : P.con) {
        IS::UniContactRT rt; rt.m_sign = c.sign; rt.m_Nk = MultiplierIndex(c.Nk);
        for (int x : c.Fk) rt.m_Fk.push_back(MultiplierIndex(x));
        rt.m_type = (IS::ContactType)c.type; rt.m_effCOR = 0; rt.m_effMu = c.Fk.empty() ? NaN : c.mu;
        uni.push_back(rt);
    }
    for (auto& s : P.spd) spd.push_back(IS::UniSpeedRT(MultiplierIndex(s.ix), s.sign));
    for (auto& b : P.bnd) bnd.push_back(IS::BoundedRT(MultiplierIndex(b.ix), b.lb, b.ub));
    for (auto& f : P.clf) { Array_<MultiplierIndex> F, N; for (int x : f.Fk) F.push_back(MultiplierIndex(x)); for (int x : f.Nk) N.push_back(MultiplierIndex(x)); clf.push_back(IS::ConstraintLtdFrictionRT(F, N, f.mu)); }
    for (auto& f : P.slf) { Array_<MultiplierIndex> F; for (int x : f.Fk) F.push_back(MultiplierIndex(x)); slf.push_back(IS::StateLtdFrictionRT(F, f.knownN, f.mu)); }
    O.ret = S->solve(0, part, A, D, expanding, piE, vs, va, pi, unc, uni, spd, bnd, clf, slf);
    O.pi.assign(pi.size(), 0); for (int i = 0; i < pi.size(); ++i) O.pi[i] = pi[i];
    O.verrStart.assign(vs.size(), 0); for (int i = 0; i < vs.size(); ++i) O.verrStart[i] = vs[i];
    O.verrApplied.assign(va.size(), 0); for (int i = 0; i < va.size(); ++i) O.verrApplied[i] = va[i];
    O.piExpand.assign(piE.size(), 0); for (int i = 0; i < piE.size(); ++i) O.piExpand[i] = piE[i];
    for (auto& rt : uni) { Out::C c; c.cond = rt.m_contactCond; c.fcond = rt.m_frictionCond; c.sv[0] = rt.m_slipVel[0]; c.sv[1] = rt.m_slipVel[1]; c.smag = rt.m_slipMag;
        for (int q = 0; q < 3; ++q) c.imp[q] = rt.m_impulse[q]; O.con.push_back(c); }
    for (auto& rt : spd) O.spdCond.push_back(rt.m_speedCond);
    for (auto& rt : bnd) O.bndCond.push_back(rt.m_boundedCond);
    for (auto& rt : clf) O.clfCond.push_back(rt.m_frictionCond);
    for (auto& rt : slf) O.slfCond.push_back(rt.m_frictionCond);
    for (auto& rt : unc) O.uncImpulseSet += (long)rt.m_impulse.size();
}

static void runSolver(const Prob& P, int solver, bool bilateral, Out& O) {
    try { callSolver(P, solver, bilateral, O); }
    catch (const std::exception& e) { O.exc = e.what(); if (O.exc.empty()) O.exc = "?"; }
}

// forked execution (PLUS with bounded rows may crash or never return): results come back through a pipe
static void flat(const Out& O, VD& f) {
    f.clear(); f.push_back(O.ret); f.push_back(O.exc.empty() ? 0 : 1);
    auto pv = [&](const VD& v) { f.push_back((double)v.size()); f.insert(f.end(), v.begin(), v.end()); };
    pv(O.pi); pv(O.verrStart); pv(O.verrApplied); pv(O.piExpand);
    f.push_back((double)O.con.size()); for (auto& c : O.con) { f.push_back(c.cond); f.push_back(c.fcond); f.push_back(c.sv[0]); f.push_back(c.sv[1]); f.push_back(c.smag); for (int q = 0; q < 3; ++q) f.push_back(c.imp[q]); }
    auto pi_ = [&](const VI& v) { f.push_back((double)v.size()); for (int x : v) f.push_back(x); };
    pi_(O.spdCond); pi_(O.bndCond); pi_(O.clfCond); pi_(O.slfCond);
}
static bool unflat(const VD& f, Out& O) {
    size_t k = 0; auto get = [&]() { return k < f.size() ? f[k++] : std::nan(""); };
    if (f.size() < 2) return false;
    O.ret = get() != 0; if (get() != 0) O.exc = "exception in child";
    auto gv = [&](VD& v) { int n = (int)get(); v.resize(n); for (auto& x : v) x = get(); };
    gv(O.pi); gv(O.verrStart); gv(O.verrApplied); gv(O.piExpand);
    int nc = (int)get(); O.con.resize(nc); for (auto& c : O.con) { c.cond = (int)get(); c.fcond = (int)get(); c.sv[0] = get(); c.sv[1] = get(); c.smag = get(); for (int q = 0; q < 3; ++q) c.imp[q] = get(); }
    auto gi = [&](VI& v) { int n = (int)get(); v.resize(n); for (auto& x : v) x = (int)get(); };
    gi(O.spdCond); gi(O.bndCond); gi(O.clfCond); gi(O.slfCond);
    return k == f.size();
}
static void runSolverForked(const Prob& P, int solver, Out& O, int cpuSeconds) {
    int fd[2]; if (pipe(fd) != 0) { O.exc = "pipe failed"; return; }
    fflush(stdout); fflush(stderr);
    pid_t pid = fork();
    if (pid < 0) { O.exc = "fork failed"; close(fd[0]); close(fd[1]); return; }
    if (pid == 0) {
        close(fd[0]); vh::g_crashLine[0] = 0;
        signal(SIGSEGV, SIG_DFL); signal(SIGBUS, SIG_DFL); signal(SIGABRT, SIG_DFL);   // a wild read just ends the child
        struct rlimit rl; rl.rlim_cur = cpuSeconds; rl.rlim_max = cpuSeconds + 1; setrlimit(RLIMIT_CPU, &rl);
        Out o; runSolver(P, solver, false, o);
        VD f; flat(o, f);
        size_t n = f.size() * sizeof(double), w = 0; const char* p = (const char*)f.data();
        while (w < n) { ssize_t q = write(fd[1], p + w, n - w); if (q <= 0) break; w += (size_t)q; }
        _exit(0);
    }
    close(fd[1]);
    VD f; ssize_t q; std::string raw;
    char cb[4096]; while ((q = read(fd[0], cb, sizeof cb)) > 0) raw.append(cb, (size_t)q);
    close(fd[0]);
    int st = 0; waitpid(pid, &st, 0);
    O.called = true;
    if (WIFSIGNALED(st)) { O.died = WTERMSIG(st); return; }
    f.resize(raw.size() / sizeof(double)); memcpy(f.data(), raw.data(), f.size() * sizeof(double));
    if (!unflat(f, O)) O.exc = "child result unreadable";
}

// ------------------------------------------------------------------ small symmetric eigen-solver (cyclic Jacobi)
static void jacobiEig(std::vector<LD>& M, int n, std::vector<LD>& w, std::vector<LD>& V) {
    V.assign((size_t)n * n, 0); for (int i = 0; i < n; ++i) V[(size_t)i * n + i] = 1;
    auto a = [&](int i, int j) -> LD& { return M[(size_t)i * n + j]; };
    for (int sweep = 0; sweep < 60; ++sweep) {
        LD off = 0, dg = 0; for (int i = 0; i < n; ++i) { dg += a(i, i) * a(i, i); for (int j = i + 1; j < n; ++j) off += a(i, j) * a(i, j); }
        if (off <= 1e-38L * dg || off == 0) break;
        for (int p = 0; p < n; ++p) for (int q = p + 1; q < n; ++q) {
            if (a(p, q) == 0) continue;
            LD th = (a(q, q) - a(p, p)) / (2 * a(p, q));
            LD t = (th >= 0 ? 1 : -1) / (std::fabs(th) + std::sqrt(th * th + 1));
            LD c = 1 / std::sqrt(t * t + 1), s = t * c;
            for (int k = 0; k < n; ++k) { LD x = a(k, p), y = a(k, q); a(k, p) = c * x - s * y; a(k, q) = s * x + c * y; }
            for (int k = 0; k < n; ++k) { LD x = a(p, k), y = a(q, k); a(p, k) = c * x - s * y; a(q, k) = s * x + c * y; }
            for (int k = 0; k < n; ++k) { LD x = V[(size_t)k * n + p], y = V[(size_t)k * n + q]; V[(size_t)k * n + p] = c * x - s * y; V[(size_t)k * n + q] = s * x + c * y; }
        }
    }
    w.resize(n); for (int i = 0; i < n; ++i) w[i] = a(i, i);
}

// ------------------------------------------------------------------ oracles
// Keys.  <condition>:<solver>:<row kind>[:<input class>]
//  * hard conditions (inequalities the algorithms enforce explicitly; bookkeeping) never carry an input class;
//  * PLUS "soft" conditions need the Newton iteration of every sliding interval to have converged, which the
//    solver does not report. They keep their specific key only in the benign input class (full-rank A, every
//    frictional Participating contact has sign +1, no contact ends Impending, one proven sliding interval);
//    otherwise they map to ONE key per input class, "soft-conditions:PLUS:solve:<class>", class = first of
//    rank-deficient-A, negative-sign-friction, impending-slip, multi-interval (condition name in the witness);
//  * every PLUS::solve condition that involves the resulting velocity when D != 0 maps to "eq-with-D:PLUS:solve"
//    (one root cause: D is ignored).
struct Judge {
    Ctx& c; const Prob& P; const Out& O; int solver; int klass; bool bilateral;
    std::string sn, plusClass;
    double* maxSoft = nullptr;      // largest residual/tolerance over the soft conditions of this case
    bool skipSoft = false;          // PLUS, not designed, some contact slides initially: existence of a solution of the
                                    // solver's frozen-direction sliding model is not guaranteed -> soft conditions not judged
    void chk(const std::string& key, double resid, double tol, const std::function<Json()>& wit) const {
        if (key.empty()) { c.obs("PLUS:soft-condition-not-judged:generic-initial-sliding"); return; }
        if (tol > 0) *maxSoft = std::max(*maxSoft, resid / tol); else if (resid > 0) *maxSoft = 1e300;
        c.check(key, resid, tol, wit);
    }
    mutable std::string lastCond;   // condition name of the most recent soft key (goes into the witness of collapsed keys)
    std::vector<LD> vf;         // harness-recomputed resulting velocities  tot_in - (A+D)(pi+piE)
    VD tolEq;                   // per-row tolerance for "this row's equation is enforced"
    VD rowAbs;                  // sum of |terms| per row (rounding scale)
    std::vector<char> isPart;
    double ctol;
    Json base() const {
        Json w = Json::obj(); w.set("solver", sn).set("klass", KN[klass]).set("m", P.m).set("p", (int)P.part.size()).set("rank", P.rankClass)
            .set("D", P.dClass).set("designed", P.designed).set("applied", !P.verrApplied.empty()).set("maxRoll", P.maxRoll).set("ctol", ctol).set("ret", O.ret);
        if (!plusClass.empty()) w.set("plusClass", plusClass);
        if (!lastCond.empty()) w.set("condition", lastCond);
        return w;
    }
    // soft condition on impulses only
    std::string softKey(const std::string& cond, const std::string& kind) const {
        lastCond.clear();
        if (solver == S_PLUS && skipSoft) return std::string();
        if (solver == S_PLUS && !plusClass.empty()) { lastCond = cond + ":" + kind; return "soft-conditions:PLUS:solve:" + plusClass; }
        return cond + ":" + sn + ":" + kind;
    }
    // PGS: stationarity of an element the solver reports as clamped (off / at a bound / sliding). The solver's convergence
    // measure leaves clamped rows out, so it can report convergence while they are still moving: one key.
    std::string clampKey(const std::string& cond, const std::string& kind) const {
        if (solver == S_PGS) { lastCond = cond + ":" + kind; return "converged-with-nonstationary-clamped-row:PGS:solve"; }
        return velKey(cond, kind);
    }
    // soft condition that involves the resulting velocity
    std::string velKey(const std::string& cond, const std::string& kind) const {
        if (solver == S_PLUS && skipSoft) return std::string();
        if (solver == S_PLUS && !bilateral && P.dpos()) { lastCond = cond + ":" + kind; return "eq-with-D:PLUS:solve"; }
        return softKey(cond, kind);
    }
};

static void judge(Ctx& c, const Prob& P, const Out& O, int solver, int klass, bool bilateral, double& maxSoftRatio) {
    const int m = P.m; const int p = (int)P.part.size();
    Judge J{c, P, O, solver, klass, bilateral};
    J.maxSoft = &maxSoftRatio;
    J.sn = SN[solver];
    const std::string sn = J.sn, op = bilateral ? "solveBilateral" : "solve";
    J.ctol = P.ctol > 0 ? P.ctol : (solver == S_PLUS ? 1e-10 : 1e-6);
    auto W = [&]() { return J.base(); };

    if (!O.exc.empty()) { c.viol("exception:" + sn + ":" + op + ":" + vh::normMsg(O.exc), W().set("what", vh::firstLine(O.exc, 400))); return; }
    // ---- shape and finiteness
    if (!c.require("result-shape:" + sn + ":" + op, (int)O.pi.size() == m && (int)O.verrStart.size() == m, W)) return;
    bool finite = true; for (double x : O.pi) finite &= std::isfinite(x); for (double x : O.verrStart) finite &= std::isfinite(x);
    if (!c.require("finite:" + sn + ":" + op, finite, [&] { return W().set("pi", vh::jvec(O.pi)).set("verr", vh::jvec(O.verrStart)); })) return;

    J.isPart.assign(m, 0); for (int x : P.part) J.isPart[x] = 1;
    // ---- non-participating multipliers are zero
    { double worst = 0; for (int i = 0; i < m; ++i) if (!J.isPart[i]) worst = std::max(worst, std::fabs(O.pi[i]));
      c.check("nonparticipating-pi-zero:" + sn + ":" + op, worst, 0, [&] { return W().set("pi", vh::jvec(O.pi)).set("part", Json::fromRange(P.part.begin(), P.part.end())); }); }

    // ---- resulting velocities recomputed by the harness
    std::vector<LD> pe(m), tot(m);
    for (int i = 0; i < m; ++i) { pe[i] = (LD)O.pi[i] + (bilateral ? 0 : (LD)P.piExpand[i]); tot[i] = (LD)P.verrStart[i] + (P.verrApplied.empty() ? 0 : (LD)P.verrApplied[i]); }
    std::vector<LD> y = mulAD(P, pe, true);
    J.vf.resize(m); J.rowAbs.assign(m, 0); J.tolEq.assign(m, 0);
    for (int i = 0; i < m; ++i) {
        J.vf[i] = tot[i] - y[i];
        LD s = std::fabs(P.verrStart[i]) + (P.verrApplied.empty() ? 0 : std::fabs(P.verrApplied[i]));
        for (int j = 0; j < m; ++j) s += std::fabs((LD)P.a(i, j) * pe[j]);
        s += std::fabs((LD)P.D[i] * pe[i]);
        J.rowAbs[i] = (double)s;
    }
    auto vfD = [&](int i) { return (double)J.vf[i]; };
    auto diag = [&](int i) { return P.a(i, i) + P.D[i]; };

    // ---- PGS: projected Gauss-Seidel step that each *clamped* element would take next from the returned point.
    // The solver's convergence measure leaves out the rows it clamped in the sweep, so their last motion is not
    // bounded by ctol; the step they would take next (measured here) estimates it and enters the tolerance of the
    // enforced rows below.
    VD natStep(m, 0.0);
    if (solver == S_PGS && !bilateral) {
        auto cone = [&](const VI& Fk, double lim, int cond) {
            if (cond != IS::Sliding) return;
            VD cand(Fk.size()); double n2 = 0;
            for (size_t q = 0; q < Fk.size(); ++q) { double dd = diag(Fk[q]); cand[q] = O.pi[Fk[q]] + (dd > 0 ? vfD(Fk[q]) / dd : 0); n2 += cand[q] * cand[q]; }
            double nn = std::sqrt(n2), sc = nn > lim && nn > 0 ? lim / nn : 1;
            for (size_t q = 0; q < Fk.size(); ++q) natStep[Fk[q]] = std::fabs(sc * cand[q] - O.pi[Fk[q]]);
        };
        for (size_t k = 0; k < P.con.size(); ++k) {
            const Con& cc = P.con[k]; if (cc.type == IS::Observing) continue;
            if (cc.type == IS::Participating && O.con[k].cond == IS::UniOff) { double dd = diag(cc.Nk); double cand = dd > 0 ? vfD(cc.Nk) / dd : 0; if (cc.sign * cand < 0) natStep[cc.Nk] = std::fabs(cand); }
            if (!cc.Fk.empty()) cone(cc.Fk, cc.mu * std::fabs(O.pi[cc.Nk] + P.piExpand[cc.Nk]), O.con[k].fcond);
        }
        for (size_t k = 0; k < P.bnd.size(); ++k) { const Bnd& b = P.bnd[k]; if (O.bndCond[k] == IS::Engaged) continue; double dd = diag(b.ix);
            double cand = O.pi[b.ix] + (dd > 0 ? vfD(b.ix) / dd : 0); cand = std::min(b.ub, std::max(b.lb, cand)); natStep[b.ix] = std::fabs(cand - O.pi[b.ix]); }
        for (size_t k = 0; k < P.slf.size(); ++k) cone(P.slf[k].Fk, P.slf[k].mu * P.slf[k].knownN, O.slfCond[k]);
        for (size_t k = 0; k < P.clf.size(); ++k) { double n2 = 0; for (int x : P.clf[k].Nk) n2 += O.pi[x] * O.pi[x]; cone(P.clf[k].Fk, P.clf[k].mu * std::sqrt(n2), O.clfCond[k]); }
    }
    // per-row enforcement tolerance (a-priori model, see DESIGN 1.4):
    //  PLUS: Newton stops at ||err||_2 <= ctol on the active rows; the last interval leaves -err (allowance x100).
    //  PGS : stops when the RMS over p rows of the *pre-update* row errors is < ctol; rows updated later in the
    //        same sweep move row r by at most sum_c |A_rc| * sor*|e_c|/(A_cc+D_c), |e_c| <= ctol*sqrt(p), plus the
    //        motion of the clamped rows (measured above); allowance x10 on the model, x3 on the measured motion.
    // tolRow(i, excl): tolerance of row i, leaving out the motion of the rows in `excl` (the element's own rows when
    // the condition being judged *is* the stationarity of that clamped element)
    auto tolRow = [&](int i, const VI& excl) {
        double round = 200 * EPS * (m + 4) * J.rowAbs[i];
        if (solver == S_PLUS) return 100 * J.ctol + round;
        double g = 1, cl = 0;
        for (int x : P.part) { double dd = diag(x); if (dd > 0) g += 1.2 * std::fabs(P.a(i, x)) / dd;
            if (std::find(excl.begin(), excl.end(), x) == excl.end()) cl += std::fabs(P.a(i, x)) * natStep[x]; }
        return 10 * J.ctol * std::sqrt((double)std::max(1, p)) * g + 3 * cl + round;
    };
    for (int i = 0; i < m; ++i) J.tolEq[i] = tolRow(i, VI());

    // ---- returned verr equals input - (A+D)(pi+piExpand)
    if (!bilateral) {
        double worst = 0; int wi = -1;
        for (int i = 0; i < m; ++i) { double tol = 64 * EPS * (m + 4) * J.rowAbs[i] + 1e-300; double q = std::fabs((double)((LD)O.verrStart[i] - J.vf[i])) / tol; if (q > worst) { worst = q; wi = i; } }
        const std::string key = (solver == S_PLUS && P.dpos()) ? std::string("eq-with-D:PLUS:solve") : "verr-recompute:" + sn + ":solve";
        c.check(key, worst, 1.0, [&] { return W().set("row", wi).set("returned", wi >= 0 ? O.verrStart[wi] : 0.0).set("recomputed", wi >= 0 ? vfD(wi) : 0.0).set("D_row", wi >= 0 ? P.D[wi] : 0.0).set("pi_row", wi >= 0 ? O.pi[wi] : 0.0); });
    }

    const bool judged = (solver == S_PLUS) || O.ret;       // PGS: non-convergence is counted, not judged
    if (solver == S_PGS) {
        c.obs(std::string("PGS:") + op + (O.ret ? ":converged" : ":not-converged"));
        if (klass == K_EASY) c.require("retbool:PGS:" + op + ":false-on-diagonally-dominant-problem", O.ret, W);
        if (!O.ret) { c.obs(std::string("PGS-not-converged:") + KN[klass] + ":" + P.rankClass); }
    }
    if (!judged) return;

    // ---- PLUS: input class of the problem; can the harness prove a single sliding interval?
    bool plusSingle = true; int nInitSliding = 0;
    if (solver == S_PLUS && !bilateral) {
        for (size_t k = 0; k < P.con.size(); ++k) {
            const Con& cc = P.con[k]; if (cc.type == IS::Observing || cc.Fk.empty()) continue;
            double v0 = P.verrStart[cc.Fk[0]], v1 = P.verrStart[cc.Fk[1]];
            if (std::hypot(v0, v1) > P.maxRoll) { ++nInitSliding; if (!(O.con[k].sv[0] == v0 && O.con[k].sv[1] == v1) || O.con[k].fcond == IS::Impending) plusSingle = false; }
        }
        c.obs(plusSingle ? (nInitSliding ? "PLUS:single-interval-proved" : "PLUS:no-initial-sliding") : "PLUS:multi-interval");
        const bool rankdef = P.rankClass == "deficient" || P.rankClass == "duprows";
        bool negsign = false, impending = false;
        for (size_t k = 0; k < P.con.size(); ++k) {
            if (P.con[k].type == IS::Participating && !P.con[k].Fk.empty() && P.con[k].sign < 0) negsign = true;
            if (P.con[k].type != IS::Observing && !P.con[k].Fk.empty() && O.con[k].fcond == IS::Impending) impending = true;
        }
        J.plusClass = rankdef ? "rank-deficient-A" : negsign ? "negative-sign-friction" : impending ? "impending-slip" : !plusSingle ? "multi-interval" : "";
        // (with D != 0 PLUS solves a different problem than the designed one -- D is ignored -- so existence is not guaranteed either)
        J.skipSoft = (!P.designed || P.dpos()) && nInitSliding > 0;
        c.obs("PLUS:class:" + (J.plusClass.empty() ? std::string("benign") : J.plusClass) + (J.skipSoft ? ":soft-not-judged" : ""));
    }
    const bool eqOK = (solver == S_PGS) || plusSingle;     // equalities tied to the last reported condition

    // ---- unconditional rows: the equation holds
    auto eqRows = [&](const VI& rows, const std::string& key, const char* what) {
        double worst = 0; int wi = -1;
        for (int x : rows) { double q = std::fabs(vfD(x)) / J.tolEq[x]; if (q > worst) { worst = q; wi = x; } }
        J.chk(key, worst, 1.0, [&] { return W().set("what", what).set("row", wi).set("verr", wi >= 0 ? vfD(wi) : 0.0).set("tol", wi >= 0 ? J.tolEq[wi] : 0.0); });
    };
    { VI rows; for (auto& u : P.unc) for (int x : u) rows.push_back(x);
      if (!rows.empty()) eqRows(rows, J.velKey("uncond-residual", op), "unconditional row"); }

    // ---- minimum norm (PLUS, unconditional-only problems): pi is orthogonal to null(P(A+D)~P)
    const bool uncondOnly = P.con.empty() && P.spd.empty() && P.bnd.empty() && P.clf.empty() && P.slf.empty();
    if (solver == S_PLUS && uncondOnly && p > 0 && !(P.dpos() && !bilateral)) {
        std::vector<LD> M((size_t)p * p), w, V;
        for (int i = 0; i < p; ++i) for (int j = 0; j < p; ++j) M[(size_t)i * p + j] = (LD)P.a(P.part[i], P.part[j]) + (i == j ? (LD)P.D[P.part[i]] : 0);
        jacobiEig(M, p, w, V);
        LD wmax = 0; for (LD x : w) wmax = std::max(wmax, std::fabs(x));
        bool gap = true; int nnull = 0;
        for (LD x : w) { LD rel = std::fabs(x) / wmax; if (rel > 1e-11L && rel < 1e-6L) gap = false; if (rel <= 1e-11L) ++nnull; }
        if (!gap) c.skip("min-norm:no-spectral-gap");
        else {
            LD pn = 0; for (int i = 0; i < p; ++i) pn += (LD)O.pi[P.part[i]] * O.pi[P.part[i]]; pn = std::sqrt(pn);
            double worst = 0;
            for (int k = 0; k < p; ++k) if (std::fabs(w[k]) / wmax <= 1e-11L) { LD d = 0; for (int i = 0; i < p; ++i) d += V[(size_t)i * p + k] * O.pi[P.part[i]]; worst = std::max(worst, (double)std::fabs(d)); }
            c.check("min-norm:PLUS:" + op, worst, 1e-8 * (1 + (double)pn), [&] { return W().set("null_dim", nnull).set("pi_norm", (double)pn); });
            if (nnull) c.cover(std::string("min-norm-judged:") + op);
        }
    }
    if (bilateral) return;

    // ---- unilateral contacts
    const double tolAbsImp = 1e-11;   // the active-set loop accepts violations up to SignificantReal (~2e-14) per interval
    for (size_t k = 0; k < P.con.size(); ++k) {
        const Con& cc = P.con[k]; const Out::C& oc = O.con[k];
        const bool fr = !cc.Fk.empty();
        const char* tn = IS::getContactTypeName((IS::ContactType)cc.type);
        const double piN = O.pi[cc.Nk];
        const double N = std::fabs(piN + P.piExpand[cc.Nk]);
        auto WC = [&]() { Json w = W(); w.set("contact", (int)k).set("type", tn).set("sign", cc.sign).set("mu", cc.mu).set("friction", fr).set("piN", piN).set("piExpandN", P.piExpand[cc.Nk])
            .set("cond", IS::getUniCondName((IS::UniCond)oc.cond)).set("fcond", IS::getFricCondName((IS::FricCond)oc.fcond)).set("verrN", vfD(cc.Nk)).set("tolN", J.tolEq[cc.Nk]).set("single", plusSingle);
            if (fr) w.set("piF", Json::arr().push(O.pi[cc.Fk[0]]).push(O.pi[cc.Fk[1]])).set("verrF", Json::arr().push(vfD(cc.Fk[0])).push(vfD(cc.Fk[1]))).set("slipVel", Json::arr().push(oc.sv[0]).push(oc.sv[1]))
                     .set("verrStartF", Json::arr().push(P.verrStart[cc.Fk[0]]).push(P.verrStart[cc.Fk[1]]));
            return w; };
        c.cover(sn + ":contact:" + tn + ":" + IS::getUniCondName((IS::UniCond)oc.cond) + ":" + (fr ? IS::getFricCondName((IS::FricCond)oc.fcond) : "nofric"));
        if (cc.type != IS::Participating) {       // Known / Observing: no unknown normal impulse
            c.check("uni-nonparticipating-normal-zero:" + sn, std::fabs(piN), 0, WC);
            if (cc.type == IS::Observing) { if (fr) c.check("uni-observing-friction-zero:" + sn, std::hypot(O.pi[cc.Fk[0]], O.pi[cc.Fk[1]]), 0, WC); continue; }
        } else {
            c.check("uni-never-pull:" + sn, cc.sign * piN, tolAbsImp * (1 + N), WC);
            if (!c.require("uni-cond-reported:" + sn, oc.cond == IS::UniActive || oc.cond == IS::UniOff, WC)) continue;
            if (oc.cond == IS::UniActive) J.chk(J.velKey("uni-active-verr", "contact"), std::fabs(vfD(cc.Nk)), J.tolEq[cc.Nk], WC);
            else {
                if (eqOK) c.check("uni-off-impulse-zero:" + sn, std::fabs(piN), 0, WC);
                J.chk(J.clampKey("uni-off-separating", "contact"), -cc.sign * vfD(cc.Nk), tolRow(cc.Nk, VI(1, cc.Nk)), WC);
            }
        }
        if (!fr) continue;
        const double pF[2] = {O.pi[cc.Fk[0]], O.pi[cc.Fk[1]]}, vF[2] = {vfD(cc.Fk[0]), vfD(cc.Fk[1])};
        const double pFn = std::hypot(pF[0], pF[1]), vFn = std::hypot(vF[0], vF[1]);
        // cone: Newton leaves |v|*pi_F + mu*v*piz = err, ||err|| <= ctol with |v| > maxRoll  (PLUS); PGS scales onto the cone
        const double tolCone = (solver == S_PLUS ? 10 * J.ctol / P.maxRoll * 4 : 0) + 1e-11 * (1 + cc.mu * N) + 64 * EPS * (cc.mu * N + pFn);
        J.chk(J.softKey("friction-cone", "contact"), pFn - cc.mu * N, tolCone, WC);
        const bool normalOff = (cc.type == IS::Participating && oc.cond == IS::UniOff);
        if (normalOff) { if (eqOK) c.check("uni-off-friction-zero:" + sn, pFn, solver == S_PGS ? 0 : tolAbsImp, WC); continue; }
        if (!c.require("fric-cond-reported:" + sn + ":contact", oc.fcond == IS::Rolling || oc.fcond == IS::Sliding || oc.fcond == IS::Impending, WC)) continue;
        const double tolF = std::max(J.tolEq[cc.Fk[0]], J.tolEq[cc.Fk[1]]) * 1.5;
        if (oc.fcond == IS::Rolling) {
            J.chk(J.velKey("rolling-slip-zero", "contact"), vFn, tolF, WC);
        } else if (oc.fcond == IS::Sliding) {
            if (eqOK) J.chk(J.softKey("sliding-on-cone", "contact"), std::fabs(pFn - cc.mu * N), tolCone, WC);
            if (solver == S_PLUS) {
                if (plusSingle) {
                    // friction multiplier = mu*N * (reported = input slip direction)
                    double sm = std::hypot(oc.sv[0], oc.sv[1]);
                    c.require("sliding-reported-speed-above-threshold:PLUS:contact", sm > P.maxRoll, WC);
                    double e = std::hypot(pF[0] - cc.mu * N * oc.sv[0] / sm, pF[1] - cc.mu * N * oc.sv[1] / sm);
                    J.chk(J.softKey("sliding-opposes-slip", "contact"), e, tolCone, WC);
                }
            } else {
                // PGS: dissipative: pi_F . v_F(final) >= 0 in the multiplier sign convention
                const double tolOwn = std::max(tolRow(cc.Fk[0], cc.Fk), tolRow(cc.Fk[1], cc.Fk)) * 1.5;
                J.chk(J.clampKey("sliding-opposes-slip", "contact"), -(pF[0] * vF[0] + pF[1] * vF[1]), tolOwn * (pFn + 1e-3) + 1e-12, WC);
            }
        } else { // Impending (PLUS only): on the cone, opposing the slip that results
            c.obs("PLUS:impending-reported");
            if (solver == S_PGS) { c.viol("impending-reported:PGS:contact", WC()); continue; }
            if (nInitSliding == 0) {        // single interval for sure
                J.chk(J.softKey("impending-on-cone", "contact"), std::fabs(pFn - cc.mu * N), tolCone + 10 * J.ctol / std::max(vFn, 1e-3), WC);
                // resulting slip v_F must be opposed: pi_F = +mu*N*v_F/|v_F| (multiplier convention), at least pi_F.v_F >= 0
                J.chk(J.velKey("impending-opposes-slip", "contact"), -(pF[0] * vF[0] + pF[1] * vF[1]), 1e-9 * (1 + pFn * vFn), WC);
            }
        }
    }

    // ---- unilateral speed rows
    for (size_t k = 0; k < P.spd.size(); ++k) {
        const Spd& s = P.spd[k]; const double pi = O.pi[s.ix]; const int cond = O.spdCond[k];
        auto WS = [&]() { return W().set("row", s.ix).set("sign", s.sign).set("pi", pi).set("verr", vfD(s.ix)).set("cond", IS::getUniCondName((IS::UniCond)cond)); };
        c.cover(sn + ":unispeed:" + IS::getUniCondName((IS::UniCond)cond));
        // a solver that never reports a condition for this row kind does not implement it: one key, nothing else judged
        if (!c.require("row-kind-not-implemented:" + sn + ":unispeed", cond == IS::UniActive || cond == IS::UniOff, WS)) continue;
        c.check("unispeed-never-pull:" + sn, s.sign * pi, tolAbsImp * (1 + std::fabs(pi)), WS);
        if (cond == IS::UniActive) J.chk(J.velKey("unispeed-active-verr", "unispeed"), std::fabs(vfD(s.ix)), J.tolEq[s.ix], WS);
        else { c.check("unispeed-off-impulse-zero:" + sn, std::fabs(pi), 0, WS); J.chk(J.clampKey("unispeed-off-separating", "unispeed"), -s.sign * vfD(s.ix), tolRow(s.ix, VI(1, s.ix)), WS); }
    }

    // ---- bounded rows
    for (size_t k = 0; k < P.bnd.size(); ++k) {
        const Bnd& b = P.bnd[k]; const double pi = O.pi[b.ix]; const int cond = O.bndCond[k];
        auto WB = [&]() { return W().set("row", b.ix).set("lb", b.lb).set("ub", b.ub).set("pi", pi).set("verr", vfD(b.ix)).set("tol", J.tolEq[b.ix]).set("cond", IS::getBndCondName((IS::BndCond)cond)); };
        c.cover(sn + ":bounded:" + IS::getBndCondName((IS::BndCond)cond));
        if (!c.require("row-kind-not-implemented:" + sn + ":bounded", cond >= IS::SlipLow && cond <= IS::SlipHigh, WB)) continue;
        c.check("bounded-within:" + sn, std::max(pi - b.ub, b.lb - pi), 64 * EPS * (std::fabs(b.lb) + std::fabs(b.ub)), WB);
        if (cond == IS::Engaged) J.chk(J.velKey("bounded-engaged-verr", "bounded"), std::fabs(vfD(b.ix)), J.tolEq[b.ix], WB);
        else if (cond == IS::SlipHigh || cond == IS::ImpendHigh) { c.check("bounded-high-at-ub:" + sn, std::fabs(pi - b.ub), 64 * EPS * std::fabs(b.ub), WB); J.chk(J.clampKey("bounded-clamped-verr-sign", "bounded"), -vfD(b.ix), tolRow(b.ix, VI(1, b.ix)), WB); }
        else { c.check("bounded-low-at-lb:" + sn, std::fabs(pi - b.lb), 64 * EPS * std::fabs(b.lb), WB); J.chk(J.clampKey("bounded-clamped-verr-sign", "bounded"), vfD(b.ix), tolRow(b.ix, VI(1, b.ix)), WB); }
    }

    // ---- state-limited and constraint-limited friction
    auto ltd = [&](const VI& Fk, double lim, int cond, const std::string& kind, int idx) {
        double pn = 0, vn = 0, dot = 0, tolF = 0;
        for (int x : Fk) { pn += O.pi[x] * O.pi[x]; vn += vfD(x) * vfD(x); dot += O.pi[x] * vfD(x); tolF = std::max(tolF, J.tolEq[x]); }
        pn = std::sqrt(pn); vn = std::sqrt(vn); tolF *= std::sqrt((double)Fk.size());
        auto WL = [&]() { Json w = W(); w.set("element", idx).set("limit", lim).set("piF_norm", pn).set("verrF_norm", vn).set("piF_dot_verrF", dot).set("cond", IS::getFricCondName((IS::FricCond)cond)).set("nF", (int)Fk.size()); return w; };
        c.cover(sn + ":" + kind + ":" + IS::getFricCondName((IS::FricCond)cond) + ":nF" + std::to_string(Fk.size()));
        if (!c.require("row-kind-not-implemented:" + sn + ":" + kind, cond == IS::Rolling || cond == IS::Sliding || cond == IS::Impending, WL)) return;
        const double tolCone = 1e-11 * (1 + lim) + 64 * EPS * (lim + pn);
        c.check("friction-cone:" + sn + ":" + kind, pn - lim, tolCone, WL);
        if (cond == IS::Rolling) J.chk(J.velKey("rolling-slip-zero", kind), vn, tolF, WL);
        else { double tolOwn = 0; for (int x : Fk) tolOwn = std::max(tolOwn, tolRow(x, Fk)); tolOwn *= std::sqrt((double)Fk.size());
               c.check("sliding-on-cone:" + sn + ":" + kind, std::fabs(pn - lim), tolCone, WL); J.chk(J.clampKey("sliding-opposes-slip", kind), -dot, tolOwn * (pn + 1e-3) + 1e-12, WL); }
    };
    for (size_t k = 0; k < P.slf.size(); ++k) ltd(P.slf[k].Fk, P.slf[k].mu * P.slf[k].knownN, O.slfCond[k], "state-ltd", (int)k);
    for (size_t k = 0; k < P.clf.size(); ++k) { double n2 = 0; for (int x : P.clf[k].Nk) n2 += O.pi[x] * O.pi[x]; ltd(P.clf[k].Fk, P.clf[k].mu * std::sqrt(n2), O.clfCond[k], "cons-ltd", (int)k); }
}

// ------------------------------------------------------------------ one case
static Json probJson(const Prob& P) {
    Json j = Json::obj();
    j.set("m", P.m).set("ncolG", P.ncolG).set("rank", P.rankClass).set("D", P.dClass).set("part", Json::fromRange(P.part.begin(), P.part.end()))
     .set("expanding", Json::fromRange(P.expanding.begin(), P.expanding.end())).set("nUnc", (int)P.unc.size()).set("nCon", (int)P.con.size())
     .set("nSpd", (int)P.spd.size()).set("nBnd", (int)P.bnd.size()).set("nClf", (int)P.clf.size()).set("nSlf", (int)P.slf.size())
     .set("applied", !P.verrApplied.empty()).set("designed", P.designed).set("maxRoll", P.maxRoll);
    return j;
}

static void dump(const Prob& P, const Out& O) {
    fprintf(stderr, "m=%d part=[", P.m); for (int x : P.part) fprintf(stderr, "%d ", x); fprintf(stderr, "] expanding=["); for (int x : P.expanding) fprintf(stderr, "%d ", x);
    fprintf(stderr, "] rank=%s D=%s designed=%d maxRoll=%g\n", P.rankClass.c_str(), P.dClass.c_str(), P.designed, P.maxRoll);
    for (int i = 0; i < P.m; ++i) { fprintf(stderr, "A[%2d]:", i); for (int j = 0; j < P.m; ++j) fprintf(stderr, " %9.4f", P.a(i, j)); fprintf(stderr, "  D=%g\n", P.D[i]); }
    for (int i = 0; i < P.m; ++i) fprintf(stderr, "row %2d verrStart=%.17g applied=%.17g piE=%g -> pi=%.17g verrOut=%.17g\n", i, P.verrStart[i], P.verrApplied.empty() ? 0.0 : P.verrApplied[i], P.piExpand[i],
                                          i < (int)O.pi.size() ? O.pi[i] : NAN, i < (int)O.verrStart.size() ? O.verrStart[i] : NAN);
    for (size_t k = 0; k < P.unc.size(); ++k) { fprintf(stderr, "unc %zu:", k); for (int x : P.unc[k]) fprintf(stderr, " %d", x); fprintf(stderr, "\n"); }
    for (size_t k = 0; k < P.con.size(); ++k) { const Con& c = P.con[k]; fprintf(stderr, "con %zu: N=%d sign=%d type=%s mu=%g F=[%d %d]", k, c.Nk, c.sign, IS::getContactTypeName((IS::ContactType)c.type), c.mu, c.Fk.empty() ? -1 : c.Fk[0], c.Fk.empty() ? -1 : c.Fk[1]);
        if (k < O.con.size()) fprintf(stderr, " -> %s/%s slipVel=%g %g", IS::getUniCondName((IS::UniCond)O.con[k].cond), IS::getFricCondName((IS::FricCond)O.con[k].fcond), O.con[k].sv[0], O.con[k].sv[1]); fprintf(stderr, "\n"); }
    for (size_t k = 0; k < P.bnd.size(); ++k) fprintf(stderr, "bnd %zu: row=%d [%g,%g] -> %s\n", k, P.bnd[k].ix, P.bnd[k].lb, P.bnd[k].ub, k < O.bndCond.size() ? IS::getBndCondName((IS::BndCond)O.bndCond[k]) : "?");
    for (size_t k = 0; k < P.spd.size(); ++k) fprintf(stderr, "spd %zu: row=%d sign=%d\n", k, P.spd[k].ix, P.spd[k].sign);
    for (size_t k = 0; k < P.slf.size(); ++k) { fprintf(stderr, "slf %zu: N=%g mu=%g F=", k, P.slf[k].knownN, P.slf[k].mu); for (int x : P.slf[k].Fk) fprintf(stderr, "%d ", x); fprintf(stderr, "\n"); }
    for (size_t k = 0; k < P.clf.size(); ++k) { fprintf(stderr, "clf %zu: mu=%g F=", k, P.clf[k].mu); for (int x : P.clf[k].Fk) fprintf(stderr, "%d ", x); fprintf(stderr, "N="); for (int x : P.clf[k].Nk) fprintf(stderr, "%d ", x); fprintf(stderr, "\n"); }
    fprintf(stderr, "ret=%d exc=%s died=%d\n", O.ret, O.exc.c_str(), O.died);
}

static void oneCase(Ctx& c, long ci, Rng& r, long onlyKlass, long onlySolver) {
    const int solver = onlySolver >= 0 ? (int)onlySolver : (int)(ci % 2);
    int klass = onlyKlass >= 0 ? (int)onlyKlass : (int)((ci / 2) % K_COUNT);
    const std::string sn = SN[solver];
    // PLUS does not implement bounded rows (crash/hang when a bound would be active): sampled rarely, in a child
    // (likewise unilateral-speed and limited-friction rows: not implemented by PLUS, sampled once per 8 cycles)
    if (solver == S_PLUS && klass == K_MIXED) klass = K_EXPANSION;     // PLUS: mixed problems would contain bounded rows
    if (solver == S_PLUS && onlyKlass < 0 && (ci / (2 * K_COUNT)) % 8 != 0) {
        if (klass == K_BOUNDED) klass = K_STICKSLIP; else if (klass == K_LTDFRICTION) klass = K_FRICTION_DESIGNED; else if (klass == K_UNISPEED) klass = K_FRICTIONLESS;
    }
    c.setPhase(std::string("generate ") + sn + " " + KN[klass]);
    Prob P = generate(r, klass, solver, ci);
    if (c.args.getInt("mirror", 0)) {      // diagnostic: the equivalent problem with every contact at sign +1 (S*A*S, S*verr)
        for (auto& cc : P.con) if (cc.sign < 0) { const int n = cc.Nk;
            for (int j = 0; j < P.m; ++j) if (j != n) { P.A[(size_t)j * P.m + n] = -P.A[(size_t)j * P.m + n]; P.A[(size_t)n * P.m + j] = -P.A[(size_t)n * P.m + j]; }
            P.verrStart[n] = -P.verrStart[n]; if (!P.verrApplied.empty()) P.verrApplied[n] = -P.verrApplied[n]; P.piExpand[n] = -P.piExpand[n]; cc.sign = 1; }
    }
    const bool bilateral = klass == K_BILATERAL;
    const std::string op = bilateral ? "solveBilateral" : "solve";
    int mb = P.m <= 4 ? 0 : P.m <= 12 ? 1 : 2;
    c.cover(sn + ":" + KN[klass] + ":" + P.rankClass + ":" + P.dClass + ":m" + std::to_string(mb) + (P.verrApplied.empty() ? "" : ":applied"));
    c.setPhase(sn + "::" + op + " " + KN[klass] + " " + probJson(P).dump());
    Out O;
    const bool forked = solver == S_PLUS && !P.bnd.empty();
    if (forked) runSolverForked(P, solver, O, 4); else runSolver(P, solver, bilateral, O);
    if (c.args.verbose) dump(P, O);
    if (c.wantSample()) c.sample(probJson(P).set("solver", sn).set("klass", KN[klass]).set("ret", O.ret));
    c.setPhase("judge " + sn + " " + KN[klass]);
    if (O.died) {
        c.obs("PLUS:bounded:child-died-signal-" + std::to_string(O.died));
        c.viol(O.died == SIGXCPU || O.died == SIGKILL ? "bounded-rows:PLUS:solve-never-returns" : "bounded-rows:PLUS:solve-crashes",
               probJson(P).set("signal", O.died).set("note", "solver ran in a forked child with RLIMIT_CPU"));
        return;
    }
    const long v0 = c.numViolations();
    double maxSoft = 0;
    judge(c, P, O, solver, klass, bilateral, maxSoft);
    if (solver == S_PLUS && !bilateral && O.exc.empty() && c.numViolations() == v0 && maxSoft <= 0.005) {
        // every documented condition verified by the harness with residuals below half the solver's own tolerance
        // (the judging tolerance is 100x that): the solver has converged; its return value must say so
        c.require("retbool:PLUS:solve:false-although-all-conditions-hold", O.ret || P.part.empty(), [&] { return probJson(P).set("ret", O.ret).set("max_soft_ratio", maxSoft); });
        if (P.part.empty()) c.require("retbool:PLUS:solve:p0", O.ret, [&] { return probJson(P); });
    }
    if (solver == S_PLUS && bilateral) c.require("retbool:PLUS:solveBilateral", O.ret, [&] { return probJson(P); });
    // documented "set by solver on return" fields (not part of the statement; counted)
    if (!bilateral) { for (auto& oc : O.con) if (std::isnan(oc.imp[0])) { c.obs(sn + ":UniContactRT.m_impulse-left-NaN"); break; } if (!P.unc.empty() && O.uncImpulseSet == 0) c.obs(sn + ":UncondRT.m_impulse-left-empty"); }
}

int main(int argc, char** argv) {
    Args a = vh::parseArgs(argc, argv);
    Ctx c(a);
    if (a.prop != "C44") { fprintf(stderr, "mon_impulse: unknown property %s\n", a.prop.c_str()); return 2; }
    const long onlyKlass = a.getInt("klass", -1), onlySolver = a.getInt("solver", -1);
    return vh::runCases(c, [&](long i, Rng& r) { oneCase(c, i, r, onlyKlass, onlySolver); });
}
