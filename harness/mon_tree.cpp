// mon_tree — tree-dynamics monitors: C01 C02 C03 C04 C14 C15 (DESIGN §5).
//
// Legal-client preconditions (cases violating them are skipped with a reason):
//  * state away from coordinate singularities (|cos q1|>=0.2 for body-fixed XYZ,
//    SphericalCoords zenith/radius guard), mass matrix condition estimate <= 1e7.
//  * unconstrained tree models, valid mass properties (point clouds).
#include "model.h"
using namespace SimTK;
using namespace vh;

static const double E1 = 1e-9;   // algebraic identities (relative, scale-aware)
static const double E2 = 1e-6;   // finite-difference identities

struct Case {
    Model m;
    State s;
    int nu = 0, nq = 0, nb = 0;
    Force::DiscreteForces* disc = nullptr;
};

static std::string nodeKeyAt(const Model& m, size_t k) {
    const NodeDesc& n = m.desc.nodes[k];
    bool hasChild = false;
    for (auto& c : m.desc.nodes) if (c.parent == (int)k) hasChild = true;
    const char* pos = n.parent < 0 ? (hasChild ? "base" : "lone") : (hasChild ? "interior" : "terminal");
    return n.key(m.desc.euler) + "/" + pos;
}
static void coverModel(Ctx& c, const Model& m, const std::string& suffix = "") {
    for (size_t k = 0; k < m.desc.nodes.size(); ++k) c.cover(nodeKeyAt(m, k) + suffix);
}

static Vector randVector(Rng& r, int n, double s = 1) { Vector v(n); for (int i = 0; i < n; ++i) v[i] = r.sym(s); return v; }
static Vector_<SpatialVec> randBodyForces(Rng& r, int nb, double s = 3) {
    Vector_<SpatialVec> F(nb);
    for (int i = 0; i < nb; ++i) F[i] = SpatialVec(randVec3(r, s), randVec3(r, s));
    return F;
}
static double spMax(const SpatialVec& v) { double m = 0; for (int i = 0; i < 2; ++i) for (int j = 0; j < 3; ++j) m = std::max(m, std::fabs(v[i][j])); return m; }
static Json jSV(const SpatialVec& v) { return Json::arr().push(jV3(v[0])).push(jV3(v[1])); }

// spatial inertia of body b about its origin, in Ground, as 6x6 acting on [w;v]
static void bodySpatialInertiaG(const MobilizedBody& b, const State& s, double M[6][6]) {
    const MassProperties& mp = b.getBodyMassProperties(s);
    const Rotation& R = b.getBodyTransform(s).R();
    double m = mp.getMass();
    Vec3 p = R * mp.getMassCenter();
    Mat33 I_B = mp.getInertia().toMat33();
    Mat33 I = R * I_B * ~R;
    Mat33 px = crossMat(p);
    for (int i = 0; i < 3; ++i) for (int j = 0; j < 3; ++j) {
        M[i][j] = I(i, j);
        M[i][j + 3] = m * px(i, j);
        M[i + 3][j] = -m * px(i, j);
        M[i + 3][j + 3] = (i == j) ? m : 0.0;
    }
}

// returns false (and records the skip) if the state violates a guard
static bool prepare(Ctx& c, Case& k, Rng& r, long idx, bool zeroU, Stage stage, const GenOpts& o, bool withDiscrete) {
    ModelDesc d = randomDesc(r, o, idx);
    k.m.build(d);
    if (withDiscrete) k.disc = new Force::DiscreteForces(k.m.forces, k.m.matter);  // owned by subsystem
    k.s = k.m.init();
    randomQU(k.m, k.s, r, zeroU);
    k.m.sys.realize(k.s, Stage::Position);
    if (!sphericalOK(k.m, k.s)) { c.skip("spherical-singularity"); return false; }
    k.nu = k.s.getNU(); k.nq = k.s.getNQ(); k.nb = k.m.matter.getNumBodies();
    if (k.nu == 0) { c.skip("no-mobilities"); return false; }
    k.m.sys.realize(k.s, stage < Stage::Velocity ? Stage::Velocity : stage);
    return true;
}

// estimate of cond(M) from Cholesky pivots (cheap, conservative enough for a guard)
static double condEstimate(const Matrix& M) {
    double maxd = 0; for (int i = 0; i < M.nrow(); ++i) maxd = std::max(maxd, std::fabs(M(i, i)));
    double minp = cholMinPivot(M);
    if (!(minp > 0)) return std::numeric_limits<double>::infinity();
    return maxd / minp;
}

// ------------------------------------------------------------------------ C01
static void checkC01(Ctx& c, long idx, Rng& r) {
    Case k; GenOpts o;
    if (!prepare(c, k, r, idx, false, Stage::Velocity, o, false)) return;
    const SimbodyMatterSubsystem& matter = k.m.matter; const State& s = k.s; int nu = k.nu;
    Json wit = k.m.desc.toJson();
    auto W = [&](const char* what, int i = -1, int j = -1) { return [=]() { return Json::obj().set("model", wit).set("what", what).set("i", i).set("j", j); }; };

    Matrix M; matter.calcM(s, M);
    double nM = mmaxabs(M);
    c.require("M:finite", std::isfinite(nM), W("calcM has NaN/Inf"));
    // symmetry
    double asym = 0; for (int i = 0; i < nu; ++i) for (int j = 0; j < i; ++j) asym = std::max(asym, std::fabs(M(i, j) - M(j, i)));
    c.check("M:symmetric", asym, E1 * nM, W("calcM not symmetric"));
    // columns by operator
    double colerr = 0;
    for (int j = 0; j < nu; ++j) {
        Vector e(nu, 0.0), Me; e[j] = 1; matter.multiplyByM(s, e, Me);
        for (int i = 0; i < nu; ++i) colerr = std::max(colerr, std::fabs(Me[i] - M(i, j)));
    }
    c.check("M:calcM-vs-multiplyByM", colerr, E1 * nM, W("calcM column != multiplyByM(e_j)"));
    // independent anchor: sum_b J_b^T MM_b J_b
    Matrix J; matter.calcSystemJacobian(s, J);
    Matrix Mref(nu, nu, 0.0);
    for (int b = 1; b < k.nb; ++b) {
        double MM[6][6]; bodySpatialInertiaG(matter.getMobilizedBody(MobilizedBodyIndex(b)), s, MM);
        for (int i = 0; i < nu; ++i) {
            double t[6];
            for (int a = 0; a < 6; ++a) { t[a] = 0; for (int bb = 0; bb < 6; ++bb) t[a] += MM[a][bb] * J(6 * b + bb, i); }
            for (int j = 0; j < nu; ++j) { double x = 0; for (int a = 0; a < 6; ++a) x += J(6 * b + a, j) * t[a]; Mref(j, i) += x; }
        }
    }
    double aerr = 0; for (int i = 0; i < nu; ++i) for (int j = 0; j < nu; ++j) aerr = std::max(aerr, std::fabs(Mref(i, j) - M(i, j)));
    c.check("M:anchor-JtMJ", aerr, E1 * nM * k.nb, W("calcM != sum J^T M_b J"));
    // SPD
    double minp = cholMinPivot(M);
    c.require("M:positive-definite", minp > 0, W("Cholesky pivot <= 0"));
    double cond = condEstimate(M);
    // KE
    const Vector& u = s.getU();
    Vector Mu; matter.multiplyByM(s, u, Mu);
    double ke = 0.5 * (~u * Mu);
    double keS = matter.calcKineticEnergy(s);
    c.check("KE:half-uMu", std::fabs(ke - keS), E1 * (std::fabs(ke) + nM), W("calcKineticEnergy != 0.5 u'Mu"));
    double keB = 0; // sum of body KEs from reported velocities
    for (int b = 1; b < k.nb; ++b) {
        const MobilizedBody& mb = matter.getMobilizedBody(MobilizedBodyIndex(b));
        double MM[6][6]; bodySpatialInertiaG(mb, s, MM);
        const SpatialVec& V = mb.getBodyVelocity(s);
        double v[6] = {V[0][0], V[0][1], V[0][2], V[1][0], V[1][1], V[1][2]};
        for (int i = 0; i < 6; ++i) for (int j = 0; j < 6; ++j) keB += 0.5 * v[i] * MM[i][j] * v[j];
    }
    c.check("KE:sum-of-bodies", std::fabs(keB - keS), E1 * (std::fabs(keS) + nM) * k.nb, W("calcKineticEnergy != sum 0.5 V'M_bV"));

    if (!(cond <= 1e7)) { c.skip("ill-conditioned-M"); coverModel(c, k.m, "/noinv"); return; }
    double tolInv = 1e-12 * cond * nu + 1e-10;
    Matrix MInv; matter.calcMInv(s, MInv);
    double nMi = mmaxabs(MInv);
    double isym = 0; for (int i = 0; i < nu; ++i) for (int j = 0; j < i; ++j) isym = std::max(isym, std::fabs(MInv(i, j) - MInv(j, i)));
    c.check("MInv:symmetric", isym, tolInv * nMi, W("calcMInv not symmetric"));
    Matrix P = MInv * M;
    double ierr = 0; for (int i = 0; i < nu; ++i) for (int j = 0; j < nu; ++j) ierr = std::max(ierr, std::fabs(P(i, j) - (i == j ? 1.0 : 0.0)));
    c.check("MInv:MInv*M=I", ierr, tolInv, W("calcMInv*calcM != I"));
    double icol = 0;
    for (int j = 0; j < nu; ++j) {
        Vector e(nu, 0.0), x; e[j] = 1; matter.multiplyByMInv(s, e, x);
        for (int i = 0; i < nu; ++i) icol = std::max(icol, std::fabs(x[i] - MInv(i, j)));
    }
    c.check("MInv:calcMInv-vs-multiplyByMInv", icol, tolInv * nMi, W("calcMInv column != multiplyByMInv(e_j)"));
    for (int rep = 0; rep < 3; ++rep) {
        Vector v = randVector(r, nu), Mv, w, MiV, w2;
        matter.multiplyByM(s, v, Mv); matter.multiplyByMInv(s, Mv, w);
        c.check("MInv:MInv(Mv)=v", vmaxabs(w - v), tolInv * (vmaxabs(v) + 1), W("multiplyByMInv(multiplyByM(v)) != v"));
        matter.multiplyByMInv(s, v, MiV); matter.multiplyByM(s, MiV, w2);
        c.check("MInv:M(MInv v)=v", vmaxabs(w2 - v), tolInv * (vmaxabs(v) + 1), W("multiplyByM(multiplyByMInv(v)) != v"));
    }
    coverModel(c, k.m);
    if (c.wantSample()) c.sample(Json::obj().set("model", k.m.desc.shortStr()).set("nu", nu).set("condM", cond).set("KE", keS));
}

// ------------------------------------------------------------------------ C02
static void checkC02(Ctx& c, long idx, Rng& r) {
    Case k; GenOpts o;
    bool zeroU = (idx % 5 == 4);
    if (!prepare(c, k, r, idx, zeroU, Stage::Dynamics, o, true)) return;
    const SimbodyMatterSubsystem& matter = k.m.matter; State& s = k.s; int nu = k.nu, nb = k.nb;
    Matrix M; matter.calcM(s, M);
    double cond = condEstimate(M), nM = mmaxabs(M);
    if (!(cond <= 1e7)) { c.skip("ill-conditioned-M"); return; }
    int fmode = (int)(idx % 3); // 0 body forces only, 1 mobility only, 2 both
    Vector f = (fmode == 0) ? Vector(nu, 0.0) : randVector(r, nu, 3);
    Vector_<SpatialVec> F = (fmode == 1) ? Vector_<SpatialVec>(nb, SpatialVec(Vec3(0), Vec3(0))) : randBodyForces(r, nb);
    Json wit = k.m.desc.toJson();
    auto W = [&](const char* what) { return [=]() { return Json::obj().set("model", wit).set("what", what).set("zeroU", zeroU).set("fmode", fmode); }; };

    // JtF by operator; the force on Ground must be ignored
    Vector JtF; matter.multiplyBySystemJacobianTranspose(s, F, JtF);
    double fscale = vmaxabs(f) + vmaxabs(JtF) + 1;
    double tol = (1e-12 * cond * nu + 1e-10);

    // (ii) operator forward dynamics, then inverse
    Vector udot; Vector_<SpatialVec> A;
    matter.calcAccelerationIgnoringConstraints(s, f, F, udot, A);
    c.require("fwd:finite", allFinite(udot), W("udot has NaN/Inf"));
    Vector res;
    matter.calcResidualForceIgnoringConstraints(s, f, F, udot, res);
    double scale = nM * vmaxabs(udot) + fscale;
    c.check("roundtrip:residual(fwd(f))=0", vmaxabs(res), tol * scale, W("calcResidualForceIgnoringConstraints(calcAccelerationIgnoringConstraints) != 0"));

    // (i) realize(Acceleration) with the same forces through DiscreteForces
    k.disc->setAllMobilityForces(s, f);
    k.disc->setAllBodyForces(s, F);
    k.m.sys.realize(s, Stage::Acceleration);
    const Vector& udotS = s.getUDot();
    c.check("realize-vs-operator:udot", vmaxabs(udotS - udot), tol * (vmaxabs(udot) + 1), W("State udot != calcAccelerationIgnoringConstraints"));
    double aerr = 0, ascale = 1;
    for (int b = 0; b < nb; ++b) { SpatialVec d = matter.getMobilizedBody(MobilizedBodyIndex(b)).getBodyAcceleration(s) - A[b]; aerr = std::max(aerr, spMax(d)); ascale = std::max(ascale, spMax(A[b])); }
    c.check("realize-vs-operator:A_GB", aerr, tol * ascale, W("State body accelerations != operator's"));
    // calcAcceleration (constraint-aware) on an unconstrained system must agree too
    { Vector ud2; Vector_<SpatialVec> A2; matter.calcAcceleration(s, f, F, ud2, A2);
      c.check("calcAcceleration-vs-ignoring", vmaxabs(ud2 - udot), tol * (vmaxabs(udot) + 1), W("calcAcceleration != calcAccelerationIgnoringConstraints without constraints")); }

    // (iii) inverse then forward for arbitrary udot*
    Vector udStar = randVector(r, nu, 3), res2;
    matter.calcResidualForceIgnoringConstraints(s, f, F, udStar, res2);
    Vector udBack; Vector_<SpatialVec> A3;
    matter.calcAccelerationIgnoringConstraints(s, f + res2, F, udBack, A3);
    c.check("roundtrip:fwd(f+residual(udot*))=udot*", vmaxabs(udBack - udStar), tol * (vmaxabs(udStar) + 1) * 10, W("forward dynamics of residual does not return udot*"));

    // (iv) structure: residual = M udot* + C - f - JtF, C = residual(udot=0,f=0,F=0)
    Vector C, zero(nu, 0.0), Mud; Vector_<SpatialVec> noF;
    matter.calcResidualForceIgnoringConstraints(s, zero, noF, zero, C);
    matter.multiplyByM(s, udStar, Mud);
    Vector expect = Mud + C - f - JtF;
    c.check("structure:res=M*udot+C-f-JtF", vmaxabs(res2 - expect), E1 * (nM * vmaxabs(udStar) + vmaxabs(C) + fscale), W("residual != M udot + C(q,u) - f - J^T F"));
    if (zeroU) c.check("structure:C(u=0)=0", vmaxabs(C), E1 * nM, W("Coriolis/gyroscopic term non-zero at u=0"));
    else {
        // C is quadratic in u: C(-u) = C(u)
        State s2 = s; s2.updU() = -1.0 * s.getU(); k.m.sys.realize(s2, Stage::Velocity);
        Vector C2; matter.calcResidualForceIgnoringConstraints(s2, zero, noF, zero, C2);
        c.check("structure:C(-u)=C(u)", vmaxabs(C2 - C), E1 * (vmaxabs(C) + nM), W("velocity-dependent inertial force not even in u"));
    }
    // a force on Ground must not matter
    { Vector_<SpatialVec> F2 = F; F2[0] += SpatialVec(Vec3(5, -3, 2), Vec3(1, 7, -4)); Vector res3;
      matter.calcResidualForceIgnoringConstraints(s, f, F2, udStar, res3);
      c.check("ground-force-ignored", vmaxabs(res3 - res2), E1 * scale, W("force applied to Ground changes the residual")); }
    coverModel(c, k.m, std::string(zeroU ? "/u0" : "/u") + (fmode == 0 ? "/F" : fmode == 1 ? "/f" : "/fF"));
    if (c.wantSample()) c.sample(Json::obj().set("model", k.m.desc.shortStr()).set("udot", jV(udot)).set("fmode", fmode).set("zeroU", zeroU));
}

// ------------------------------------------------------------------------ C03
static Vec3 rotLog(const Rotation& Rr) {
    const Mat33& R = Rr.asMat33();
    Vec3 w(0.5 * (R(2, 1) - R(1, 2)), 0.5 * (R(0, 2) - R(2, 0)), 0.5 * (R(1, 0) - R(0, 1)));
    double s = w.norm(), cc = 0.5 * (R(0, 0) + R(1, 1) + R(2, 2) - 1);
    if (s < 1e-14) return w;
    return w * (std::atan2(s, cc) / s);
}
struct Poses { std::vector<Transform> X; Vector Nu; };
static Poses posesAt(Case& k, const Vector& q0, const Vector& qdot, double t, const Vector* uForN) {
    State s2 = k.s;
    s2.updQ() = q0 + t * qdot;
    k.m.sys.realize(s2, Stage::Position);
    Poses p;
    for (int b = 0; b < k.nb; ++b) p.X.push_back(k.m.matter.getMobilizedBody(MobilizedBodyIndex(b)).getBodyTransform(s2));
    if (uForN) k.m.matter.multiplyByN(s2, false, *uForN, p.Nu);
    return p;
}
static void checkC03(Ctx& c, long idx, Rng& r) {
    Case k; GenOpts o; o.maxBodies = 5;
    if (!prepare(c, k, r, idx, false, Stage::Velocity, o, false)) return;
    const SimbodyMatterSubsystem& matter = k.m.matter; const State& s = k.s; int nu = k.nu, nq = k.nq, nb = k.nb;
    Json wit = k.m.desc.toJson();
    Vector q0 = s.getQ(), u = s.getU();
    auto W = [&](const char* what, int b = -1) { return [=]() { return Json::obj().set("model", wit).set("what", what).set("body", b).set("q", jV(q0)).set("u", jV(u)); }; };
    Vector qdot; matter.multiplyByN(s, false, u, qdot);
    c.check("N:calcQDot=N*u", vmaxabs(s.getQDot() - qdot), E1 * (vmaxabs(qdot) + 1), W("State qdot != multiplyByN(u)"));
    { Vector qd2; matter.calcQDot(s, u, qd2); c.check("N:calcQDot-op", vmaxabs(qd2 - qdot), E1 * (vmaxabs(qdot) + 1), W("calcQDot(u) != multiplyByN(u)")); }
    { Vector ub; matter.multiplyByNInv(s, false, qdot, ub); c.check("N:NInv(N u)=u", vmaxabs(ub - u), E1 * (vmaxabs(u) + 1), W("multiplyByNInv(multiplyByN(u)) != u")); }
    // adjointness of the transpose operators
    for (int rep = 0; rep < 2; ++rep) {
        Vector x = randVector(r, nq), y = randVector(r, nu), Ny, Ntx, NIx, NIty, NDy, NDtx;
        matter.multiplyByN(s, false, y, Ny); matter.multiplyByN(s, true, x, Ntx);
        c.check("N:adjoint", std::fabs((~x * Ny) - (~Ntx * y)), E1 * (vmaxabs(Ny) * vmaxabs(x) * nq + 1), W("<x,N y> != <N^T x,y>"));
        matter.multiplyByNInv(s, false, x, NIx); matter.multiplyByNInv(s, true, y, NIty);
        c.check("NInv:adjoint", std::fabs((~y * NIx) - (~NIty * x)), E1 * (vmaxabs(NIx) * vmaxabs(y) * nq + 1), W("<y,NInv x> != <NInv^T y,x>"));
        matter.multiplyByNDot(s, false, y, NDy); matter.multiplyByNDot(s, true, x, NDtx);
        c.check("NDot:adjoint", std::fabs((~x * NDy) - (~NDtx * y)), E1 * (vmaxabs(NDy) * vmaxabs(x) * nq + 1), W("<x,NDot y> != <NDot^T x,y>"));
    }
    // qdotdot = N udot + NDot u
    { Vector ud = randVector(r, nu, 2), qdd, Nud, NDu; matter.calcQDotDot(s, ud, qdd);
      matter.multiplyByN(s, false, ud, Nud); matter.multiplyByNDot(s, false, u, NDu);
      c.check("N:calcQDotDot=N*udot+NDot*u", vmaxabs(qdd - (Nud + NDu)), E1 * (vmaxabs(qdd) + 1), W("calcQDotDot != N udot + NDot u")); }

    // finite differences of reported poses along q(t) = q + t*qdot
    bool conclusiveFD = true;
    Vector NDu; matter.multiplyByNDot(s, false, u, NDu);
    std::vector<Vec3> wFD[2], vFD[2]; Vector ndFD[2];
    double hs[2] = {2e-3, 1e-3};
    for (int pass = 0; pass < 2; ++pass) {
        double h = hs[pass];
        Poses pm2 = posesAt(k, q0, qdot, -2 * h, &u), pm1 = posesAt(k, q0, qdot, -h, &u), pp1 = posesAt(k, q0, qdot, h, &u), pp2 = posesAt(k, q0, qdot, 2 * h, &u);
        for (int b = 0; b < nb; ++b) {
            const Transform& X0 = matter.getMobilizedBody(MobilizedBodyIndex(b)).getBodyTransform(s);
            auto th = [&](const Poses& p) { return rotLog(Rotation(p.X[b].R() * ~X0.R())); };
            Vec3 w = (-th(pp2) + 8 * th(pp1) - 8 * th(pm1) + th(pm2)) / (12 * h);
            Vec3 v = (-pp2.X[b].p() + 8 * pp1.X[b].p() - 8 * pm1.X[b].p() + pm2.X[b].p()) / (12 * h);
            wFD[pass].push_back(w); vFD[pass].push_back(v);
        }
        ndFD[pass] = (-1.0 * pp2.Nu + 8.0 * pp1.Nu - 8.0 * pm1.Nu + pm2.Nu) / (12 * h);
    }
    double vscale = 1; for (int b = 0; b < nb; ++b) vscale = std::max(vscale, spMax(matter.getMobilizedBody(MobilizedBodyIndex(b)).getBodyVelocity(s)));
    vscale = std::max(vscale, vmaxabs(u));
    double thr = E2 * vscale;
    // Attribute, then key: bodies are visited parents-first; a body whose ancestor already
    // failed is not judged (the ancestor's mobilizer is the culprit), so the key names the
    // mobilizer cell that first breaks the identity.
    std::vector<char> bad(nb, 0);
    for (int b = 1; b < nb; ++b) {
        const MobilizedBody& mb = matter.getMobilizedBody(MobilizedBodyIndex(b));
        int pb = mb.getParentMobilizedBody().getMobilizedBodyIndex();
        if (bad[pb]) { bad[b] = 1; c.obs("fd-descendant-of-failing-body"); continue; }
        double dis = std::max((wFD[0][b] - wFD[1][b]).norm(), (vFD[0][b] - vFD[1][b]).norm());
        if (dis > thr / 10) { conclusiveFD = false; bad[b] = 1; continue; }
        const NodeDesc& nd = k.m.desc.nodes[b - 1];
        std::string cell = std::string(mobName(nd.type)) + (nd.reversed ? "/rev" : "/fwd") + (mobHasQuat(nd.type) ? (k.m.desc.euler ? "/euler" : "/quat") : "");
        const SpatialVec& V = mb.getBodyVelocity(s);
        bool ok1 = c.check("FD:angular-velocity:" + cell, (wFD[1][b] - V[0]).norm(), thr, W("d/dt of reported orientation != reported angular velocity", b));
        bool ok2 = c.check("FD:linear-velocity:" + cell, (vFD[1][b] - V[1]).norm(), thr, W("d/dt of reported origin location != reported linear velocity", b));
        if (!ok1 || !ok2) bad[b] = 1;
        // a station
        Vec3 st = randVec3(r, 1.0);
        Vec3 vst = V[1] + V[0] % (mb.getBodyTransform(s).R() * st);
        c.check("station-velocity", (mb.findStationVelocityInGround(s, st) - vst).norm(), E1 * vscale * 10, W("findStationVelocityInGround != v + w x r", b));
    }
    if (!conclusiveFD) c.skip("fd-h-vs-h/2-disagree");
    for (int b = 1; b < nb; ++b) {
        const MobilizedBody& mb = matter.getMobilizedBody(MobilizedBodyIndex(b));
        int q0i = mb.getFirstQIndex(s), nqb = mb.getNumQ(s);
        if (nqb == 0) continue;
        const NodeDesc& nd = k.m.desc.nodes[b - 1];
        std::string cell = std::string(mobName(nd.type)) + (nd.reversed ? "/rev" : "/fwd") + (mobHasQuat(nd.type) ? (k.m.desc.euler ? "/euler" : "/quat") : "");
        double dis = 0, err = 0, sc = 0;
        for (int i = 0; i < nqb; ++i) { dis = std::max(dis, std::fabs(ndFD[0][q0i + i] - ndFD[1][q0i + i])); err = std::max(err, std::fabs(ndFD[1][q0i + i] - NDu[q0i + i])); sc = std::max(sc, std::fabs(NDu[q0i + i])); }
        if (dis > thr / 10) { c.skip("fd-ndot-disagree"); continue; }
        c.check("FD:NDot*u:" + cell, err, E2 * (sc + vscale), W("multiplyByNDot(u) != d/dt[N(q(t))] u", b));
    }
    coverModel(c, k.m);
    if (c.wantSample()) c.sample(Json::obj().set("model", k.m.desc.shortStr()).set("q", jV(q0)).set("u", jV(u)).set("h", hs[1]));
}

// ------------------------------------------------------------------------ C04
static void checkC04(Ctx& c, long idx, Rng& r) {
    Case k; GenOpts o;
    if (!prepare(c, k, r, idx, false, Stage::Velocity, o, true)) return;
    const SimbodyMatterSubsystem& matter = k.m.matter; State& s = k.s; int nu = k.nu, nb = k.nb;
    Json wit = k.m.desc.toJson();
    Vector u = s.getU();
    Vector q0 = s.getQ();
    auto W = [&](const char* what, int b = -1) { return [=]() { return Json::obj().set("model", wit).set("what", what).set("task", b).set("q", jV(q0)).set("u", jV(u)); }; };
    double vscale = std::max(1.0, vmaxabs(u));
    for (int b = 0; b < nb; ++b) vscale = std::max(vscale, spMax(matter.getMobilizedBody(MobilizedBodyIndex(b)).getBodyVelocity(s)));
    double tol = E1 * vscale * 10;

    // system Jacobian
    Vector_<SpatialVec> Ju; matter.multiplyBySystemJacobian(s, u, Ju);
    Matrix J; matter.calcSystemJacobian(s, J);
    Matrix_<SpatialVec> Jsv; matter.calcSystemJacobian(s, Jsv);
    Vector Ju2 = J * u;
    double e1 = 0, e2 = 0, e3 = 0;
    for (int b = 0; b < nb; ++b) {
        const SpatialVec& V = matter.getMobilizedBody(MobilizedBodyIndex(b)).getBodyVelocity(s);
        e1 = std::max(e1, spMax(Ju[b] - V));
        SpatialVec v2(Vec3(Ju2[6 * b], Ju2[6 * b + 1], Ju2[6 * b + 2]), Vec3(Ju2[6 * b + 3], Ju2[6 * b + 4], Ju2[6 * b + 5]));
        e2 = std::max(e2, spMax(v2 - V));
        SpatialVec v3(Vec3(0), Vec3(0)); for (int j = 0; j < nu; ++j) v3 += Jsv(b, j) * u[j];
        e3 = std::max(e3, spMax(v3 - V));
    }
    c.check("sysJ:operator*u=V", e1, tol, W("multiplyBySystemJacobian(u) != reported body velocities"));
    c.check("sysJ:matrix*u=V", e2, tol, W("calcSystemJacobian(Matrix)*u != reported body velocities"));
    c.check("sysJ:spatialmatrix*u=V", e3, tol, W("calcSystemJacobian(Matrix_<SpatialVec>)*u != reported body velocities"));
    { Vector_<SpatialVec> F = randBodyForces(r, nb); Vector JtF; matter.multiplyBySystemJacobianTranspose(s, F, JtF);
      double lhs = 0, sc = 0; for (int b = 0; b < nb; ++b) { lhs += ~F[b] * Ju[b]; sc += spMax(F[b]) * spMax(Ju[b]) * 6; }
      c.check("sysJ:adjoint", std::fabs(lhs - (~JtF * u)), E1 * (sc + 1), W("<F,J u> != <J^T F,u>")); }

    // task lists (repeats allowed)
    int ntClass = (int)(idx % 4); // 1, 2-3, >=4, with repeats
    int nt = ntClass == 0 ? 1 : ntClass == 1 ? r.integer(2, 3) : r.integer(4, 8);
    Array_<MobilizedBodyIndex> bodies; Array_<Vec3> stations;
    for (int t = 0; t < nt; ++t) { bodies.push_back(MobilizedBodyIndex(r.integer(0, nb - 1))); stations.push_back(randVec3(r, 1.0)); }
    if (ntClass == 3 && nt >= 2) { bodies[nt - 1] = bodies[0]; if (r.coin()) stations[nt - 1] = stations[0]; }
    Vector_<Vec3> JSu; matter.multiplyByStationJacobian(s, bodies, stations, u, JSu);
    Matrix JS; matter.calcStationJacobian(s, bodies, stations, JS);
    Matrix_<Vec3> JS3; matter.calcStationJacobian(s, bodies, stations, JS3);
    Vector JSu2 = JS * u;
    Vector_<SpatialVec> JFu; matter.multiplyByFrameJacobian(s, bodies, stations, u, JFu);
    Matrix JF; matter.calcFrameJacobian(s, bodies, stations, JF);
    Matrix_<SpatialVec> JFsv; matter.calcFrameJacobian(s, bodies, stations, JFsv);
    Vector JFu2 = JF * u;
    c.require("taskJ:shapes", JS.nrow() == 3 * nt && JS.ncol() == nu && JF.nrow() == 6 * nt && JF.ncol() == nu && JSu.size() == nt && JFu.size() == nt && JS3.nrow() == nt && JFsv.nrow() == nt,
              W("Jacobian result has wrong shape"));
    for (int t = 0; t < nt; ++t) {
        const MobilizedBody& mb = matter.getMobilizedBody(bodies[t]);
        Vec3 vref = mb.findStationVelocityInGround(s, stations[t]);
        Vec3 wref = mb.getBodyAngularVelocity(s);
        c.check("stationJ:operator*u", (JSu[t] - vref).norm(), tol, W("multiplyByStationJacobian(u) != station velocity", t));
        c.check("stationJ:matrix*u", (Vec3(JSu2[3 * t], JSu2[3 * t + 1], JSu2[3 * t + 2]) - vref).norm(), tol, W("calcStationJacobian*u != station velocity", t));
        Vec3 v3(0); for (int j = 0; j < nu; ++j) v3 += JS3(t, j) * u[j];
        c.check("stationJ:vec3matrix*u", (v3 - vref).norm(), tol, W("calcStationJacobian(Matrix_<Vec3>)*u != station velocity", t));
        c.check("frameJ:operator*u", std::max((JFu[t][0] - wref).norm(), (JFu[t][1] - vref).norm()), tol, W("multiplyByFrameJacobian(u) != frame velocity", t));
        SpatialVec f2(Vec3(JFu2[6 * t], JFu2[6 * t + 1], JFu2[6 * t + 2]), Vec3(JFu2[6 * t + 3], JFu2[6 * t + 4], JFu2[6 * t + 5]));
        c.check("frameJ:matrix*u", std::max((f2[0] - wref).norm(), (f2[1] - vref).norm()), tol, W("calcFrameJacobian*u != frame velocity", t));
        SpatialVec f3(Vec3(0), Vec3(0)); for (int j = 0; j < nu; ++j) f3 += JFsv(t, j) * u[j];
        c.check("frameJ:spatialmatrix*u", std::max((f3[0] - wref).norm(), (f3[1] - vref).norm()), tol, W("calcFrameJacobian(Matrix_<SpatialVec>)*u != frame velocity", t));
        // single-task convenience forms
        if (t == 0) {
            c.check("stationJ:single", (matter.multiplyByStationJacobian(s, bodies[0], stations[0], u) - vref).norm(), tol, W("single-task multiplyByStationJacobian", t));
            SpatialVec fs = matter.multiplyByFrameJacobian(s, bodies[0], stations[0], u);
            c.check("frameJ:single", std::max((fs[0] - wref).norm(), (fs[1] - vref).norm()), tol, W("single-task multiplyByFrameJacobian", t));
        }
    }
    { Vector_<Vec3> f(nt); Vector_<SpatialVec> F(nt); for (int t = 0; t < nt; ++t) { f[t] = randVec3(r, 3); F[t] = SpatialVec(randVec3(r, 3), randVec3(r, 3)); }
      Vector JSt, JFt; matter.multiplyByStationJacobianTranspose(s, bodies, stations, f, JSt); matter.multiplyByFrameJacobianTranspose(s, bodies, stations, F, JFt);
      double l1 = 0, l2 = 0, sc = 1; for (int t = 0; t < nt; ++t) { l1 += ~f[t] * JSu[t]; l2 += ~F[t] * JFu[t]; sc += 3 * (f[t].norm() + spMax(F[t]) * 2) * vscale; }
      c.check("stationJ:adjoint", std::fabs(l1 - (~JSt * u)), E1 * sc, W("<f,JS u> != <JS^T f,u>"));
      c.check("frameJ:adjoint", std::fabs(l2 - (~JFt * u)), E1 * sc, W("<F,JF u> != <JF^T F,u>"));
      // matrix transpose consistency
      Vector fl(3 * nt); for (int t = 0; t < nt; ++t) for (int i = 0; i < 3; ++i) fl[3 * t + i] = f[t][i];
      Vector jt = ~JS * fl;
      c.check("stationJ:matrix^T", vmaxabs(jt - JSt), E1 * sc, W("calcStationJacobian^T f != multiplyByStationJacobianTranspose")); }

    // accelerations: A = J udot + JDot u
    k.disc->setAllMobilityForces(s, randVector(r, nu, 5));
    k.disc->setAllBodyForces(s, randBodyForces(r, nb, 5));
    k.m.sys.realize(s, Stage::Acceleration);
    const Vector& udot = s.getUDot();
    if (!allFinite(udot)) { c.skip("nonfinite-udot"); return; }
    double ascale = std::max(1.0, vmaxabs(udot));
    for (int b = 0; b < nb; ++b) ascale = std::max(ascale, spMax(matter.getMobilizedBody(MobilizedBodyIndex(b)).getBodyAcceleration(s)));
    ascale = std::max(ascale, vscale * vscale);
    double atol = E1 * ascale * 20;
    Vector_<SpatialVec> Jud, JDu; matter.multiplyBySystemJacobian(s, udot, Jud); matter.calcBiasForSystemJacobian(s, JDu);
    Vector JDuFlat; matter.calcBiasForSystemJacobian(s, JDuFlat);
    Vector_<SpatialVec> Afrom; matter.calcBodyAccelerationFromUDot(s, udot, Afrom);
    double ea = 0, eb = 0, ef = 0;
    for (int b = 0; b < nb; ++b) {
        const SpatialVec& A = matter.getMobilizedBody(MobilizedBodyIndex(b)).getBodyAcceleration(s);
        ea = std::max(ea, spMax(Jud[b] + JDu[b] - A));
        eb = std::max(eb, spMax(Afrom[b] - A));
        for (int i = 0; i < 6; ++i) ef = std::max(ef, std::fabs(JDuFlat[6 * b + i] - JDu[b][i / 3][i % 3]));
    }
    c.check("sysJ:bias", ea, atol, W("J*udot + calcBiasForSystemJacobian != reported body accelerations"));
    c.check("sysJ:bias-flat", ef, atol, W("flat and spatial forms of calcBiasForSystemJacobian differ"));
    c.check("calcBodyAccelerationFromUDot", eb, atol, W("calcBodyAccelerationFromUDot(udot) != reported body accelerations"));
    Vector_<Vec3> JSud, JSDu; matter.multiplyByStationJacobian(s, bodies, stations, udot, JSud); matter.calcBiasForStationJacobian(s, bodies, stations, JSDu);
    Vector JSDuFlat; matter.calcBiasForStationJacobian(s, bodies, stations, JSDuFlat);
    Vector_<SpatialVec> JFud, JFDu; matter.multiplyByFrameJacobian(s, bodies, stations, udot, JFud); matter.calcBiasForFrameJacobian(s, bodies, stations, JFDu);
    Vector JFDuFlat; matter.calcBiasForFrameJacobian(s, bodies, stations, JFDuFlat);
    // (4) independent anchor for Jdot*u: the reported body accelerations must be the time derivative of the
    // reported body velocities along the motion (q,u)(t) with qdot=N u, qdotdot and udot as realized.
    // (Forward dynamics, inverse dynamics, the bias operators and the reported A_GB all share HDot,
    // so only a finite difference of velocities can see an error there.)
    {
        const Vector q0 = s.getQ(), u0 = s.getU(), qd = s.getQDot(), qdd = s.getQDotDot(), ud = udot;
        auto velAt = [&](double h, std::vector<SpatialVec>& V) {
            State t(s); t.updQ() = q0 + h * qd + (0.5 * h * h) * qdd; t.updU() = u0 + h * ud;
            k.m.sys.realize(t, Stage::Velocity);
            V.resize(nb); for (int b = 0; b < nb; ++b) V[b] = matter.getMobilizedBody(MobilizedBodyIndex(b)).getBodyVelocity(t);
        };
        double worst = 0, worstH = 0; bool consistent = true;
        for (int pass = 0; pass < 2; ++pass) {
            double h = pass ? 5e-6 : 1e-5; std::vector<SpatialVec> Vp, Vm; velAt(h, Vp); velAt(-h, Vm);
            double e = 0;
            for (int b = 0; b < nb; ++b) e = std::max(e, spMax((Vp[b] - Vm[b]) / (2 * h) - matter.getMobilizedBody(MobilizedBodyIndex(b)).getBodyAcceleration(s)));
            (pass ? worstH : worst) = e;
        }
        double fdtol = 2e-6 * ascale * (1 + vscale);
        if (std::fabs(worst - worstH) > fdtol / 2 && std::max(worst, worstH) <= fdtol) consistent = true;   // both small
        if (std::fabs(worst - worstH) > fdtol / 2 && std::max(worst, worstH) > fdtol && std::min(worst, worstH) <= fdtol) { consistent = false; c.skip("fd-acceleration-h-vs-h/2-disagree"); }
        if (consistent) c.check("FD:body-acceleration=d/dt-velocity", std::min(worst, worstH), fdtol, W("reported A_GB != finite difference of reported V_GB along the realized motion"));
    }
    for (int t = 0; t < nt; ++t) {
        const MobilizedBody& mb = matter.getMobilizedBody(bodies[t]);
        Vec3 aref = mb.findStationAccelerationInGround(s, stations[t]);
        // independent: a_O + alpha x r + w x (w x r)
        Vec3 rG = mb.getBodyTransform(s).R() * stations[t]; const SpatialVec& A = mb.getBodyAcceleration(s); Vec3 w = mb.getBodyAngularVelocity(s);
        Vec3 aind = A[1] + A[0] % rG + w % (w % rG);
        c.check("station-acceleration", (aref - aind).norm(), atol, W("findStationAccelerationInGround != a + alpha x r + w x (w x r)", t));
        c.check("stationJ:bias", (JSud[t] + JSDu[t] - aind).norm(), atol, W("JS*udot + bias != station acceleration", t));
        c.check("stationJ:bias-flat", (Vec3(JSDuFlat[3 * t], JSDuFlat[3 * t + 1], JSDuFlat[3 * t + 2]) - JSDu[t]).norm(), atol, W("flat station bias differs", t));
        c.check("frameJ:bias", std::max((JFud[t][0] + JFDu[t][0] - A[0]).norm(), (JFud[t][1] + JFDu[t][1] - aind).norm()), atol, W("JF*udot + bias != frame acceleration", t));
        { double e = 0; for (int i = 0; i < 6; ++i) e = std::max(e, std::fabs(JFDuFlat[6 * t + i] - JFDu[t][i / 3][i % 3]));
          c.check("frameJ:bias-flat", e, atol, W("flat frame bias differs", t)); }
        if (t == 0) {
            c.check("stationJ:bias-single", (matter.calcBiasForStationJacobian(s, bodies[0], stations[0]) - JSDu[0]).norm(), atol, W("single-task station bias", t));
            SpatialVec fb = matter.calcBiasForFrameJacobian(s, bodies[0], stations[0]);
            c.check("frameJ:bias-single", spMax(fb - JFDu[0]), atol, W("single-task frame bias", t));
        }
    }
    static const char* cls[] = {"/1task", "/2-3tasks", "/4+tasks", "/repeats"};
    coverModel(c, k.m, cls[ntClass]);
    if (c.wantSample()) c.sample(Json::obj().set("model", k.m.desc.shortStr()).set("tasks", nt).set("u", jV(u)));
}

// ------------------------------------------------------------------------ C14
static SpatialVec shiftF(const SpatialVec& F, const Vec3& r) { return SpatialVec(F[0] - r % F[1], F[1]); } // move application point by r
static void checkC14(Ctx& c, long idx, Rng& r) {
    Case k; GenOpts o; o.pLoneParticle = 0.08;
    // gravity in half of the cases
    ModelDesc d = randomDesc(r, o, idx);
    k.m.build(d);
    k.disc = new Force::DiscreteForces(k.m.forces, k.m.matter);
    bool grav = r.coin();
    if (grav) Force::UniformGravity(k.m.forces, k.m.matter, randVec3(r, 9.8));
    // Prescribed motion (every other case): some mobilizers follow a Motion with non-zero
    // prescribed acceleration, or are locked; the reaction of a prescribed mobilizer then
    // carries the motion force and the free-body balance must still hold for every body.
    std::vector<int> presc(k.m.bodies.size(), 0);   // 0 free, 1 sinusoid, 2 steady, 3 lock
    bool anyPresc = false;
    if (idx % 2 == 1) {
        for (size_t b = 0; b < k.m.bodies.size(); ++b) {
            int t = k.m.desc.nodes[b].type;
            if (t == MT_Weld || !r.coin(0.4)) continue;
            if (k.m.desc.nodes[b].parent < 0 && k.m.desc.nodes[b].type == MT_Translation && k.m.desc.nodes[b].fF == 0 && k.m.desc.nodes[b].fM == 0) { /* may be the lone-particle node: also legal */ }
            int kind = r.integer(1, 3);
            if (kind == 1) {
                static const Motion::Level L[] = {Motion::Acceleration, Motion::Velocity, Motion::Position};
                bool quatQ = mobHasQuat(t) && !k.m.desc.euler;   // position-level motion on quaternion coordinates is not a legal request
                Motion::Sinusoid(k.m.bodies[b], L[r.integer(0, quatQ ? 1 : 2)], r.uni(0.2, 1.2), r.uni(0.5, 3), r.sym(3));
            } else if (kind == 2) Motion::Steady(k.m.bodies[b], r.sym(1.5));
            presc[b] = kind; anyPresc = true;
        }
    }
    // Constraints (every third case): their forces enter each body's balance and the free-body route.
    int ncons = 0;
    if (idx % 3 == 2) {
        int want = r.integer(1, 2), nbod = (int)k.m.bodies.size();
        for (int t = 0; t < want; ++t) {
            int a = r.integer(-1, nbod - 1), b = r.integer(0, nbod - 1);
            if (a == b) continue;
            MobilizedBody& A = a < 0 ? (MobilizedBody&)k.m.matter.updGround() : k.m.bodies[a];
            MobilizedBody& B = k.m.bodies[b];
            switch (r.integer(0, 2)) {
            case 0: Constraint::Rod(A, randVec3(r, .5), B, randVec3(r, .5), r.uni(0.5, 2)); break;
            case 1: Constraint::Ball(A, randVec3(r, .5), B, randVec3(r, .5)); break;
            default: Constraint::PointInPlane(A, randUnit(r), r.sym(1), B, randVec3(r, .5));
            }
            ++ncons;
        }
    }
    k.s = k.m.init();
    k.s.updTime() = r.uni(0, 2);
    randomQU(k.m, k.s, r, idx % 7 == 6);
    for (size_t b = 0; b < k.m.bodies.size(); ++b) if (presc[b] == 3) k.m.bodies[b].lock(k.s, r.coin() ? Motion::Position : Motion::Velocity);
    if (anyPresc) { k.m.sys.realize(k.s, Stage::Time); k.m.sys.prescribeQ(k.s); }
    k.m.sys.realize(k.s, Stage::Position);
    if (anyPresc) { k.m.sys.prescribeU(k.s); }
    if (!sphericalOK(k.m, k.s)) { c.skip("spherical-singularity"); return; }
    const SimbodyMatterSubsystem& matter = k.m.matter; State& s = k.s; int nu = s.getNU(), nb = matter.getNumBodies();
    if (nu == 0) { c.skip("no-mobilities"); return; }
    Matrix M; matter.calcM(s, M);
    double cond = condEstimate(M);
    if (!(cond <= 1e7)) { c.skip("ill-conditioned-M"); return; }
    Vector fmob = randVector(r, nu, 4);
    k.disc->setAllMobilityForces(s, fmob);
    k.disc->setAllBodyForces(s, randBodyForces(r, nb, 4));
    k.m.sys.realize(s, Stage::Acceleration);
    Json wit = k.m.desc.toJson();
    Vector q0 = s.getQ(), u0v = s.getU();
    auto W = [&](const char* what, int b = -1) { return [=]() { return Json::obj().set("model", wit).set("what", what).set("body", b).set("q", jV(q0)).set("u", jV(u0v)).set("gravity", grav); }; };
    const Vector_<SpatialVec>& Fapp = k.m.sys.getRigidBodyForces(s, Stage::Dynamics);
    const Vector& fapp = k.m.sys.getMobilityForces(s, Stage::Dynamics);
    if (!allFinite(s.getUDot())) { c.skip("nonfinite-udot"); return; }
    // constraint forces in the sign convention of applied forces (documented: negate the multipliers)
    Vector_<SpatialVec> Fcons(nb); Fcons.setToZero(); Vector fcons(nu); fcons.setToZero();
    if (ncons) {
        // an (almost) redundant or singular random constraint set yields multipliers of 1e10+ whose roundoff swamps
        // every balance; that is a property of the generated problem, not of the code: inconclusive
        double lmax = 0; for (int i = 0; i < s.getMultipliers().size(); ++i) lmax = std::max(lmax, std::abs(s.getMultipliers()[i]));
        if (!(lmax <= 1e4)) { c.skip("ill-conditioned-constraints"); return; }
        Vector neg = -1.0 * s.getMultipliers(); matter.calcConstraintForcesFromMultipliers(s, neg, Fcons, fcons); c.cover("with-constraints/" + std::to_string(ncons));
    }
    Vector_<SpatialVec> RM, RMfb; matter.calcMobilizerReactionForces(s, RM); matter.calcMobilizerReactionForcesUsingFreebodyMethod(s, RMfb);
    double tolc = 1e-12 * cond + 1e-9;
    for (int b = 1; b < nb; ++b) {
        const MobilizedBody& mb = matter.getMobilizedBody(MobilizedBodyIndex(b));
        int nodeIx = b - 1;
        std::string tkey = std::string(mobName(k.m.desc.nodes[nodeIx].type));
        const Transform& X = mb.getBodyTransform(s);
        const MassProperties& mp = mb.getBodyMassProperties(s);
        double m = mp.getMass(); Vec3 cG = X.R() * mp.getMassCenter();
        Mat33 I = X.R() * mp.getInertia().toMat33() * ~X.R();
        const SpatialVec& V = mb.getBodyVelocity(s); const SpatialVec& A = mb.getBodyAcceleration(s);
        Vec3 w = V[0], al = A[0], a = A[1];
        Vec3 Fin = m * (a + al % cG + w % (w % cG));
        Vec3 Tin = I * al + w % (I * w) + m * (cG % a);
        SpatialVec Rb = mb.findMobilizerReactionOnBodyAtOriginInGround(s);
        SpatialVec ext = Fapp[b] + Fcons[b] + Rb;
        double scale = spMax(Fapp[b]) + spMax(Fcons[b]) + spMax(Rb) + Fin.norm() + Tin.norm() + 1;
        for (int cb = 1; cb < nb; ++cb) {
            const MobilizedBody& ch = matter.getMobilizedBody(MobilizedBodyIndex(cb));
            if (ch.getParentMobilizedBody().getMobilizedBodyIndex() != mb.getMobilizedBodyIndex()) continue;
            SpatialVec rp = ch.findMobilizerReactionOnParentAtOriginInGround(s);
            ext += rp; scale += spMax(rp);
        }
        double resid = std::max((Tin - ext[0]).norm(), (Fin - ext[1]).norm());
        c.check("newton-euler:" + tkey, resid, tolc * scale, W("body free-body balance fails", b));
        // route agreement
        c.check("routes:calc-vs-freebody:" + tkey, spMax(RM[b] - RMfb[b]), tolc * (spMax(RM[b]) + scale), W("calcMobilizerReactionForces != ...UsingFreebodyMethod", b));
        SpatialVec atM = mb.findMobilizerReactionOnBodyAtMInGround(s);
        c.check("routes:find-vs-calc:" + tkey, spMax(atM - RM[b]), E1 * (spMax(RM[b]) + 1), W("findMobilizerReactionOnBodyAtMInGround != calcMobilizerReactionForces[b]", b));
        Vec3 p_BM_G = X.R() * mb.getOutboardFrame(s).p();
        c.check("routes:atOrigin=shift(atM):" + tkey, spMax(shiftF(atM, -p_BM_G) - Rb), E1 * scale * 10, W("reaction at origin != reaction at M shifted", b));
        // on parent at F = - shift(at M, M->F)
        const MobilizedBody& par = mb.getParentMobilizedBody();
        Transform X_GF = par.getBodyTransform(s) * mb.getInboardFrame(s);
        Vec3 pM = X * mb.getOutboardFrame(s).p();
        SpatialVec onF = mb.findMobilizerReactionOnParentAtFInGround(s);
        c.check("routes:onParentAtF=-shift(atM):" + tkey, spMax(onF + shiftF(atM, X_GF.p() - pM)), E1 * scale * 10, W("reaction on parent at F != -(reaction on body at M shifted to F)", b));
        SpatialVec onPO = mb.findMobilizerReactionOnParentAtOriginInGround(s);
        c.check("routes:onParentAtOrigin:" + tkey, spMax(onPO - shiftF(onF, par.getBodyTransform(s).p() - X_GF.p())), E1 * scale * 10, W("reaction on parent at origin != shifted reaction at F", b));
        // projection on the free directions equals the applied mobility force
        int nuB = mb.getNumU(s); int u0 = mb.getFirstUIndex(s);
        if (presc[nodeIx]) { c.cover(std::string("prescribed/") + tkey + "/kind" + std::to_string(presc[nodeIx])); nuB = 0; }   // the motion force acts along H: judged by C10
        for (int j = 0; j < nuB; ++j) {
            SpatialVec H = mb.getHCol(s, MobilizerUIndex(j));
            double proj = ~H[0] * Rb[0] + ~H[1] * Rb[1];
            double fj = fapp[u0 + j] + fcons[u0 + j];
            c.check("projection:H^T*R=f:" + tkey, std::fabs(proj - fj), tolc * (spMax(H) * scale * 6 + std::fabs(fj)), W("reaction projected on mobility axis != applied (+constraint) mobility force", b));
        }
    }
    coverModel(c, k.m, grav ? "/g" : "/nog");
    if (c.wantSample()) c.sample(Json::obj().set("model", k.m.desc.shortStr()).set("gravity", grav).set("reactionAtM_body1", jSV(RM[1])));
}

// ------------------------------------------------------------------------ C15
static Mat33 pointInertia(double m, const Vec3& d) { return m * (Mat33(d.normSqr()) - d * ~d); }
static void checkC15(Ctx& c, long idx, Rng& r) {
    Case k; GenOpts o;
    if (idx % 3 == 0) o.pMasslessInterior = 0.5;   // massless connector bodies with several children (compound joints)
    if (!prepare(c, k, r, idx, false, Stage::Velocity, o, true)) return;
    const SimbodyMatterSubsystem& matter = k.m.matter; State& s = k.s; int nu = k.nu, nb = k.nb;
    Matrix M; matter.calcM(s, M);
    if (!(condEstimate(M) <= 1e7)) { c.skip("ill-conditioned-M"); return; }
    k.disc->setAllMobilityForces(s, randVector(r, nu, 4));
    k.disc->setAllBodyForces(s, randBodyForces(r, nb, 4));
    k.m.sys.realize(s, Stage::Acceleration);
    if (!allFinite(s.getUDot())) { c.skip("nonfinite-udot"); return; }
    Json wit = k.m.desc.toJson();
    Vector q0 = s.getQ(), u0v = s.getU();
    auto W = [&](const char* what, int b = -1) { return [=]() { return Json::obj().set("model", wit).set("what", what).set("body", b).set("q", jV(q0)).set("u", jV(u0v)); }; };
    // explicit per-body sums
    double mass = 0; Vec3 mc(0), mv(0), ma(0); Vec3 Lo(0), P(0); double ke = 0;
    std::vector<double> bm(nb); std::vector<Vec3> bc(nb), bvc(nb); std::vector<Mat33> bIc(nb); // body mass, com location in G, com velocity, central inertia in G
    double lscale = 1, vscale = 1, ascale = 1, iscale = 0;
    for (int b = 1; b < nb; ++b) {
        const MobilizedBody& mb = matter.getMobilizedBody(MobilizedBodyIndex(b));
        const Transform& X = mb.getBodyTransform(s); const MassProperties& mp = mb.getBodyMassProperties(s);
        double m = mp.getMass(); Vec3 cB = X.R() * mp.getMassCenter(); Vec3 pc = X.p() + cB;
        Mat33 Io = X.R() * mp.getInertia().toMat33() * ~X.R();
        Mat33 Ic = Io - pointInertia(m, cB);
        const SpatialVec& V = mb.getBodyVelocity(s); const SpatialVec& A = mb.getBodyAcceleration(s);
        Vec3 vc = V[1] + V[0] % cB; Vec3 ac = A[1] + A[0] % cB + V[0] % (V[0] % cB);
        bm[b] = m; bc[b] = pc; bvc[b] = vc; bIc[b] = Ic;
        mass += m; mc += m * pc; mv += m * vc; ma += m * ac;
        P += m * vc; Lo += Ic * V[0] + pc % (m * vc);
        ke += 0.5 * m * vc.normSqr() + 0.5 * (~V[0] * (Ic * V[0]));
        lscale = std::max(lscale, pc.norm()); vscale = std::max(vscale, vc.norm() + V[0].norm()); ascale = std::max(ascale, ac.norm());
    }
    Vec3 com = mc / mass, vcom = mv / mass, acom = ma / mass;
    Mat33 Icen(0.0), Iorg(0.0);
    for (int b = 1; b < nb; ++b) { Icen += bIc[b] + pointInertia(bm[b], bc[b] - com); Iorg += bIc[b] + pointInertia(bm[b], bc[b]); }
    for (int i = 0; i < 3; ++i) iscale = std::max(iscale, std::fabs(Iorg(i, i)));
    auto mdiff = [](const Mat33& a, const Mat33& b) { double m = 0; for (int i = 0; i < 3; ++i) for (int j = 0; j < 3; ++j) m = std::max(m, std::fabs(a(i, j) - b(i, j))); return m; };
    c.check("mass", std::fabs(matter.calcSystemMass(s) - mass), E1 * mass, W("calcSystemMass != sum"));
    c.check("com-location", (matter.calcSystemMassCenterLocationInGround(s) - com).norm(), E1 * lscale, W("calcSystemMassCenterLocationInGround != sum"));
    c.check("com-velocity", (matter.calcSystemMassCenterVelocityInGround(s) - vcom).norm(), E1 * vscale * lscale, W("calcSystemMassCenterVelocityInGround != sum"));
    c.check("com-acceleration", (matter.calcSystemMassCenterAccelerationInGround(s) - acom).norm(), E1 * ascale * 10, W("calcSystemMassCenterAccelerationInGround != sum"));
    MassProperties smp = matter.calcSystemMassPropertiesInGround(s);
    c.check("massprops:mass", std::fabs(smp.getMass() - mass), E1 * mass, W("calcSystemMassPropertiesInGround mass"));
    c.check("massprops:com", (smp.getMassCenter() - com).norm(), E1 * lscale, W("calcSystemMassPropertiesInGround com"));
    c.check("massprops:inertia-about-origin", mdiff(smp.getInertia().toMat33(), Iorg), E1 * (iscale + 1), W("calcSystemMassPropertiesInGround inertia != sum about Ground origin"));
    c.check("central-inertia", mdiff(matter.calcSystemCentralInertiaInGround(s).toMat33(), Icen), E1 * (iscale + 1), W("calcSystemCentralInertiaInGround != sum about COM"));
    SpatialVec mom = matter.calcSystemMomentumAboutGroundOrigin(s);
    double mscale = mass * vscale * (lscale + 1) + 1;
    c.check("momentum:linear", (mom[1] - P).norm(), E1 * mscale, W("linear momentum != sum m v_c"));
    c.check("momentum:angular-about-origin", (mom[0] - Lo).norm(), E1 * mscale * 3, W("angular momentum about origin != sum"));
    c.check("momentum:p=m*vcom", (mom[1] - mass * vcom).norm(), E1 * mscale, W("linear momentum != total mass * COM velocity"));
    SpatialVec cm = matter.calcSystemCentralMomentum(s);
    c.check("central-momentum:angular", (cm[0] - (Lo - com % P)).norm(), E1 * mscale * 3, W("central angular momentum != L_o - com x P"));
    c.check("central-momentum:linear", (cm[1] - P).norm(), E1 * mscale, W("central momentum linear part != P"));
    c.check("KE=sum", std::fabs(matter.calcKineticEnergy(s) - ke), E1 * (ke + 1), W("calcKineticEnergy != sum of body energies"));
    // composite body inertias = subtree sums about the body's origin
    Array_<SpatialInertia, MobilizedBodyIndex> R; matter.calcCompositeBodyInertias(s, R);
    std::vector<int> parent(nb, 0);
    for (int b = 1; b < nb; ++b) parent[b] = matter.getMobilizedBody(MobilizedBodyIndex(b)).getParentMobilizedBody().getMobilizedBodyIndex();
    for (int b = 1; b < nb; ++b) {
        const MobilizedBody& mb = matter.getMobilizedBody(MobilizedBodyIndex(b));
        Vec3 O = mb.getBodyTransform(s).p();
        double sm = 0; Vec3 smc(0); Mat33 sI(0.0);
        for (int x = 1; x < nb; ++x) {
            int a = x; while (a != 0 && a != b) a = parent[a];
            if (a != b) continue;
            sm += bm[x]; smc += bm[x] * (bc[x] - O); sI += bIc[x] + pointInertia(bm[x], bc[x] - O);
        }
        const SpatialInertia& Rb = R[MobilizedBodyIndex(b)];
        c.check("composite:mass", std::fabs(Rb.getMass() - sm), E1 * mass, W("composite body mass != subtree sum", b));
        c.check("composite:com", (Rb.getMassCenter() - smc / sm).norm(), E1 * lscale * 2, W("composite body mass centre != subtree sum", b));
        c.check("composite:inertia", mdiff(Rb.calcInertia().toMat33(), sI), E1 * (iscale + 1) * 4, W("composite body inertia != subtree sum about body origin", b));
        const SpatialInertia& own = mb.getBodySpatialInertiaInGround(s);
        c.check("body-spatial-inertia", mdiff(own.calcInertia().toMat33(), bIc[b] + pointInertia(bm[b], bc[b] - O)), E1 * (iscale + 1), W("getBodySpatialInertiaInGround != R I R^T", b));
    }
    coverModel(c, k.m);
    if (c.wantSample()) c.sample(Json::obj().set("model", k.m.desc.shortStr()).set("mass", mass).set("com", jV3(com)).set("KE", ke));
}

int main(int argc, char** argv) {
    Args a = parseArgs(argc, argv);
    Ctx c(a);
    const std::string p = a.prop;
    return runCases(c, [&](long i, Rng& r) {
        if (p == "C01") checkC01(c, i, r);
        else if (p == "C02") checkC02(c, i, r);
        else if (p == "C03") checkC03(c, i, r);
        else if (p == "C04") checkC04(c, i, r);
        else if (p == "C14") checkC14(c, i, r);
        else if (p == "C15") checkC15(c, i, r);
        else { fprintf(stderr, "mon_tree: unknown property %s\n", p.c_str()); exit(2); }
    });
}
